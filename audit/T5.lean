import BB
open BB BB.Spec BB.Lemmas BB.Props.C03

/-- a list of blobs "lands" as itself, whatever the tables -/
theorem land_blobs (H : Hooks) (c L : Dict) : ∀ (out : List Item) (p : Int),
    (∀ x ∈ out, ∃ line d, x = .blob line d) → Land H c L p out out := by
  intro out
  induction out with
  | nil => intro p _; exact .nil p
  | cons x t ih =>
    intro p hb
    obtain ⟨line, d, rfl⟩ := hb x List.mem_cons_self
    refine .step p (it' := .blob line d) ?_ ?_ ?_ (ih _ (fun y hy => hb y (List.mem_cons_of_mem _ hy)))
    · simp [immBody, keepItem, Item.sizeE, Item.size?, bind, Except.bind, pure, Except.pure]
    · exact ⟨_, _, _, _, rfl, rfl, rfl, rfl, rfl⟩
    · simp [Item.sizeD, Item.size?]

/-- the conclusion of `C20.assemble_no_eligible_literal_left` from C09 alone (items7 := out) -/
example (H : Hooks) (items : List Item) (r : AsmResult)
    (h : assembleItems H true items [] [] = .ok r) :
    ∃ items7 out : List Item, Expands items items7 ∧ Land H r.constants r.labels 0 items7 out ∧
      r.bytes = blobBytes out ∧
      ∀ (i : Nat) (hi : i < items7.length) line ins, items7[i] = .instr line ins →
        ins.isAuipcJump = false → ins.wellKinded = true →
        (∀ imm, ins.imm? = some imm → ImmLabelFree H r.constants imm) →
        ∃ (rins : Instr) (w : Nat) (i32 : Instr32),
          resolveWith (evalAt H (chainGet r.constants r.labels) line ((blobBytes (out.take i)).length : Int)) ins
            = some rins ∧
          (r.bytes.drop (blobBytes (out.take i)).length).take 4 = leBytes 4 w ∧
          decode32 w = some i32 ∧ denote32I rins = some i32 ∧ eligible i32 = false := by
  obtain ⟨out, hexp, hblobs, hbytes⟩ := BB.Props.C09.assemble_in_order H true items r h
  refine ⟨out, out, hexp, land_blobs H _ _ out 0 hblobs, hbytes, ?_⟩
  intro i hi line ins hit
  obtain ⟨l, d, e⟩ := hblobs _ (List.getElem_mem hi)
  rw [hit] at e
  cases e

/-- the conclusion of `C03.assemble_land` likewise -/
example (H : Hooks) (compress : Bool) (items : List Item) (r : AsmResult)
    (h : assembleItems H compress items [] [] = .ok r) :
    ∃ items7 out : List Item, Expands items items7 ∧ Land H r.constants r.labels 0 items7 out ∧
      r.bytes = blobBytes out := by
  obtain ⟨out, hexp, hblobs, hbytes⟩ := BB.Props.C09.assemble_in_order H compress items r h
  exact ⟨out, out, hexp, land_blobs H _ _ out 0 hblobs, hbytes⟩
