import BB
open BB.Props
#print axioms C01.enc32_sound
#print axioms C01.enc32_inj
#print axioms C02.enc16_sound
#print axioms C02.enc16_inj
#print axioms C02.enc16_onto
#print axioms C02.enc16_image
#print axioms C06.accept32_iff_legal
#print axioms C06.accept16_iff_legal
#print axioms C06.unrepresentable_refused_program
#print axioms C06.good_program_assembles
#print axioms C07.pair_rebuilds
#print axioms C07.assemble_hi_lo_pair
#print axioms C01.assemble_instr32_decodes
#print axioms Tables.instrTable_matches
