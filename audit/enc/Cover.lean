import BB
open BB BB.Spec BB.Props.C02

-- every compressed row of the table is one of the 27 CMn mnemonics, with that row
example : ∀ e ∈ instrTable, e.2.size = 2 → ∃ c ∈ CMn.all, c.name = e.1 ∧ rowOf c = e.2 := by decide
-- every 32-bit row has a class in the spec (so legal32/intent32 are not constantly false/none)
example : ∀ e ∈ instrTable, e.2.size = 4 → (classOf e.1).isSome = true := by decide
example : (instrTable.filter (fun e => e.2.size = 4)).length = 66 ∧ (instrTable.filter (fun e => e.2.size = 2)).length = 27 := by decide
-- keys distinct
example : (instrTable.map Prod.fst).Nodup := by decide

#eval ((List.range 65536).filter (fun h => (decode16 h).isSome)).length
-- how many per mnemonic
#eval CMn.all.map (fun c => (c.name, ((List.range 65536).filter (fun h => (decode16 h).map mnOf == some c)).length))
