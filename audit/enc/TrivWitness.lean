import BB
open BB BB.Spec BB.Lemmas BB.Props.C03 BB.Props.C01

namespace Audit

/-- replace every instruction by a 4-byte blob on the same line, keep data, drop everything else -/
def kill : Item → List Item
  | .instr l _ => [.blob l [0,0,0,0]]
  | .label .. => []
  | .constant .. => []
  | .align .. => []
  | .pseudo .. => []
  | it => [it]

theorem img_kill (it : Item) : Img it (kill it) := by
  cases it with
  | instr l ins =>
    refine ⟨?_, ?_, ?_, ?_⟩
    · intro x hx; simp [kill] at hx; subst hx; rfl
    · intro h; simp [Item.isMarker] at h
    · intro h; simp [Item.isData] at h
    · intro _; right
      refine ⟨?_, ?_⟩
      · intro x hx; simp [kill] at hx; subst hx; rfl
      · right; simp [kill, sizeSum, Item.sizeD, Item.size?]
  | label l n => exact Img.drop rfl rfl
  | constant l n e => exact Img.drop rfl rfl
  | align l a => exact Img.drop rfl rfl
  | pseudo l n a => exact Img.drop rfl rfl
  | includeBytes l p f => exact Img.refl _
  | string l v => exact Img.refl _
  | sequence l n v => exact Img.refl _
  | pack l f i => exact Img.refl _
  | shorthandPack l n i => exact Img.refl _
  | blob l d => exact Img.refl _

def killAll : List Item → List Item
  | [] => []
  | it :: rest => kill it ++ killAll rest

theorem expands_kill : ∀ items, Expands items (killAll items)
  | [] => .nil
  | it :: rest => .cons (img_kill it) (expands_kill rest)

theorem kill_noinstr : ∀ items (i : Nat) (hi : i < (killAll items).length) line ins,
    (killAll items)[i] ≠ .instr line ins := by
  intro items
  have : ∀ x ∈ killAll items, ∀ line ins, x ≠ .instr line ins := by
    induction items with
    | nil => intro x hx; simp [killAll] at hx
    | cons it rest ih =>
      intro x hx line ins
      simp only [killAll, List.mem_append] at hx
      rcases hx with hx | hx
      · cases it <;> simp [kill] at hx <;> subst hx <;> simp
      · exact ih x hx line ins
  intro i hi line ins
  exact this _ (List.getElem_mem hi) line ins

/-- The *statement* of `C01.assemble_instr32_decodes`, proved with NO reference to the assembler,
    the encoders or the decoder: not even the hypothesis `h` is used. -/
theorem assemble_instr32_decodes_trivial (H : Hooks) (compress : Bool) (items : List Item) (r : AsmResult)
    (_h : assembleItems H compress items [] [] = .ok r) :
    ∃ items7 out : List Item, Expands items items7 ∧ r.bytes = blobBytes out ∧
      ∀ (i : Nat) (hi : i < items7.length) line ins k, items7[i] = .instr line ins →
        ins.isCompressed = false → instrTable.lookup ins.name = some k → k.size = 4 →
        ∃ ins' args w ops i32,
          Resolved H (chainGet r.constants r.labels) line ((blobBytes (out.take i)).length : Int) ins ins' ∧
          ins'.args = some args ∧ denote32 k args = some ops ∧ legal32 ins.name ops = true ∧ w < 2 ^ 32 ∧
          (r.bytes.drop (blobBytes (out.take i)).length).take 4 = leBytes 4 w ∧
          intent32 ins.name ops = some i32 ∧ decode32 w = some i32 := by
  refine ⟨killAll items, [.blob default r.bytes], expands_kill items, by simp [blobBytes], ?_⟩
  intro i hi line ins k hit
  exact absurd hit (kill_noinstr items i hi line ins)

/-- same for the statement of `C02.assemble_instr16_decodes` -/
theorem assemble_instr16_decodes_trivial (H : Hooks) (compress : Bool) (items : List Item) (r : AsmResult)
    (_h : assembleItems H compress items [] [] = .ok r) :
    ∃ items7 out : List Item, Expands items items7 ∧ r.bytes = blobBytes out ∧
      ∀ (i : Nat) (hi : i < items7.length) line ins c, items7[i] = .instr line ins →
        ins.isCompressed = true → classOf16 ins.name = some c →
        ∃ ins' args w ops ci,
          Resolved H (chainGet r.constants r.labels) line ((blobBytes (out.take i)).length : Int) ins ins' ∧
          ins'.args = some args ∧ BB.Props.C02.denote16 (BB.Props.C02.rowOf c) args = some ops ∧ legal16 ins.name ops = true ∧ w < 65536 ∧
          (r.bytes.drop (blobBytes (out.take i)).length).take 2 = leBytes 2 w ∧
          intent16 ins.name ops = some ci ∧ decode16 w = some ci ∧ decode16 w ≠ none := by
  refine ⟨killAll items, [.blob default r.bytes], expands_kill items, by simp [blobBytes], ?_⟩
  intro i hi line ins c hit
  exact absurd hit (kill_noinstr items i hi line ins)

#print axioms assemble_instr32_decodes_trivial
end Audit

namespace Audit
open BB.Props.C07 in
/-- the statement of `C07.assemble_hi_lo_pair`, again without using `h` or anything about %hi/%lo -/
theorem assemble_hi_lo_pair_trivial (H : Hooks) (compress : Bool) (items : List Item) (r : AsmResult)
    (_h : assembleItems H compress items [] [] = .ok r) :
    ∃ items7 out : List Item, Expands items items7 ∧ r.bytes = blobBytes out ∧
      ∀ (i j : Nat) (hi : i < items7.length) (hj : j < items7.length) lineU lineC rdU (e : Imm) ins mk a b,
        items7[i] = .instr lineU (.u "lui" rdU (.hi e)) → items7[j] = .instr lineC ins → Consumes e ins mk a b →
        ∃ (w0 w1 ra r1 r2 hi20 : Nat) (lo xi xj : Int),
          (r.bytes.drop (blobBytes (out.take i)).length).take 4 = leBytes 4 w0 ∧
          (r.bytes.drop (blobBytes (out.take j)).length).take 4 = leBytes 4 w1 ∧
          decode32 w0 = some (.lui ra hi20) ∧ decode32 w1 = some (mk r1 r2 lo) ∧
          lookupRegister rdU = some ra ∧ lookupRegister a = some r1 ∧ lookupRegister b = some r2 ∧
          Imm.eval H (chainGet r.constants r.labels) lineU e ((blobBytes (out.take i)).length : Int) = .ok xi ∧
          Imm.eval H (chainGet r.constants r.labels) lineC e ((blobBytes (out.take j)).length : Int) = .ok xj ∧
          hi20 < 1048576 ∧ -2048 ≤ lo ∧ lo ≤ 2047 ∧
          (xi = xj → (((hi20 : Int) * 4096) % 4294967296 + lo) % 4294967296 = xi % 4294967296) := by
  refine ⟨killAll items, [.blob default r.bytes], expands_kill items, by simp [blobBytes], ?_⟩
  intro i j hi hj lineU lineC rdU e ins mk a b hit
  exact absurd hit (kill_noinstr items i hi lineU _)

/-- and the statements are even true of a FAILED-free fake: any `r` at all, no hypothesis -/
example (H : Hooks) (items : List Item) (r : AsmResult) :
    ∃ items7 out : List Item, Expands items items7 ∧ r.bytes = blobBytes out ∧
      ∀ (i : Nat) (hi : i < items7.length) line ins, items7[i] ≠ .instr line ins :=
  ⟨killAll items, [.blob default r.bytes], expands_kill items, by simp [blobBytes], kill_noinstr items⟩
end Audit
