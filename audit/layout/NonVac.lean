import BB
open BB BB.Lemmas BB.Spec

def L (n : Nat) (s : String) : Line := ⟨"m.asm", n, s⟩

def prog : List Item :=
  [.label (L 1 "start:") "start",
   .instr (L 2 "beq x1, x2, end") (.b "beq" (.str "x1") (.str "x2") (.offset "end")),
   .pseudo (L 3 "call end") "call" ["end"],
   .shorthandPack (L 4 "db 1") "db" (.arith "1"),
   .align (L 5 "align 4") 4,
   .shorthandPack (L 6 "dw end") "dw" (.arith "end"),
   .string (L 7 "string hi") "hi",
   .label (L 8 "end:") "end",
   .pseudo (L 9 "ret") "ret" []]

#eval assembleItems (textHooks ⟨[], []⟩) false prog [] []
#eval assembleItems (textHooks ⟨[], []⟩) true prog [] []

example : (assembleItems (textHooks ⟨[], []⟩) false prog [] []).toOption.map (fun r => (r.bytes.length, r.labels)) =
    some (22, [("start", 0), ("end", 18)]) := by decide +kernel
