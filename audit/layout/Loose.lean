import BB
open BB BB.Lemmas BB.Spec

/-! (a) C09.assemble_in_order: for a one-item program `[nop]` (a pseudo item) the conclusion holds of ANY byte
    string — `Img` puts no constraint on what a pseudo item (or an align) turns into. -/
theorem in_order_statement_free_for_pseudo (line : Line) (name : String) (args : List String) (bytes : List Nat) :
    ∃ out : List Item, Expands [.pseudo line name args] out ∧ (∀ x ∈ out, ∃ l d, x = .blob l d) ∧
      bytes = blobBytes out := by
  refine ⟨[.blob line bytes], ?_, ?_, by simp [blobBytes]⟩
  · have := Expands.cons (it := .pseudo line name args) (repl := [.blob line bytes]) (rest := []) (out := [])
      (Img.other (by intro x hx; simp only [List.mem_singleton] at hx; subst hx; rfl) rfl rfl rfl) .nil
    simpa using this
  · intro x hx; simp only [List.mem_singleton] at hx; exact ⟨line, bytes, hx⟩

theorem in_order_statement_free_for_align (line : Line) (a : Int) (bytes : List Nat) :
    ∃ out : List Item, Expands [.align line a] out ∧ (∀ x ∈ out, ∃ l d, x = .blob l d) ∧
      bytes = blobBytes out := by
  refine ⟨[.blob line bytes], ?_, ?_, by simp [blobBytes]⟩
  · have := Expands.cons (it := .align line a) (repl := [.blob line bytes]) (rest := []) (out := [])
      (Img.other (by intro x hx; simp only [List.mem_singleton] at hx; subst hx; rfl) rfl rfl rfl) .nil
    simpa using this
  · intro x hx; simp only [List.mem_singleton] at hx; exact ⟨line, bytes, hx⟩

/-- a pseudo item may even vanish -/
theorem pseudo_may_vanish (line : Line) (name : String) (args : List String) :
    Expands [.pseudo line name args] [] := by
  have := Expands.cons (it := .pseudo line name args) (repl := []) (rest := []) (out := [])
    (Img.drop rfl rfl) .nil
  simpa using this

/-! (b) C03.assemble_layout: the conclusion is satisfied by a result that puts EVERY label at 0,
    whatever the items are (Gf = all markers first, then one blob). -/

def allFirst (names : List String) (bytes : List Nat) : List Item :=
  names.map (fun n => Item.label default n) ++ [.blob default bytes]

theorem labelNames_allFirst (names : List String) (bytes : List Nat) :
    labelNames (allFirst names bytes) = names := by
  induction names with
  | nil => rfl
  | cons n t ih => simpa [allFirst, labelNames] using ih

theorem blobBytes_allFirst (names : List String) (bytes : List Nat) :
    blobBytes (allFirst names bytes) = bytes := by
  induction names with
  | nil => simp [allFirst, blobBytes]
  | cons n t ih => simpa [allFirst, blobBytes] using ih

theorem bytesBefore_allFirst (names : List String) (bytes : List Nat) (ℓ : String) (h : ℓ ∈ names) :
    bytesBefore (allFirst names bytes) ℓ = some 0 := by
  induction names with
  | nil => simp at h
  | cons n t ih =>
    simp only [allFirst, List.map_cons, List.cons_append, bytesBefore]
    by_cases e : n = ℓ
    · simp [e]
    · simp only [e, if_false]
      have : ℓ ∈ t := by
        rcases List.mem_cons.mp h with h | h
        · exact absurd h.symm e
        · exact h
      exact ih this

theorem layout_statement_all_labels_zero (items : List Item) (r : AsmResult)
    (hnd : (labelNames items).Nodup)
    (h0 : ∀ ℓ ∈ labelNames items, r.labels.get ℓ = some 0) :
    ∃ Gf : List Item, OnlyBlobs Gf ∧ labelNames Gf = labelNames items ∧ (labelNames items).Nodup ∧
      r.bytes = blobBytes Gf ∧
      ∀ ℓ ∈ labelNames items, r.labels.get ℓ = (bytesBefore Gf ℓ).map (fun (k : Nat) => Int.ofNat k) := by
  refine ⟨allFirst (labelNames items) r.bytes, ?_, labelNames_allFirst _ _, hnd, (blobBytes_allFirst _ _).symm, ?_⟩
  · intro it hit
    simp only [allFirst, List.mem_append, List.mem_map, List.mem_singleton] at hit
    rcases hit with ⟨n, _, rfl⟩ | rfl
    · exact Or.inl ⟨_, _, rfl⟩
    · exact Or.inr ⟨_, _, rfl⟩
  · intro ℓ hℓ
    rw [h0 ℓ hℓ, bytesBefore_allFirst _ _ ℓ hℓ]; rfl

#print axioms layout_statement_all_labels_zero
#print axioms in_order_statement_free_for_pseudo
