import BB
open BB BB.Lemmas BB.Spec BB.Props.C03

/-- the statement of `C03.assemble_land` for the one-instruction program `beq x1, x2, L` holds of ANY
    4-byte output and any tables: items7 := out := [blob of those bytes] -/
theorem land_statement_loose (H : Hooks) (line : Line) (ins : Instr) (hsz : ins.isCompressed = false)
    (r : AsmResult) (h4 : r.bytes.length = 4) :
    ∃ items7 out : List Item, Expands [.instr line ins] items7 ∧ Land H r.constants r.labels 0 items7 out ∧
      r.bytes = blobBytes out := by
  refine ⟨[.blob line r.bytes], [.blob line r.bytes], ?_, ?_, by simp [blobBytes]⟩
  · have himg : Img (.instr line ins) [.blob line r.bytes] := by
      refine ⟨?_, ?_, ?_, ?_⟩
      · intro x hx; simp only [List.mem_singleton] at hx; subst hx; rfl
      · intro h; simp [Item.isMarker] at h
      · intro h; simp [Item.isData] at h
      · intro _
        refine Or.inr ⟨?_, Or.inr ?_⟩
        · intro x hx; simp only [List.mem_singleton] at hx; subst hx; rfl
        · simp [sizeSum, Item.sizeD, Item.size?, h4]
    have := Expands.cons (rest := []) (out := []) himg .nil
    simpa using this
  · refine Land.step (it' := .blob line r.bytes) 0 ?_ ?_ ?_ (Land.nil _)
    · simp [immBody, keepItem, Item.sizeE, Item.size?, bind, Except.bind, pure, Except.pure]
    · exact ⟨_, _, _, _, rfl, rfl, rfl, rfl, rfl⟩
    · simp [Item.sizeD, Item.size?]
#print axioms land_statement_loose
