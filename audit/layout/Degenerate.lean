import BB
open BB BB.Lemmas BB.Spec BB.Props.C03

/-! Audit: the existential `∃ items7 out, Expands items items7 ∧ r.bytes = blobBytes out ∧ ∀ i, items7[i] = pattern → …`
    is satisfiable by a degenerate witness, with NO hypothesis about `assembleItems`. -/

def zeros (n : Nat) : List Nat := List.replicate n 0

def degen : Item → Item
  | .instr line _ => .blob line (zeros 4)
  | .shorthandPack line name _ => .blob line (zeros ((shorthandSize name).getD 0))
  | .pack line fmt _ => .blob line (zeros ((packSize fmt).getD 0))
  | .sequence line name vals => .blob line (zeros (((sequenceElemSize name).map (· * vals.length)).getD 0))
  | .string line v => .blob line (zeros v.utf8ByteSize)
  | other => other

theorem blob_sizeD (line : Line) (d : List Nat) : (Item.blob line d).sizeD = d.length := by
  simp [Item.sizeD, Item.size?]

theorem degen_img (it : Item) : Img it [degen it] := by
  cases it with
  | instr line ins =>
    refine ⟨?_, ?_, ?_, ?_⟩
    · intro x hx; simp only [List.mem_singleton] at hx; subst hx; rfl
    · intro h; simp [Item.isMarker] at h
    · intro h; simp [Item.isData] at h
    · intro _
      refine Or.inr ⟨?_, Or.inr ?_⟩
      · intro x hx; simp only [List.mem_singleton] at hx; subst hx; rfl
      · simp [sizeSum, degen, blob_sizeD, zeros]
  | shorthandPack line name imm =>
    refine Img.same (it' := degen _) (by simp [degen, Item.line]) (fun h => by simp [Item.isMarker] at h) ?_ (fun h => by simp [Item.isInstr] at h)
    intro _
    refine ⟨by simp [degen, Item.isData], ?_⟩
    simp only [degen, blob_sizeD, zeros, List.length_replicate, Item.sizeD, Item.size?]
    cases shorthandSize name <;> simp
  | pack line fmt imm =>
    refine Img.same (it' := degen _) (by simp [degen, Item.line]) (fun h => by simp [Item.isMarker] at h) ?_ (fun h => by simp [Item.isInstr] at h)
    intro _
    refine ⟨by simp [degen, Item.isData], ?_⟩
    simp only [degen, blob_sizeD, zeros, List.length_replicate, Item.sizeD, Item.size?]
    cases packSize fmt <;> simp
  | sequence line name vals =>
    refine Img.same (it' := degen _) (by simp [degen, Item.line]) (fun h => by simp [Item.isMarker] at h) ?_ (fun h => by simp [Item.isInstr] at h)
    intro _
    refine ⟨by simp [degen, Item.isData], ?_⟩
    simp only [degen, blob_sizeD, zeros, List.length_replicate, Item.sizeD, Item.size?]
    cases sequenceElemSize name <;> simp
  | string line v =>
    refine Img.same (it' := degen _) (by simp [degen, Item.line]) (fun h => by simp [Item.isMarker] at h) ?_ (fun h => by simp [Item.isInstr] at h)
    intro _
    refine ⟨by simp [degen, Item.isData], ?_⟩
    simp [degen, blob_sizeD, zeros, Item.sizeD, Item.size?]
  | _ => exact Img.refl _

theorem degen_expands (items : List Item) : Expands items (items.map degen) :=
  map_expands degen degen_img items

theorem degen_no_instr (items : List Item) (i : Nat) (hi : i < (items.map degen).length) :
    (∀ line ins, (items.map degen)[i] ≠ .instr line ins) ∧
    (∀ line n imm, (items.map degen)[i] ≠ .shorthandPack line n imm) ∧
    (∀ line f imm, (items.map degen)[i] ≠ .pack line f imm) ∧
    (∀ line n v, (items.map degen)[i] ≠ .sequence line n v) ∧
    (∀ line v, (items.map degen)[i] ≠ .string line v) := by
  rw [List.getElem_map]
  generalize items[i]'(by simpa using hi) = it
  cases it <;> simp [degen]

/-- the statement of `C03.assemble_branch_lands` WITHOUT the hypothesis that assembly succeeded, for an
    arbitrary `r` -/
theorem branch_lands_statement_is_free (H : Hooks) (items : List Item) (r : AsmResult) :
    ∃ items7 out : List Item, Expands items items7 ∧ r.bytes = blobBytes out ∧
      ∀ (i : Nat) (hi : i < items7.length) line name rs1 rs2 ref o op f3,
        items7[i] = .instr line (.b name rs1 rs2 (.offset ref)) →
        instrTable.lookup name = some (.b op f3) → classOf name = some (.br o) →
        ∃ w r1 r2 v d, (r.bytes.drop (blobBytes (out.take i)).length).take 4 = leBytes 4 w ∧
          decode32 w = some (.branch o r1 r2 v) ∧
          lookupRegister rs1 = some r1 ∧ lookupRegister rs2 = some r2 ∧
          chainGet r.constants r.labels ref = some d ∧
          ((blobBytes (out.take i)).length : Int) + v = d := by
  refine ⟨items.map degen, [.blob default r.bytes], degen_expands items, by simp [blobBytes], ?_⟩
  intro i hi line name rs1 rs2 ref o op f3 hit
  exact absurd hit ((degen_no_instr items i hi).1 _ _)

/-- same for `C08.assemble_data_value` -/
theorem data_value_statement_is_free (H : Hooks) (items : List Item) (r : AsmResult) :
    ∃ items7 out : List Item, Expands items items7 ∧ r.bytes = blobBytes out ∧
      ∀ (i : Nat) (hi : i < items7.length) line name imm n,
        items7[i] = .shorthandPack line name imm → shorthandSize name = some n →
        ∃ v, Imm.eval H (chainGet r.constants r.labels) line imm ((blobBytes (out.take i)).length : Int) = .ok v ∧
          (fromLE ((r.bytes.drop (blobBytes (out.take i)).length).take n) : Int)
            = v % ((2 ^ (8 * n) : Nat) : Int) := by
  refine ⟨items.map degen, [.blob default r.bytes], degen_expands items, by simp [blobBytes], ?_⟩
  intro i hi line name imm n hit
  exact absurd hit ((degen_no_instr items i hi).2.1 _ _ _)

/-- same for `C10.assemble_pack_value` shape (pattern `.pack`) and `assemble_sequence_value` (pattern `.sequence`):
    only the pattern clause matters -/
theorem pack_pattern_is_free (items : List Item) (r : AsmResult) (P : Nat → Line → String → Imm → Prop) :
    ∃ items7 out : List Item, Expands items items7 ∧ r.bytes = blobBytes out ∧
      ∀ (i : Nat) (hi : i < items7.length) line fmt imm, items7[i] = .pack line fmt imm → P i line fmt imm := by
  refine ⟨items.map degen, [.blob default r.bytes], degen_expands items, by simp [blobBytes], ?_⟩
  intro i hi line fmt imm hit
  exact absurd hit ((degen_no_instr items i hi).2.2.1 _ _ _)

/-- the conclusion of `C10.data_unchanged_by_compression` is trivially true: d = [] -/
theorem data_unchanged_statement_is_free (H : Hooks) (items : List Item) (r0 r1 : AsmResult) :
    ∃ items0 out0 items1 out1 : List Item,
      Expands items items0 ∧ r0.bytes = blobBytes out0 ∧ Expands items items1 ∧ r1.bytes = blobBytes out1 ∧
      ∀ (i j : Nat) (hi : i < items0.length) (hj : j < items1.length) (it : Item),
        items0[i] = it → items1[j] = it → BB.Props.C10.DataLit H it →
        ∃ d : List Nat,
          (r0.bytes.drop (blobBytes (out0.take i)).length).take d.length = d ∧
          (r1.bytes.drop (blobBytes (out1.take j)).length).take d.length = d := by
  refine ⟨items, [.blob default r0.bytes], items, [.blob default r1.bytes], Expands.refl _, by simp [blobBytes],
    Expands.refl _, by simp [blobBytes], ?_⟩
  intro i j hi hj it _ _ _
  exact ⟨[], rfl, rfl⟩

#print axioms branch_lands_statement_is_free
#print axioms data_unchanged_statement_is_free
