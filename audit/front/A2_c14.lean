import BB
open BB BB.Props.C14

-- cwd_irrelevant when the path is NOT absolute: both sides are `unsupported` (equal for the wrong reason)
#eval (assembleText exFS "/p" [] false (.path "main.asm") matches .error (.unsupported _))
#eval (assembleText exFS "/q" [] false (.path "main.asm") matches .error (.unsupported _))
-- relative -i directory: also unsupported
#eval (assembleText exFS "/p" ["sub"] false (.path "/p/main.asm") matches .error (.unsupported _))

-- include_same_result has no instance in the tree: build one on exFS, source given from cwd /p
def A : String := String.ofList exMain
def B : String := "addi x1, x1, 1\nL:\n  addi x2, x2, 2\nend:\n"

example (hcwd : normAbs "/p" = true) (c : Bool) :
    resultOf (assembleText exFS "/p" [] c (.source A)) = resultOf (assembleText exFS "/p" [] c (.source B)) :=
  include_same_result exFS "/p" [] c A B ["addi x1, x1, 1".toList] ["end:".toList]
    "include \"sub/f.asm\"  # the part".toList "sub/f.asm" "/p/sub/f.asm" (exF.map Char.toNat) exF
    hcwd (by decide) (by decide) (by decide) (by decide) (by decide)
    ⟨by decide, "include".toList, "\"sub/f.asm\"".toList, by decide, by decide⟩
    ex_form (by decide) (by decide) (by decide) (by decide)
    (by
      have h : splitLines exF = ["L:".toList, "  addi x2, x2, 2".toList] := by decide
      rw [h]
      intro l hl
      simp only [List.mem_cons, List.not_mem_nil, or_false] at hl
      rcases hl with rfl | rfl <;> exact ⟨by decide, by decide⟩)

-- and the common value is a success, not "both fail"
#eval resultOf (assembleText exFS "/p" [] false (.source A))
#eval resultOf (assembleText exFS "/p" [] false (.source B))

-- depth 2: F includes G.  include_same_result's hplain fails for F, nothing in the tree relates this to the flat text.
def fs2 : FS :=
  { files := [("/p/f.asm", "include g.asm\naddi x2, x2, 2\n".toList.map Char.toNat),
              ("/p/g.asm", "addi x3, x3, 3\n".toList.map Char.toNat)],
    dirs := ["/", "/p"] }
#eval resultOf (assembleText fs2 "/p" [] false (.source "include f.asm\n"))
#eval resultOf (assembleText fs2 "/p" [] false (.source "addi x3, x3, 3\naddi x2, x2, 2\n"))

-- fuel: a self-including file ends as `unsupported "include depth"`, i.e. resultOf = none = "fails"
def fsCyc : FS := { files := [("/p/f.asm", "include f.asm\n".toList.map Char.toNat)], dirs := ["/", "/p"] }
#eval (assembleText fsCyc "/p" [] false (.source "include f.asm\n") matches .error (.unsupported _))
