import BB
open BB BB.Lemmas BB.Props.C11

def fsR : FS := ⟨[], ["/"]⟩
def tA : String := "K = 16\naddi x0, x0, K\n"
def tB : String := "K = 16\naddi x0, x0, 16\n"
def l1 : Line := ⟨"<string>", 1, "K = 16"⟩
def l2 : Line := ⟨"<string>", 2, "addi x0, x0, K"⟩
def l2' : Line := ⟨"<string>", 2, "addi x0, x0, 16"⟩
def itA : List Item := [.constant l1 "K" (.arith "16"), .instr l2 (.i "addi" (.str "x0") (.str "x0") (.arith "K") false)]
def itB : List Item := [.constant l1 "K" (.arith "16"), .instr l2' (.i "addi" (.str "x0") (.str "x0") (.arith "16") false)]

#eval frontEnd fsR "/" [] (.source tA)

#eval frontEnd fsR "/" [] (.source tB)
def f : Line → Line := fun l => if l = l2 then l2' else l

-- text_congruence instantiated, the two frontEnd facts taken as hypotheses (confirmed by #eval above; the kernel
-- cannot evaluate frontEnd: `decide +kernel` gets stuck)
example (c : Bool) (h0 : frontEnd fsR "/" [] (.source tA) = .ok itA) (h1 : frontEnd fsR "/" [] (.source tB) = .ok itB) :
    assembleText fsR "/" [] c (.source tB) = mapErrLine f (assembleText fsR "/" [] c (.source tA)) := by
  refine text_congruence fsR "/" [] c (.source tA) (.source tB) f (fun env => env "K" = some 16) h0 h1 ?_ ?_
  · have e : itA.map (Item.mapLine f) =
        [.constant l1 "K" (.arith "16"), .instr l2' (.i "addi" (.str "x0") (.str "x0") (.arith "K") false)] := by
      decide +kernel
    rw [e]
    refine .cons (.refl _) (.cons (.instr _ (Or.inr ⟨_, _, rfl, ?_, rfl⟩)) .nil)
    exact arith_name_lit fsR "K" "16" 16
      (fun env h => by
        have : evalArith "K" env = match env "K" with | some v => .ok v | none => .error .error := rfl
        rw [this, h])
      (fun _ => rfl)
  · intro out constants h L
    have e : itA.map (Item.mapLine f) =
        [.constant l1 "K" (.arith "16"), .instr l2' (.i "addi" (.str "x0") (.str "x0") (.arith "K") false)] := by
      decide +kernel
    rw [e] at h
    have : resolveConstants (textHooks fsR)
        [.constant l1 "K" (.arith "16"), .instr l2' (.i "addi" (.str "x0") (.str "x0") (.arith "K") false)] [] =
        .ok ([.instr l2' (.i "addi" (.str "x0") (.str "x0") (.arith "K") false)], [("K", 16)]) := by decide +kernel
    rw [this] at h
    cases h
    rfl
