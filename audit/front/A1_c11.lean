import BB
open BB BB.Props.C11

-- (1) arith_subst: what e' must look like.  e = "K + 2", K = 16.
def aK2 : Ast := .binary .add (.name "K") (.lit 2)
example : tokenize "K + 2".toList = .ok [.name "K", .plus, .num 2] := by decide +kernel
example : parseExpr [.name "K", .plus, .num 2] = .ok aK2 := by decide +kernel
-- the rendering of the substituted tree is FULLY parenthesised
example : renderAst (Ast.subst "K" 16 aK2) = [.lparen, .num 16, .rparen, .plus, .lparen, .num 2, .rparen] := by decide +kernel
-- so the natural textual substitution "16 + 2" does NOT satisfy hypothesis ht'
example : tokenize "16 + 2".toList ≠ .ok (renderAst (Ast.subst "K" 16 aK2)) := by decide +kernel
-- only this does
example : tokenize "(16)+(2)".toList = .ok (renderAst (Ast.subst "K" 16 aK2)) := by decide +kernel

-- an instance of arith_subst (there is none in the tree)
example : BB.Lemmas.ImmRel (textHooks fs0) (fun env => env "K" = some 16) (.arith "K + 2") (.arith "(16)+(2)") :=
  arith_subst fs0 "K" 16 (e := "K + 2") (e' := "(16)+(2)") (toks := [.name "K", .plus, .num 2]) (a := aK2)
    ⟨by decide +kernel, by decide +kernel, by decide +kernel⟩ ⟨by decide +kernel, by decide +kernel, by decide +kernel⟩
    (by decide +kernel) (by decide +kernel) (by decide +kernel)

-- negative value: litOf (-3) renders as  - ( 3 )
example : renderAst (Ast.subst "K" (-3) (.name "K")) = [.minus, .lparen, .num 3, .rparen] := by decide +kernel
