import BB
open BB BB.Lemmas BB.Props.C15

-- A backward branch to a label that IS defined in the program can never be a GoodInstr:
-- Resolves quantifies over ALL label tables, including the empty one.
example (c : Bool) : ¬ GoodInstr exHooks c (exLine 3 "beq x0, x0, start") (.b "beq" (.str "x0") (.str "x0") (.offset "start")) := by
  intro h
  obtain ⟨ins', bs, h1, _⟩ := h.res 0 []
  revert h1
  have hd : Dict.get [] "start" = none := rfl
  simp [immBody, Imm.eval, chainGet, Instr.imm?, bind, Except.bind, hd]

-- same for `jal ra, start`
example (c : Bool) : ¬ GoodInstr exHooks c (exLine 3 "jal ra, start") (.j "jal" (.str "ra") (.offset "start")) := by
  intro h
  obtain ⟨ins', bs, h1, _⟩ := h.res 0 []
  revert h1
  have hd : Dict.get [] "start" = none := rfl
  simp [immBody, Imm.eval, chainGet, Instr.imm?, bind, Except.bind, hd]

-- a pseudo-instruction that names a label (beqz x8, start) is not a GoodItem either
example (c : Bool) : ¬ GoodItem exHooks c (.pseudo (exLine 3 "j start") "j" ["start"]) := by
  intro h
  cases h with
  | pseudo _ _ _ h =>
    obtain ⟨instrs, short, h1, h2⟩ := h 0 []
    have hk : pseudoKind "j" = some .j := by decide
    have : expandPseudo exHooks (chainGet [] []) (exLine 3 "j start") "j" ["start"] 0
        = .ok ([.j "jal" (.str "x0") (.offset "start")], false) := by decide +kernel
    rw [this] at h1
    cases h1
    have hg := h2 _ (List.mem_singleton.mpr rfl)
    obtain ⟨ins', bs, h3, _⟩ := hg.res 0 []
    revert h3
    have hd : Dict.get [] "start" = none := rfl
    simp [immBody, Imm.eval, chainGet, Instr.imm?, bind, Except.bind, hd]

-- yet the model itself handles such a program fine: fault at line 4 reported with a loop around it
#eval assembleItems exHooks false
  [.label (exLine 1 "start:") "start",
   .instr (exLine 2 "beq x0, x0, start") (.b "beq" (.str "x0") (.str "x0") (.offset "start")),
   .instr (exLine 4 "addi x5, x6, 2048") (.i "addi" (.str "x5") (.str "x6") (.arith "2048") false)] [] []

-- readLines_numbered: LineOfFile does not tie the number to the contents
example : LineOfFile "/f" "a\nb\n".toList ⟨"/f", 1, "b"⟩ := ⟨rfl, 0, "a".toList, by decide, rfl⟩
example : LineOfFile "/f" "a\nb\n".toList ⟨"/f", 2, "completely different"⟩ := ⟨rfl, 1, "b".toList, by decide, rfl⟩
