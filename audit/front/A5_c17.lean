import BB
open BB BB.Cli BB.Props.C17

def henc0 : HexEnc := fun off bs => .ok ((Hex.encode off.toNat bs).map Char.toNat)

-- /w/m.asm = "nop"; -l /w/l.txt is writable, -o /w/d is an existing DIRECTORY: the real cli_main writes l.txt,
-- then open('/w/d','wb') raises IsADirectoryError -> traceback, exit 1, l.txt already overwritten.
def fsW : FS :=
  { files := [("/w/m.asm", "start:\nnop\n".toList.map Char.toNat), ("/w/l.txt", [4])],
    dirs := ["/", "/w", "/w/d"] }
def argsW : Args := { input := "/w/m.asm", output := "/w/d", labels := some "/w/l.txt" }

#eval (run henc0 fsW "/w" argsW).1                              -- unsupported "os error (output file)"
#eval (run henc0 fsW "/w" argsW).2.readBytes "/w/l.txt"         -- some [4]: the model hands back the ORIGINAL fs
-- `failed` of an unsupported status is False, so cli_failure_untouched* say nothing about this run
example : ¬ (ExitStatus.unsupported "os error (output file)").failed := by simp [ExitStatus.failed]

-- same with a missing parent directory of the -o path
def argsW2 : Args := { input := "/w/m.asm", output := "/w/nodir/out.bin", labels := some "/w/l.txt" }
#eval (run henc0 fsW "/w" argsW2).1

-- a non-empty success (the tree's example assembles the EMPTY file)
def argsOk : Args := { input := "/w/m.asm", output := "/w/out.bin", labels := some "/w/l.txt", hexOffset := some "0x08000000" }
#eval (run henc0 fsW "/w" argsOk).1
#eval (run henc0 fsW "/w" argsOk).2.readBytes "/w/out.bin"
#eval ((run henc0 fsW "/w" argsOk).2.readBytes "/w/l.txt").map (fun l => String.ofList (l.map Char.ofNat))
#eval ((run henc0 fsW "/w" argsOk).2.readBytes "/w/out.bin.hex").map (fun l => Hex.decode (l.map Char.ofNat))

-- bytes ≥ 256 can come out of the model (FS bytes are unconstrained Nats, include_bytes copies them):
def fsB : FS :=
  { files := [("/w/m.asm", "include_bytes b.bin\n".toList.map Char.toNat), ("/w/b.bin", [300])], dirs := ["/", "/w"] }
#eval resultOf (assembleText fsB "/w" [] false (.path "/w/m.asm"))
