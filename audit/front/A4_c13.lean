import BB
open BB BB.Props.C13

def fsD : FS := { files := [("/w/defs.asm", "K = 4\n".toList.map Char.toNat)], dirs := ["/", "/w"] }
-- the example pair of C13Program on a filesystem where defs.asm exists: a success on both sides
#eval resultOf (assembleText fsD "/w" [] false (.source (String.ofList (unlines exA))))
#eval resultOf (assembleText fsD "/w" [] true (.source (String.ofList (unlines exB))))

-- integer spellings are NOT in SpellRel: the only constructor that changes an item is `regs`, and Item.Same keeps the immediate
theorem imm_of_same {l : Line} {n n' : String} {a b a' b' : RegOp} {i i' : Imm} {f f' : Bool}
    (h : Item.Same (.instr l (.i n a b i f)) (.instr l (.i n' a' b' i' f'))) : i = i' := by
  generalize hx : Item.instr l (.i n a b i f) = x at h
  generalize hy : Item.instr l (.i n' a' b' i' f') = y at h
  cases h with
  | refl it => subst hx; cases hy; rfl
  | instr line hi =>
    cases hx; cases hy
    generalize hp : Instr.i n a b i f = p at hi
    generalize hq : Instr.i n' a' b' i' f' = q at hi
    cases hi <;> cases hp <;> cases hq
    rfl
  | pseudo => cases hx

example : ¬ Item.Same (.instr default (.i "addi" (.str "x1") (.str "x1") (.arith "16") false))
                      (.instr default (.i "addi" (.str "x1") (.str "x1") (.arith "0x10") false)) := by
  intro h
  have := imm_of_same h
  exact absurd this (by decide)

-- what the model does with them (equal, but no theorem says so at program level)
#eval resultOf (assembleText fsD "/w" [] false (.source "addi x1, x1, 16\n"))
#eval resultOf (assembleText fsD "/w" [] false (.source "addi x1, x1, 0x10\n"))
#eval resultOf (assembleText fsD "/w" [] false (.source "addi x1, x1, 0b10000\n"))

-- the usual relocation form  lw t0, %lo(sym)(t1)  has an offset with parentheses: `Operand off` excludes it
example : ¬ Operand "%lo(sym)".toList := by decide
#eval lexTokens "lw t0, %lo(sym)(t1)".toList
#eval lexTokens "lw t0, t1, %lo(sym)".toList
-- upper-case mnemonic / register are accepted by the real lexer? model:
#eval resultOf (assembleText fsD "/w" [] false (.source "LW x1, 4(sp)\n"))
-- non-ASCII comment: hypothesis hA/hB of spelling_same_result exclude it although the model handles it
#eval resultOf (assembleText fsD "/w" [] false (.source "nop # café\n"))
