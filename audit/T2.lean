import BB
open BB BB.Lemmas BB.Props.C12 BB.Props.C20 BB.Props.C05

def src : String := "align 4\nB:\n beqz a0, F\n call F\n addi a0, a0, -32\n not a1, a1\n bne a0, a1, B\nF:\n ret\n"
def fs0 : FS := ⟨[], []⟩
def ln (n : Nat) (s : String) : Line := ⟨"<string>", n, s⟩
def progT : List Item :=
  [.align (ln 1 "align 4") 4,
   .label (ln 2 "B:") "B",
   .pseudo (ln 3 " beqz a0, F") "beqz" ["a0", "F"],
   .pseudo (ln 4 " call F") "call" ["F"],
   .instr (ln 5 " addi a0, a0, -32") (.i "addi" (.str "a0") (.str "a0") (.arith "-32") false),
   .pseudo (ln 6 " not a1, a1") "not" ["a1", "a1"],
   .instr (ln 7 " bne a0, a1, B") (.b "bne" (.str "a0") (.str "a1") (.offset "B")),
   .label (ln 8 "F:") "F",
   .pseudo (ln 9 " ret") "ret" []]

-- frontEnd is by WF recursion: `decide` does not reduce; #eval in T1.lean shows frontEnd = progT

abbrev Ht := textHooks fs0
theorem progT_consts : resolveConstants Ht progT [] = .ok (progT, []) := by decide

theorem progT_grow : GrowHyps Ht progT := by
  refine ⟨by unfold NonNeg; decide, ?_, by decide, ?_, ?_, textHooks_offsetHook fs0⟩
  · intro line a hm
    simp [progT] at hm
    omega
  · intro items1 constants h line name args hm hk
    simp [progT] at hm
    rcases hm with ⟨_, rfl, _⟩ | ⟨_, rfl, _⟩ | ⟨_, rfl, _⟩ | ⟨_, rfl, _⟩ <;> exact absurd hk (by decide)
  · intro items1 constants h line name args ref hm hk ha
    rw [progT_consts] at h
    cases h
    rfl

theorem progT_hyps : C12Hyps Ht progT := by
  obtain ⟨hl, hn, _⟩ := textHooks_hooks fs0
  refine ⟨progT_grow, hl, hn, ?_⟩
  intro items1 constants h x hx
  rw [progT_consts] at h
  cases h
  have hnames : labelNames progT = ["B", "F"] := by decide
  rw [hnames]
  simp only [progT, List.mem_cons, List.mem_nil_iff, or_false] at hx
  rcases hx with rfl | rfl | rfl | rfl | rfl | rfl | rfl | rfl | rfl
  · trivial
  · trivial
  · intro k r hk hkli ht
    have e : k = .brz "beq" := by
      have : pseudoKind "beqz" = some (.brz "beq") := by decide
      rw [this] at hk; exact (Option.some.inj hk).symm
    subst e
    simp only [immTokens, Option.some.injEq, List.cons.injEq, and_true, true_and] at ht
    subst ht
    exact ⟨by decide, rfl⟩
  · intro k r hk hkli ht
    have e : k = .call := by
      have : pseudoKind "call" = some .call := by decide
      rw [this] at hk; exact (Option.some.inj hk).symm
    subst e
    simp only [immTokens, Option.some.injEq, List.cons.injEq, and_true, true_and] at ht
    subst ht
    exact ⟨by decide, rfl⟩
  · refine ⟨by decide, rfl, Or.inl ?_⟩
    intro imm hi
    simp only [Instr.imm?, Option.some.injEq] at hi
    subst hi
    exact fun _ _ _ _ _ => rfl
  · intro k r hk hkli ht
    have e : k = .not := by
      have : pseudoKind "not" = some .not := by decide
      rw [this] at hk; exact (Option.some.inj hk).symm
    subst e
    simp [immTokens] at ht
  · exact ⟨by decide, rfl, Or.inr ⟨"B", by decide, rfl, rfl, Or.inl ⟨_, _, _, _, rfl⟩⟩⟩
  · trivial
  · intro k r hk hkli ht
    have e : k = .ret := by
      have : pseudoKind "ret" = some .ret := by decide
      rw [this] at hk; exact (Option.some.inj hk).symm
    subst e
    simp [immTokens] at ht

theorem progT_alignFree : AlignFreeTransfers progT := by
  refine alignFree_of_prefix (pre := [.align (ln 1 "align 4") 4]) (rest := progT.tail) rfl ?_ ?_ ?_
  · intro l a h
    simp [progT] at h
  · intro l n h
    simp at h
  · intro x hx n ht
    simp only [List.mem_singleton] at hx
    subst hx
    rcases ht with ⟨_, _, e, _⟩ | ⟨_, _, _, e, _⟩ <;> cases e

theorem plainT : assembleItems Ht false progT [] [] = .ok
   { bytes := [99, 10, 5, 0, 239, 0, 0, 1, 19, 5, 5, 254, 147, 197, 245, 255, 227, 24, 181, 254, 103, 128, 0, 0],
     labels := [("B", 0), ("F", 20)], constants := [] } := by decide +kernel

-- C12 theorem instantiated with the REAL text hooks on the items the front end produces for `src`
example : ∃ r₁, assembleItems Ht true progT [] [] = .ok r₁ :=
  compress_preserves_success_program2 Ht progT _ progT_hyps progT_alignFree plainT
