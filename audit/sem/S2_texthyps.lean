import BB
open BB BB.Spec BB.Lemmas
open BB.Props.C12 BB.Props.C20 BB.Props.C04
open BB.Props.C05 (immTokens)

def fs0 : FS := { files := [], dirs := [] }
abbrev HT : Hooks := textHooks fs0
def L (n : Nat) (c : String) : Line := ⟨"<string>", n, c⟩

def progT : List Item :=
 [.align (L 1 "align 4") 4,
  .label (L 2 "B:") "B",
  .pseudo (L 3 "beqz a0, F") "beqz" ["a0", "F"],
  .pseudo (L 4 "call F") "call" ["F"],
  .instr (L 5 "addi a0, a0, -32") (.i "addi" (.str "a0") (.str "a0") (.arith "-32") false),
  .pseudo (L 6 "li a1, 0x12345") "li" ["a1", "0x12345"],
  .pseudo (L 7 "li a2, -5") "li" ["a2", "-5"],
  .instr (L 8 "slli a3, a3, 3") (.r "slli" (.str "a3") (.str "a3") (.str "3")),
  .pseudo (L 9 "not a1, a1") "not" ["a1", "a1"],
  .instr (L 10 "bne a0, a1, B") (.b "bne" (.str "a0") (.str "a1") (.offset "B")),
  .label (L 11 "F:") "F",
  .pseudo (L 12 "ret") "ret" []]

-- the front end really produces this list (evaluated; the kernel cannot unfold the WF readLinesAux)
#eval decide (frontEnd fs0 "/" [] (.source "align 4\nB:\nbeqz a0, F\ncall F\naddi a0, a0, -32\nli a1, 0x12345\nli a2, -5\nslli a3, a3, 3\nnot a1, a1\nbne a0, a1, B\nF:\nret\n") = .ok progT)

theorem progT_consts : resolveConstants HT progT [] = .ok (progT, []) := by decide +kernel

-- closed literals are label-free with the REAL evaluator, by computation
theorem lf_m32 : ImmLabelFree HT [] (.arith "-32") := fun _ _ _ _ _ => rfl
theorem lf_hex : ImmLabelFree HT [] (.arith "0x12345") := fun _ _ _ _ _ => rfl
theorem lf_m5 : ImmLabelFree HT [] (.arith "-5") := fun _ _ _ _ _ => rfl

theorem progT_grow : GrowHyps HT progT := by
  refine ⟨by unfold NonNeg; decide, ?_, by decide, ?_, ?_, textHooks_offsetHook fs0⟩
  · intro line a hm
    simp [progT] at hm
    omega
  · intro items1 constants h line name args hm hk imm hp
    rw [progT_consts] at h
    cases h
    simp [progT] at hm
    rcases hm with ⟨_, rfl, rfl⟩ | ⟨_, rfl, rfl⟩ | ⟨_, rfl, rfl⟩ | ⟨_, rfl, rfl⟩ | ⟨_, rfl, rfl⟩ | ⟨_, rfl, rfl⟩
    · exact absurd hk (by decide)
    · exact absurd hk (by decide)
    · have : imm = .arith "0x12345" := by
        have h2 : HT.parseImm ["0x12345"] line = .ok (.arith "0x12345") := by rfl
        simp only [List.tail] at hp; rw [h2] at hp; cases hp; rfl
      subst this; exact lf_hex
    · have : imm = .arith "-5" := by
        have h2 : HT.parseImm ["-5"] line = .ok (.arith "-5") := by rfl
        simp only [List.tail] at hp; rw [h2] at hp; cases hp; rfl
      subst this; exact lf_m5
    · exact absurd hk (by decide)
    · exact absurd hk (by decide)
  · intro items1 constants h line name args ref hm hk ha
    rw [progT_consts] at h
    cases h
    rfl

theorem progT_hyps : C12Hyps HT progT := by
  refine ⟨progT_grow, (textHooks_hooks fs0).1, (textHooks_hooks fs0).2.1, ?_⟩
  intro items1 constants h x hx
  rw [progT_consts] at h
  cases h
  have hnames : labelNames progT = ["B", "F"] := by decide
  rw [hnames]
  simp only [progT, List.mem_cons, List.mem_nil_iff, or_false] at hx
  rcases hx with rfl | rfl | rfl | rfl | rfl | rfl | rfl | rfl | rfl | rfl | rfl | rfl
  · trivial
  · trivial
  · intro k r hk hkli ht
    have e : k = .brz "beq" := by
      have : pseudoKind "beqz" = some (.brz "beq") := by decide
      rw [this] at hk; exact (Option.some.inj hk).symm
    subst e
    simp only [immTokens, Option.some.injEq, List.cons.injEq, and_true, true_and] at ht
    subst ht
    exact ⟨by decide, rfl⟩
  · intro k r hk hkli ht
    have e : k = .call := by
      have : pseudoKind "call" = some .call := by decide
      rw [this] at hk; exact (Option.some.inj hk).symm
    subst e
    simp only [immTokens, Option.some.injEq, List.cons.injEq, and_true, true_and] at ht
    subst ht
    exact ⟨by decide, rfl⟩
  · refine ⟨by decide, rfl, Or.inl ?_⟩
    intro imm hi
    simp only [Instr.imm?, Option.some.injEq] at hi
    subst hi
    exact lf_m32
  · intro k r hk hkli ht
    have e : k = .li := by
      have : pseudoKind "li" = some .li := by decide
      rw [this] at hk; exact (Option.some.inj hk).symm
    exact absurd e hkli
  · intro k r hk hkli ht
    have e : k = .li := by
      have : pseudoKind "li" = some .li := by decide
      rw [this] at hk; exact (Option.some.inj hk).symm
    exact absurd e hkli
  · refine ⟨by decide, rfl, Or.inl ?_⟩
    intro imm hi
    simp [Instr.imm?] at hi
  · intro k r hk hkli ht
    have e : k = .not := by
      have : pseudoKind "not" = some .not := by decide
      rw [this] at hk; exact (Option.some.inj hk).symm
    subst e
    simp [immTokens] at ht
  · exact ⟨by decide, rfl, Or.inr ⟨"B", by decide, rfl, rfl, Or.inl ⟨_, _, _, _, rfl⟩⟩⟩
  · trivial
  · intro k r hk hkli ht
    have e : k = .ret := by
      have : pseudoKind "ret" = some .ret := by decide
      rw [this] at hk; exact (Option.some.inj hk).symm
    subst e
    simp [immTokens] at ht

theorem progT_alignFree : AlignFreeTransfers progT := by
  refine alignFree_of_prefix (pre := [.align (L 1 "align 4") 4]) (rest := progT.tail) rfl ?_ ?_ ?_
  · intro l a h
    simp [progT] at h
  · intro l n h
    simp at h
  · intro x hx n ht
    simp only [List.mem_singleton] at hx
    subst hx
    rcases ht with ⟨_, _, e, _⟩ | ⟨_, _, _, e, _⟩ <;> cases e

theorem progT_nocomp : NoCompressedSource progT := by
  intro line ins hm
  simp only [progT, List.mem_cons, List.mem_nil_iff, or_false, reduceCtorEq, false_or, Item.instr.injEq] at hm
  rcases hm with ⟨_, rfl⟩ | ⟨_, rfl⟩ | ⟨_, rfl⟩ <;> rfl

def r0 : AsmResult := { bytes := [99, 2, 5, 2, 239, 0, 0, 2, 19, 5, 5, 254, 183, 37, 1, 0, 147, 133, 85, 52, 19, 6, 176, 255, 147,
            150, 54, 0, 147, 197, 245, 255, 227, 16, 181, 254, 103, 128, 0, 0], labels := [("B", 0), ("F", 36)], constants := [] }
def r1 : AsmResult := { bytes := [1, 205, 25, 40, 1, 21, 201, 101, 147, 133, 85, 52, 109, 86, 142, 6, 147, 197, 245, 255, 227, 22,
            181, 254, 130, 128], labels := [("B", 0), ("F", 24)], constants := [] }

theorem run0 : assembleItems HT false progT [] [] = .ok r0 := by decide +kernel
theorem run1 : assembleItems HT true progT [] [] = .ok r1 := by decide +kernel

-- C12 final theorem instantiated with the REAL hooks
example : ∃ r, assembleItems HT true progT [] [] = .ok r :=
  compress_preserves_success_program2 HT progT r0 progT_hyps progT_alignFree run0

-- C20 nothing_grows, C04 two_outputs_corr instantiated with the REAL hooks
example := nothing_grows HT progT r0 r1 progT_grow run0 run1
example := two_outputs_corr HT progT r0 r1 progT_grow progT_nocomp (textHooks_hooks fs0).1 run0 run1
#print axioms progT_hyps
