import BB
open BB BB.Spec BB.Lemmas
open BB.Props.C12 BB.Props.C20
set_option maxRecDepth 1000000

theorem litE_ok : ∀ n : Nat, n < 32 → ∀ env, litE (toString n) env = .ok (n : Int) := by
  intro n hn env
  have : ∀ n : Nat, n < 32 → (toString n ≠ "M" ∧ toString n ≠ "E" ∧ (List.range 32).find? (fun k => toString k = toString n) = some n) := by decide
  obtain ⟨h1, h2, h3⟩ := this n hn
  unfold litE
  rw [if_neg h1, if_neg h2, h3]

theorem hx_lit (line : Line) (p : Int) (env : String → Option Int) : LitOK (evalAt Hx env line p) := by
  intro n hn
  simp only [evalAt, Imm.eval, Hx, litE_ok n hn, liftExpr, Except.toOption]

theorem pag_consts : resolveConstants Hx progAlignGrow [] = .ok (progAlignGrow, []) := by decide +kernel

theorem pag_tame : Tame Hx progAlignGrow := by
  refine ⟨stable_of_check (by decide +kernel), stable_of_check (by decide +kernel), ?_⟩
  intro items' constants h it hit
  rw [pag_consts] at h
  cases h
  simp only [progAlignGrow, List.mem_cons, List.mem_nil_iff, or_false] at hit
  rcases hit with rfl | rfl | rfl | rfl | rfl | rfl | rfl
  · intro imm hi; simp only [Instr.imm?, Option.some.injEq] at hi; subst hi; exact Or.inl (fun _ _ _ _ _ => rfl)
  · intro imm hi; simp only [Instr.imm?, Option.some.injEq] at hi; subst hi; exact Or.inl (fun _ _ _ _ _ => rfl)
  · intro imm hi; simp only [Instr.imm?, Option.some.injEq] at hi; subst hi; exact Or.inl (fun _ _ _ _ _ => rfl)
  · intro imm hi; simp only [Instr.imm?, Option.some.injEq] at hi; subst hi; exact Or.inr ⟨"L", rfl⟩
  · trivial
  · trivial
  · trivial

theorem statement1_false : ¬ compress_preserves_success_statement := by
  intro h
  obtain ⟨r0, h0⟩ : ∃ r0, assembleItems Hx false progAlignGrow [] [] = .ok r0 := by
    cases e : assembleItems Hx false progAlignGrow [] [] with
    | ok r => exact ⟨r, rfl⟩
    | error err => have := align_grows_distance.1; rw [e] at this; cases this
  obtain ⟨r1, h1⟩ := h Hx progAlignGrow r0 hx_lit pag_tame
    (by intro line a hm
        simp only [progAlignGrow, List.mem_cons, List.mem_nil_iff, reduceCtorEq, Item.align.injEq, false_or, or_false] at hm
        omega) h0
  rw [align_grows_distance.2] at h1
  cases h1
#print axioms statement1_false
