import BB
open BB

def fs0 : FS := { files := [], dirs := [] }
def src : String := "align 4\nB:\nbeqz a0, F\ncall F\naddi a0, a0, -32\nli a1, 0x12345\nli a2, -5\nslli a3, a3, 3\nnot a1, a1\nbne a0, a1, B\nF:\nret\n"

#eval frontEnd fs0 "/" [] (.source src)
#eval assembleText fs0 "/" [] false (.source src)
#eval assembleText fs0 "/" [] true (.source src)
