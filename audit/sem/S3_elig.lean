import BB
open BB BB.Spec

-- is `candidates` lossy?  every legal halfword's expansion must be `eligible`
#eval (List.range 65536).all (fun w => match decode16 w with
  | some ci => if ci.legal then eligible (expand16 ci) else true
  | none => true)
-- how many halfwords decode to a legal instruction
#eval ((List.range 65536).filter (fun w => match decode16 w with | some ci => ci.legal | none => false)).length
-- how many decode at all but are not legal (hints/reserved): does eligible ever say true for the expansion of a non-legal one only?
#eval ((List.range 65536).filter (fun w => match decode16 w with
  | some ci => !ci.legal && eligible (expand16 ci) | none => false)).length
#eval ((List.range 65536).filter (fun w => match decode16 w with
  | some ci => !ci.legal && eligible (expand16 ci) | none => false)).take 5 |>.map (fun w => (w, decode16 w))
