import BB
open BB BB.Spec

-- `exec` cannot tell ebreak / ecall / fence / c.nop apart: all "advance the pc"
example : ∀ s, execC .ebreak s = exec .ecall 2 s := fun _ => rfl
example : ∀ s, execC .nop s = exec .ebreak 2 s := by
  intro s; simp [execC, expand16, exec, St.set, St.get]
example : ∀ s, execC .ebreak s = exec (.fence 0 15 15 0 0) 2 s := fun _ => rfl
-- and any write to x0 is a nop
example : ∀ s, execC .nop s = exec (.i .addi 0 5 7) 2 s := by
  intro s; simp [execC, expand16, exec, St.set, St.get]
