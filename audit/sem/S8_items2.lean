import BB
open BB BB.Spec BB.Lemmas
open BB.Props.C04
open BB.Props.C03 (Land)

/-- `assemble_compressed_literal_sound` with its informative right disjunct DELETED is still provable:
    `items2` is bound by ∃ with no constraint, so "stood compressed in the (aliased) source" can be
    discharged with `items2 := items7`. -/
theorem literal_sound_left_only (H : Hooks) (items : List Item) (r : AsmResult)
    (h : assembleItems H true items [] [] = .ok r) :
    ∃ items2 items7 out : List Item, Expands items items7 ∧ Land H r.constants r.labels 0 items7 out ∧
      r.bytes = blobBytes out ∧
      ∀ (i : Nat) (hi : i < items7.length) line cf, items7[i] = .instr line cf → cf.isCompressed = true →
        Item.instr line cf ∈ resolveRegisterAliases items2 r.constants := by
  obtain ⟨items2, items3, items4, items6, items7, out, labels2, labels3, labels4, labels6, _, e7, h3, h4, h6, h7, hland, hbytes⟩ :=
    assemble_stages_full H true items r h
  refine ⟨items7, items7, out, e7, hland, hbytes, ?_⟩
  intro i hi line cf hit hc
  have hmem : Item.instr line cf ∈ items7 := by rw [← hit]; exact List.getElem_mem hi
  have hmem6 := align_pass_instrs items6 0 labels6 items7 r.labels h7 line cf hmem
  simp only [maybeCompress, if_true, transformCompressible] at h6
  obtain ⟨it5, hit5, hs5⟩ := forall2_mem (compress_pass_itemwise H r.constants _ 0 labels4 items6 labels6 h6) _ hmem6
  have hfix : cf.mapRegs (aliasReg r.constants) = cf := by
    cases hs5 with
    | same => exact aliased_fixed hit5
    | compressed _ ins _ c preds position labels hm hall hcf haj =>
      obtain ⟨y, _, rfl⟩ := mem_aliases hit5
      exact compressedForm_aliased hcf
  unfold resolveRegisterAliases
  exact List.mem_map.mpr ⟨.instr line cf, hmem, by simp only [hfix]⟩
#print axioms literal_sound_left_only

/-- hence the exact statements of the three single-run C04 theorems follow with `Or.inl` everywhere —
    without any compression-soundness content -/
theorem literal_sound_from_left (H : Hooks) (items : List Item) (r : AsmResult)
    (h : assembleItems H true items [] [] = .ok r) :
    ∃ items2 items7 out : List Item, Expands items items7 ∧ Land H r.constants r.labels 0 items7 out ∧
      r.bytes = blobBytes out ∧
      ∀ (i : Nat) (hi : i < items7.length) line cf, items7[i] = .instr line cf → cf.isCompressed = true →
        Item.instr line cf ∈ resolveRegisterAliases items2 r.constants ∨
        ∃ ins, ins.isCompressed = false ∧ ItemStep H r.constants (.instr line ins) (.instr line cf) ∧
          ((∀ imm, ins.imm? = some imm → ImmLabelFree H r.constants imm) →
            ∀ rins i32,
              resolveWith (evalAt H (chainGet r.constants r.labels) line ((blobBytes (out.take i)).length : Int)) ins
                = some rins →
              denote32I rins = some i32 →
              ∃ w ci, (r.bytes.drop (blobBytes (out.take i)).length).take 2 = leBytes 2 w ∧
                decode16 w = some ci ∧ ci.legal = true ∧ ∀ s, execC ci s = exec i32 2 s) := by
  obtain ⟨a, b, c, h1, h2, h3, h4⟩ := literal_sound_left_only H items r h
  exact ⟨a, b, c, h1, h2, h3, fun i hi line cf e hc => Or.inl (h4 i hi line cf e hc)⟩

theorem offset_shrinks_from_left (H : Hooks) (items : List Item) (r : AsmResult)
    (h : assembleItems H true items [] [] = .ok r) :
    ∃ items2 items7 out : List Item, Expands items items7 ∧ Land H r.constants r.labels 0 items7 out ∧
      r.bytes = blobBytes out ∧
      ∀ (i : Nat) (hi : i < items7.length) line cf, items7[i] = .instr line cf → cf.isCompressed = true →
        Item.instr line cf ∈ resolveRegisterAliases items2 r.constants ∨
        ∃ ins c preds p L, DecidedAt H r.constants line cf ins c preds p L ∧
          ∀ ref ∈ labelNames items, ∃ vdec dfin, L.get ref = some (vdec + p) ∧
            r.labels.get ref = some (dfin + ((blobBytes (out.take i)).length : Int)) ∧ Closer vdec dfin := by
  obtain ⟨a, b, c, h1, h2, h3, h4⟩ := literal_sound_left_only H items r h
  exact ⟨a, b, c, h1, h2, h3, fun i hi line cf e hc => Or.inl (h4 i hi line cf e hc)⟩
