import BB
open BB BB.Spec BB.Lemmas
open BB.Props.C12 BB.Props.C20 BB.Props.C04

/-- the missing text-level corollary of C12 (5 lines) -/
theorem compress_preserves_success_text (fs : FS) (cwd : String) (dirs : List String) (inp : Input) (r₀ : AsmResult)
    (hyp : ∀ items, frontEnd fs cwd dirs inp = .ok items →
      C12Hyps (textHooks fs) items ∧ AlignFreeTransfers items)
    (h0 : assembleText fs cwd dirs false inp = .ok r₀) : ∃ r₁, assembleText fs cwd dirs true inp = .ok r₁ := by
  unfold assembleText at h0 ⊢
  cases hf : frontEnd fs cwd dirs inp with
  | error e => simp [hf, bind, Except.bind] at h0
  | ok items =>
    simp only [hf, bind, Except.bind] at h0 ⊢
    obtain ⟨h1, h2⟩ := hyp items hf
    exact compress_preserves_success_program2 (textHooks fs) items r₀ h1 h2 h0
