import BB
open BB BB.Spec BB.Lemmas
open BB.Props.C04 BB.Props.C20

/-- the conclusion of `two_outputs_corr`, verbatim (minus `r₀.constants = r₁.constants`) -/
def Concl (H : Hooks) (items : List Item) (r₀ r₁ : AsmResult) : Prop :=
    ∃ A5 B6 : List Item, Corr H r₁.constants A5 B6 ∧ labelNames B6 = labelNames items ∧
      (∀ ℓ u, labelPos (alignImg A5 0) 0 ℓ = some u → r₀.labels.get ℓ = some u) ∧
      (∀ ℓ u, labelPos (alignImg B6 0) 0 ℓ = some u → r₁.labels.get ℓ = some u) ∧
      ∀ P1 x S1, B6 = P1 ++ x :: S1 → (∀ l n, x ≠ .label l n) → (∀ l a, x ≠ .align l a) →
        ∃ P0 S0 d1, Corr H r₁.constants P0 P1 ∧ Corr H r₁.constants S0 S1 ∧
          PlacedAt H r₁ (sizeSum (alignImg P1 0)) x d1 ∧
          ((∃ a d0, A5 = P0 ++ a :: S0 ∧ StepRel H r₁.constants a x ∧
              PlacedAt H r₀ (sizeSum (alignImg P0 0)) a d0 ∧
              ItemSem H r₀ r₁ (labelNames items) a x (sizeSum (alignImg P0 0)) (sizeSum (alignImg P1 0)) d0 d1) ∨
           (∃ line rd rA imm da dj,
              A5 = P0 ++ .instr line (.u "auipc" rA (.hi imm)) :: .instr line (.i "jalr" rd rA (.lo imm) true) :: S0 ∧
              StepRel H r₁.constants (.instr line (.j "jal" rd imm)) x ∧
              PlacedAt H r₀ (sizeSum (alignImg P0 0)) (.instr line (.u "auipc" rA (.hi imm))) da ∧
              PlacedAt H r₀ (sizeSum (alignImg P0 0) + 4) (.instr line (.i "jalr" rd rA (.lo imm) true)) dj ∧
              NearSem r₁ (labelNames items) line rd imm x (sizeSum (alignImg P1 0)) d1))

/-- the theorem really has this conclusion -/
example (H items r₀ r₁) (hyp : GrowHyps H items) (hs : NoCompressedSource items)
    (hlit : ∀ line p env, LitOK (evalAt H env line p))
    (h0 : assembleItems H false items [] [] = .ok r₀) (h1 : assembleItems H true items [] [] = .ok r₁) :
    Concl H items r₀ r₁ := (two_outputs_corr H items r₀ r₁ hyp hs hlit h0 h1).2

/-- … and for ANY program without labels, ANY two results (related or not), it holds with the EMPTY
    ghost lists: nothing ties A5 / B6 to `items` or to the byte strings except the label names. -/
theorem concl_trivial (H : Hooks) (items : List Item) (r₀ r₁ : AsmResult) (h : labelNames items = []) :
    Concl H items r₀ r₁ := by
  refine ⟨[], [], .nil, ?_, ?_, ?_, ?_⟩
  · rw [h]; rfl
  · intro ℓ u hu; simp [alignImg, labelPos] at hu
  · intro ℓ u hu; simp [alignImg, labelPos] at hu
  · intro P1 x S1 e; simp at e
#print axioms concl_trivial
