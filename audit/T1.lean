import BB
open BB BB.Lemmas BB.Props.C12 BB.Props.C20

def src : String := "align 4\nB:\n beqz a0, F\n call F\n addi a0, a0, -32\n not a1, a1\n bne a0, a1, B\nF:\n ret\n"
def fs0 : FS := ⟨[], []⟩
#eval frontEnd fs0 "/" [] (.source src)
#eval assembleText fs0 "/" [] false (.source src)
#eval assembleText fs0 "/" [] true (.source src)

example (fs : FS) : ImmLabelFree (textHooks fs) [] (.arith "-32") := fun _ _ _ _ _ => rfl
example (fs : FS) : ImmLabelFree (textHooks fs) [("K", 5)] (.arith "K + 4") := fun _ _ _ _ _ => rfl
