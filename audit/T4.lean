import BB
open BB BB.Spec BB.Lemmas

/-- The conclusion of `C03.assemble_branch_lands` follows from `C09.assemble_in_order` ALONE, by taking
    items7 := out (the final blobs): no item of items7 is an instruction, so the ∀ is vacuous.
    Nothing about branches is used. -/
example (H : Hooks) (compress : Bool) (items : List Item) (r : AsmResult)
    (h : assembleItems H compress items [] [] = .ok r) :
    ∃ items7 out : List Item, Expands items items7 ∧ r.bytes = blobBytes out ∧
      ∀ (i : Nat) (hi : i < items7.length) line name rs1 rs2 ref o op f3,
        items7[i] = .instr line (.b name rs1 rs2 (.offset ref)) →
        instrTable.lookup name = some (.b op f3) → classOf name = some (.br o) →
        ∃ w r1 r2 v d, (r.bytes.drop (blobBytes (out.take i)).length).take 4 = leBytes 4 w ∧
          decode32 w = some (.branch o r1 r2 v) ∧
          lookupRegister rs1 = some r1 ∧ lookupRegister rs2 = some r2 ∧
          chainGet r.constants r.labels ref = some d ∧
          ((blobBytes (out.take i)).length : Int) + v = d := by
  obtain ⟨out, hexp, hblobs, hbytes⟩ := BB.Props.C09.assemble_in_order H compress items r h
  refine ⟨out, out, hexp, hbytes, ?_⟩
  intro i hi line name rs1 rs2 ref o op f3 hit
  obtain ⟨l, d, e⟩ := hblobs _ (List.getElem_mem hi)
  rw [hit] at e
  cases e
