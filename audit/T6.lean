import BB
open BB BB.Spec BB.Lemmas BB.Props.C03 BB.Props.C04

/-- ANCHORED form of `assemble_branch_lands`: `items7` is `lay.aligned`, the list the model holds after
    resolve_aligns (a function of the inputs), not an existential -/
theorem assemble_branch_lands' (H : Hooks) (compress : Bool) (items : List Item) (r : AsmResult)
    (h : assembleItems H compress items [] [] = .ok r) :
    ∃ lay out, layoutOf H compress items = .ok lay ∧ lay.labels = r.labels ∧ lay.constants = r.constants ∧
      Land H r.constants r.labels 0 lay.aligned out ∧ r.bytes = blobBytes out ∧
      ∀ (i : Nat) (hi : i < lay.aligned.length) line name rs1 rs2 ref o op f3,
        lay.aligned[i] = .instr line (.b name rs1 rs2 (.offset ref)) →
        instrTable.lookup name = some (.b op f3) → classOf name = some (.br o) →
        ∃ w r1 r2 v d, (r.bytes.drop (blobBytes (out.take i)).length).take 4 = leBytes 4 w ∧
          decode32 w = some (.branch o r1 r2 v) ∧
          lookupRegister rs1 = some r1 ∧ lookupRegister rs2 = some r2 ∧
          chainGet r.constants r.labels ref = some d ∧
          ((blobBytes (out.take i)).length : Int) + v = d := by
  obtain ⟨items1, items2, items3, items4, items6, items7, out, labels2, labels3, labels4, labels6, _, h1, h2, h3, h4, h6, h7, hland, hbytes⟩ :=
    assemble_stages_all H compress items r h
  refine ⟨⟨items6, items7, r.constants, r.labels⟩, out, ?_, rfl, rfl, hland, hbytes, ?_⟩
  · unfold resolveAligns at h7
    simp only [layoutOf, bind, Except.bind, h1, h2, h3, h4, h6, resolveAligns, h7, pure, Except.pure]
  · intro i hi line name rs1 rs2 ref o op f3 hit hrow hc
    obtain ⟨it', line', d, _, hbody, hfin, hslice⟩ := hland.at i hi
    simp only at hit
    rw [hit] at hbody
    obtain ⟨w, r1, r2, v, dd, hb, hdec, hr1, hr2, hd, hpv⟩ := step_branch hbody hfin hrow hc
    refine ⟨w, r1, r2, v, dd, ?_, hdec, hr1, hr2, hd, by simpa using hpv⟩
    rw [hbytes]
    have hl : d.length = 4 := by rw [hb, leBytes_length]
    rw [hl] at hslice
    rw [hslice]; exact hb
