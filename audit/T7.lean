import BB
open BB BB.Spec BB.Lemmas BB.Props.C10

/-- the per-item conclusion of `data_unchanged_by_compression` is true of ANY two byte strings, any
    offsets and any item: take d = [] -/
example (r0 r1 : AsmResult) (out0 out1 : List Item) (i j : Nat) :
    ∃ d : List Nat,
      (r0.bytes.drop (blobBytes (out0.take i)).length).take d.length = d ∧
      (r1.bytes.drop (blobBytes (out1.take j)).length).take d.length = d :=
  ⟨[], by simp, by simp⟩

/-- hence the whole conclusion follows from C09 alone -/
example (H : Hooks) (items : List Item) (r0 r1 : AsmResult)
    (h0 : assembleItems H false items [] [] = .ok r0) (h1 : assembleItems H true items [] [] = .ok r1) :
    ∃ items0 out0 items1 out1 : List Item,
      Expands items items0 ∧ r0.bytes = blobBytes out0 ∧ Expands items items1 ∧ r1.bytes = blobBytes out1 ∧
      ∀ (i j : Nat) (hi : i < items0.length) (hj : j < items1.length) (it : Item),
        items0[i] = it → items1[j] = it → DataLit H it →
        ∃ d : List Nat,
          (r0.bytes.drop (blobBytes (out0.take i)).length).take d.length = d ∧
          (r1.bytes.drop (blobBytes (out1.take j)).length).take d.length = d := by
  obtain ⟨o0, e0, _, b0⟩ := BB.Props.C09.assemble_in_order H false items r0 h0
  obtain ⟨o1, e1, _, b1⟩ := BB.Props.C09.assemble_in_order H true items r1 h1
  exact ⟨o0, o0, o1, o1, e0, b0, e1, b1, fun _ _ _ _ _ _ _ _ => ⟨[], by simp, by simp⟩⟩
