#!/bin/sh
# run every claimed quick check under several seeds, report non-zero exits
cd /verif
for s in "$@"; do
  for p in $(jq -r '.checks[].property_id' MANIFEST.json); do
    VERIF_SEED=$s timeout 900 ./check $p --tier quick > /root/sweep_${p}_$s.log 2>&1
    rc=$?
    [ $rc -ne 0 ] && echo "seed=$s $p rc=$rc: $(grep -m1 VIOLATION /root/sweep_${p}_$s.log)"
  done
done
echo sweep-done
