#!/bin/sh
# re-run every seeded mutant against the check(s) that caught it; prints the ones that are no longer caught
# usage: tools/mutant_regression.sh <scratch copy of /verif> <scratch checkout of /repo>
V=${1:-/root/vm2}; R=${2:-/root/mrepo2}
cd $V
for d in seeded/agent-* seeded/author-*; do
  [ -f $d/patch.diff ] && [ -f $d/meta.json ] || continue
  jq -e '.obsolete_since' $d/meta.json >/dev/null 2>&1 && { echo "OBSOLETE $(basename $d)"; continue; }
  P=$(jq -r '(.caught_by // [])[0] // empty' $d/meta.json)
  [ -z "$P" ] && P=$(jq -r '(.flagged_no_input_by // [])[0] // empty' $d/meta.json)
  [ -z "$P" ] && { echo "NOCHECK $(basename $d)"; continue; }
  git -C $R checkout -q -- . ; git -C $R apply $V/$d/patch.diff 2>/dev/null || { echo "NOAPPLY $(basename $d)"; continue; }
  BB_REPO=$R timeout 1200 ./check $P --tier quick > /tmp/mr.log 2>&1; rc=$?
  git -C $R checkout -q -- .
  if [ $rc -eq 1 ]; then echo "caught $(basename $d) by $P $(grep -c no-failing-input-found /tmp/mr.log | sed 's/^0$//;s/^[1-9].*/(no-input)/')"; else echo "MISSED $(basename $d) by $P rc=$rc"; fi
done
echo regression-done
