import json,sys
pid=sys.argv[1]; tag=sys.argv[2] if len(sys.argv)>2 else ""
props={json.loads(l)['id']:json.loads(l) for l in open('/verif/properties.jsonl')}
p=props[pid]
import glob, os
prev=''
olds=[]
for d in sorted(glob.glob('/verif/seeded/agent-%s-*' % pid)):
    try:
        m=json.load(open(d+'/meta.json'))
        olds.append('  - '+(m.get('needs') or m.get('description') or '')[:260].replace('\n',' '))
    except Exception: pass
for nf in sorted(glob.glob('/root/mut-out/%sr*/m*/notes.txt' % pid)):
    rd = nf.split('/')[3]
    if tag and rd.endswith(tag):
        continue
    if os.path.isdir('/verif/seeded/agent-%s-%sm%s' % (pid, rd[len(pid):], nf.split('/')[4][1:])):
        continue
    olds.append('  - ' + open(nf).read()[:260].replace('\n', ' '))
if olds and tag:
    prev='ALREADY explored in earlier rounds (do NOT repeat these ideas or close variants; find different mechanisms, different functions, different input classes):\n'+'\n'.join(olds)+'\n\n'
print(f"""You are helping test a verification effort for the open-source project theandrew168/bronzebeard (a pure-Python RISC-V assembler, bronzebeard/asm.py, plus a DFU flasher, bronzebeard/dfu.py).

You have your own scratch git worktree of the project at /root/mw-{pid}{tag} (work ONLY there; never touch /repo or /verif, and do not read anything under /verif). Run the test suite with:
  cd /root/mw-{pid}{tag} && PYTHONPATH=/root/mw-{pid}{tag} /venv/bin/python -m pytest -q -p no:cacheprovider
(954 tests, about 2 s).

Here is a semantic property the project is supposed to satisfy:

  id: {p['id']}
  title: {p['title']}
  statement: {p['statement']}
  quantifier: {p['quantifier']['text']}
  anchors: {json.dumps(p['anchors']['mechanism'])}
  observed at: {p['anchors']['observe_at']}

Your job: produce THREE different, realistic, subtle source changes (the kind of regression a maintainer could plausibly introduce in a refactor or "small improvement"), each of which
  (a) BREAKS this property for some inputs,
  (b) still lets the WHOLE existing test suite pass (954 passed), and
  (c) is as hard to notice as you can make it: it should fail only for a narrow class of inputs (a boundary value, a particular width, a particular combination of features, a particular location of a file, compression on only, ...), not for the obvious ones.
Make the three changes different in kind (different functions / mechanisms / input classes).

For each change i in 1..3 write into /root/mut-out/{pid}{tag}/m<i>/ :
  - patch.diff : `git diff` output of the change against the worktree's HEAD (must apply with `git apply` to a clean checkout)
  - demo.py    : a self-contained script (run as `PYTHONPATH=<checkout> /venv/bin/python demo.py` from the checkout root) that exits 0 on the unmodified code and exits non-zero (printing what went wrong) on the patched code, demonstrating the property violation through the public behaviour named under "observed at"
  - notes.txt  : 3-6 lines: what the change is, which inputs it needs to show up, why the tests do not notice
After producing each patch, run `git -C /root/mw-{pid}{tag} checkout -- .` (and `git clean -fd` for files you created in the worktree other than your outputs) so each patch is against the clean HEAD. Verify for each: tests pass with the patch applied; demo exits 0 without and non-zero with it.
{prev}When finished, leave the worktree clean and reply with a short list of the three changes (one line each).""")
