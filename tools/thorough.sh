#!/bin/sh
cd /root/vm
for p in $(jq -r '.checks[].property_id' MANIFEST.json); do
  s=$(date +%s)
  BB_REPO=/root/mrepo timeout 7200 ./check $p --tier thorough > /root/thorough_$p.log 2>&1
  rc=$?
  e=$(date +%s)
  echo "$p rc=$rc $((e-s))s: $(tail -1 /root/thorough_$p.log | cut -c1-150)"
done
echo thorough-done
