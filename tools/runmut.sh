#!/bin/sh
# usage: runmut.sh <Cnn> <checks...>   adopts /root/mut-out/Cnn/m1..3 in the scratch copy /root/vm against /root/mrepo
P=$1; shift
cd /root/vm
for i in 1 2 3; do
  [ -f /root/mut-out/$P/m$i/patch.diff ] || continue
  BB_REPO=/root/mrepo /venv/bin/python -m harness.mutants adopt /root/mut-out/$P/m$i agent-$P-m$i $P "$@" 2>&1 | tail -12
done
