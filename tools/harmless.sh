#!/bin/sh
# run the checks against behaviour-preserving patches: every check must exit 0
# usage: tools/harmless.sh <dir with a<k>-h<j>/patch.diff> <scratch copy of /verif> <scratch checkout of /repo>
SRC=$1; V=${2:-/root/vm3}; R=${3:-/root/mrepo3}
checks() { case $1 in a1*) echo "C01 C02 C06 C07 C03 C04 C20 C13";; a2*) echo "C01 C06 C10 C11 C13 C14 C15 C16 C03 C08";; a3*) echo "C03 C04 C05 C08 C09 C10 C11 C12 C20 C15";; a4*) echo "C17 C18 C19 C14 C16";; esac; }
rsync -a --exclude out /verif/ $V/
cd $V
for d in $SRC/a*-h*; do
  [ -f $d/patch.diff ] || continue
  n=$(basename $d)
  git -C $R checkout -q -- . ; git -C $R apply $d/patch.diff 2>/dev/null || { echo "NOAPPLY $n"; continue; }
  for P in $(checks $n); do
    BB_REPO=$R timeout 1500 ./check $P --tier quick > /tmp/harm_$n_$P.log 2>&1; rc=$?
    if [ $rc -eq 0 ]; then echo "ok    $n $P"; else echo "ALARM $n $P rc=$rc: $(grep -m1 -A1 VIOLATION /tmp/harm_$n_$P.log | tr '\n' ' ' | cut -c1-300)"; fi
  done
  git -C $R checkout -q -- .
done
echo harmless-done
