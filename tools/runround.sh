#!/bin/sh
# usage: tools/runround.sh <tag e.g. r3> <Cnn> [<Cnn> ...]   -- adopt /root/mut-out/<Cnn><tag>/m1..3 in the scratch copy /root/vm against /root/mrepo
TAG=$1; shift
extra() { case $1 in C01) echo C06;; C02) echo C06;; C03) echo "C09 C08";; C04) echo "C03 C02";; C05) echo "C03 C08";; C06) echo "C01 C12";; C07) echo "C03 C08";; C08) echo C03;; C09) echo "C03 C10";; C10) echo "C14 C11";; C11) echo "C20 C13";; C12) echo "C11 C04";; C13) echo "C20 C11";; C14) echo C16;; C15) echo C14;; C16) echo C14;; C17) echo C14;; C18) echo C19;; C19) echo C18;; C20) echo "C13 C04";; esac; }
rsync -a --exclude out /verif/ /root/vm/
cd /root/vm
for P in "$@"; do
  git -C /repo worktree remove --force /root/mw-${P}${TAG} 2>/dev/null
  for i in 1 2 3; do
    [ -f /root/mut-out/${P}${TAG}/m$i/patch.diff ] || continue
    echo "== $P $TAG m$i"
    BB_REPO=/root/mrepo /venv/bin/python -m harness.mutants adopt /root/mut-out/${P}${TAG}/m$i agent-$P-${TAG}m$i $P $P $(extra $P) 2>&1 | grep -v "^confirm" | cut -c1-280
  done
done
