"""Program-level correspondence: the Lean model `assembleText` (lexer + parser + every pass) and the
real asm.assemble() on the same source text must give the same bytes, label table (in order),
constant table, or the same error class and line."""
from harness import common


def canon_impl(res):
    """canonical reply string of a progs.Result, in the format of bbdrv's `asms`"""
    if res.status == 'ok':
        def d(t):
            return ','.join('%s=%d' % (common.hexs(k), v) for k, v in t.items()) or '-'
        return 'ok %s L %s K %s' % (res.bytes.hex() or '-', d(res.labels), d(res.constants))
    if res.status == 'asmerr':
        return 'err asm %s %d' % (common.hexs(res.err_file), res.err_line)
    return 'internal ' + str(res.exc)


def request(src, compress):
    return 'asms %d %s' % (1 if compress else 0, common.hexs(src))


def compare(model_reply, res):
    """-> 'same' | 'unsupported' | 'differ'"""
    if model_reply.startswith('unsupported'):
        return 'unsupported'
    return 'same' if model_reply == canon_impl(res) else 'differ'


def request_fs(main, cwd, include_dirs, compress, roots):
    """`asmfs` request for assembling the FILE `main` (absolute path) with the given absolute include directories;
    `roots`: directories whose regular files (recursively) form the filesystem the model sees"""
    import os
    files = []
    dps = set(['/'])
    for r in roots:
        for base, _, fns in os.walk(r):
            b = base
            while b and b != '/':
                dps.add(b)
                b = os.path.dirname(b)
            for fn in fns:
                p = os.path.join(base, fn)
                files.append((p, open(p, 'rb').read()))
    d = cwd
    while d and d != '/':
        dps.add(d)
        d = os.path.dirname(d)
    dps = sorted(dps)
    req = 'asmfs %d %s p %s %d %s %d %s %d %s' % (
        1 if compress else 0, common.hexs(cwd), common.hexs(main), len(include_dirs), ' '.join(common.hexs(x) for x in include_dirs),
        len(files), ' '.join('%s %s' % (common.hexs(p), b.hex() or '-') for p, b in files), len(dps), ' '.join(common.hexs(x) for x in dps))
    return ' '.join(req.split())


def examples_check(rep, prop):
    """the programs shipped with the repository (examples/*.asm, with the definitions directory on the include path):
    the Lean model and the real assembler must agree, both modes; every emitted instruction chunk must be a legal encoding"""
    import glob
    import os
    from harness import progs
    asm = progs.get_asm()
    exdir = os.path.join(common.REPO, 'examples')
    defs = os.path.join(common.REPO, 'bronzebeard', 'definitions')
    diffs = []
    n = 0
    for path in sorted(glob.glob(os.path.join(exdir, '*.asm'))):
        for compress in (False, True):
            res = progs.assemble_chunks(asm, path, compress, include_dirs=[defs])
            m, = common.drv([request_fs(path, exdir, [defs], compress, [exdir, defs])])
            v = compare(m, res)
            n += 1
            rep.evaluations += 1
            rep.count('examples_%s_%s' % (res.status, v))
            if v == 'differ':
                diffs.append(dict(example=os.path.basename(path), compress=compress, model=m[:160], impl=canon_impl(res)[:160]))
    return n, diffs
