"""Program-level correspondence: the Lean model `assembleText` (lexer + parser + every pass) and the
real asm.assemble() on the same source text must give the same bytes, label table (in order),
constant table, or the same error class and line."""
from harness import common


def canon_impl(res):
    """canonical reply string of a progs.Result, in the format of bbdrv's `asms`"""
    if res.status == 'ok':
        def d(t):
            return ','.join('%s=%d' % (common.hexs(k), v) for k, v in t.items()) or '-'
        return 'ok %s L %s K %s' % (res.bytes.hex() or '-', d(res.labels), d(res.constants))
    if res.status == 'asmerr':
        return 'err asm %s %d' % (common.hexs(res.err_file), res.err_line)
    return 'internal ' + str(res.exc)


def request(src, compress):
    return 'asms %d %s' % (1 if compress else 0, common.hexs(src))


def compare(model_reply, res):
    """-> 'same' | 'unsupported' | 'differ'"""
    if model_reply.startswith('unsupported'):
        return 'unsupported'
    return 'same' if model_reply == canon_impl(res) else 'differ'
