"""Operand-tuple sweeps over the encoders (shared by C01, C02, C06).

For every generated call `INSTRUCTIONS[name](*args)` three things are computed:
  impl   : what the real encoder returns / raises                       (in-process, /repo)
  model  : what the Lean model `BB.encode` returns                      (bbdrv `enc`)
  oracle : Lean *specification* applied to the implementation's output  (bbdrv `chk32/chk16`:
           decode(word) = intent(name, operands);  `legal32/legal16`: acceptance = Legal)
plus per-mnemonic collision detection (two normalised operand tuples, one word).
The mnemonic lists and operand ranges below are written from the ISA manual and
docs/instruction_reference.rst, not read from the repository.
"""
import itertools
import multiprocessing as mp
import os
import sys

from harness import common

ALIASES = ['zero', 'ra', 'sp', 'gp', 'tp', 't0', 't1', 't2', 's0', 's1', 'a0', 'a1', 'a2', 'a3', 'a4', 'a5',
           'a6', 'a7', 's2', 's3', 's4', 's5', 's6', 's7', 's8', 's9', 's10', 's11', 't3', 't4', 't5', 't6']

R_NAMES = ['add', 'sub', 'sll', 'slt', 'sltu', 'xor', 'srl', 'sra', 'or', 'and', 'mul', 'mulh', 'mulhsu',
           'mulhu', 'div', 'divu', 'rem', 'remu', 'slli', 'srli', 'srai']
I_NAMES = ['lb', 'lh', 'lw', 'lbu', 'lhu', 'addi', 'slti', 'sltiu', 'xori', 'ori', 'andi',
           'csrrw', 'csrrs', 'csrrc', 'csrrwi', 'csrrsi', 'csrrci', 'jalr', 'sb', 'sh', 'sw']
B_NAMES = ['beq', 'bne', 'blt', 'bge', 'bltu', 'bgeu']
U_NAMES = ['lui', 'auipc']
A_NAMES = ['sc.w', 'amoswap.w', 'amoadd.w', 'amoxor.w', 'amoand.w', 'amoor.w', 'amomin.w', 'amomax.w',
           'amominu.w', 'amomaxu.w']
NAMES32 = R_NAMES + I_NAMES + B_NAMES + U_NAMES + ['jal', 'fence', 'lr.w', 'ecall', 'ebreak', 'fence.i'] + A_NAMES

# 16-bit mnemonics: operand shape and the interval (lo, hi) that contains every legal immediate
C_SHAPES = {
    'c.addi4spn': ('ri', 0, 1023), 'c.lw': ('rri', 0, 127), 'c.sw': ('rri', 0, 127), 'c.nop': ('', 0, 0),
    'c.addi': ('ri', -32, 31), 'c.jal': ('i', -2048, 2047), 'c.li': ('ri', -32, 31),
    'c.addi16sp': ('i', -512, 511), 'c.lui': ('ri', -32, 31), 'c.srli': ('ri', 0, 63), 'c.srai': ('ri', 0, 63),
    'c.andi': ('ri', -32, 31), 'c.sub': ('rr', 0, 0), 'c.xor': ('rr', 0, 0), 'c.or': ('rr', 0, 0),
    'c.and': ('rr', 0, 0), 'c.j': ('i', -2048, 2047), 'c.beqz': ('ri', -256, 255), 'c.bnez': ('ri', -256, 255),
    'c.slli': ('ri', 0, 63), 'c.lwsp': ('ri', 0, 255), 'c.jr': ('r', 0, 0), 'c.mv': ('rr', 0, 0),
    'c.ebreak': ('', 0, 0), 'c.jalr': ('r', 0, 0), 'c.add': ('rr', 0, 0), 'c.swsp': ('ri', 0, 255),
}
NAMES16 = list(C_SHAPES)


def spell_reg(n, k):
    """k selects a spelling of register number n (ints outside 0..31 stay ints)."""
    if not (0 <= n < 32):
        return n if k % 2 == 0 else str(n)
    k %= 10
    if k < 6:
        return n
    if k == 6:
        return 'x%d' % n
    if k == 7:
        return ALIASES[n]
    if k == 8:
        return str(n)
    return hex(n)


def fmt_arg(a):
    kind, v = a
    if kind == 'i':
        return 'i:%d' % v
    if isinstance(v, int):
        return 'n:%d' % v
    return 'r:' + common.hexs(v)


def reg_num(v):
    """register number a spelling denotes, by the documentation (None = not a register)."""
    if isinstance(v, int):
        return v if 0 <= v < 32 else None
    if v in ALIASES:
        return ALIASES.index(v)
    if v == 'fp':
        return 8
    if v.startswith('x') and v[1:].isdigit() and str(int(v[1:])) == v[1:] and int(v[1:]) < 32:
        return int(v[1:])
    try:
        n = int(v, 0)
    except ValueError:
        return None
    return n if 0 <= n < 32 else None


# ---------------------------------------------------------------------------------------------
# case generation: a case is (name, [(kind, value)...]) with kind 'r' (register-like operand:
# int or str), 'i' (evaluated immediate), 'k' (int-or-numeric-string operand: fence sets, aq/rl)
# ---------------------------------------------------------------------------------------------

def imm_window(lo, hi, pad, step=1):
    return range(lo - pad, hi + pad + 1, step)


def cases32(name, tier, rnd):
    thorough = tier == 'thorough'
    small = [0, 1, 2, 8, 15, 16, 30, 31]
    badregs = [-1, 32, 33, 100]
    k = 0
    if name in R_NAMES:
        for rd in range(32):
            for rs1 in range(32):
                for rs2 in range(32):
                    k += 1
                    yield [('r', spell_reg(rd, k)), ('r', spell_reg(rs1, k // 3)), ('r', spell_reg(rs2, k // 7))]
        for bad in badregs:
            for pos in range(3):
                ops = [5, 6, 7]
                ops[pos] = bad
                yield [('r', o) for o in ops]
        for s in ['q1', 'X5', 'x32', 'x05', '', 'zero ', '1_0', '0b101', '0o17', '+3', '-0', 'fp', 'x']:
            yield [('r', s), ('r', 1), ('r', 2)]
        return
    if name in I_NAMES or name in B_NAMES:
        lo, hi = (-4096, 4095) if name in B_NAMES else (-2048, 2047)
        pad = 64
        tuples = [(0, 0), (31, 31), (5, 10), (10, 5)]
        for imm in imm_window(lo, hi, pad):
            for (a, b) in tuples:
                k += 1
                yield [('r', spell_reg(a, k)), ('r', spell_reg(b, k // 5)), ('i', imm)]
        interior = [rnd.randrange(lo, hi + 1) for _ in range(3)]
        imms = [lo, lo + 1, lo + 2, -2, -1, 0, 1, 2, hi - 1, hi, hi + 1, lo - 1] + interior
        regs = range(32)
        for a in regs:
            for b in regs:
                for imm in imms:
                    k += 1
                    yield [('r', spell_reg(a, k)), ('r', spell_reg(b, k // 3)), ('i', imm)]
        for bad in badregs:
            yield [('r', bad), ('r', 1), ('i', 0)]
            yield [('r', 1), ('r', bad), ('i', 0)]
        for imm in [2 ** 31, -2 ** 31, 2 ** 32 - 1, 2 ** 32, 2 ** 32 + 4, -2 ** 32, 2 ** 63, -2 ** 63, 10 ** 30, -10 ** 30,
                    4096, 8192, -4097, 65536, 2 ** 20]:
            yield [('r', 1), ('r', 2), ('i', imm)]
        if thorough:
            for imm in range(lo, hi + 1):
                for a in small:
                    for b in small:
                        yield [('r', a), ('r', b), ('i', imm)]
        return
    if name in U_NAMES or name == 'jal':
        if name == 'jal':
            lo, hi = -2 ** 20, 2 ** 20 - 1
            edges = [lo, 0, hi]
        else:
            lo, hi = -0x80000, 0xfffff
            edges = [lo, 0, 0x7ffff, 0x80000, hi]
        seen = set()
        imms = []
        for e in edges:
            for d in range(-64, 65):
                imms.append(e + d)
        for b in range(22):
            for s in (1, -1):
                imms += [s * (1 << b), s * (1 << b) + 1, s * (1 << b) - 1, s * (1 << b) + 2, s * (1 << b) - 2]
            for b2 in range(b):
                imms.append((1 << b) | (1 << b2))
                imms.append(-((1 << b) | (1 << b2)))
        imms += [rnd.randrange(lo - 1000, hi + 1000) for _ in range(20000)]
        imms += [2 ** 31, -2 ** 31, 2 ** 32 - 1, 2 ** 32, -2 ** 32, 2 ** 63, 10 ** 30, -10 ** 30, 2 ** 32 + 2, 2 ** 21, -2 ** 21]
        for imm in imms:
            if imm in seen:
                continue
            seen.add(imm)
            k += 1
            yield [('r', spell_reg([0, 1, 31, 17][k % 4], k)), ('i', imm)]
        for rd in range(32):
            for imm in [lo, -2, 0, 2, hi - 1, hi]:
                k += 1
                yield [('r', spell_reg(rd, k)), ('i', imm)]
        for bad in badregs:
            yield [('r', bad), ('i', 0)]
        if thorough:
            step = 1
            for imm in range(lo - 8, hi + 9, step):
                yield [('r', 5), ('i', imm)]
        return
    if name == 'fence':
        vals = list(range(-2, 19)) + [255, 256, -16]
        for s in vals:
            for p in vals:
                k += 1
                how = k % 4
                sv = s if how in (0, 1) else (str(s) if how == 2 else (bin(s) if s >= 0 else str(s)))
                pv = p if how in (0, 2) else (str(p) if how == 1 else (hex(p) if p >= 0 else str(p)))
                yield [('k', sv), ('k', pv)]
        for s in ['iorw', 'rw', '', 'x', '0b1111 ', '1_5']:
            yield [('k', s), ('k', 1)]
            yield [('k', 1), ('k', s)]
        return
    if name in A_NAMES or name == 'lr.w':
        regs = range(32) if thorough else small
        nreg = 2 if name == 'lr.w' else 3
        flags = [0, 1]
        for rs in itertools.product(regs, repeat=nreg):
            for aq in flags:
                for rl in flags:
                    k += 1
                    how = k % 3
                    yield [('r', spell_reg(r, k + i)) for i, r in enumerate(rs)] + \
                          [('k', aq if how else str(aq)), ('k', rl if how != 1 else str(rl))]
        for aq in [-1, 2, 3, '2', '-1', 'x', '0b1', '0x1', '1 ', '01']:
            for rl in [0, 1]:
                yield [('r', 1)] * nreg + [('k', aq), ('k', rl)]
                yield [('r', 1)] * nreg + [('k', rl), ('k', aq)]
        for bad in badregs:
            for pos in range(nreg):
                ops = [5] * nreg
                ops[pos] = bad
                yield [('r', o) for o in ops] + [('k', 0), ('k', 0)]
        return
    if name in ('ecall', 'ebreak', 'fence.i'):
        yield []
        return
    raise KeyError(name)


def cases16(name, tier, rnd):
    shape, lo, hi = C_SHAPES[name]
    pad = 8
    k = 0
    extra_imm = [2 ** 31, -2 ** 31, 2 ** 32, 2 ** 32 + 4, -2 ** 32, 2 ** 63, 10 ** 30, 4096, -4096, 65536, 2 ** 20]
    regs = list(range(32)) + [-1, 32, 40]
    if shape == '':
        yield []
    elif shape == 'r':
        for r in regs:
            for s in range(10):
                yield [('r', spell_reg(r, s))]
    elif shape == 'rr':
        for a in regs:
            for b in regs:
                k += 1
                yield [('r', spell_reg(a, k)), ('r', spell_reg(b, k // 3))]
    elif shape == 'i':
        for imm in list(imm_window(lo, hi, pad)) + extra_imm:
            yield [('i', imm)]
    elif shape == 'ri':
        imms = list(imm_window(lo, hi, pad)) + extra_imm
        if name == 'c.lui':
            imms += list(range(0xfffe0 - pad, 0xfffff + pad + 1)) + [0x7ffff, 0x80000, 0xfffdf]
        for r in regs:
            for imm in imms:
                k += 1
                yield [('r', spell_reg(r, k)), ('i', imm)]
    elif shape == 'rri':
        imms = list(imm_window(lo, hi, pad)) + extra_imm
        for a in regs:
            for b in regs:
                for imm in imms:
                    k += 1
                    yield [('r', spell_reg(a, k)), ('r', spell_reg(b, k // 3)), ('i', imm)]
    else:
        raise KeyError(shape)


# ---------------------------------------------------------------------------------------------
# evaluation
# ---------------------------------------------------------------------------------------------

def call_impl(asm, name, ops):
    f = asm.INSTRUCTIONS[name]
    vals = [v for _, v in ops]
    try:
        if name in A_NAMES or name == 'lr.w':
            *rs, aq, rl = vals
            w = f(*rs, aq=aq, rl=rl)
        else:
            w = f(*vals)
    except ValueError:
        return 'err value'
    except Exception as e:  # anything else escapes resolve_instructions as an internal exception
        return 'exc ' + type(e).__name__
    return 'ok %d' % w


def intent_ops(ops):
    """operands as the specification sees them: register numbers / integer values; None if some
    operand does not denote anything (bad register spelling, non-numeric set) -> must be refused"""
    out = []
    for kind, v in ops:
        if kind == 'r':
            n = reg_num(v)
            if n is None:
                return None
            out.append('R%d' % n)
        elif kind == 'i':
            out.append('I%d' % v)
        else:
            if isinstance(v, int):
                out.append('I%d' % v)
            else:
                try:
                    out.append('I%d' % int(v, 0))
                except ValueError:
                    return None
    return out


def norm_key(name, iops):
    """normalised operand tuple for injectivity: U-type immediates are their 20-bit field (both the
    signed and the unsigned spelling are documented), c.lui likewise; CSR numbers mod 4096."""
    if name in ('lui', 'auipc', 'c.lui'):
        r, i = iops
        return (r, int(i[1:]) % (1 << 20))
    return tuple(iops)


def sweep_one(arg):
    """Worker: sweep one mnemonic.  Returns a stats dict (picklable)."""
    name, width, tier, seedv = arg
    os.environ['VERIF_SEED'] = str(seedv)
    import importlib
    asm = importlib.import_module('bronzebeard.asm')
    rnd = common.rng('encsweep:' + name)
    gen = cases32 if width == 32 else cases16
    chk = 'chk32' if width == 32 else 'chk16'
    legal = 'legal32' if width == 32 else 'legal16'
    st = dict(name=name, width=width, cases=0, accepted=0, refused=0, exc=0, model_mismatch=[], decode_fail=[],
              legal_mismatch=[], collisions=[], n_model_mismatch=0, n_decode_fail=0, n_legal_mismatch=0,
              n_collisions=0, undenotable=0, sample=None, words=0)
    words = {}
    refused_keys = set()
    CH = 100000
    it = gen(name, tier, rnd)
    while True:
        chunk = list(itertools.islice(it, CH))
        if not chunk:
            break
        impl = [call_impl(asm, name, ops) for ops in chunk]
        req = []
        plan = []
        for ops, res in zip(chunk, impl):
            req.append('enc %s %s' % (name, ' '.join(fmt_arg(a) for a in ops)))
            iops = intent_ops(ops)
            n_chk = n_leg = False
            if iops is not None:
                req.append('%s %s %s' % (legal, name, ' '.join(iops)))
                n_leg = True
                if res.startswith('ok '):
                    req.append('%s %s %s %s' % (chk, name, ' '.join(iops), res[3:]))
                    n_chk = True
            plan.append((iops, n_leg, n_chk))
        rep = common.drv(req)
        j = 0
        for ops, res, (iops, n_leg, n_chk) in zip(chunk, impl, plan):
            st['cases'] += 1
            model = rep[j]
            j += 1
            if res.startswith('ok '):
                st['accepted'] += 1
            elif res == 'err value':
                st['refused'] += 1
                refused_keys.add(tuple(str(v) for _, v in ops))
            else:
                st['exc'] += 1
            if model != res:
                st['n_model_mismatch'] += 1
                if len(st['model_mismatch']) < 20:
                    st['model_mismatch'].append(dict(name=name, ops=ops, impl=res, model=model))
            if iops is None:
                st['undenotable'] += 1
                # an operand that names nothing must be refused
                if res.startswith('ok '):
                    st['n_legal_mismatch'] += 1
                    if len(st['legal_mismatch']) < 20:
                        st['legal_mismatch'].append(dict(name=name, ops=ops, impl=res, legal='operand denotes nothing'))
                continue
            if n_leg:
                lg = rep[j]
                j += 1
                acc = res.startswith('ok ')
                if (lg == 'yes') != acc:
                    st['n_legal_mismatch'] += 1
                    if len(st['legal_mismatch']) < 20:
                        st['legal_mismatch'].append(dict(name=name, ops=ops, iops=iops, impl=res, legal=lg))
            if n_chk:
                ck = rep[j]
                j += 1
                if ck != 'yes':
                    st['n_decode_fail'] += 1
                    if len(st['decode_fail']) < 20:
                        st['decode_fail'].append(dict(name=name, ops=ops, iops=iops, impl=res, decoded=ck))
                w = int(res[3:])
                key = norm_key(name, iops)
                prev = words.get(w)
                if prev is None:
                    words[w] = key
                elif prev != key:
                    st['n_collisions'] += 1
                    if len(st['collisions']) < 20:
                        st['collisions'].append(dict(name=name, word=w, a=list(prev), b=list(key)))
                if st['sample'] is None and st['accepted'] > 7:
                    st['sample'] = '%s %s -> %s' % (name, ' '.join(str(v) for _, v in ops), res)
    st['words'] = len(words)
    st['distinct_refused'] = len(refused_keys)
    return st


def sweep(names_widths, tier, procs=None):
    """Run the sweeps in a process pool; returns the list of per-mnemonic stats."""
    procs = procs or min(16, os.cpu_count() or 4)
    args = [(n, w, tier, common.seed()) for n, w in names_widths]
    # heavier mnemonics first
    ctx = mp.get_context('fork')
    with ctx.Pool(procs) as pool:
        return pool.map(sweep_one, args, chunksize=1)
