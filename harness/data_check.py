"""C10 — data directives emit exactly the documented bytes; misfitting values are refused."""
import json
import os
import shutil
import tempfile

from harness import common, corr, layout_check, obligations, oracle, progs

SEQ = {'bytes': 1, 'shorts': 2, 'ints': 4, 'longs': 4, 'longlongs': 8}
SHORT = {'db': 1, 'dh': 2, 'dw': 4, 'dd': 8}
PACKW = {'b': 1, 'h': 2, 'i': 4, 'l': 4, 'q': 8}


def boundary_values(w, rnd, n_interior):
    bits = 8 * w
    pts = [-(1 << (bits - 1)), (1 << (bits - 1)) - 1, (1 << bits) - 1, 0, -1, 1, 1 << bits, -(1 << bits), 1 << (bits - 1)]
    vals = set()
    for p in pts:
        for d in (-2, -1, 0, 1, 2):
            vals.add(p + d)
    for _ in range(n_interior):
        vals.add(rnd.randrange(-(1 << bits), 1 << (bits + 1)))
    vals |= {10 ** 30, -10 ** 30, 1 << 64, -(1 << 63) - 1}
    return sorted(vals)


def spell(v, k):
    k %= 3
    if k == 0:
        return str(v)
    if k == 1:
        return ('-' if v < 0 else '') + hex(abs(v))
    return ('-' if v < 0 else '') + bin(abs(v))


def expected_numeric(kind, name, v):
    """documented bytes, or None when the value does not fit the width"""
    if kind in ('seq', 'short'):
        w = SEQ.get(name) or SHORT[name]
        bits = 8 * w
        if -(1 << (bits - 1)) <= v < (1 << bits):
            return (v % (1 << bits)).to_bytes(w, 'little')
        return None
    e, c = name[0], name[1]
    w = PACKW[c.lower()]
    bits = 8 * w
    ok = (-(1 << (bits - 1)) <= v < (1 << (bits - 1))) if c.islower() else (0 <= v < (1 << bits))
    if not ok:
        return None
    return (v % (1 << bits)).to_bytes(w, 'big' if e == '>' else 'little')


def spell_expr(v, k):
    """(prefix lines, operand text): the value written other than as a literal - through an expression or a constant; the
    documented bytes depend on the VALUE, not on how it is spelled (in particular not on a leading minus sign)"""
    j = k % 9
    if abs(v) > 1 << 70 or j < 4:
        return '', spell(v, k)
    if j == 4:
        return '', ('0 - %d' % -v) if v < 0 else ('%d + 0' % v)
    if j == 5:
        return '', '(%d)' % v
    if j == 6:
        return '', ('~%d' % (-v - 1)) if v < 0 else ('~(%d)' % (-v - 1))          # ~x = -x - 1
    if j == 7:
        return 'VAL = %d\n    ' % v, 'VAL'
    return 'A_ = %d\nB_ = A_ - %d\n    ' % (v + 7, 7), 'B_'


def numeric_cases(tier, rnd):
    n_int = 6 if tier == 'quick' else 60
    k = 0
    for name, w in list(SEQ.items()) + list(SHORT.items()):
        for v in boundary_values(w, rnd, n_int):
            k += 1
            kind = 'seq' if name in SEQ else 'short'
            pre, txt = ('', spell(v, k)) if kind == 'seq' else spell_expr(v, k)
            yield kind, name, v, '%s%s %s' % (pre, name, txt)
    for e in '<>':
        for c in 'bBhHiIlLqQ':
            for v in boundary_values(PACKW[c.lower()], rnd, n_int):
                k += 1
                pre, txt = spell_expr(v, k)
                yield 'pack', e + c, v, '%spack %s%s%s%s' % (pre, e, c, ', ' if k % 2 else ' ', txt)


STRINGS = ['a', 'hello', 'hello world', '"quoted"', "it's", 'tab\\there', 'nl\\nx', 'back\\\\slash', 'x\\x41y', ' lead', 'trail ',
           'a  b', 'hash # not a comment', 'comma, separated', 'paren (x)', 'héllo', 'naïve café', 'Grüße', '日本語', 'emoji 😀 ok',
           'mixé 日本 😀', 'ÿ', '\\x7f', 'q\\"q', "q\\'q", 'é\\n', 'ñ\\t€', '~!@$%^&*', 'UPPER lower 123',
           # a backslash that starts no escape stays a backslash, whatever follows it
           # a colon at the end does not make a label of a string
           'Name:', 'Enter value:', 'a: b:', 'x:', 'loop :',
           'C:\\été', '\\é', 'a\\ÿb', '\\¡', '\\€uro', '\\日', '\\😀', 'é\\\\é', 'dir\\ça\\là', '\\q', 'a\\ b', '\\.', 'é\\xe9', '\\xe9é']

NONESC = ' qzeEgG.;:-_+=!@$%^&*[]{}<>|~`?/'          # ASCII characters that start no escape sequence after a backslash
WIDE = 'é¡ÿ×ßñ€Ω日本語😀𝄞'


def random_strings(rnd, n):
    """strings mixing ASCII, 2-/3-/4-byte characters, the escapes the oracle knows, and backslashes followed by characters that
    start no escape (ASCII and non-ASCII); never ending in a lone backslash, never beginning or ending with a blank"""
    out = []
    for _ in range(n):
        t = ''
        for _ in range(rnd.randrange(1, 10)):
            k = rnd.randrange(7)
            if k == 0:
                t += rnd.choice('abcXYZ019 _')
            elif k == 1:
                t += rnd.choice(WIDE)
            elif k == 2:
                t += '\\' + rnd.choice(['n', 't', 'r', '\\', '"', "'", 'x41', 'xe9', 'xff', 'x00'])
            elif k == 3:
                t += '\\' + rnd.choice(WIDE)
            elif k == 4:
                t += '\\' + rnd.choice(NONESC)
            elif k == 5:
                t += rnd.choice(WIDE) + '\\' + rnd.choice(WIDE)
            else:
                t += rnd.choice('#,()')
        t = t.strip()
        if t and (len(t) - len(t.rstrip('\\'))) % 2 == 0:      # no lone backslash at the end (an error, C15's subject)
            out.append(t)
    return out


def run(tier, replay):
    prop = 'C10'
    asm = progs.get_asm()
    if replay:
        d = json.load(open(replay))
        c = d.get('case') or {}
        if 'line' in c and 'expect' in c:
            res = progs.assemble_chunks(asm, c['line'] + '\n', False)
            exp = bytes.fromhex(c['expect']) if c['expect'] not in (None, 'refuse') else None
            bad = (exp is None and res.status != 'asmerr') or (exp is not None and (res.status != 'ok' or res.bytes != exp))
            print('line {!r}: {} {}'.format(c['line'], res.status, res.bytes.hex() if res.bytes else res.exc))
            if bad:
                print('VIOLATION property=C10 replay={}'.format(replay))
                return 1
            print('replayed case no longer fails')
            return 0
        if 'lines' in c:
            return layout_check.replay_case('C10', replay)
        print('VIOLATION property=C10 replay={} no-failing-input-found'.format(replay))
        return 1
    rep = common.Report(prop, tier, level=obligations.LEVEL.get(prop, 'proof'))
    ob = common.check_obligations(prop, obligations.THEOREMS.get(prop, []))
    rnd = common.rng('c10')
    diffs = []
    # ---- 1. every width x values from below the signed minimum to above the unsigned maximum
    cases = list(numeric_cases(tier, rnd))
    reqs = []
    ress = []
    for kind, name, v, line in cases:
        res = progs.assemble_chunks(asm, '    ' + line + '\n', False)
        ress.append(res)
        reqs.append(corr.request('    ' + line + '\n', False))
    model = common.drv(reqs)
    for (kind, name, v, line), res, m in zip(cases, ress, model):
        rep.evaluations += 1
        exp = expected_numeric(kind, name, v)
        rep.nontrivial((name, 'fits' if exp is not None else 'misfit', v < 0, v.bit_length() // 8))
        rep.count('numeric_' + ('accepted' if res.status == 'ok' else 'refused' if res.status == 'asmerr' else 'raw_exception'))
        if exp is None:
            if res.status != 'asmerr':
                rep.violation('{!r}: the value does not fit the width but the outcome is {} {}'.format(
                    line, res.status, res.bytes.hex() if res.bytes else res.exc), dict(case=dict(line=line, expect='refuse', value=v)))
        elif res.status != 'ok' or res.bytes != exp:
            rep.violation('{!r}: documented bytes {} but got {} {}'.format(line, exp.hex(), res.status, res.bytes.hex() if res.bytes else res.exc),
                          dict(case=dict(line=line, expect=exp.hex(), value=v)))
        v2 = corr.compare(m, res)
        rep.count('model_vs_impl_' + v2)
        if v2 == 'differ':
            diffs.append(dict(line=line, model=m[:200], impl=corr.canon_impl(res)[:200]))
    # ---- 2. strings
    reqs = []
    ress = []
    lines = []
    for k, s in enumerate(STRINGS + random_strings(rnd, 150 if tier == 'quick' else 3000)):
        for pre in (('', '    ', '\t') if k < len(STRINGS) else ('    ',)):
            line = pre + 'string ' + s
            lines.append((line, s))
            ress.append(progs.assemble_chunks(asm, line + '\n', False))
            reqs.append(corr.request(line + '\n', False))
    model = common.drv(reqs)
    for (line, s), res, m in zip(lines, ress, model):
        rep.evaluations += 1
        exp = oracle.unescape(s)
        rep.nontrivial(('string', s))
        rep.count('string_' + res.status)
        if res.status != 'ok' or res.bytes != exp:
            rep.violation('{!r}: the UTF-8 of the text after escape processing is {} but got {} {}'.format(
                line, exp.hex(), res.status, res.bytes.hex() if res.bytes else res.exc), dict(case=dict(line=line, expect=exp.hex())))
        v2 = corr.compare(m, res)
        rep.count('model_vs_impl_' + v2)
        if v2 == 'differ':
            diffs.append(dict(line=line, model=m[:200], impl=corr.canon_impl(res)[:200]))
    # text that has no UTF-8 encoding (escapes naming surrogate code points) has no bytes to emit: refused, by whatever exception
    for t in ['\\ud800', 'a\\udfffb', '\\ud83d\\ude00', 'ok \\udc00']:
        res = progs.assemble_chunks(asm, '    string ' + t + '\n', False)
        rep.evaluations += 1
        rep.count('string_surrogate_' + res.status)
        if res.status == 'ok':
            rep.violation('{!r}: a surrogate code point has no UTF-8 encoding but the line assembled to {}'.format('string ' + t, res.bytes.hex()),
                          dict(case=dict(line='string ' + t)))
    # ---- 3. include_bytes: contents x locations x working directories
    n_inc = include_bytes_cases(asm, rep, rnd, tier, diffs)
    rep.count('include_bytes_cases', n_inc)
    rep.count('include_bytes_path_cases', include_bytes_path_cases(asm, rep, rnd, tier))
    # ---- 4. data lines inside whole programs (sizes, order, contents)
    for r in layout_check.collect(tier, 300 if tier == 'quick' else 5000, tag=2):
        rep.evaluations += 1
        for p, compress, msg in r['problems']:
            if p == 'C10':
                rep.violation('{} (compress={}): {}'.format(p, compress, msg),
                              dict(case=dict(program=r['src'], lines=r['lines'], compress=compress, problem=msg, property=p)))
    rep.cov['rule'] = ('every numeric directive and every documented pack format x values at +-2 around the signed minimum, signed maximum, '
                       'unsigned maximum, 0 and 2^bits plus seeded interior and huge values, in decimal/hex/binary; strings with escapes, '
                       'quotes, comment/comma/paren characters and 2-/3-/4-byte UTF-8; include_bytes with random contents (incl. empty) in '
                       'the including directory, in -i directories, with the same name in several directories and decoy files of equal size '
                       'in the working directory, from three working directories; data lines inside generated programs. non-trivial = '
                       'distinct (directive, fits/misfit, sign, magnitude class) / distinct strings / distinct file layouts.')
    rep.cov['model_vs_impl_disagreements'] = len(diffs)
    rep.assumptions += ['struct.pack is modelled for the documented formats only', 'open()/os.path behaviour of the OS is trusted']
    if not rep.violations:
        if ob['failed']:
            rep.violation('proof obligation no longer checks: {}'.format(ob['failed'][0][0]),
                          dict(theorem=ob['failed'][0][0], detail=ob['failed'][0][1]), no_input=True)
        elif diffs:
            rep.violation('correspondence model/implementation broke on {} data inputs, e.g. {}'.format(len(diffs), diffs[0]),
                          dict(correspondence='BB.assembleText vs asm.assemble (data directives)', case=diffs[0]), no_input=True)
    return rep.finish(obligations=ob if ob['obligations'] else None)


def include_bytes_cases(asm, rep, rnd, tier, diffs):
    n = 40 if tier == 'quick' else 400
    root = tempfile.mkdtemp(prefix='bbc10-')
    done = 0
    old = os.getcwd()
    try:
        for i in range(n):
            d = os.path.join(root, 'c%d' % i)
            src_dir = os.path.join(d, 'src')
            inc1 = os.path.join(d, 'inc1')
            inc2 = os.path.join(d, 'inc2')
            other = os.path.join(d, 'elsewhere')
            for p in (src_dir, inc1, inc2, other):
                os.makedirs(p)
            size = rnd.choice([0, 1, 2, 3, 7, 64, 1000])
            content = {k: bytes(rnd.randrange(256) for _ in range(size)) for k in ('src', 'inc1', 'inc2', 'decoy')}
            where = rnd.choice(['src', 'inc1', 'inc2', 'src+inc1', 'inc1+inc2', 'all', 'none'])
            name = rnd.choice(['blob.bin', 'data.dat', 'sub/blob.bin'])
            places = {'src': src_dir, 'inc1': inc1, 'inc2': inc2}
            present = []
            for k, base in places.items():
                if k in where or where == 'all':
                    path = os.path.join(base, name)
                    os.makedirs(os.path.dirname(path), exist_ok=True)
                    open(path, 'wb').write(content[k])
                    present.append(k)
            # a decoy of the same name and size in another working directory
            dp = os.path.join(other, name)
            os.makedirs(os.path.dirname(dp), exist_ok=True)
            open(dp, 'wb').write(content['decoy'])
            main = os.path.join(src_dir, 'main.asm')
            text = 'addi x0 x0 0\ninclude_bytes %s\nalign 4\naddi x0 x0 0\n' % name
            open(main, 'w').write(text)
            dirs = rnd.choice([[], [inc1], [inc1, inc2], [inc2, inc1]])
            # the documented search: -i directories in order, then the including file's directory
            exp = None
            for k in [('inc1' if x == inc1 else 'inc2') for x in dirs] + ['src']:
                if k in present:
                    exp = content[k]
                    break
            outcomes = []
            for cwd in (src_dir, other, root):
                os.chdir(cwd)
                res = progs.assemble_chunks(asm, main, False, include_dirs=list(dirs))
                outcomes.append(res)
            os.chdir(old)
            rep.evaluations += 1
            done += 1
            rep.nontrivial(('incbytes', where, len(dirs), size, name))
            for cwd, res in zip(('src', 'elsewhere', 'root'), outcomes):
                if exp is None:
                    if res.status != 'asmerr':
                        rep.violation('include_bytes of a file that is nowhere on the search path gave {} (cwd {})'.format(res.status + ':' + str(res.exc), cwd),
                                      dict(case=dict(layout=where, dirs=len(dirs), cwd=cwd, name=name)))
                else:
                    want = b'\x13\x00\x00\x00' + exp + b'\x00' * ((-(4 + len(exp))) % 4) + b'\x13\x00\x00\x00'
                    if res.status != 'ok' or res.bytes != want:
                        rep.violation('include_bytes {} (files in {}, -i {} dirs, cwd {}): expected the {} bytes of the file the search finds, got {} {}'.format(
                            name, where, len(dirs), cwd, len(exp), res.status + ':' + str(res.exc), (res.bytes or b'')[:24].hex()),
                            dict(case=dict(layout=where, dirs=len(dirs), cwd=cwd, name=name)))
            # model correspondence (filesystem model)
            files = []
            for base, dn, fns in os.walk(d):
                for fn in fns:
                    p = os.path.join(base, fn)
                    files.append((p, open(p, 'rb').read()))
            dps = [base for base, _, _ in os.walk(d)] + [root, '/']
            req = 'asmfs 0 %s p %s %d %s %d %s %d %s' % (
                common.hexs(src_dir), common.hexs(main), len(dirs), ' '.join(common.hexs(x) for x in dirs), len(files),
                ' '.join('%s %s' % (common.hexs(p), b.hex() or '-') for p, b in files), len(dps), ' '.join(common.hexs(x) for x in dps))
            m, = common.drv([' '.join(req.split())])
            v2 = corr.compare(m, outcomes[0])
            rep.count('model_vs_impl_fs_' + v2)
            if v2 == 'differ':
                diffs.append(dict(layout=where, model=m[:200], impl=corr.canon_impl(outcomes[0])[:200]))
    finally:
        os.chdir(old)
        shutil.rmtree(root, ignore_errors=True)
    return done


def include_bytes_path_cases(asm, rep, rnd, tier):
    """include_bytes through paths the OS resolves in a non-textual way: `..` after a symlinked directory, `./`, `//`,
    parent-relative and absolute paths; every candidate file has the same size, so reading the wrong one is silent.
    Oracle: the operating system itself - the first of (-i directories in order, then the including file's directory)
    under which os.path.join(dir, name) exists, opened directly."""
    n = 24 if tier == 'quick' else 240
    root = tempfile.mkdtemp(prefix='bbc10p-')
    old = os.getcwd()
    done = 0
    try:
        for i in range(n):
            d = os.path.join(root, 'p%d' % i)
            src_dir, shared, inc1, other = (os.path.join(d, x) for x in ('src', 'shared', 'inc1', 'elsewhere'))
            for p in (src_dir, os.path.join(shared, 'assets'), os.path.join(src_dir, 'sub'), inc1, os.path.join(inc1, 'sub'), other):
                os.makedirs(p)
            os.symlink(os.path.join('..', 'shared', 'assets'), os.path.join(src_dir, 'assets'))
            size = rnd.choice([1, 4, 9, 32])
            files = [os.path.join(src_dir, 'data.bin'), os.path.join(shared, 'data.bin'), os.path.join(shared, 'assets', 'x.bin'),
                     os.path.join(src_dir, 'sub', 'y.bin'), os.path.join(other, 'data.bin'), os.path.join(d, 'data.bin'),
                     os.path.join(src_dir, '.hidden.bin'), os.path.join(src_dir, 'hidden.bin'), os.path.join(src_dir, 'shared', 'data.bin')]
            # the including file's own directory may itself be an -i directory, first or last: the list is searched as given
            dirs = rnd.choice([[], [inc1], [src_dir, inc1], [inc1, src_dir]])
            if len(dirs) == 2 or rnd.random() < 0.5:
                files += [os.path.join(inc1, 'data.bin'), os.path.join(inc1, 'sub', 'y.bin')]
            for k, f in enumerate(files):
                os.makedirs(os.path.dirname(f), exist_ok=True)
                open(f, 'wb').write(bytes([k * 16 + 1 + (j % 13) for j in range(size)]))
            names = ['assets/../data.bin', 'sub/../data.bin', './data.bin', 'assets/x.bin', 'sub/./y.bin', 'sub//y.bin',
                               '../shared/data.bin', '../data.bin', 'assets/../assets/x.bin', os.path.join(shared, 'data.bin'),
                               'assets/../../src/data.bin', './.hidden.bin', './../shared/data.bin', './/data.bin', '.hidden.bin']
            name = names[i % len(names)] if i < len(names) else rnd.choice(names)      # every spelling at least once
            main = os.path.join(src_dir, 'main.asm')
            open(main, 'w').write('include_bytes %s\n' % name)
            exp = None
            for base in list(dirs) + [src_dir]:
                p = os.path.join(base, name)
                if os.path.exists(p):
                    exp = open(p, 'rb').read()
                    break
            for cwd in (src_dir, other, d):
                os.chdir(cwd)
                res = progs.assemble_chunks(asm, main, False, include_dirs=list(dirs))
                os.chdir(old)
                rep.evaluations += 1
                if exp is None:
                    bad = res.status != 'asmerr'
                else:
                    bad = res.status != 'ok' or res.bytes != exp
                if bad:
                    rep.violation('include_bytes {} (-i {} dirs, cwd {}): the search finds {} but the outcome is {} {}'.format(
                        name, len(dirs), os.path.basename(cwd), exp.hex() if exp is not None else 'nothing',
                        res.status + ':' + str(res.exc), (res.bytes or b'')[:32].hex()),
                        dict(case=dict(layout='symlinked assets -> ../shared/assets; equal-size files', name=name, dirs=len(dirs),
                                       cwd=os.path.basename(cwd))))
            rep.nontrivial(('incpath', name if not name.startswith('/') else 'absolute', len(dirs), len(files)))
            done += 1
    finally:
        os.chdir(old)
        shutil.rmtree(root, ignore_errors=True)
    return done
