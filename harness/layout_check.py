"""Program-level checks shared by C03 (transfers land, label table exact), C09 (in-order
concatenation, minimal zero padding) and the data-bytes part of C10."""
import json
import multiprocessing as mp
import os

from harness import common, corr, oracle, progs, obligations

OWN = {
    'C01': ('C01',),
    'C03': ('C03',),
    'C09': ('C09',),
    'C10': ('C10',),
    'C11': ('C01',),
}


def collect(tier, n, tag=0):
    """run n generated programs through all layout oracles; returns the raw per-program results"""
    args = [(common.seed(), tag * 1000003 + i, tier) for i in range(n)]
    ctx = mp.get_context('fork')
    with ctx.Pool(min(16, os.cpu_count() or 4)) as pool:
        return pool.map(one_case, args, chunksize=8)


def far_program(rnd):
    """pessimistically-far and really-far layouts (DESIGN §5 C03): `align 0x200000` at offset 0 costs
    nothing in the output but 2 MiB in the pessimistic layout"""
    L = progs.Ln
    lines = []
    kind = rnd.randrange(8)
    n1 = rnd.choice([0, 1, 2, 511, 512, 513, 1022, 1023, 1024, 1025, 2046, 2047, 2048])
    nops = lambda n: [L('    addi x0 x0 0', 'instr', 'addi', [('r', 0), ('r', 0), ('i', 0)]) for _ in range(n)]
    if kind == 0:       # backward, pessimistically far
        lines += [L('T:', 'label', 'T'), L('    align 0x200000', 'align', 'align', [0x200000])]
        lines += nops(n1)
        lines += [L('    %s T' % rnd.choice(['call', 'tail']), 'pjump', None, [], 'T')]
        lines[-1].name = lines[-1].text.split()[0]
    elif kind == 1:     # forward, pessimistically far
        nm = rnd.choice(['call', 'tail'])
        lines += nops(rnd.randrange(0, 3))
        lines += [L('    %s T' % nm, 'pjump', nm, [], 'T')]
        lines += nops(rnd.randrange(0, 3))
        lines += [L('    align 0x200000', 'align', 'align', [0x200000])]
        lines += nops(n1)
        lines += [L('T:', 'label', 'T')]
        lines += nops(1)
    elif kind == 2:     # really far (1 MiB+ of padding in the output)
        nm = rnd.choice(['call', 'tail'])
        lines += nops(rnd.randrange(1, 4))
        lines += [L('    %s T' % nm, 'pjump', nm, [], 'T')]
        lines += [L('    align 0x200000', 'align', 'align', [0x200000])]
        lines += nops(rnd.choice([0, 1, 2, 3, 510, 511, 512, 513]))
        lines += [L('T:', 'label', 'T')]
        lines += nops(1)
    elif kind in (6, 7):  # a transfer whose distance sits on the edge of the 32-bit form's reach: refused, or it lands
        filler = lambda n: [L('    string ' + 'a' * n, 'string', 'string', ['a' * n])]
        a, b = rnd.choice([(1, 2), (5, 0), (31, 31), (17, 8)])
        if rnd.random() < 0.75:
            nm = rnd.choice(['beq', 'bne', 'blt', 'bge', 'bltu', 'bgeu'])
            t = L('    %s x%d, x%d, T' % (nm, a, b), 'branch', nm, [a, b], 'T')
            dist = rnd.choice([4094, 4096, 4098, 4092, -4096, -4098, -4094, -4100])
        else:
            nm, rd = rnd.choice([('jal', 1), ('jal', 5), ('j', 0)])
            t = L('    jal x%d, T' % rd, 'jal', 'jal', [rd], 'T') if nm == 'jal' else L('    j T', 'pjump', 'j', [], 'T')
            dist = rnd.choice([(1 << 20) - 2, 1 << 20, (1 << 20) + 2, -(1 << 20), -(1 << 20) - 2, -(1 << 20) + 2])
        pre = nops(rnd.randrange(0, 3))
        if dist > 0:
            lines += pre + [t] + filler(dist - 4) + [L('T:', 'label', 'T')] + nops(1)
        else:
            lines += pre + [L('T:', 'label', 'T')] + filler(-dist) + [t] + nops(1)
    elif kind in (4, 5):  # really far, with the low part of the offset exactly 0 / 0x800 / next to them
        nm = rnd.choice(['call', 'tail'])
        nb = rnd.randrange(1, 4)
        lines += nops(nb)
        lines += [L('    %s T' % nm, 'pjump', nm, [], 'T')]
        lines += [L('    align 0x200000', 'align', 'align', [0x200000])]
        # (the offset seen by the passes before resolve_aligns still contains the pessimistic 2 MiB, so
        #  2040..2048 compressed nops put its low part on 0 at decision time)
        lines += nops(rnd.choice([nb, nb, nb + 512, nb + 1024, nb + 511, nb + 513, nb + 1023, nb + 1025] + list(range(2038, 2050))))
        lines += [L('T:', 'label', 'T')]
        lines += nops(1)
    else:               # near jumps at the +-1 MiB edge are out of scope for quick; boundary of jal range
        nm = rnd.choice(['j', 'jal', 'call', 'tail'])
        lines += [L('T:', 'label', 'T')]
        lines += nops(n1)
        lines += [L('    %s T' % nm, 'pjump', nm, [], 'T')]
        lines += [L('U:', 'label', 'U')]
        lines += nops(2)
    return lines


def one_case(args):
    seedv, idx, tier = args
    os.environ['VERIF_SEED'] = str(seedv)
    asm = progs.get_asm()
    rnd = common.rng('layout:%d' % idx)
    if idx % 10 == 9:
        lines = far_program(rnd)
    else:
        lines = progs.gen_program(rnd)
    src = progs.source(lines)
    out = dict(idx=idx, src=src, lines=[l.to_json() for l in lines], problems=[], status={}, nontrivial=[], stats={})
    batch = oracle.Batch()
    pend = {}
    lays = {}
    corr_ids = {}
    ress = {}
    big = len(src) > 200000 or '0x200000' in src and any(l.kind == 'pjump' and l.label == 'T' and i < 8 for i, l in enumerate(lines))
    for compress in (False, True):
        res = progs.assemble_chunks(asm, src, compress)
        ress[compress] = res
        if not (res.status == 'ok' and len(res.bytes) > 300000):
            corr_ids[compress] = batch.ask(corr.request(src, compress))
        out['status'][compress] = res.status + (':' + str(res.exc) if res.status != 'ok' else '')
        if res.status != 'ok':
            continue
        bad, lay = oracle.check_structure(lines, res, compress)
        for prop, msg in bad:
            out['problems'].append((prop, compress, msg))
        pend[compress] = oracle.ask_transfers(batch, lines, lay)
        pend_m = pend.setdefault('meaning', {})
        pend_m[compress] = oracle.ask_instr_meaning(batch, lines, lay)
        lays[compress] = lay
        # measured non-triviality: (number of transfers, labels moved by compression / shrinking)
        out['stats'][compress] = dict(bytes=len(res.bytes), labels=dict(res.labels))
    batch.run()
    out['corr'] = {}
    for compress, q in corr_ids.items():
        verdict = corr.compare(batch.get(q), ress[compress])
        out['corr'][compress] = verdict
        if verdict == 'differ':
            out.setdefault('corr_diff', []).append(dict(compress=compress, model=batch.get(q)[:300], impl=corr.canon_impl(ress[compress])[:300]))
    for compress, p in pend.items():
        if compress == 'meaning':
            continue
        for prop, msg in oracle.eval_transfers(batch, p, lays[compress]):
            out['problems'].append((prop, compress, msg))
    for compress, p in pend.get('meaning', {}).items():
        for prop, msg in oracle.eval_instr_meaning(batch, p):
            out['problems'].append((prop, compress, msg))
    kinds = sorted(set(l.kind for l in lines))
    out['nontrivial'] = (tuple(kinds), len(lines) // 8, tuple(sorted(out['status'].items())))
    out['n_transfers'] = sum(1 for l in lines if l.kind in oracle.TRANSFER_KINDS)
    return out


def run_layout(prop, tier, replay):
    if replay:
        return replay_case(prop, replay)
    rep = common.Report(prop, tier, level=obligations.LEVEL.get(prop, 'exploration'))
    ob = common.check_obligations(prop, obligations.THEOREMS.get(prop, []))
    n = 1500 if tier == 'quick' else 30000
    args = [(common.seed(), i, tier) for i in range(n)]
    ctx = mp.get_context('fork')
    with ctx.Pool(min(16, os.cpu_count() or 4)) as pool:
        results = pool.map(one_case, args, chunksize=8)
    transfers = 0
    corr_diff = []
    for r in results:
        rep.evaluations += 1
        for c, v in r.get('corr', {}).items():
            rep.count('model_vs_impl_' + v)
        for d in r.get('corr_diff', []):
            corr_diff.append(dict(program=r['src'], lines=r['lines'], **d))
        rep.nontrivial(r['nontrivial'])
        transfers += r['n_transfers']
        for c, st in r['status'].items():
            rep.count('assemble_%s_%s' % ('c' if c else 'nc', st))
        for p, compress, msg in r['problems']:
            if p in OWN[prop]:
                rep.violation('{} (compress={}): {}'.format(p, compress, msg),
                              dict(case=dict(program=r['src'], lines=r['lines'], compress=compress, problem=msg, property=p)))
            else:
                rep.count('other_property_problem_' + p)
        if len(rep.samples) < 3 and r['status'].get(True) == 'ok':
            rep.sample(dict(program=r['src'][:600], stats=r['stats']))
    rep.count('control_transfers_checked', transfers)
    rep.cov['programs'] = len(results)
    rep.cov['rule'] = ('seeded programs mixing literal instructions biased to RVC edges, branches/jumps/pseudo-branches/call/tail '
                       'to labels in both directions, all pseudo-instructions, data directives, aligns and filler runs sized '
                       'around every distance class; every 10th program is a pessimistically- or really-far call/tail layout '
                       '(align 0x200000); each assembled with and without -c. non-trivial = distinct (set of line kinds, '
                       'size class, outcome pair).')
    rep.assumptions += ['chunks are observed by wrapping asm.resolve_blobs from outside; label offsets are recomputed from chunk lengths']
    if prop == 'C03':
        # an assembler nobody here wrote: LLVM 14 on the same programs (no -c, no relaxation): bytes and label addresses
        from harness import llvmx
        rep.count('programs_compared_with_llvm', llvmx.program_check(rep, prop, tier))
    if prop == 'C03':
        # the programs the repository ships (examples/, with the definitions directory): model = implementation
        nex, exdiff = corr.examples_check(rep, prop)
        corr_diff += [dict(program='examples/' + e['example'], lines=[], compress=e['compress'], model=e['model'], impl=e['impl']) for e in exdiff]
    rep.cov['model_vs_impl_disagreements'] = len(corr_diff)
    if not rep.violations and ob['failed']:
        rep.violation('proof obligation no longer checks: {} ({})'.format(ob['failed'][0][0], ob['failed'][0][1][:300]),
                      dict(theorem=ob['failed'][0][0], detail=ob['failed'][0][1]), no_input=True)
    elif not rep.violations and corr_diff:
        d = corr_diff[0]
        rep.violation('correspondence assembleText (Lean model) vs asm.assemble broke on {} programs; first: model {} / impl {}'.format(
            len(corr_diff), d['model'][:120], d['impl'][:120]),
            dict(correspondence='BB.assembleText vs asm.assemble', case=d), no_input=True)
    return rep.finish(obligations=ob if ob['obligations'] else None)


def check_program(asm, lines, compress):
    """all layout oracles on one program in one mode -> (status, [(prop, msg)])"""
    src = progs.source(lines)
    res = progs.assemble_chunks(asm, src, compress)
    if res.status != 'ok':
        return res.status + ':' + str(res.exc), []
    bad, lay = oracle.check_structure(lines, res, compress)
    batch = oracle.Batch()
    pend = oracle.ask_transfers(batch, lines, lay)
    pm = oracle.ask_instr_meaning(batch, lines, lay)
    batch.run()
    bad += oracle.eval_transfers(batch, pend, lay)
    bad += oracle.eval_instr_meaning(batch, pm)
    return 'ok', bad


def replay_case(prop, path):
    d = json.load(open(path))
    c = d.get('case') or {}
    if 'lines' not in c:
        print('replay file names no program:', d.get('what'))
        print('VIOLATION property={} replay={} no-failing-input-found'.format(prop, path))
        return 1
    asm = progs.get_asm()
    lines = [progs.Ln.from_json(j) for j in c['lines']]
    status, bad = check_program(asm, lines, c.get('compress', False))
    print('status:', status)
    mine = [(p, m) for p, m in bad if p in OWN[prop]]
    for p, m in mine:
        print(' ', p, m)
    if mine:
        print('VIOLATION property={} replay={}'.format(prop, path))
        return 1
    print('replayed program no longer violates', prop)
    return 0
