"""C08 — label arithmetic (%offset, %position, bare labels) uses final addresses.

Programs whose immediates and data refer to labels in every documented way are assembled (both
modes); label offsets are recomputed from the per-item chunks; the value each referring item encodes is
recovered with the Lean specification (decoded immediates, executed li) or read from the data bytes
and compared with the value the final offsets give.
"""
import json
import multiprocessing as mp
import os

from harness import common, known, oracle, progs, obligations, sem_check

M32 = 1 << 32
L = progs.Ln


def nops(n):
    return [L('    addi x0 x0 0', 'instr', 'addi', [('r', 0), ('r', 0), ('i', 0)]) for _ in range(n)]


def ref_expr(rnd, lab, wide=False):
    """(text, kind, base) of a label-referring expression; wide = the consumer holds 64 bits"""
    k = rnd.random()
    if k < 0.35:
        return lab, 'bare', 0
    if k < 0.7:
        base = rnd.choice([0, 4, 0x1000, 0x08000000, 0x20000000, 0x80000000, 0xfffff000, rnd.randrange(0, M32) & ~3])
        txt = hex(base) if rnd.random() < 0.7 else str(base)
        r = rnd.random()
        if wide and r < 0.4:
            # a 64-bit table entry: the sum does not fit 32 bits and must not be folded into them
            base = rnd.choice([1 << 32, 0xffffffc000000000, (1 << 63) - 0x10000, 0x100000000 + (rnd.randrange(0, M32) & ~3), 0xffffffff])
            txt = hex(base)
        elif r < 0.3:
            # a base written as an expression whose top-level operator binds looser than the `+` of label + base
            a, b = rnd.choice([(0x20000000, 0x400), (0x08000000, 0x1c), (0x40021000, 0x3), (0x1000, 0x10), (0xff00, 0x0ff0)])
            op = rnd.choice(['|', '^', '&', '<<', '>>'])
            if op in ('<<', '>>'):
                a, b = rnd.choice([(1, 11), (3, 12), (0x80000000, 4), (0x12345, 8), (1, 20)])
            txt = '%s %s %s' % (hex(a), op, b if op in ('<<', '>>') else hex(b))
            base = {'|': a | b, '^': a ^ b, '&': a & b, '<<': a << b, '>>': a >> b}[op]
            return '%%position(%s, %s)' % (lab, txt), 'position', base
        form = rnd.choice(['%%position(%s, %s)', '%%position %s %s'])
        return form % (lab, txt), 'position', base
    form = rnd.choice(['%%offset(%s)', '%%offset %s'])
    return form % lab, 'offset', 0


def gen_label_program(rnd, arith=False):
    """label-referring items before/after their label, across aligns, compressible code and
    shrinking pseudo-instructions"""
    nlab = rnd.randrange(1, 4)
    labels = ['A%d' % i for i in range(nlab)]
    if rnd.random() < 0.3:
        # labels may be named like registers (or like nothing in particular): a reference is still the label's address
        for i, nm in enumerate(rnd.sample(['tp', 's0', 'fp', 'x5', 'ra', 'a0', 't6', 'gp', 'x31', 'sp'], nlab)):
            if rnd.random() < 0.6:
                labels[i] = nm
    body = []
    n = rnd.randrange(4, 18)
    for _ in range(n):
        k = rnd.random()
        lab = rnd.choice(labels)
        if k < 0.2:
            d = rnd.choice(['dw', 'pack <I', 'pack <i', 'dd', 'pack >I', 'pack <Q', 'dd'])
            txt, kind, base = ref_expr(rnd, lab, wide=d in ('dd', 'pack <Q'))
            body.append(L('    %s %s' % (d, txt), 'dref', d, [kind, base], lab))
        elif k < 0.4:
            txt, kind, base = ref_expr(rnd, lab)
            rd = progs.creg(rnd)
            if arith and rnd.random() < 0.3:
                c = rnd.choice([2040, 2051, 4000, 100])
                body.append(L('    li %s, %d - %s' % (progs.reg_txt(rnd, rd), c, lab), 'liarith', 'li', [rd], lab, extra=c))
            else:
                body.append(L('    li %s, %s' % (progs.reg_txt(rnd, rd), txt), 'liref', 'li', [rd, kind, base], lab))
        elif k < 0.5:
            # %hi/%lo pair of a label-based expression
            txt, kind, base = ref_expr(rnd, lab)
            if kind == 'offset':
                txt, kind, base = lab, 'bare', 0
            rd = rnd.randrange(5, 32)
            body.append(L('    lui %s, %%hi(%s)' % (progs.reg_txt(rnd, rd), txt), 'hiref', 'lui', [rd, kind, base], lab))
            body.append(L('    addi %s, %s, %%lo(%s)' % (progs.reg_txt(rnd, rd), progs.reg_txt(rnd, rd), txt), 'loref', 'addi',
                          [rd, kind, base], lab))
        elif k < 0.58:
            # a plain label / offset as a small I-type immediate
            txt, kind, base = (lab, 'bare', 0) if rnd.random() < 0.5 else ('%%offset(%s)' % lab, 'offset', 0)
            rd, rs = progs.creg(rnd), progs.creg(rnd)
            body.append(L('    addi %s, %s, %s' % (progs.reg_txt(rnd, rd), progs.reg_txt(rnd, rs), txt), 'immref', 'addi',
                          [rd, rs, kind, base], lab))
        elif k < 0.61:
            # a hand-written compressed jump / branch takes its operand as a plain value: a bare label there is the label's
            # address (not a distance), like in any other immediate
            form = rnd.choice(['c.j %s', 'c.jal %s', 'c.beqz x8, %s', 'c.bnez x15, %s'])
            body.append(L('    ' + form % lab, 'cimmref', form.split()[0], ['bare', 0], lab))
        elif k < 0.7:
            name, ops = progs.gen_instr(rnd)
            body.append(L(progs.line_text(rnd, name, ops), 'instr', name, ops))
        elif k < 0.8:
            rd = progs.creg(rnd)
            v = rnd.choice([0, 5, 2047, 2048, -2048, 0x12345678])
            body.append(L('    li %s, %d' % (progs.reg_txt(rnd, rd), v), 'li', 'li', [rd], extra=v))
        elif k < 0.86:
            body.append(L('    align %d' % rnd.choice([1, 1, 2, 4, 8, 16, 64]), 'align', 'align', [rnd.choice([4])]))
            body[-1].ops = [int(body[-1].text.split()[1])]
        elif k < 0.89:
            # text whose UTF-8 length differs from its character count, re-aligned so that code may follow
            t = rnd.choice(['héllo', '€', 'naïve café', '日本語', '😀 ok', 'añ', 'ß', 'plain'])
            body.append(L('    string ' + t, 'string', 'string', [t]))
            body.append(L('    align 4', 'align', 'align', [4]))
        elif k < 0.92:
            # pseudo-instructions that only become compressible after their expansion (second pass)
            a, b = progs.creg(rnd), progs.creg(rnd)
            body.append(rnd.choice([L('    mv x%d, x%d' % (a, b), 'unary', 'mv', [a, b]), L('    ret', 'p0', 'ret'),
                                    L('    nop', 'p0', 'nop'), L('    li x%d, %d' % (a, rnd.randrange(-32, 32)), 'li', 'li', [a], extra=None)]))
        elif k < 0.95:
            body += nops(rnd.choice([1, 3, 7, 15, 16, 100, 511, 512, 513, 1023, 1024]))
        else:
            body.append(L('    %s %s' % (rnd.choice(['call', 'tail', 'j']), lab), 'pjump', None, [], lab))
            body[-1].name = body[-1].text.split()[0]
    far = rnd.random() < 0.3
    if far:
        # far call / tail (the target looks 2 MiB away while the decisions are taken) in front of later-shrinking items
        for _ in range(rnd.randrange(1, 3)):
            nm = rnd.choice(['call', 'tail'])
            body.insert(rnd.randrange(0, len(body) + 1), L('    %s FAR0' % nm, 'pjump', nm, [], 'FAR0'))
    alias_of = {}
    if rnd.random() < 0.3 and len(labels) >= 2:
        alias_of[labels[-1]] = labels[0]          # two names for one address: both move together, always
    for lab in labels:
        if lab in alias_of:
            continue
        pos = rnd.randrange(0, len(body) + 1)
        if rnd.random() < 0.4:
            hot = [i + 1 for i, l in enumerate(body) if l.kind in ('pjump', 'string', 'align', 'unary', 'p0')]
            if hot:
                pos = rnd.choice(hot)           # directly behind an item whose size is delicate
        body.insert(pos, L('%s:' % lab, 'label', lab))
    for lab, other in alias_of.items():
        at = [i for i, l in enumerate(body) if l.kind == 'label' and l.name == other][0]
        body.insert(at + rnd.choice([0, 1]), L('%s:' % lab, 'label', lab))
    if far:
        body = [L('FAR0:', 'label', 'FAR0'), L('    align 0x200000', 'align', 'align', [0x200000])] + body
    return body


def ref_value(kind, base, lab_off, item_off):
    if kind == 'bare':
        return lab_off
    if kind == 'position':
        return base + lab_off
    return lab_off - item_off


def evaluate(asm, lines, idx=0):
    src = progs.source(lines)
    out = dict(idx=idx, src=src, lines=[l.to_json() for l in lines], problems=[], status={}, n_refs=0,
               moved=False, kinds=sorted(set(l.kind for l in lines)))
    for compress in (False, True):
        res = progs.assemble_chunks(asm, src, compress)
        out['status'][compress] = res.status + ('' if res.status == 'ok' else ':' + str(res.exc))
        out.setdefault('size', {})[compress] = len(res.bytes) if res.bytes is not None else None
        out.setdefault('labels', {})[compress] = dict(res.labels)
        out.setdefault('err_line', {})[compress] = res.err_line
        if res.status != 'ok':
            continue
        lay = oracle.Layout(lines, res)
        batch = oracle.Batch()
        plan = []
        for i, ln in enumerate(lines, 1):
            b = lay.line_bytes(i)
            off = lay.start[i]
            if ln.kind == 'dref':
                kind, base = ln.ops
                want = ref_value(kind, base, lay.label_off[ln.label], off)
                w = 8 if ln.name in ('dd', 'pack <Q') else 4
                big = ln.name.startswith('pack >')
                got = int.from_bytes(b, 'big' if big else 'little')
                out['n_refs'] += 1
                if len(b) != w or got != want % (1 << (8 * w)):
                    out['problems'].append(('C08', compress, 'line {} {!r} at offset {}: data {} encodes {} but {} of label {} (offset {}) is {}'.format(
                        i, ln.text.strip(), off, b.hex(), got, kind, ln.label, lay.label_off[ln.label], want), ln.text))
            elif ln.kind in ('liref', 'liarith'):
                nchunks = len(lay.by_line.get(i, []))
                plan.append((i, ln, off, b, batch.ask('run %s %d %d 5 %d' % (b.hex() or '00', off, off, nchunks))))
            elif ln.kind == 'cimmref':
                plan.append((i, ln, off, b, batch.ask('dec16x %d' % int.from_bytes(b[:2], 'little'))))
            elif ln.kind in ('hiref', 'loref', 'immref'):
                if len(b) == 4:
                    plan.append((i, ln, off, b, batch.ask('dec32 %d' % int.from_bytes(b, 'little'))))
                else:
                    plan.append((i, ln, off, b, batch.ask('dec16x %d' % int.from_bytes(b, 'little'))))
        batch.run()
        pending_hi = {}
        for i, ln, off, b, rid in plan:
            out['n_refs'] += 1
            rep = batch.get(rid)
            lo = lay.label_off[ln.label]
            if ln.kind in ('liref', 'liarith'):
                if ln.kind == 'liref':
                    want = ref_value(ln.ops[1], ln.ops[2], lo, off)
                else:
                    want = ln.extra - lo
                if rep.startswith('illegal'):
                    out['problems'].append(('C08', compress, 'line {} {!r}: {} is not legal code'.format(i, ln.text.strip(), b.hex()), ln.text))
                    continue
                _, _, _, regs, _ = sem_check.parse_run(rep)
                rd = ln.ops[0]
                if rd != 0 and regs[rd] != want % M32:
                    out['problems'].append(('C08', compress, 'line {} {!r} at offset {} = {}: loads {} but the value from the final offset of {} ({}) is {}'.format(
                        i, ln.text.strip(), off, b.hex(), regs[rd], ln.label, lo, want % M32), ln.text))
            elif ln.kind == 'cimmref':
                d = rep.split()
                imm = int(d[-1]) if d and d[0] in ('jal', 'branch') else None
                if len(b) != 2 or imm != lo:
                    out['problems'].append(('C08', compress, 'line {} {!r} at offset {} = {}: encodes {} but the address of {} is {}'.format(
                        i, ln.text.strip(), off, b.hex(), rep, ln.label, lo), ln.text))
            else:
                d = rep.split()
                if ln.kind == 'hiref':
                    pending_hi[(ln.ops[0], ln.label)] = (i, ln, int(d[2]) if d[0] == 'lui' else None)
                elif ln.kind == 'loref':
                    hi = pending_hi.get((ln.ops[0], ln.label))
                    want = ref_value(ln.ops[1], ln.ops[2], lo, off)
                    imm = int(d[-1]) if d[0] == 'i' else (0 if d[0] == 'r' else None)   # c.mv = add rd, x0, rs
                    if hi is None or hi[2] is None or imm is None or ((hi[2] << 12) + imm - want) % M32 != 0:
                        # which half is wrong?  if the low part is the %lo of the right value, the line at fault is the lui
                        want_lo = ((want + 0x800) & 0xfff) - 0x800
                        blame = hi[1].text if (hi is not None and imm == want_lo) else ln.text
                        out['problems'].append(('C08', compress, 'line {} {!r} at offset {} = {}: pair decodes to hi={} lo={} but the value is {} ({} part wrong)'.format(
                            i, ln.text.strip(), off, b.hex(), hi[2] if hi else None, imm, want, 'upper' if blame is not ln.text else 'lower'), blame))
                else:
                    want = ref_value(ln.ops[2], ln.ops[3], lo, off)
                    imm = int(d[-1]) if d and d[0] in ('i',) else (0 if d and d[0] == 'r' else None)
                    if d and d[0] == 'r':
                        # c.mv / add form: only legitimate when the value is 0
                        imm = 0
                    if imm != want:
                        out['problems'].append(('C08', compress, 'line {} {!r} at offset {} = {}: encodes immediate {} but {} gives {}'.format(
                            i, ln.text.strip(), off, b.hex(), imm, ln.label, want), ln.text))
    return out


def gen_hi_boundary(rnd):
    """%hi / %lo of a label whose address sits on a k*4096 + 0x800 boundary - where %hi changes - in the final layout
    but not yet while the early decisions (compression, li width) are taken: shrinking items in front of it"""
    body = []
    for _ in range(rnd.randrange(1, 4)):
        body.append(rnd.choice([L('    align 8', 'align', 'align', [8]), L('    align 4', 'align', 'align', [4]),
                                L('    li x5, 3', 'li', 'li', [5], extra=3), L('    mv x8, x9', 'unary', 'mv', [8, 9])]))
    # bases that keep %hi inside the c.lui operand set (-32..31, not 0) on BOTH sides of the boundary, and some that do not
    base = rnd.choice([0, 0x1000, 0x1000, 0x2000, 0x5000, 0x1e000, 0x1f000, 0xfffe0000, 0xffffe000, 0x08000000, 0x20000000, 0xfffff000])
    txt, kind = ('A0', 'bare') if base == 0 else ('%%position(A0, 0x%x)' % base, 'position')
    rd = rnd.randrange(5, 32)
    pair = [L('    lui x%d, %%hi(%s)' % (rd, txt), 'hiref', 'lui', [rd, kind, base], 'A0'),
            L('    addi x%d, x%d, %%lo(%s)' % (rd, rd, txt), 'loref', 'addi', [rd, kind, base], 'A0')]
    n = rnd.choice([rnd.randrange(505, 516), rnd.randrange(1016, 1031), 510, 511, 1021, 1022, 1023])
    if rnd.random() < 0.6:
        body += pair + nops(n) + [L('A0:', 'label', 'A0')] + nops(2)
    else:
        body += nops(n) + [L('A0:', 'label', 'A0')] + nops(rnd.randrange(0, 3)) + pair
    return body


def one_case(args):
    seedv, idx, tier = args
    os.environ['VERIF_SEED'] = str(seedv)
    asm = progs.get_asm()
    rnd = common.rng('label:%d' % idx)
    if idx % 10 == 9:
        lines = gen_hi_boundary(rnd)
    else:
        lines = gen_label_program(rnd, arith=(idx % 7 == 3))
    return evaluate(asm, lines, idx)


def run(tier, replay):
    prop = 'C08'
    if replay:
        d = json.load(open(replay))
        c = d.get('case') or {}
        if 'lines' not in c:
            print('VIOLATION property=C08 replay={} no-failing-input-found'.format(replay))
            return 1
        r = evaluate(progs.get_asm(), [progs.Ln.from_json(j) for j in c['lines']])
        for p, cm, m, _ in r['problems']:
            print(' ', p, cm, m)
        if r['problems']:
            print('VIOLATION property=C08 replay={}'.format(replay))
            return 1
        print('replayed program no longer violates C08')
        return 0
    rep = common.Report(prop, tier, level=obligations.LEVEL.get(prop, 'exploration'))
    ob = common.check_obligations(prop, obligations.THEOREMS.get(prop, []))
    n = 800 if tier == 'quick' else 15000
    ctx = mp.get_context('fork')
    with ctx.Pool(min(16, os.cpu_count() or 4)) as pool:
        results = pool.map(one_case, [(common.seed(), i, tier) for i in range(n)], chunksize=4)
    kf = known.Known(prop)
    for r in results:
        rep.evaluations += 1
        rep.count('label_references_checked', r['n_refs'])
        rep.nontrivial((tuple(r['kinds']), tuple(sorted(r['status'].items()))))
        for c, st in r['status'].items():
            rep.count('assemble_%s_%s' % ('c' if c else 'nc', st))
        for p, compress, msg, ltxt in r['problems']:
            case = dict(program=r['src'], lines=r['lines'], compress=compress, problem=msg, property=p, line=ltxt)
            if kf.matches(case):
                continue
            rep.violation('{} (compress={}): {}'.format(p, compress, msg), dict(case=case))
        if len(rep.samples) < 3 and r['n_refs'] > 2:
            rep.sample(dict(program=r['src'][:500], refs=r['n_refs']))
    kf.report(rep)
    rep.cov['programs'] = len(results)
    rep.cov['rule'] = ('seeded programs with dw/dd/pack, li, lui+addi %hi/%lo pairs and small I-type immediates referring to labels as '
                       'bare names, %position(L, base) and %offset(L), placed before and after the label, across aligns, compressible '
                       'filler runs and shrinking li/call/tail; both modes. non-trivial = distinct (line-kind set, outcome pair).')
    if not rep.violations and ob['failed']:
        rep.violation('proof obligation no longer checks: {}'.format(ob['failed'][0][0]),
                      dict(theorem=ob['failed'][0][0], detail=ob['failed'][0][1]), no_input=True)
    return rep.finish(obligations=ob if ob['obligations'] else None)
