"""Direct property oracles on what the REAL assembler produced, using the Lean *specification*
(decode32 / decode16 / exec through bbdrv) and an independent walk over the per-item chunks.
The Lean *model of the assembler* is not involved here: these oracles are what turns a broken
correspondence or proof obligation into a concrete failing input (DESIGN.md §4).
"""
import struct

from harness import common, progs

M32 = 1 << 32


class Batch:
    """collects driver requests; `run()` sends them in one go"""

    def __init__(self):
        self.reqs = []
        self.replies = None

    def ask(self, line):
        self.reqs.append(line)
        return len(self.reqs) - 1

    def run(self):
        self.replies = common.drv(self.reqs) if self.reqs else []

    def get(self, i):
        return self.replies[i]


def sx(v, bits):
    v &= (1 << bits) - 1
    return v - (1 << bits) if v >> (bits - 1) else v


def unescape(s):
    """the documented meaning of a string literal: backslash escapes processed (Python's own
    unicode_escape on the ASCII escapes), then UTF-8"""
    out = []
    i = 0
    while i < len(s):
        c = s[i]
        if c == '\\' and i + 1 < len(s):
            n = s[i + 1]
            if n == 'n':
                out.append('\n'); i += 2; continue
            if n == 't':
                out.append('\t'); i += 2; continue
            if n == 'r':
                out.append('\r'); i += 2; continue
            if n == '\\':
                out.append('\\'); i += 2; continue
            if n == '"':
                out.append('"'); i += 2; continue
            if n == "'":
                out.append("'"); i += 2; continue
            if n == 'x' and i + 3 < len(s) + 0 and all(ch in '0123456789abcdefABCDEF' for ch in s[i + 2:i + 4]) and len(s[i + 2:i + 4]) == 2:
                out.append(chr(int(s[i + 2:i + 4], 16))); i += 4; continue
        out.append(c)
        i += 1
    return ''.join(out).encode('utf-8')


def expected_sizes(ln, compress):
    """set of allowed total byte counts for the chunks of a source line (None = unconstrained)"""
    k = ln.kind
    if k in ('label', 'const'):
        return {0}
    if k in ('instr', 'branch', 'jal', 'pbranch1', 'pbranch2', 'unary', 'pjr', 'p0'):
        return {2, 4} if compress else {4}
    if k == 'li':
        return {2, 4, 6, 8} if compress else {4, 8}
    if k == 'pjump':
        if ln.name in ('call', 'tail'):
            return {2, 4, 8} if compress else {4, 8}
        return {2, 4} if compress else {4}
    if k == 'seq':
        w = {'bytes': 1, 'shorts': 2, 'ints': 4, 'longs': 4, 'longlongs': 8}[ln.name]
        return {w * len(ln.ops)}
    if k == 'short':
        return {{'db': 1, 'dh': 2, 'dw': 4, 'dd': 8}[ln.name]}
    if k == 'pack':
        return {{'b': 1, 'h': 2, 'i': 4, 'l': 4, 'q': 8}[ln.name[1].lower()]}
    if k == 'string':
        return {len(unescape(ln.ops[0]))}
    if k in ('dwlabel',):
        return {4}
    if k in ('lilabel',):
        return {2, 4, 6, 8} if compress else {4, 8}
    return None


def data_bytes(ln):
    """documented bytes of a data line, by Python's own int.to_bytes / str.encode"""
    k = ln.kind
    if k == 'seq':
        w = {'bytes': 1, 'shorts': 2, 'ints': 4, 'longs': 4, 'longlongs': 8}[ln.name]
        return b''.join((v % (1 << (8 * w))).to_bytes(w, 'little') for v in ln.ops)
    if k == 'short':
        w = {'db': 1, 'dh': 2, 'dw': 4, 'dd': 8}[ln.name]
        return (ln.ops[0] % (1 << (8 * w))).to_bytes(w, 'little')
    if k == 'pack':
        w = {'b': 1, 'h': 2, 'i': 4, 'l': 4, 'q': 8}[ln.name[1].lower()]
        return (ln.ops[0] % (1 << (8 * w))).to_bytes(w, 'big' if ln.name[0] == '>' else 'little')
    if k == 'string':
        return unescape(ln.ops[0])
    return None


class Layout:
    """independent walk over the chunks of one assembled program"""

    def __init__(self, lines, res):
        self.lines = lines
        self.res = res
        self.by_line, self.total = progs.chunks_by_line(res.chunks)
        # offset at which each source line starts = bytes of all chunks of earlier lines
        self.start = {}
        off = 0
        for i, ln in enumerate(lines, 1):
            self.start[i] = off
            for _, d in self.by_line.get(i, []):
                off += len(d)
        self.label_off = {ln.name: self.start[i] for i, ln in enumerate(lines, 1) if ln.kind == 'label'}

    def line_bytes(self, i):
        return b''.join(d for _, d in self.by_line.get(i, []))


def check_structure(lines, res, compress):
    """C09 / C03(label table) / C10(data bytes): returns list of (prop, message)"""
    bad = []
    lay = Layout(lines, res)
    if b''.join(d for _, _, d in res.chunks) != res.bytes:
        bad.append(('C09', 'output is not the concatenation of the item blobs'))
    lns = [ln for _, ln, _ in res.chunks]
    if lns != sorted(lns):
        bad.append(('C09', 'blobs are not in source order: line numbers {}'.format(lns[:20])))
    for i, ln in enumerate(lines, 1):
        b = lay.line_bytes(i)
        exp = expected_sizes(ln, compress)
        if ln.kind == 'align':
            n = ln.ops[0]
            want = (-lay.start[i]) % n
            if len(b) != want or any(b):
                bad.append(('C09', 'line {} {!r}: at offset {} emitted {} bytes {} (minimal zero padding is {})'.format(
                    i, ln.text.strip(), lay.start[i], len(b), b.hex(), want)))
        elif exp is not None and len(b) not in exp:
            bad.append(('C09', 'line {} {!r}: emitted {} bytes, documented size {}'.format(i, ln.text.strip(), len(b), sorted(exp))))
        elif ln.kind == 'pjump' and ln.name in ('call', 'tail') and len(b) >= 4 and b[0] & 0x7f == 0x17 and len(b) != 8:
            # the far form is a PAIR: an auipc that stands alone means the image of this item is incomplete
            bad.append(('C09', 'line {} {!r}: emitted {} ({} bytes): an auipc without its jalr'.format(i, ln.text.strip(), b.hex(), len(b))))
        elif ln.kind in ('li', 'lilabel') and len(b) in (4, 6) and len(b) >= 4 and b[0] & 0x7f == 0x37 and len(b) == 4:
            bad.append(('C09', 'line {} {!r}: emitted {} ({} bytes): a lui without its addi'.format(i, ln.text.strip(), b.hex(), len(b))))
        db = data_bytes(ln)
        if db is not None and b != db:
            bad.append(('C10', 'line {} {!r}: emitted {} but the documented bytes are {}'.format(i, ln.text.strip(), b.hex(), db.hex())))
    for name, off in lay.label_off.items():
        if res.labels.get(name) != off:
            bad.append(('C03', 'label {} is reported at {} but the bytes before it are {}'.format(name, res.labels.get(name), off)))
    extra = set(res.labels) - set(lay.label_off)
    if extra:
        bad.append(('C03', 'label table has names that are not labels of the program: {}'.format(sorted(extra))))
    if list(res.labels) != [ln.name for ln in lines if ln.kind == 'label']:
        bad.append(('C03', 'label table order {} differs from definition order'.format(list(res.labels))))
    return bad, lay


TRANSFER_KINDS = ('branch', 'jal', 'pbranch1', 'pbranch2', 'pjump')


def ask_transfers(batch, lines, lay):
    """queue decode requests for every control-transfer line; returns list of pending checks"""
    pend = []
    for i, ln in enumerate(lines, 1):
        if ln.kind not in TRANSFER_KINDS:
            continue
        parts = lay.by_line.get(i, [])
        ids = []
        for off, d in parts:
            if len(d) == 4:
                ids.append((off, 4, batch.ask('dec32 %d' % int.from_bytes(d, 'little'))))
            elif len(d) == 2:
                ids.append((off, 2, batch.ask('dec16x %d' % int.from_bytes(d, 'little'))))
            else:
                ids.append((off, len(d), None))
        pend.append((i, ln, ids))
    return pend


def eval_transfers(batch, pend, lay):
    bad = []
    for i, ln, ids in pend:
        want = lay.label_off.get(ln.label)
        decs = [(off, n, batch.get(r).split() if r is not None else None) for off, n, r in ids]
        tgt = None
        desc = ' ; '.join(' '.join(d) if d else '?' for _, _, d in decs)
        if len(decs) == 1 and decs[0][2]:
            off, n, d = decs[0]
            if d[0] in ('branch', 'jal'):
                tgt = off + int(d[-1])
        elif len(decs) == 2 and decs[0][2] and decs[1][2] and decs[0][2][0] == 'auipc' and decs[1][2][0] == 'jalr':
            off = decs[0][0]
            field = int(decs[0][2][2])
            lo = int(decs[1][2][-1])
            if decs[1][2][2] == decs[0][2][1]:        # jalr base = auipc rd
                tgt = (off + (field << 12) + lo) % M32
                want = want % M32 if want is not None else None
        if tgt is None or tgt != want:
            bad.append(('C03', 'line {} {!r}: emitted [{}], which transfers to {} but label {} is at {}'.format(
                i, ln.text.strip(), desc, tgt, ln.label, lay.label_off.get(ln.label))))
        else:
            # operation / registers must be what the line names
            msg = check_transfer_meaning(ln, decs)
            if msg:
                bad.append(('C05' if ln.kind.startswith('p') else 'C01', 'line {} {!r}: emitted [{}]: {}'.format(i, ln.text.strip(), desc, msg)))
    return bad


PB1 = {'beqz': ('beq', 'rs', 0), 'bnez': ('bne', 'rs', 0), 'bgez': ('bge', 'rs', 0), 'bltz': ('blt', 'rs', 0),
       'blez': ('bge', 0, 'rs'), 'bgtz': ('blt', 0, 'rs')}
PB2 = {'bgt': 'blt', 'ble': 'bge', 'bgtu': 'bltu', 'bleu': 'bgeu'}


def check_transfer_meaning(ln, decs):
    d = decs[0][2]
    k = ln.kind
    if k == 'branch':
        op = d[1].split('.')[-1]
        if d[0] != 'branch' or op != ln.name or int(d[2]) != ln.ops[0] or int(d[3]) != ln.ops[1]:
            return 'not {} x{} x{}'.format(ln.name, *ln.ops)
    elif k == 'jal':
        if d[0] != 'jal' or int(d[1]) != ln.ops[0]:
            return 'not jal x{}'.format(ln.ops[0])
    elif k == 'pbranch1':
        real, a, b = PB1[ln.name]
        ra = ln.ops[0] if a == 'rs' else 0
        rb = ln.ops[0] if b == 'rs' else 0
        if d[0] != 'branch' or d[1].split('.')[-1] != real or int(d[2]) != ra or int(d[3]) != rb:
            return 'not {} x{} x{}'.format(real, ra, rb)
    elif k == 'pbranch2':
        real = PB2[ln.name]
        if d[0] != 'branch' or d[1].split('.')[-1] != real or int(d[2]) != ln.ops[1] or int(d[3]) != ln.ops[0]:
            return 'not {} x{} x{}'.format(real, ln.ops[1], ln.ops[0])
    elif k == 'pjump':
        if ln.name in ('j', 'jal'):
            rd = 0 if ln.name == 'j' else 1
            if d[0] != 'jal' or int(d[1]) != rd:
                return 'not jal x{}'.format(rd)
        else:
            link = 1 if ln.name == 'call' else 0
            if len(decs) == 1:
                if d[0] != 'jal' or int(d[1]) != link:
                    return 'near {} must be jal x{}'.format(ln.name, link)
            else:
                scratch = 1 if ln.name == 'call' else 6
                d1 = decs[1][2]
                if int(d[1]) != scratch or int(d1[1]) != link or int(d1[2]) != scratch:
                    return 'far {} must be auipc x{} / jalr x{}, x{}'.format(ln.name, scratch, link, scratch)
    return None


def ask_instr_meaning(batch, lines, lay):
    """queue `chk32 name ops word` for every literal-operand instruction line emitted as one 32-bit
    word: the text front end + alias/constant substitution + encoder must produce the word whose
    specification decoding is what the line names (C01 through the whole pipeline, C11)"""
    pend = []
    for i, ln in enumerate(lines, 1):
        if ln.kind != 'instr' or ln.ops is None:
            continue
        b = lay.line_bytes(i)
        if len(b) != 4:
            continue
        ops = ' '.join(('R%d' % v) if k == 'r' else ('I%d' % v) for k, v in ln.ops)
        pend.append((i, ln, b, batch.ask('chk32 %s %s %d' % (ln.name, ops, int.from_bytes(b, 'little')))))
    return pend


def eval_instr_meaning(batch, pend):
    bad = []
    for i, ln, b, q in pend:
        r = batch.get(q)
        if r != 'yes' and r != 'no-intent':
            bad.append(('C01', 'line {} {!r}: emitted {} which the specification decodes as {} - not what the line names ({} {})'.format(
                i, ln.text.strip(), b.hex(), r, ln.name, [v for _, v in ln.ops])))
    return bad
