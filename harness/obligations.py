"""Which theorems decide which property (names as printed by lean/Audit.lean)."""

TABLES = ['BB.Props.Tables.instrTable_matches', 'BB.Props.Tables.registers_str_match',
          'BB.Props.Tables.registers_int_match']

THEOREMS = {
    'C01': TABLES + ['BB.Props.C01.enc32_sound', 'BB.Props.C01.encode32_sound', 'BB.Props.C01.enc32_inj'],
    'C02': TABLES + ['BB.Props.C02.' + n for n in ('lookup_rowOf', 'enc16_sound', 'encode16_sound', 'enc16_legal', 'enc16_inj',
                                                   'ontoChk_all', 'enc16_onto', 'enc16_image')],
    'C06': TABLES + ['BB.Props.C01.enc32_sound', 'BB.Props.C02.enc16_sound'] +
           ['BB.Props.C06.' + n for n in ('complete32', 'accept32_iff_legal', 'complete16', 'accept16_iff_legal',
                                         "accept16_iff_legal'", 'refused_no_word')],
    'C03': ['BB.Lemmas.walk_layout', 'BB.Props.C03.assemble_layout'],
    'C08': ['BB.Lemmas.walk_layout', 'BB.Props.C03.assemble_layout'],
    'C09': ['BB.Lemmas.walk_layout', 'BB.Props.C03.assemble_layout'],
    'C07': ['BB.Props.C07.' + n for n in ('hi_range', 'lo_range', 'hi_lo_sum', 'hi_lo_sum_exact', 'utype_accepts_hi',
                                          'itype_accepts_lo', 'stype_accepts_lo', 'pair_rebuilds')],
}

# evidence level written by each check (must match MANIFEST level_claimed.category)
LEVEL = {p: 'proof' for p in ('C01', 'C02', 'C03', 'C06', 'C07', 'C08', 'C09')}
LEVEL.update({p: 'exploration' for p in ('C04', 'C05', 'C12', 'C20')})
