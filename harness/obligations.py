"""Which theorems decide which property (names as printed by lean/Audit.lean)."""

TABLES = ['BB.Props.Tables.instrTable_matches', 'BB.Props.Tables.registers_str_match',
          'BB.Props.Tables.registers_int_match']

THEOREMS = {
    'C01': TABLES + ['BB.Props.C01.enc32_sound', 'BB.Props.C01.encode32_sound', 'BB.Props.C01.enc32_inj'],
    'C02': TABLES + [],
    'C06': TABLES + [],
    'C03': ['BB.Lemmas.walk_layout', 'BB.Props.C03.assemble_layout'],
    'C08': ['BB.Lemmas.walk_layout', 'BB.Props.C03.assemble_layout'],
    'C09': ['BB.Lemmas.walk_layout', 'BB.Props.C03.assemble_layout'],
    'C07': ['BB.Props.C07.' + n for n in ('hi_range', 'lo_range', 'hi_lo_sum', 'hi_lo_sum_exact', 'utype_accepts_hi',
                                          'itype_accepts_lo', 'stype_accepts_lo', 'pair_rebuilds')],
}
