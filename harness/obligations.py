"""Which theorems decide which property (names as printed by lean/Audit.lean)."""

TABLES = ['BB.Props.Tables.instrTable_matches', 'BB.Props.Tables.registers_str_match',
          'BB.Props.Tables.registers_int_match']

THEOREMS = {
    'C01': TABLES + ['BB.Props.C01.enc32_sound', 'BB.Props.C01.encode32_sound', 'BB.Props.C01.enc32_inj'],
    'C02': TABLES + ['BB.Props.C02.' + n for n in ('lookup_rowOf', 'enc16_sound', 'encode16_sound', 'enc16_legal', 'enc16_inj',
                                                   'ontoChk_all', 'enc16_onto', 'enc16_image')],
    'C06': TABLES + ['BB.Props.C01.enc32_sound', 'BB.Props.C02.enc16_sound'] +
           ['BB.Props.C06.' + n for n in ('complete32', 'accept32_iff_legal', 'complete16', 'accept16_iff_legal',
                                         "accept16_iff_legal'", 'refused_no_word')],
    'C03': ['BB.Lemmas.walk_layout', 'BB.Props.C03.assemble_layout'] + ['BB.Props.C03.' + n for n in ['instrStep_bytes', 'branch_lands', 'jal_lands', 'cj_lands', 'cb_lands', 'far_pair_offsets']] + ['BB.Props.C08.imm_walk_positions', 'BB.Props.C08.offset_value', 'BB.Props.C08.instr_item_value'] + ['BB.Props.C03.' + n for n in ['assemble_land', 'Land.at', 'step_branch', 'step_jal', 'step_cj', 'step_cb', 'assemble_branch_lands', 'assemble_jal_lands', 'assemble_compressed_lands', 'step_auipc', 'step_jalr_pair', 'assemble_far_pair_lands']],
    'C08': ['BB.Lemmas.walk_layout', 'BB.Props.C03.assemble_layout'] + ['BB.Props.C08.' + n for n in ['imm_walk_positions', 'offset_value', 'position_value', 'hi_value', 'lo_value', 'data_item_value', 'instr_item_value', 'immBody_single']] + ['BB.Props.C07.pair_rebuilds', 'BB.Props.C03.assemble_land', 'BB.Props.C03.Land.at'] + ['BB.Props.C08.' + n for n in ['shorthand_item_value', 'shorthand_pack', 'step_shorthand', 'assemble_data_value']],
    'C09': ['BB.Lemmas.walk_layout', 'BB.Props.C03.assemble_layout'] + ['BB.Props.C09.' + n for n in ['assemble_in_order', 'Expands.parts', 'Img.bytes_of_blobs', 'align_minimal', 'align_zero', 'align_emits_zeros']],
    'C10': ['BB.Props.C10.' + n for n in ('fromLE_leBytes', 'packInt_accept_iff', 'packInt_le_value', 'packInt_be_reverse',
                                          'seq_elem_accept_iff')] + ['BB.Props.C03.assemble_layout'],
    'C11': ['BB.Props.TablesFront.formatOf_matches', 'BB.Props.TablesFront.inDict_matches', 'BB.Props.TablesFront.pseudo_matches', 'BB.Props.TablesFront.baseOffset_matches', 'BB.Props.TablesFront.numericSequence_matches', 'BB.Props.TablesFront.shorthandPack_matches'] + ['BB.Props.C11.eval_lit', 'BB.Props.C11.eval_name', 'BB.Props.C11.eval_unknown_name', 'BB.Props.C11.eval_binary', 'BB.Props.C11.eval_unary', 'BB.Props.C11.eval_binary_err_left', 'BB.Props.C11.eval_add', 'BB.Props.C11.eval_sub', 'BB.Props.C11.eval_mul', 'BB.Props.C11.eval_floordiv', 'BB.Props.C11.eval_mod', 'BB.Props.C11.eval_div_zero', 'BB.Props.C11.eval_mod_zero', 'BB.Props.C11.eval_truediv', 'BB.Props.C11.eval_shl', 'BB.Props.C11.eval_shr', 'BB.Props.C11.eval_shift_negative', 'BB.Props.C11.eval_and', 'BB.Props.C11.eval_or', 'BB.Props.C11.eval_xor', 'BB.Props.C11.eval_pos', 'BB.Props.C11.eval_neg', 'BB.Props.C11.eval_inv', 'BB.Props.C11.floordiv_floor', 'BB.Props.C11.mod_spec', 'BB.Props.C11.shr_floor', 'BB.Props.C11.and_bits', 'BB.Props.C11.or_bits', 'BB.Props.C11.xor_bits', 'BB.Props.C11.inv_bits', 'BB.Props.C11.lit_dec', 'BB.Props.C11.lit_hex', 'BB.Props.C11.lit_bin', 'BB.Props.C11.int_spelling', 'BB.Props.C11.lit_arith', 'BB.Props.C11.prec_two_ops', 'BB.Props.C11.unary_binds_tighter', 'BB.Props.C11.unary_stacks', 'BB.Props.C11.parens_override', 'BB.Props.C11.parse_render', 'BB.Props.C11.eval_render'] + ['BB.Props.C11.' + n for n in ['eval_litOf', 'subst_transparent', 'subst_render', 'alias_transparent', 'alias_other']],
    'C13': ['BB.Props.TablesFront.formatOf_matches', 'BB.Props.TablesFront.inDict_matches', 'BB.Props.TablesFront.pseudo_matches', 'BB.Props.TablesFront.baseOffset_matches', 'BB.Props.TablesFront.numericSequence_matches', 'BB.Props.TablesFront.shorthandPack_matches'] + ['BB.Props.C13.sep_irrelevant', 'BB.Props.C13.sep_irrelevant_item', 'BB.Props.C13.blank_line', 'BB.Props.C13.comment_only_line', 'BB.Props.C13.blank_or_comment_no_item', 'BB.Props.C13.reg_spelling', 'BB.Props.C13.base_offset_mnemonics', 'BB.Props.C13.base_offset_forms_load', 'BB.Props.C13.base_offset_forms_store', 'BB.Props.C13.base_offset_load_item', 'BB.Props.C13.lex_paren_form', 'BB.Props.C13.lex_flat_form', 'BB.Props.C13.base_offset_source_load', 'BB.Props.C13.base_offset_source_store'],
    'C07': ['BB.Props.C07.' + n for n in ('hi_range', 'lo_range', 'hi_lo_sum', 'hi_lo_sum_exact', 'utype_accepts_hi',
                                          'itype_accepts_lo', 'stype_accepts_lo', 'pair_rebuilds')],
}

# evidence level written by each check (must match MANIFEST level_claimed.category)
LEVEL = {p: 'proof' for p in ('C01', 'C02', 'C03', 'C06', 'C07', 'C08', 'C09', 'C10', 'C11', 'C13', 'C14', 'C15', 'C17', 'C18', 'C19')}
LEVEL['C16'] = 'translation_validation'
LEVEL.update({p: 'exploration' for p in ('C04', 'C05', 'C12', 'C20')})
