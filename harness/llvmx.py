"""Independent cross-check against LLVM 14's RISC-V assembler / disassembler (llvm-mc-14, pre-installed).

Two uses, neither of which goes through the Lean model of the assembler:

  spec_check : the hand-written SPECIFICATION decoders (BB.Spec.decode32 / decode16, the trusted base of C01 C02
               C03 C04 C05 C06 C20) are compared with llvm-mc's disassembler on all 65 536 halfwords and on
               structured + seeded 32-bit words.  A disagreement is a defect of the specification (or a
               documented difference in what LLVM accepts), never of bronzebeard.
  impl_check : literal instruction lines are assembled by bronzebeard and by llvm-mc; the bytes must be equal.

If llvm-mc-14 is missing both are skipped and counted as such (never a verdict).
"""
import re
import shutil
import subprocess

from harness import common

LLVM_MC = shutil.which('llvm-mc-14') or shutil.which('llvm-mc')
ARGS = ['-triple=riscv32', '-mattr=+m,+a,+c']
ABI = ['zero', 'ra', 'sp', 'gp', 'tp', 't0', 't1', 't2', 's0', 's1', 'a0', 'a1', 'a2', 'a3', 'a4', 'a5', 'a6', 'a7',
       's2', 's3', 's4', 's5', 's6', 's7', 's8', 's9', 's10', 's11', 't3', 't4', 't5', 't6']
REG = {n: i for i, n in enumerate(ABI)}
REG['fp'] = 8
SENTINEL = '0x73 0x00 0x10 0x00'        # ebreak between the words under test


def available():
    return LLVM_MC is not None


def disassemble(words):
    """words: list of (nbytes, value) -> list of llvm text ('' = invalid encoding)"""
    out = []
    for k in range(0, len(words), 20000):
        chunk = words[k:k + 20000]
        inp = []
        for n, v in chunk:
            inp.append(' '.join('0x%02x' % b for b in v.to_bytes(n, 'little')))
            inp.append(SENTINEL)
        p = subprocess.run([LLVM_MC, '--disassemble', '-M', 'no-aliases'] + ARGS, input='\n'.join(inp) + '\n',
                           capture_output=True, text=True, timeout=600)
        lines = [l.strip() for l in p.stdout.split('\n') if l.strip() and not l.strip().startswith('.text')]
        cur = []
        res = []
        for l in lines:
            if l.split()[0] == 'ebreak' and not cur_is_word_ebreak(cur, chunk, len(res)):
                res.append(cur[0] if cur else '')
                cur = []
            else:
                cur.append(l)
        if len(res) != len(chunk):
            raise RuntimeError('llvm-mc output does not align: %d results for %d words' % (len(res), len(chunk)))
        out += res
    return out


def cur_is_word_ebreak(cur, chunk, idx):
    """the word under test may itself be ebreak: then the first ebreak line is the word, the second the sentinel"""
    if cur:
        return False
    return idx < len(chunk) and chunk[idx] == (4, 0x00100073)


def assemble(lines, rvc=True):
    """list of assembly lines (LLVM syntax) -> list of bytes or None (rejected); one process per chunk, one
    `.text`-separated unit per line is not available, so lines are assembled one per process-chunk with markers"""
    out = []
    for k in range(0, len(lines), 4000):
        chunk = lines[k:k + 4000]
        # a label before every line lets us split the encodings: use -show-encoding and parse per line
        src = '\n'.join(chunk) + '\n'
        p = subprocess.run([LLVM_MC, '-show-encoding', '-M', 'no-aliases'] + (ARGS if rvc else ['-triple=riscv32', '-mattr=+m,+a']),
                           input=src, capture_output=True, text=True, timeout=600)
        bad = set()
        for m in re.finditer(r'<stdin>:(\d+):\d+: error', p.stderr):
            bad.add(int(m.group(1)))
        encs = re.findall(r'# encoding: \[([^\]]*)\]', p.stdout)
        it = iter(encs)
        for i in range(1, len(chunk) + 1):
            if i in bad:
                out.append(None)
            else:
                e = next(it, None)
                out.append(bytes(int(x, 16) for x in e.split(',')) if e is not None else None)
    return out


# ---------------------------------------------------------------------------------------------
# canonical forms
# ---------------------------------------------------------------------------------------------

def _reg(t):
    t = t.strip()
    if t in REG:
        return REG[t]
    if re.fullmatch(r'x\d+', t):
        return int(t[1:])
    raise ValueError(t)


def canon_llvm(text):
    """('mnemonic', tuple of ints) in the operand order of the Lean specification, or None for invalid;
    CSR names stay strings (compared only when numeric)"""
    if not text:
        return None
    parts = text.split(None, 1)
    mn = parts[0]
    ops = [o.strip() for o in parts[1].split(',')] if len(parts) > 1 else []
    if mn in ('c.unimp', 'unimp'):
        return ('c.unimp', ())
    mem = None
    flat = []
    for o in ops:
        m = re.fullmatch(r'(-?\w+)?\((\w+)\)', o)
        if m:
            mem = (int(m.group(1), 0) if m.group(1) else 0, _reg(m.group(2)))
        else:
            flat.append(o)
    if mn in ('lb', 'lh', 'lw', 'lbu', 'lhu'):
        return (mn, (_reg(flat[0]), mem[1], mem[0]))
    if mn in ('sb', 'sh', 'sw'):
        return (mn, (mem[1], _reg(flat[0]), mem[0]))           # base, src, imm
    if mn == 'jalr':
        return (mn, (_reg(flat[0]), mem[1], mem[0]))
    if mn.startswith('lr.w'):
        return (mn, (_reg(flat[0]), mem[1]))
    if mn.startswith('sc.w') or mn.startswith('amo'):
        return (mn, (_reg(flat[0]), mem[1], _reg(flat[1])))    # rd, rs1, rs2
    if mn in ('c.lw',):
        return (mn, (_reg(flat[0]), mem[1], mem[0]))
    if mn in ('c.sw',):
        return (mn, (mem[1], _reg(flat[0]), mem[0]))           # rs1, rs2, imm (bronzebeard's order)
    if mn in ('c.lwsp', 'c.swsp'):
        return (mn, (_reg(flat[0]), mem[0]))
    if mn == 'c.addi16sp':
        return (mn, (int(flat[1], 0),))
    if mn == 'c.addi4spn':
        return (mn, (_reg(flat[0]), int(flat[2], 0)))
    if mn == 'fence':
        enc = lambda s: sum(8 >> 'iorw'.index(c) for c in s) if s != '0' else 0
        try:
            return (mn, (enc(flat[0]), enc(flat[1])))
        except ValueError:
            return (mn, tuple(flat))
    if mn.startswith('csr'):
        c = flat[1]
        return (mn, (_reg(flat[0]), (_reg(flat[2]) if not mn.endswith('i') else int(flat[2], 0)),
                     int(c, 0) if re.fullmatch(r'-?(0x)?[0-9a-fA-F]+', c) and not c.isalpha() else c))
    vals = []
    for o in flat:
        try:
            vals.append(_reg(o))
        except ValueError:
            try:
                vals.append(int(o, 0))
            except ValueError:
                vals.append(o)                # e.g. a floating-point register: kept as text
    if mn == 'c.lui':
        vals[1] = vals[1] % (1 << 20)
    return (mn, tuple(vals))


def _opname(s):
    return s.split('.')[-1]


def canon_lean32(text):
    if text == 'none':
        return None
    t = text.split()
    k = t[0]
    b = lambda s: s == 'true'
    if k == 'r':
        return (_opname(t[1]), tuple(int(x) for x in t[2:5]))
    if k == 'i':
        return (_opname(t[1]), (int(t[2]), int(t[3]), int(t[4])))
    if k == 'sh':
        return (_opname(t[1]), (int(t[2]), int(t[3]), int(t[4])))
    if k == 'load':
        return (_opname(t[1]), (int(t[2]), int(t[3]), int(t[4])))
    if k == 'store':
        return (_opname(t[1]), (int(t[2]), int(t[3]), int(t[4])))
    if k == 'branch':
        return (_opname(t[1]), (int(t[2]), int(t[3]), int(t[4])))
    if k in ('lui', 'auipc'):
        return (k, (int(t[1]), int(t[2])))
    if k == 'jal':
        return (k, (int(t[1]), int(t[2])))
    if k == 'jalr':
        return (k, (int(t[1]), int(t[2]), int(t[3])))
    if k == 'fence':
        fm, p, s, rd, rs1 = (int(x) for x in t[1:6])
        if fm == 0 and rd == 0 and rs1 == 0:
            return ('fence', (p, s))
        return ('fence?', (fm, p, s, rd, rs1))
    if k in ('fence.i', 'ecall', 'ebreak'):
        return (k, ())
    if k == 'csr':
        return (_opname(t[1]), (int(t[2]), int(t[3]), int(t[4])))
    sfx = lambda aq, rl: ('.aqrl' if aq and rl else '.aq' if aq else '.rl' if rl else '')
    if k == 'lr':
        return ('lr.w' + sfx(b(t[1]), b(t[2])), (int(t[3]), int(t[4])))
    if k == 'sc':
        return ('sc.w' + sfx(b(t[1]), b(t[2])), (int(t[3]), int(t[4]), int(t[5])))
    if k == 'amo':
        return ('amo' + _opname(t[1]) + '.w' + sfx(b(t[2]), b(t[3])), (int(t[4]), int(t[5]), int(t[6])))
    raise ValueError(text)


def canon_lean16(text):
    if text == 'none':
        return None
    t = text.split()
    vals = []
    for x in t[1:]:
        vals.append(int(x[1:]))
    mn = t[0]
    if mn == 'c.lui':
        vals[1] = vals[1] % (1 << 20)
    return (mn, tuple(vals))


_CSR = {}


def csr_numbers(names):
    """numbers of the CSRs llvm-mc prints by name, obtained by assembling `csrrs x0, <name>, x0` with llvm-mc"""
    todo = [n for n in sorted(set(names)) if n not in _CSR]
    if todo:
        for n, b in zip(todo, assemble(['csrrs x0, %s, x0' % n for n in todo])):
            _CSR[n] = (int.from_bytes(b, 'little') >> 20) if b else None
    return _CSR


def same(a, b):
    if a is None or b is None:
        return a is None and b is None
    if a[0] != b[0] or len(a[1]) != len(b[1]):
        return False
    for x, y in zip(a[1], b[1]):
        if isinstance(y, str) and _CSR.get(y) is not None:
            y = _CSR[y]                      # a CSR printed by name
        if isinstance(x, str) or isinstance(y, str):
            continue
        if x != y:
            return False
    return True


# ---------------------------------------------------------------------------------------------
# documented differences between LLVM 14 and the specification decoders (each one looked at, see DESIGN.md §7)
# ---------------------------------------------------------------------------------------------

def excused16(h, lean, llvm):
    """halfwords on which the two legitimately differ"""
    if h == 0 and lean is None and llvm == ('c.unimp', ()):
        return 'all-zero halfword: defined illegal; LLVM names it c.unimp'
    if lean is None and llvm is not None:
        # LLVM also decodes the HINT encodings and the encodings that are reserved on RV32 (shamt[5] = 1); the
        # specification counts neither as a legal RV32C instruction (DESIGN.md: "legal non-hint non-reserved")
        mn, ops = llvm
        if mn in ('c.slli64', 'c.srli64', 'c.srai64'):
            return 'hint (shamt = 0)'
        if mn == 'c.slli' and (ops[0] == 0 or ops[1] >= 32):
            return 'hint (rd = x0) / reserved on RV32 (shamt >= 32)'
        if mn in ('c.srli', 'c.srai') and ops[1] >= 32:
            return 'reserved on RV32 (shamt >= 32)'
        if mn == 'c.lui' and (ops[0] == 0 or ops[1] == 0):
            return 'hint (rd = x0) / reserved (imm = 0)'
        if mn == 'c.li' and ops[0] == 0:
            return 'hint (rd = x0)'
        if mn == 'c.nop' and ops:
            return 'hint (c.nop with imm != 0)'
        if mn == 'c.addi' and ops[1] == 0:
            return 'hint (c.addi with imm = 0)'
        if mn in ('c.mv', 'c.add') and ops[0] == 0:
            return 'hint (rd = x0)'
    return None


def excused32(w, lean, llvm):
    if lean is None and llvm is not None and llvm[0] in ('slli', 'srli', 'srai') and llvm[1][2] >= 32:
        return 'shift amount >= 32 (imm[5] = 1) is reserved on RV32; LLVM 14 decodes it with the RV64 table'
    if lean is None and llvm is not None and re.match(r'f(?!ence)', llvm[0]):
        return 'a floating-point (F/D) instruction: outside RV32IMAC, which is all the specification covers'
    if lean is None and llvm is not None and llvm[0] in ('sfence.vma', 'wfi', 'mret', 'sret', 'uret', 'dret'):
        return 'a privileged instruction: outside the unprivileged RV32IMAC the specification covers'
    if lean is not None and lean[0] == 'fence?':
        return 'fence with fm / rd / rs1 fields set: LLVM prints fence.tso or refuses; the specification decodes the fields'
    return None


def spec_check(rep, width, tier):
    """compare the Lean specification decoder with llvm-mc; returns number of words compared"""
    if not available():
        rep.count('llvm_spec_check_skipped_no_llvm_mc')
        return 0
    rnd = common.rng('llvmx:%d' % width)
    if width == 16:
        words = [(2, h) for h in range(65536) if h & 3 != 3]
        cmd = 'dec16'
    else:
        ws = set()
        n = 60000 if tier == 'quick' else 600000
        # structured: every opcode/funct3/funct7 combination with seeded register / immediate fields
        for opc in range(32):
            for f3 in range(8):
                for f7 in (0, 1, 0x20, 0x08, 0x0c, 0x04, 0x10, 0x14, 0x18, 0x1c, 0x7f, rnd.randrange(128), rnd.randrange(128)):
                    for _ in range(2):
                        ws.add((f7 << 25) | (rnd.randrange(32) << 20) | (rnd.randrange(32) << 15) | (f3 << 12) |
                               (rnd.randrange(32) << 7) | (opc << 2) | 3)
        while len(ws) < n:
            ws.add(rnd.getrandbits(32) | 3)
        words = [(4, w) for w in sorted(ws)]
        cmd = 'dec32'
    lean = common.drv(['%s %d' % (cmd, v) for _, v in words])
    llvm = disassemble(words)
    bad = 0
    if width == 32:
        names = []
        for ll in llvm:
            if ll.startswith('csr'):
                c = ll.split(',')[1].strip()
                if not re.fullmatch(r'\d+', c):
                    names.append(c)
        csr_numbers(names)
        rep.count('csr_names_resolved_through_llvm', len(set(names)))
    for (nb, v), le, ll in zip(words, lean, llvm):
        a = canon_lean16(le) if width == 16 else canon_lean32(le)
        try:
            b = canon_llvm(ll)
        except Exception as e:
            b = ('unparsed', (ll,))
        if same(a, b):
            rep.count('spec_vs_llvm_%d_agree_%s' % (width, 'valid' if a is not None else 'invalid'))
            continue
        why = excused16(v, a, b) if width == 16 else excused32(v, a, b)
        if why:
            rep.count('spec_vs_llvm_%d_documented_difference' % width)
            continue
        bad += 1
        if bad <= 3:
            rep.violation('specification decoder and LLVM disagree on the %d-bit word 0x%x: specification %s, llvm-mc %r' % (
                width, v, le, ll), dict(correspondence='BB.Spec.decode%d vs llvm-mc --disassemble' % width,
                                        case=dict(word=v, spec=le, llvm=ll)), no_input=True)
    rep.count('spec_vs_llvm_%d_disagree' % width, bad)
    return len(words)


# ---------------------------------------------------------------------------------------------
# implementation vs LLVM's assembler
# ---------------------------------------------------------------------------------------------

def llvm_syntax(name, ops):
    """the line in LLVM syntax for operands given in bronzebeard's order; None = no LLVM spelling for it"""
    from harness import encsweep as E
    v = [x for _, x in ops]
    if any(not isinstance(x, int) for x in v):
        return None
    R = lambda n: 'x%d' % n
    sfx = lambda aq, rl: ('.aqrl' if aq and rl else '.aq' if aq else '.rl' if rl else '')
    ok_reg = lambda *ns: all(0 <= n < 32 for n in ns)
    if name in ('slli', 'srli', 'srai'):
        return '%s %s, %s, %d' % (name, R(v[0]), R(v[1]), v[2]) if ok_reg(v[0], v[1]) else None
    if name in E.R_NAMES:
        return '%s %s, %s, %s' % (name, R(v[0]), R(v[1]), R(v[2])) if ok_reg(*v) else None
    if name in ('lb', 'lh', 'lw', 'lbu', 'lhu', 'jalr'):
        return '%s %s, %d(%s)' % (name, R(v[0]), v[2], R(v[1])) if ok_reg(v[0], v[1]) else None
    if name in ('sb', 'sh', 'sw'):
        return '%s %s, %d(%s)' % (name, R(v[1]), v[2], R(v[0])) if ok_reg(v[0], v[1]) else None
    if name in ('csrrw', 'csrrs', 'csrrc'):
        return '%s %s, %d, %s' % (name, R(v[0]), v[2] & 0xfff, R(v[1])) if ok_reg(v[0], v[1]) and -2048 <= v[2] <= 2047 else None
    if name in ('csrrwi', 'csrrsi', 'csrrci'):
        return '%s %s, %d, %d' % (name, R(v[0]), v[2] & 0xfff, v[1]) if ok_reg(v[0], v[1]) and -2048 <= v[2] <= 2047 else None
    if name in E.I_NAMES or name in E.B_NAMES:
        return '%s %s, %s, %d' % (name, R(v[0]), R(v[1]), v[2]) if ok_reg(v[0], v[1]) else None
    if name in E.U_NAMES:
        return '%s %s, %d' % (name, R(v[0]), v[1] % (1 << 20)) if ok_reg(v[0]) and -0x80000 <= v[1] <= 0xfffff else None
    if name == 'jal':
        return 'jal %s, %d' % (R(v[0]), v[1]) if ok_reg(v[0]) else None
    if name == 'fence':
        if not all(1 <= x <= 15 for x in v):
            return None
        st = lambda m: ''.join(c for i, c in enumerate('iorw') if m & (8 >> i))
        return 'fence %s, %s' % (st(v[1]), st(v[0]))        # bronzebeard: fence succ, pred
    if name == 'lr.w':
        return 'lr.w%s %s, (%s)' % (sfx(v[2], v[3]), R(v[0]), R(v[1])) if ok_reg(v[0], v[1]) and v[2] in (0, 1) and v[3] in (0, 1) else None
    if name in E.A_NAMES:
        if not (ok_reg(v[0], v[1], v[2]) and v[3] in (0, 1) and v[4] in (0, 1)):
            return None
        return '%s%s %s, %s, (%s)' % (name, sfx(v[3], v[4]), R(v[0]), R(v[2]), R(v[1]))
    if name in ('ecall', 'ebreak', 'fence.i', 'c.nop', 'c.ebreak'):
        return name
    if name == 'c.addi4spn':
        return 'c.addi4spn %s, sp, %d' % (R(v[0]), v[1]) if ok_reg(v[0]) else None
    if name == 'c.lw':
        return 'c.lw %s, %d(%s)' % (R(v[0]), v[2], R(v[1])) if ok_reg(v[0], v[1]) else None
    if name == 'c.sw':
        return 'c.sw %s, %d(%s)' % (R(v[1]), v[2], R(v[0])) if ok_reg(v[0], v[1]) else None
    if name == 'c.addi16sp':
        return 'c.addi16sp sp, %d' % v[0]
    if name == 'c.lui':
        return 'c.lui %s, %d' % (R(v[0]), v[1] % (1 << 20)) if ok_reg(v[0]) and -32 <= v[1] <= 31 else None
    if name in ('c.lwsp', 'c.swsp'):
        return '%s %s, %d(sp)' % (name, R(v[0]), v[1]) if ok_reg(v[0]) else None
    if name in ('c.j', 'c.jal'):
        return '%s %d' % (name, v[0])
    if name in ('c.jr', 'c.jalr'):
        return '%s %s' % (name, R(v[0])) if ok_reg(v[0]) else None
    if name in ('c.sub', 'c.xor', 'c.or', 'c.and', 'c.mv', 'c.add'):
        return '%s %s, %s' % (name, R(v[0]), R(v[1])) if ok_reg(v[0], v[1]) else None
    if name.startswith('c.'):
        return '%s %s, %d' % (name, R(v[0]), v[1]) if ok_reg(v[0]) else None
    return None


def impl_check(rep, prop, tier):
    """bronzebeard vs llvm-mc on literal instruction lines: wherever both accept, the bytes must be equal"""
    if not available():
        rep.count('llvm_impl_check_skipped_no_llvm_mc')
        return 0
    import importlib
    from harness import encsweep as E, textpath
    asm = importlib.import_module('bronzebeard.asm')
    rnd = common.rng('llvmx-impl:' + prop)
    n = 12000 if tier == 'quick' else 150000
    names = E.NAMES32 if prop == 'C01' else E.NAMES16
    cases = []
    seen = set()
    for i in range(n):
        name = names[i % len(names)]
        ops = textpath.gen_ops32(name, rnd) if prop == 'C01' else textpath.gen_ops16(name, rnd)
        if name == 'fence':
            ops = [('k', rnd.randrange(0, 17)), ('k', rnd.randrange(0, 17))]
        ll = llvm_syntax(name, ops)
        if ll is None:
            continue
        line = textpath.render(name, ops, i)
        if (line, ll) in seen:
            continue
        seen.add((line, ll))
        cases.append((name, ops, line, ll))
    theirs = assemble([c[3] for c in cases], rvc=(prop != 'C01'))      # without +c LLVM does not auto-compress
    done = 0
    for (name, ops, line, ll), tb in zip(cases, theirs):
        st, mb = textpath.assemble_line(asm, line)
        rep.evaluations += 1
        done += 1
        if st == 'ok' and tb is not None:
            rep.count('llvm_both_accept')
            if mb != tb:
                rep.violation('{!r} assembles to {} but LLVM assembles the same instruction ({!r}) to {}'.format(
                    line, mb.hex(), ll, tb.hex()), dict(case=dict(line=line, llvm_line=ll, ours=mb.hex(), llvm=tb.hex()), text_line=line))
        elif st == 'ok':
            rep.count('llvm_refuses_we_accept')
            rep.cov.setdefault('llvm_refuses_we_accept_examples', [])
            if len(rep.cov['llvm_refuses_we_accept_examples']) < 8:
                rep.cov['llvm_refuses_we_accept_examples'].append(line.strip())
        elif tb is not None:
            rep.count('llvm_accepts_we_refuse')
            rep.cov.setdefault('llvm_accepts_we_refuse_examples', [])
            if len(rep.cov['llvm_accepts_we_refuse_examples']) < 8:
                rep.cov['llvm_accepts_we_refuse_examples'].append(line.strip())
        else:
            rep.count('llvm_both_refuse')
    return done


# ---------------------------------------------------------------------------------------------
# whole programs: bytes and label table vs LLVM (no compression, no relaxation)
# ---------------------------------------------------------------------------------------------

def to_llvm_program(lines):
    """translate generated lines (progs.Ln) to LLVM assembly; returns (text, kept lines) or None if a line has no
    faithful LLVM spelling.  call / tail / li are left out (LLVM expands them differently by design); sizes are
    tracked so that `align` becomes explicit zero bytes (llvm-mc 14 cannot pad code by one byte)."""
    from harness import oracle
    R = lambda n: 'x%d' % n
    out = []
    kept = []
    pos = 0
    for ln in lines:
        k = ln.kind
        if k == 'label':
            out.append('%s:' % ln.name)
        elif k == 'instr':
            t = llvm_syntax(ln.name, ln.ops)
            if t is None:
                return None
            out.append('    ' + t)
            pos += 4
        elif k == 'branch':
            out.append('    %s %s, %s, %s' % (ln.name, R(ln.ops[0]), R(ln.ops[1]), ln.label)); pos += 4
        elif k == 'jal':
            out.append('    jal %s, %s' % (R(ln.ops[0]), ln.label)); pos += 4
        elif k == 'pbranch1':
            out.append('    %s %s, %s' % (ln.name, R(ln.ops[0]), ln.label)); pos += 4
        elif k == 'pbranch2':
            out.append('    %s %s, %s, %s' % (ln.name, R(ln.ops[0]), R(ln.ops[1]), ln.label)); pos += 4
        elif k == 'pjump':
            if ln.name in ('call', 'tail'):
                continue
            out.append('    %s %s' % (ln.name, ln.label)); pos += 4
        elif k == 'li':
            continue
        elif k == 'unary':
            out.append('    %s %s, %s' % (ln.name, R(ln.ops[0]), R(ln.ops[1]))); pos += 4
        elif k == 'pjr':
            out.append('    %s %s' % (ln.name, R(ln.ops[0]))); pos += 4
        elif k == 'p0':
            out.append('    ' + ln.name); pos += 4
        elif k == 'seq':
            d = {'bytes': ('.byte', 1), 'shorts': ('.half', 2), 'ints': ('.word', 4), 'longs': ('.word', 4), 'longlongs': ('.dword', 8)}[ln.name]
            out.append('    %s %s' % (d[0], ', '.join(str(v) for v in ln.ops))); pos += d[1] * len(ln.ops)
        elif k == 'short':
            d = {'dh': ('.half', 2), 'dw': ('.word', 4), 'dd': ('.dword', 8), 'db': ('.byte', 1)}[ln.name]
            out.append('    %s %d' % (d[0], ln.ops[0])); pos += d[1]
        elif k == 'pack':
            w = {'h': 2, 'i': 4, 'l': 4, 'q': 8}[ln.name[1].lower()]
            bs = (ln.ops[0] % (1 << (8 * w))).to_bytes(w, 'little' if ln.name[0] == '<' else 'big')
            out.append('    .byte ' + ', '.join(str(b) for b in bs)); pos += w
        elif k == 'string':
            bs = oracle.unescape(ln.ops[0])
            out.append('    .byte ' + ', '.join(str(b) for b in bs)); pos += len(bs)
        elif k == 'align':
            n = ln.ops[0]
            pad = (-pos) % n
            if pad:
                out.append('    .zero %d' % pad)
            pos += pad
        else:
            return None
        kept.append(ln)
    return '\n'.join(out) + '\n', kept


def _prog_case(args):
    import os
    import tempfile
    import shutil as sh
    from harness import progs
    seedv, idx = args
    os.environ['VERIF_SEED'] = str(seedv)
    rnd = common.rng('llvmx-prog:%d' % idx)
    asm = progs.get_asm()
    lines = progs.gen_program(rnd, size=rnd.randrange(6, 40), consts=False, aligns=rnd.random() < 0.5, fillers=rnd.random() < 0.5)
    lines = [l for l in lines if not (l.kind == 'align' and l.ops[0] > 64)]
    tr = to_llvm_program(lines)
    if tr is None:
        return dict(idx=idx, status='untranslatable')
    text, kept = tr
    src = progs.source(kept)
    res = progs.assemble_chunks(asm, src, False)
    d = tempfile.mkdtemp(prefix='bbllvm-')
    try:
        open(os.path.join(d, 't.s'), 'w').write(text)
        p = subprocess.run([LLVM_MC, '-triple=riscv32', '-mattr=+m,+a', '-filetype=obj', '-o', os.path.join(d, 't.o'), os.path.join(d, 't.s')],
                           capture_output=True, text=True, timeout=120)
        if p.returncode != 0:
            return dict(idx=idx, status='llvm-refused' if res.status != 'ok' else 'llvm-refused-we-accept', src=src,
                        err=p.stderr.strip().split('\n')[0][:200])
        if res.status != 'ok':
            return dict(idx=idx, status='we-refuse-llvm-accepts', src=src, err=str(res.exc)[:200])
        objcopy = LLVM_MC.replace('llvm-mc', 'llvm-objcopy')
        nm = LLVM_MC.replace('llvm-mc', 'llvm-nm')
        subprocess.run([objcopy, '-O', 'binary', '--only-section=.text', os.path.join(d, 't.o'), os.path.join(d, 't.bin')], check=True, timeout=120)
        theirs = open(os.path.join(d, 't.bin'), 'rb').read() if os.path.exists(os.path.join(d, 't.bin')) else b''
        syms = {}
        q = subprocess.run([nm, os.path.join(d, 't.o')], capture_output=True, text=True, timeout=120)
        for l in q.stdout.split('\n'):
            t = l.split()
            if len(t) == 3:
                syms[t[2]] = int(t[0], 16)
        out = dict(idx=idx, status='compared', src=src, llvm_src=text, problems=[])
        if bytes(res.bytes) != theirs:
            n = next((i for i in range(min(len(theirs), len(res.bytes))) if theirs[i] != res.bytes[i]), min(len(theirs), len(res.bytes)))
            out['problems'].append('bytes differ from LLVM\'s at offset %d: ours %s, LLVM %s (lengths %d / %d)' % (
                n, bytes(res.bytes)[n:n + 8].hex(), theirs[n:n + 8].hex(), len(res.bytes), len(theirs)))
        for name, v in res.labels.items():
            if name in syms and syms[name] != v:
                out['problems'].append('label %s is at %d for us and at %d for LLVM' % (name, v, syms[name]))
        return out
    finally:
        sh.rmtree(d, ignore_errors=True)


def program_check(rep, prop, tier):
    """generated programs (literal instructions, branches / jal / j and pseudo-branches to labels, data, strings,
    aligns as explicit padding) assembled by bronzebeard without -c and by llvm-mc: bytes and label addresses equal"""
    if not available() or not shutil.which(LLVM_MC.replace('llvm-mc', 'llvm-objcopy')):
        rep.count('llvm_program_check_skipped_no_llvm')
        return 0
    import multiprocessing as mp
    import os
    n = 150 if tier == 'quick' else 3000
    ctx = mp.get_context('fork')
    with ctx.Pool(min(16, os.cpu_count() or 4)) as pool:
        results = pool.map(_prog_case, [(common.seed(), i) for i in range(n)], chunksize=4)
    done = 0
    for r in results:
        rep.count('llvm_program_' + r['status'])
        if r['status'] != 'compared':
            continue
        done += 1
        rep.evaluations += 1
        for msg in r['problems']:
            rep.violation('%s: %s' % (prop, msg), dict(case=dict(program=r['src'], llvm_program=r['llvm_src'], problem=msg)))
    return done


# ---------------------------------------------------------------------------------------------
# the specification's notion of "eligible for compression" and its RVC expansion vs LLVM's compressor
# ---------------------------------------------------------------------------------------------

def compress_check(rep, tier):
    """BB.Spec `eligible w` (w is the expansion of a legal non-hint RVC instruction) and `expand16` against LLVM:
    whenever the specification calls a 32-bit instruction eligible, llvm-mc with +c must emit 2 bytes for it, and that
    halfword must expand (specification) to the same instruction.  LLVM compresses MORE than expansions (e.g.
    addi rd, rs, 0 -> c.mv), so the other direction is only counted."""
    if not available():
        rep.count('llvm_compress_check_skipped_no_llvm_mc')
        return 0
    import importlib
    from harness import progs, textpath
    asm = importlib.import_module('bronzebeard.asm')
    rnd = common.rng('llvmx-compress')
    n = 6000 if tier == 'quick' else 80000
    cases = {}
    for _ in range(n):
        name, ops = progs.gen_instr(rnd)
        ll = llvm_syntax(name, ops)
        if ll is None:
            continue
        st, b = textpath.assemble_line(asm, progs.line_text(rnd, name, ops))
        if st != 'ok' or len(b) != 4:
            continue
        cases[ll] = int.from_bytes(b, 'little')
    lls = sorted(cases)
    theirs = assemble(lls, rvc=True)
    elig = common.drv(['eligible %d' % cases[l] for l in lls])
    d32 = common.drv(['dec32 %d' % cases[l] for l in lls])
    half = [int.from_bytes(t, 'little') if t is not None and len(t) == 2 else None for t in theirs]
    x16 = common.drv(['dec16x %d' % (h if h is not None else 0) for h in half])
    done = 0
    for l, t, e, a, h, x in zip(lls, theirs, elig, d32, half, x16):
        if t is None:
            rep.count('llvm_compress_refused_by_llvm')
            continue
        done += 1
        rep.evaluations += 1
        if e == 'yes':
            if h is None:
                rep.violation('the specification calls %r (0x%08x) the expansion of a legal RVC instruction but LLVM does not compress it' % (
                    l, cases[l]), dict(correspondence='BB.Spec.eligible vs llvm-mc +c', case=dict(line=l, word=cases[l])), no_input=True)
            elif x != a:
                rep.violation('LLVM compresses %r to 0x%04x, which the specification expands to %s, not to %s' % (l, h, x, a),
                              dict(correspondence='BB.Spec.expand16 vs llvm-mc +c', case=dict(line=l, word=cases[l], half=h)), no_input=True)
            else:
                rep.count('llvm_compress_agree_eligible')
        elif h is not None:
            rep.count('llvm_compresses_a_non_expansion')       # LLVM's extra patterns (addi rd, rs, 0 -> c.mv, ...)
            if x == a:
                rep.count('llvm_compresses_a_non_expansion_same_meaning_by_text')
        else:
            rep.count('llvm_compress_agree_not_eligible')
    return done
