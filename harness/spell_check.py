"""C13 — documented spelling variants of the same program assemble to identical bytes.

Each generated program is re-spelled k times using only the documented freedoms (commas or
whitespace between operands, blank lines, whole-line and trailing # comments, indentation, register
as number / xN / ABI alias, integers in decimal / hex / binary, the code point of a printable character as
that character between single quotes - blank, comma, `#`, parentheses and the quote included -, `imm(reg)` vs
`reg, imm` for base+offset instructions); the real assembler's outputs (bytes and ordered label table, both modes)
must be pairwise equal, and the Lean model must agree on every variant.
"""
import json
import multiprocessing as mp
import os

from harness import common, corr, obligations, progs

ALIASES = progs.ALIASES
LOADS = ('lb', 'lh', 'lw', 'lbu', 'lhu', 'jalr')
STORES = ('sb', 'sh', 'sw')


def rs(rnd, n):
    k = rnd.randrange(6)
    if k == 0:
        return str(n)
    if k == 1:
        return ALIASES[n]
    if k == 2 and n == 8:
        return 'fp'
    if k == 3:
        return hex(n)
    return 'x%d' % n


def ints(rnd, v):
    k = rnd.randrange(4)
    if k == 0 or abs(v) >= 1 << 64:
        return str(v)
    if k == 1:
        return ('-' if v < 0 else '') + hex(abs(v))
    if k == 2:
        return ('-' if v < 0 else '') + bin(abs(v))
    return ('-' if v < 0 else '') + '0X%X' % abs(v)


# I-type instructions whose last operand is an expression (a branch / jal target written as a number is an offset, not an expression)
CHAR_IMM = ('addi', 'andi', 'ori', 'xori', 'slti', 'sltiu')


def imms(rnd, v):
    """an immediate / data value that is an expression: the integer spellings, or - the code point of a printable character -
    the character between single quotes ("Character literals can also be used if surrounded by single-quotes"); the
    backslash is written twice"""
    if 0x20 <= v < 0x7f and rnd.random() < 0.4:
        return "'\\\\'" if v == 0x5c else "'%s'" % chr(v)
    return ints(rnd, v)


def sep(rnd):
    return rnd.choice([' ', ',', ', ', '  ', '\t', ' , ', ',\t'])


def join(rnd, name, toks):
    out = name
    for i, t in enumerate(toks):
        out += (rnd.choice([' ', '  ', '\t']) if i == 0 else sep(rnd)) + t
    return out


def respell(ln, rnd, consts):
    """a re-spelling of one line, or None to keep the text as it is"""
    k = ln.kind
    words = ln.text.replace(',', ' ').replace('(', ' ').replace(')', ' ').split()
    if any(w in consts for w in words[1:]) and k != 'const':
        return None                      # an operand written through a constant: keep (C11's subject)
    if k == 'instr':
        ops = ln.ops
        if ln.name in LOADS and len(ops) == 3 and rnd.random() < 0.5:
            return '%s %s%s%s(%s)' % (ln.name, rs(rnd, ops[0][1]), sep(rnd), imms(rnd, ops[2][1]), rs(rnd, ops[1][1]))
        if ln.name in STORES and len(ops) == 3 and rnd.random() < 0.5:
            return '%s %s%s%s(%s)' % (ln.name, rs(rnd, ops[1][1]), sep(rnd), imms(rnd, ops[2][1]), rs(rnd, ops[0][1]))
        shamt = ln.name in ('slli', 'srli', 'srai')
        toks = []
        for i, (kind, v) in enumerate(ops):
            if kind == 'r' and not (shamt and i == 2):
                toks.append(rs(rnd, v))
            elif ln.name in CHAR_IMM and i == 2:
                toks.append(imms(rnd, v))
            else:
                toks.append(ints(rnd, v) if v >= 0 or kind == 'i' else str(v))
        return join(rnd, ln.name, toks)
    if k == 'branch':
        return join(rnd, ln.name, [rs(rnd, ln.ops[0]), rs(rnd, ln.ops[1]), ln.label])
    if k == 'jal':
        return join(rnd, 'jal', [rs(rnd, ln.ops[0]), ln.label])
    if k == 'pbranch1':
        return join(rnd, ln.name, [rs(rnd, ln.ops[0]), ln.label])
    if k == 'pbranch2':
        return join(rnd, ln.name, [rs(rnd, ln.ops[0]), rs(rnd, ln.ops[1]), ln.label])
    if k == 'pjump':
        return join(rnd, ln.name, [ln.label])
    if k == 'li':
        return join(rnd, 'li', [rs(rnd, ln.ops[0]), imms(rnd, ln.extra)])
    if k == 'unary':
        return join(rnd, ln.name, [rs(rnd, ln.ops[0]), rs(rnd, ln.ops[1])])
    if k == 'pjr':
        return join(rnd, ln.name, [rs(rnd, ln.ops[0])])
    if k == 'p0':
        return ln.name
    if k == 'seq':
        return join(rnd, ln.name, [ints(rnd, v) for v in ln.ops])
    if k == 'short':
        return join(rnd, ln.name, [imms(rnd, ln.ops[0])])
    if k == 'pack':
        return join(rnd, 'pack', [ln.name, imms(rnd, ln.ops[0])])
    if k == 'align':
        return join(rnd, 'align', [ints(rnd, ln.ops[0])])
    if k == 'label':
        return ln.name + ':'
    return None


# words a comment may contain: directive names, mnemonics, label / constant syntax, quotes - a comment is never anything but a comment
COMMENT_WORDS = ['string', 'string ', 'error', 'error ', 'include', 'include x.asm', 'include_bytes', 'include_bytes f.bin', 'addi', 'nop',
                 'bytes 1 2 3', 'db 1', 'pack <I 5', 'align 4', 'next string byte', 'end of the string is reached', 'label:', 'L0:', 'K = 5',
                 'x = y', '"quoted"', "'c'", "it's", '%hi(L0)', '(paren)', 'a, b, c', 'li t0 5', '#', '##', ':', '=', '\\', 'TODO', 'the',
                 'loop', 'jump to L1']


def comment_text(rnd):
    return ' '.join(rnd.choice(COMMENT_WORDS) for _ in range(rnd.randrange(1, 5)))


def literal_transfers(rnd):
    """branches / jal whose target is written as a NUMBER (a literal pc-relative offset): the integer spellings apply to them too"""
    out = []
    for _ in range(rnd.randrange(0, 3)):
        if rnd.random() < 0.7:
            name = rnd.choice(['beq', 'bne', 'blt', 'bge', 'bltu', 'bgeu'])
            v = rnd.choice([-4096, -2048, -256, -20, -12, -8, -4, 4, 8, 12, 16, 64, 2044, 4092, rnd.randrange(-1024, 1024) * 4])
            a, b = rnd.randrange(32), rnd.randrange(32)
            out.append(progs.Ln('    %s x%d, x%d, %d' % (name, a, b, v), 'instr', name, [('r', a), ('r', b), ('i', v)]))
        else:
            v = rnd.choice([-1048576, -4096, -20, -4, 4, 8, 2048, 1048572, rnd.randrange(-200000, 200000) * 4])
            a = rnd.randrange(32)
            out.append(progs.Ln('    jal x%d, %d' % (a, v), 'instr', 'jal', [('r', a), ('i', v)]))
    return out


def char_lines(rnd):
    """immediates and data values in the range of the printable characters, so that the quoted spelling gets used: blank, comma,
    '#', parentheses, the quote and the backslash in particular"""
    out = []
    for _ in range(rnd.randrange(0, 4)):
        v = rnd.choice([0x20, 0x23, 0x27, 0x28, 0x29, 0x2c, 0x5c, rnd.randrange(0x20, 0x7f)])
        a, b = rnd.randrange(32), rnd.randrange(32)
        k = rnd.randrange(5)
        if k == 0:
            name = rnd.choice(CHAR_IMM)
            out.append(progs.Ln('    %s x%d, x%d, %d' % (name, a, b, v), 'instr', name, [('r', a), ('r', b), ('i', v)]))
        elif k == 1:
            name = rnd.choice(LOADS[:5])
            out.append(progs.Ln('    %s x%d, x%d, %d' % (name, a, b, v), 'instr', name, [('r', a), ('r', b), ('i', v)]))
        elif k == 2:
            out.append(progs.Ln('    li x%d, %d' % (a, v), 'li', 'li', [a], extra=v))
        elif k == 3:
            d = rnd.choice(['db', 'dh', 'dw', 'dd'])
            out.append(progs.Ln('    %s %d' % (d, v), 'short', d, [v]))
        else:
            out.append(progs.Ln('    pack <H, %d' % v, 'pack', '<H', [v]))
    return out


def variant(lines, rnd):
    consts = set(l.name for l in lines if l.kind == 'const')
    out = []
    for ln in lines:
        if rnd.random() < 0.15:
            out.append(rnd.choice(['', '   ', '\t', '# a comment', '    # indented comment, with: punctuation (x)',
                                   rnd.choice(['', '  ', '\t']) + '#' + rnd.choice(['', ' ']) + comment_text(rnd)]))
        t = respell(ln, rnd, consts)
        if t is None:
            t = ln.text.strip() if ln.kind != 'string' else None
        if ln.kind == 'string':
            body = ln.text.lstrip()
            out.append(rnd.choice(['', '  ', '\t', '        ']) + body)      # only the indentation may change
            continue
        t = rnd.choice(['', ' ', '    ', '\t', '\t\t']) + t
        if ln.kind != 'const' and rnd.random() < 0.3:
            t += rnd.choice(['  # trailing', ' #x', '\t# c, d (e)', ' # ', '  # ' + comment_text(rnd), ' #' + comment_text(rnd)])
        if rnd.random() < 0.2:
            t += rnd.choice([' ', '   ', '\t'])
        out.append(t)
    return '\n'.join(out) + '\n'


def one_case(args):
    seedv, idx, tier, nvar = args
    os.environ['VERIF_SEED'] = str(seedv)
    asm = progs.get_asm()
    rnd = common.rng('c13:%d' % idx)
    lines = progs.gen_program(rnd, size=rnd.randrange(4, 24), fillers=False)
    for ln in literal_transfers(rnd) + char_lines(rnd):
        lines.insert(rnd.randrange(len(lines) + 1), ln)
    base = progs.source(lines)
    variants = [base] + [variant(lines, rnd) for _ in range(nvar)]
    out = dict(idx=idx, base=base, problems=[], corr={}, diffs=[], status=None, nvar=len(variants))
    reqs = []
    keep = []
    for c in (False, True):
        ref = None
        for vi, src in enumerate(variants):
            r = progs.assemble_chunks(asm, src, c)
            key = (r.status, r.bytes, tuple(r.labels.items()) if r.status == 'ok' else None)
            if vi == 0:
                ref = key
                out['status'] = r.status
            elif key != ref:
                out['problems'].append(dict(compress=c, variant=src, got='{} {}'.format(r.status + ':' + str(r.exc), (r.bytes or b'')[:40].hex()),
                                            ref='{} {}'.format(ref[0], (ref[1] or b'')[:40].hex())))
            if vi <= 2:
                reqs.append(corr.request(src, c))
                keep.append(r)
    ms = common.drv(reqs)
    for m, r in zip(ms, keep):
        v = corr.compare(m, r)
        out['corr'][v] = out['corr'].get(v, 0) + 1
        if v == 'differ':
            out['diffs'].append(dict(model=m[:200], impl=corr.canon_impl(r)[:200]))
    return out


def run(tier, replay):
    prop = 'C13'
    if replay:
        d = json.load(open(replay))
        c = d.get('case') or {}
        if 'base' not in c:
            print('VIOLATION property=C13 replay={} no-failing-input-found'.format(replay))
            return 1
        asm = progs.get_asm()
        a = progs.assemble_chunks(asm, c['base'], c['compress'])
        b = progs.assemble_chunks(asm, c['variant'], c['compress'])
        same = (a.status, a.bytes, tuple(a.labels.items())) == (b.status, b.bytes, tuple(b.labels.items()))
        print('base:', a.status, (a.bytes or b'')[:32].hex(), '| variant:', b.status, b.exc, (b.bytes or b'')[:32].hex())
        if not same:
            print('VIOLATION property=C13 replay={}'.format(replay))
            return 1
        print('replayed case no longer fails')
        return 0
    rep = common.Report(prop, tier, level=obligations.LEVEL.get(prop, 'proof'))
    ob = common.check_obligations(prop, obligations.THEOREMS.get(prop, []))
    n = 500 if tier == 'quick' else 8000
    nvar = 5 if tier == 'quick' else 8
    ctx = mp.get_context('fork')
    with ctx.Pool(min(16, os.cpu_count() or 4)) as pool:
        results = pool.map(one_case, [(common.seed(), i, tier, nvar) for i in range(n)], chunksize=4)
    diffs = []
    for r in results:
        rep.evaluations += r['nvar'] * 2
        rep.count('base_' + str(r['status']))
        for k, v in r['corr'].items():
            rep.count('model_vs_impl_' + k, v)
        diffs += [dict(base=r['base'], **d) for d in r['diffs']]
        rep.nontrivial(r['base'])
        for p in r['problems']:
            rep.violation('a documented re-spelling changes the output (compress={}): reference {} / variant {}'.format(
                p['compress'], p['ref'], p['got']), dict(case=dict(base=r['base'], variant=p['variant'], compress=p['compress'])))
        if len(rep.samples) < 2:
            rep.sample(dict(base=r['base'][:300]))
    rep.cov['programs'] = len(results)
    rep.cov['rule'] = ('each seeded program is re-spelled {} times, every line and operand independently: separators, blank/comment lines, '
                       'trailing comments (their text drawn from directive names, mnemonics, label/constant syntax, quotes), indentation, '
                       'register as number/xN/alias/fp/hex, integers dec/hex/bin/0X (also as literal branch/jal offsets), imm(reg) vs reg,imm; '
                       'string bodies are never touched. bytes and ordered label table compared pairwise, both modes. non-trivial = '
                       'distinct base programs.').format(nvar)
    rep.cov['model_vs_impl_disagreements'] = len(diffs)
    rep.assumptions += ['non-ASCII whitespace (accepted by Python\'s \\s) is outside the documented freedoms and outside the model']
    if not rep.violations:
        if ob['failed']:
            rep.violation('proof obligation no longer checks: {}'.format(ob['failed'][0][0]),
                          dict(theorem=ob['failed'][0][0], detail=ob['failed'][0][1]), no_input=True)
        elif diffs:
            rep.violation('correspondence model/implementation broke on {} variants, e.g. {}'.format(len(diffs), str(diffs[0])[:400]),
                          dict(correspondence='BB.assembleText vs asm.assemble (spelling variants)', case=diffs[0]), no_input=True)
    return rep.finish(obligations=ob if ob['obligations'] else None)
