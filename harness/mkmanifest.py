"""Regenerates /verif/MANIFEST.json from the table below (python -m harness.mkmanifest)."""
import json
import os

from harness import obligations

VERIF = os.path.dirname(os.path.dirname(os.path.abspath(__file__)))

TB = ('Trusted base: Lean 4.33.0 kernel; axioms propext / Classical.choice / Quot.sound only (audited per theorem '
      'on every run, no sorry/native_decide/bv_decide); the hand-written specification under lean/BB/Spec; the '
      'correspondence harness and the Lean compiler/runtime of the bbdrv driver. Modelled, not verified: Python int, '
      'ctypes.c_uint32, struct.pack, re, eval on the documented operator subset, os.path/open.')

CLAIMS = {
    'C01': dict(
        category='proof',
        technique='Lean 4 theorems (enc32_sound, enc32_inj) over a Python-shaped model + exhaustive/boundary differential correspondence + Lean-spec decode oracle + cross-check of that specification and of the emitted bytes against LLVM 14 (llvm-mc)',
        text=('Theorems: for every one of the 66 32-bit rows of the instruction table (proved equal to the live module\'s '
              'INSTRUCTIONS by a decide-checked generated table), every accepted argument list denotes legal operands and '
              'the word decodes under the ISA-manual specification to the instruction the source named (enc32_sound); the '
              'encoding is injective per mnemonic up to the documented dual spelling of U-type immediates (enc32_inj). '
              'Tie to the code: ~1.7 M operand tuples per run (all register triples of R-type, every immediate from 64 below '
              'to 64 above each interval, all fence sets, boundary + seeded U/J immediates; the complete cross product in the '
              'thorough tier) are run through the real encoders and the model and must agree, each accepted word is decoded by '
              'the Lean specification and compared with the source operands, collisions are searched per mnemonic, and 6000+ '
              'one-line programs go through assemble(). Whole programs (C01Program.lean): assemble_instr32_decodes - in every successful assembly an instruction item contributes at its offset the bytes of a word that the specification decodes to the mnemonic, the registers after lookup and the immediate evaluated there, all 32-bit classes, both modes.'),
        note=TB + ' Registers given to the encoders directly are ints or ASCII strings.',
        ref='DESIGN.md §5 C01'),
    'C02': dict(
        category='proof',
        technique='Lean 4 theorems over the RVC encoder model + complete enumeration of operand tuples and of all 65 536 halfwords against the real code + cross-check of the RVC specification decoder (all halfwords) and of the emitted bytes against LLVM 14 (llvm-mc)',
        text=('Every operand tuple in and 8 steps outside each RV32C legal set (complete enumeration, ~0.5 M calls) is run '
              'through the real encoder, the Lean model and the Lean RVC specification (decode16 of the emitted halfword must '
              'be what the source named); in the reverse direction all 65 536 halfwords are decoded by the specification and '
              'the canonical text of each of the 28 461 legal ones must assemble to exactly that halfword, so accepted tuples '
              'and legal halfwords correspond one-to-one. Theorems enc16_sound / enc16_inj / enc16_onto state the same for the model. Whole programs (C01Program.lean, namespace C02): assemble_instr16_decodes - the same for all 27 RVC mnemonics, hand-written or produced by -c; the halfword is never a hint, reserved or illegal encoding.'),
        note=TB,
        ref='DESIGN.md §5 C02'),
    'C06': dict(
        category='proof',
        technique='Lean 4 theorems accept_iff_legal (both widths) + differential sweep of acceptance against an independent Legal predicate',
        text=('Acceptance by the real encoders is compared, on ~2.2 M operand tuples reaching far beyond both ends of every '
              'interval, all residues of every scale, all register numbers and non-register spellings, with the specification\'s '
              'Legal predicate (written from the ISA manual and the instruction reference) and with the Lean model; the text path '
              'checks that illegal lines are refused by an AssemblerError and legal ones assemble. Theorems tie model acceptance to Legal. Whole programs (C06Program.lean): unrepresentable_refused_program(16) - an instruction whose operands are not Legal, anywhere among good items (items that assemble in every context: no constant definitions, no references to labels), makes the whole assembly fail with the error on its line (no output), both modes; legal_instr_good + good_program_assembles - Legal literal 32-bit instructions are accepted in both modes and a program of good items assembles.'),
        note=TB + ' CSR numbers follow the signed 12-bit I-immediate (documented nowhere else); jalr offsets must be even as documented.',
        ref='DESIGN.md §5 C06'),
    'C07': dict(
        category='proof',
        technique='Lean 4 theorems for every integer (hi_range, lo_range, hi_lo_sum, pair_rebuilds) + differential test of relocate_hi/lo + decoded pair programs',
        text=('Theorems hold for EVERY integer v (no 2^32 bound): %hi fits 20 bits, %lo fits signed 12 bits, '
              '(hi<<12)+lo = v mod 2^32, the U/I/S encoders accept them, and the field placed at bit 12 plus the sign-extended '
              'low part rebuilds v mod 2^32. Tie: relocate_hi/relocate_lo/sign_extend of the real module agree with the model on '
              '~60 k structured values (all low-12-bit patterns x upper classes, negative and >2^32 spellings); lui/auipc + '
              'addi/lw/sw/jalr programs with %hi/%lo of literals, constants, labels and %position are assembled and decoded by the Lean spec. Whole programs (C07Program.lean): assemble_hi_lo_pair - a lui %hi(e) and any 32-bit consumer of %lo(e) (I-type, load, store, jalr; auipc pairs, c.lui and compressed consumers are outside the theorem) anywhere in a successful assembly decode to fields that rebuild value(e) mod 2^32 whenever e is position-free (labels, constants, %position); offset_pair_not_rebuilt is the counterexample for %offset.'),
        note=TB,
        ref='DESIGN.md §5 C07'),
}

CLAIMS.update({
    'C03': dict(
        category='proof',
        technique='Lean 4 invariant proof (walk_layout, assemble_layout) and per-transfer landing theorems (branch_lands, jal_lands, cj_lands, cb_lands, far_pair_offsets) over a pass-by-pass model + decoded-transfer oracle on the real output',
        text=('Theorems: the in-place label shifting of transform_compressible / transform_pseudo_instructions / resolve_aligns keeps the '
              'label table equal to the layout of the item list for every list and loop body (walk_layout, by induction, no size bound), and '
              'chaining it through assemble() shows that the reported label table gives for every label exactly the number of bytes emitted '
              'before its marker and the binary is the in-order concatenation of the blobs (assemble_layout). branch_lands / jal_lands / cj_lands / '
              'cb_lands: an item b/jal/c.j/c.jal/c.beqz/c.bnez ... L resolved at position p and encoded yields the bytes of a word the '
              'specification decodes to that transfer with p + offset = labels[L], for every distance the encoder accepts; far_pair_offsets: '
              'the auipc and its jalr carry %hi/%lo of the same offset labels[L] - p and rebuild it mod 2^32. assemble_branch_lands / '
              'assemble_jal_lands / assemble_compressed_lands compose these through the whole pipeline: in every successful assembly the 4 (2) '
              'output bytes at the byte offset of each such item decode to that transfer with offset + byte offset = value of the target in the '
              'returned tables. Tie and search: 1500+ seeded programs per run (all '
              'distance classes, pessimistically-far and really-far call/tail layouts, both modes) are assembled by the real code; label '
              'offsets are recomputed from the per-item chunks and every branch/jump/call/tail is decoded by the Lean spec and must reach its label. After an independent review of the statements (audit/REPORT.md) the end-to-end theorems are anchored: C03.Frame ties the list held after resolve_aligns to layoutOf (a function of the inputs, Frame.unique), assemble_layout_framed states the per-item partition of the real output, and assemble_transfer_lands_on_label is the single statement: offset of the transfer + decoded offset = number of output bytes contributed by the items in front of the label.'),
        note=TB + ' Hypotheses of assemble_layout: every align argument / include_bytes size is non-negative; no caller-pre-populated label table.',
        ref='DESIGN.md §5 C03'),
    'C08': dict(
        category='proof',
        technique='Lean 4 theorems: assemble_layout (final label table = byte offsets), imm_walk_positions and offset/position/hi/lo_value (what each modifier evaluates to, at which position); value oracle on the real output',
        text=('Theorems: resolve_immediates visits every item at its own byte position and moves no label (imm_walk_positions), against the '
              'final label table, which assemble_layout proves to be the byte offsets; %offset(L) = labels[L] - position, %position(L, b) = '
              'labels[L] + b, %hi/%lo of those values (a bare name is an arithmetic expression: that it evaluates to labels[L] is part of C11, not a C08 theorem) (offset_value, position_value, hi_value, lo_value, '
              'data_item_value, instr_item_value; the jalr of an auipc pair at the auipc position); assemble_data_value composes this through the '
              'pipeline: a db/dh/dw/dd <expr> item emits at its byte offset the little-endian bytes of the value of <expr> evaluated at that '
              'offset against the returned tables. The check recovers the value each referring item encodes in the real '
              'output (data bytes, decoded immediates, executed li) for dw/dd/pack, li, %hi/%lo pairs and I-type immediates written as bare '
              'labels, %position and %offset, before/after the label, across aligns and shrinking code, both modes. Known findings: KF-D '
              '(li with %offset, long form), KF-A (stale early decisions).'),
        note=TB,
        ref='DESIGN.md §5 C08'),
    'C09': dict(
        category='proof',
        technique='Lean 4 theorems: assemble_in_order (item-by-item order preservation through all fifteen passes), assemble_layout, align_minimal / align_emits_zeros + chunk-walk oracle on the real output',
        text=('assemble_in_order: whenever assembly succeeds the final blob list is the concatenation, in source order, of one image per '
              'source item - every blob carries the line of the item it came from, labels and constants contribute nothing, a data item exactly '
              'its documented size, an instruction 2 or 4 bytes (Expands is transitive and holds of each of the fifteen passes). '
              'align_minimal: the padding is the least pad >= 0 with N | position + pad, and pad < N; align_emits_zeros: those bytes are zeros. '
              'The check walks the per-item chunks of the real output: chunk order = source order, documented size per line, aligns emit the '
              'minimal number of zero bytes at every residue, data lines emit Python\'s own int.to_bytes / str.encode of the written values. assemble_align (C09Program.lean): at its final offset an align a contributes exactly (-offset) mod a zero bytes, minimal; Img now pins pseudo-instructions to 1-2 code items and aligns to nothing or one zero blob shorter than a.'),
        note=TB,
        ref='DESIGN.md §5 C09'),
    'C04': dict(
        category='proof',
        technique='Lean 4 theorems: soundness of every compression rule for every operand and every machine state (rule_sound, 29 criteria), item-wise shape of the pass, stability lemmas; + differential execution of the -c and non -c builds under the Lean exec specification',
        text=('Theorems: for each of the 29 entries of the criteria table, every instruction, every evaluation of its immediates and every '
              'machine state: if the predicates hold and the 32-bit instruction denotes i, the replacement form denotes a LEGAL compressed '
              'instruction ci with execC ci s = exec i 2 s (rule_sound / rule_sound_model / rule_sound_wellKinded); the operands of the '
              'replacement are in range (rule_in_range); the pass is item-wise and leaves every non-instruction item alone '
              '(compress_pass_itemwise, data_unchanged, compressBody_instr); a decision taken on a label-free immediate stays sound under any '
              'other label table and position (literal_decision_stable), a decision that re-evaluates to true at the final values is sound '
              'there (stable_item_sound). Program level, single run: assemble_compressed_literal_sound - in every successful -c assembly each 2-byte '
              'instruction of the output either stood compressed in the source or comes from a compression decision on a 32-bit instruction, and '
              'if that instruction has label-free immediates the two bytes at its offset decode to a legal compressed instruction that '
              'executes like it (at the final tables); offset_shrinks / assemble_compressed_transfer_sound / compressed_never_refused - the distance '
              'to every label only shrinks (same side of 0) between a compression decision and the final layout, so a c.j / c.jal / c.beqz / '
              'c.bnez chosen for a label target still fits, decodes to a legal transfer to the same target and executes like its 32-bit '
              'origin wherever that origin would be accepted, and is never the cause of a refusal. Two runs: two_run_corr / compress_same_ops_structure - under GrowHyps (li '
              'operands label-free, call/tail targets are labels, aligns >= 1, program < 2 GiB) the decided item lists of the run without and '
              'with -c correspond item by item: same item, or an instruction and its recorded compression decision, or a far auipc+jalr pair '
              'against a near jal (lockstep through the pseudo-instruction pass, pseudo_lockstep_corr). two_outputs_corr - over BOTH final byte strings: corresponding '
              'items are placed at their offsets q0 / q1 of the two outputs; the same label-free item gives identical bytes; the same 32-bit '
              'transfer decodes in both to the same instruction retargeted to the same LABEL; a compressed instruction decodes to a legal '
              'RVC instruction that executes like the 32-bit word of the other run (label-free) or like the same transfer to the same label. '
              'Not stated: a whole-program execution simulation (link registers hold layout-dependent addresses). Explored as well: every instruction line of every generated '
              'program is assembled both ways by the real assembler and both encodings are executed by the Lean specification from 8 register '
              'files; registers written, stores and the control-transfer target (mapped through both label tables) must agree, data bytes '
              'must be identical. Known findings KF-A4, KF-A7 (decisions taken on label-dependent values that later move) are exactly the '
              'cases the stability hypothesis excludes. All program-level statements are anchored to layoutOf (no free intermediate lists): two_outputs_corr exposes both layouts (strip A5 = lay0.decided, strip B6 = lay1.decided) and concludes expand16 ci = i for the ebreak class; text-level corollary two_outputs_text with the real hooks on a 14-line source.'),
        note=TB + ' exec / execC are a hand-written RV32IM + RVC semantics (lean/BB/Spec/Exec.lean).',
        ref='DESIGN.md §5 C04'),
    'C05': dict(
        category='proof',
        technique='Lean 4 theorems: effect of every pseudo-instruction expansion under the exec specification for all registers, values and states; expansion = documented table; emitted words denote the expansion; + execution of the real output',
        text=('Theorems: for every pseudo-instruction of the reference, all register numbers, all values / offsets and all machine states, '
              'executing the documented expansion under BB.Spec.exec has exactly the documented effect: li (short and long form, every v, '
              'incl. rd = x0), mv not neg seqz snez sltz sgtz, the ten pseudo-branches (condition on the signed / unsigned register values), '
              'j jal jr jalr ret, near and far call / tail (far: pc + off reached from an even pc, x1 = pc + 8 / x6 scratch), nop, fence '
              '(*_effect); the model expands each mnemonic to exactly the documented instructions (expand_matches_doc, expand_*), and the '
              'words the encoder emits for them decode to those instructions (bridge_*, emitted_word_denotes, li_long_emitted, '
              'call_far_emitted). Tie and search: for every pseudo-instruction line (all 27, all register choices incl. rd=rs/x0/sp, li '
              'values on the 12-/32-bit edges, all distance classes incl. far call/tail) the code emitted by the REAL assembler, without '
              'and with -c, is executed by the Lean specification from 8 register files and compared with the documented effect. Known '
              'findings KF-A6 / KF-D5: li whose operand depends on labels (width decided early). Whole programs (C05Program*.lean): in every successful assembly, both modes, the bytes a pseudo-instruction contributes at its offset execute with the documented effect (assemble_li_effect for label-free operands, assemble_pseudo_branch_effect / jump / call / tail to labels of the returned table with link = pc + emitted size, assemble_unary_effect, assemble_jr_effect, assemble_misc_effect); hypotheses: no item of negative size, the hook properties LitOK / Neg1OK / OffsetHook, for li an operand whose value does not depend on labels, target label not shadowed by a constant, no hand-written c.* items when -c.'),
        note=TB + ' call_far_effect / tail_far_effect need an even pc (JALR clears bit 0); the hypothesis-free forms are *_raw.',
        ref='DESIGN.md §5 C05'),
    'C12': dict(
        category='proof',
        technique='Lean 4 theorems: compress_preserves_success_program (two-run, program level, under hypotheses each forced by a real counterexample), compress_preserves_success_local (29 criteria), counterexample theorems for the unrestricted statement + outcome pairs (without / with -c) on generated programs',
        text=('Theorems: for every criterion, every instruction and every evaluation of its immediates: if the predicates hold and the '
              '32-bit instruction encodes, the replacement form encodes too, to 2 bytes (compress_preserves_success_local / _model, via '
              'rule_in_range: the replacement operands are legal for the compressed encoder). C04.compressed_never_refused: a compression '
              'decision on a label-free or label-transfer origin is never the cause of a refusal. The whole-program statement is FALSE even '
              'without label arithmetic and with even aligns: align_grows_distance (kernel-checked on the model, confirmed on the real '
              'assembler, KF-F) - a branch distance across an align can grow with -c; the next candidate statement is false too '
              '(statement2_false: a branch to a CONSTANT address gets farther, KF-G). PROVED at program level: '
              'compress_preserves_success_program - if the run without -c succeeds then the run with -c succeeds, under hypotheses that are '
              'predicates on the program and the hooks: GrowHyps (li operands label-free, call/tail targets are labels, aligns >= 1, < 2 GiB), '
              'SrcOK (every instruction immediate is label-free or a branch/jal %offset to a LABEL that no constant shadows; data immediates '
              'label-free; pseudo transfer targets are labels), AlignFreeTransfers (no align between a transfer and its target), NearRefs '
              '(pessimistic distances below 1 MiB; holds for every program below 1 MiB), and LitOK / Neg1OK / OffsetHook of the hooks, which '
              'the text front end satisfies (textHooks_hooks). AlignFreeTransfers and the label-free / label-target conditions are forced by real counterexamples (KF-A3, KF-B, KF-B2, KF-F, '
              'KF-G); the remaining members (no hand-written c.* item - wellKinded, no auipc-marked item, sizes below 2^31, positive aligns) are conveniences of the proof that hold of parsed text (parseItem_wellKinded); EvenAligns is not needed. Explored: each generated program is assembled both ways by the real assembler; '
              'success without -c and failure with -c is a violation unless the failing line is in the known-finding classes KF-A3 / KF-B '
              '(a compression rule consulted a label-dependent immediate that later left the compressed operand set) or KF-E (alignment to an odd boundary: distances do not keep their parity - found by the proof attempt; C04.compressed_never_refused shows that label-free and label-transfer decisions are otherwise never the cause). Final form (C12Program2.lean): compress_preserves_success_program2 drops the 1 MiB span hypothesis (far-without / near-with call and tail followed through both runs); the thorough tier also builds the slow library BBSlow with a concrete 1 MiB witness evaluated in the kernel in both modes.'),
        note=TB,
        ref='DESIGN.md §5 C12'),
    'C20': dict(
        category='proof',
        technique='Lean 4 theorems: every eligible, encodable instruction is matched by a compression criterion (eligible_compressed); at program level no literal instruction that stayed 32-bit is eligible (assemble_no_eligible_literal_left); two-run theorem nothing_grows (lockstep simulation of the pipelines with and without -c); + eligibility oracle on the real output, cross-checked against LLVM\'s compressor',
        text=('Theorems: eligible_compressed - for every well-kinded instruction whose resolved form denotes i and is accepted by the 32-bit '
              'encoder, if the RVC specification says i is the expansion of a legal non-hint compressed instruction then some criterion '
              'matches (18 per-mnemonic theorems + umbrella; firstMatch_decides reduces the model\'s predicate evaluation to a numeric one); '
              'first_match_is_16bit / matched_has_form - a match always produces a 2-byte replacement of a 4-byte instruction; '
              'compress_never_grows - no item of the pass grows; padTo_mono - alignment padding cannot make a later offset overtake; '
              'assemble_no_eligible_literal_left - at PROGRAM level: in the final output of every successful -c assembly no instruction with '
              'label-free immediates that stayed 32-bit is the expansion of a legal RVC instruction (resolution, encoding and decoding read '
              'off the run itself). nothing_grows - the second sentence in full, as a '
              'theorem about TWO runs: under GrowHyps (every li operand label-free, call/tail targets are labels, every align >= 1, pessimistic '
              'size < 2 GiB, sizes non-negative - branches, jumps, calls, label-dependent instruction immediates, every compression decision '
              'and odd aligns are all allowed) if the program assembles both ways then the binary with -c is no longer and no label lies '
              'higher (lockstep simulation of the two pipelines: pseudo_lockstep, align_lockstep; positions dominate although padding is not '
              'monotone). LiLiteral is necessary: KF-A5 is reproduced in the model by decide. Explored as well: for every literal-operand instruction line the Lean specification decides eligibility of the word emitted '
              'without -c and the -c build must emit 2 bytes; binary length and every label offset with -c must not exceed those without. '
              'Known finding KF-A5 (label arithmetic in li). eligible_iff (C20Complete.lean): eligible i holds exactly when i is the expansion of a legal RVC instruction, for all operand values; nothing_grows also states that both label tables have the program labels as keys; nothing_grows_text with the real hooks.'),
        note=TB,
        ref='DESIGN.md §5 C20'),
})

CLAIMS.update({
    'C18': dict(
        category='proof',
        technique='Lean 4 proof by induction over pages and busy-poll schedules (dfu_run_ok) of a host model composed with a DfuSe device automaton; real cli_main driven against the Lean device',
        text=('Theorem dfu_run_ok: for every firmware that fits, the four GD32 page counts, every fault-free schedule (unbounded busy-poll '
              'counts, arbitrary poll timeouts, either start state) and every initial flash, the composed run exits 0, prints done, leaves '
              'flash = initial flash with the zero-padded image on pages 0..ceil(len/1024)-1, erased = written = exactly those pages in '
              'order, and all five device monitors clean (erase-before-write, no request while busy, poll delays respected, addresses in '
              'range, aligned writes); run_halted / run_fuel_irrelevant remove fuel from every statement. Tie: the REAL bronzebeard.dfu.cli_main '
              'runs in-process against the LEAN device (fake usb package forwarding ctrl_transfer, time.sleep forwarded); its full event trace '
              'must equal the Lean host model\'s and the property is evaluated on what the real host did: every length 0..3073, the flash-size '
              'boundaries of all four variants, exhaustive busy-count schedules for 1-3 pages, seeded beyond.'),
        note=TB + ' The device automaton (DFU 1.1 + DfuSe) is specification; not exhibitable: that time.sleep really waits, USB transport errors other than a stall, pyusb/libusb, hardware conformance.',
        ref='DESIGN.md §5 C18'),
    'C19': dict(
        category='proof',
        technique='Lean 4 theorems oversize_no_request / device_error_not_done (+ single/double injection) over the same host+device model; fault injection against the real cli_main',
        text=('Theorems: an oversize firmware yields an empty request trace, non-zero exit and untouched flash (any page count); if any reachable '
              'erase/set-address/write operation is given a non-OK status - any number of injections - the run exits non-zero, never prints done, '
              'and the exit message is that of the FIRST failing operation (eraseFailed addr status / addrFailed addr status / writeFailed addr status), for an error status reported with or without the dfuERROR state (two fault flavours). Tie: '
              'the real cli_main against the Lean device with each error status 1..15 injected at every erase/write/set-address step of runs of '
              '<= 4 pages (all single, all double for <= 2 pages), oversize lengths size+1..size+2048 and 2*size for all variants. The device specification has two fault flavours (error status with dfuERROR; error status while the state stays dfuDNLOAD_IDLE): device_error_not_done quantifies over both at erase, set-address and write steps; extending the device this way exposed the missing status check after set-address in the real host (fixed: bfa32d3), status_only_set_address_stops replays that schedule in the kernel.'),
        note=TB + ' Set-address failures surface as a raw USBError traceback (exit 1, no done!) - the property names erase and write statuses only.',
        ref='DESIGN.md §5 C19'),
})

CLAIMS.update({
    'C10': dict(
        category='proof',
        technique='Lean 4 theorems on the struct.pack model (packInt_accept_iff, packInt_le_value, seq_elem_accept_iff) + boundary sweep / strings / include_bytes trees against the real code',
        text=('Theorems (every width, every integer): packInt succeeds exactly when the value fits the signed / unsigned range of the width and '
              'then the bytes are the little-endian base-256 digits of v mod 2^(8n) (big-endian = reverse); a sequence element is accepted exactly '
              'from the signed minimum to the unsigned maximum. assemble_layout places the data blob in order. Tie + oracle: every numeric '
              'directive and all 20 documented pack formats x values at +-2 around signed min / signed max / unsigned max / 0 / 2^bits plus '
              'seeded interior and huge values in three spellings (fits -> Python int.to_bytes bytes, misfit -> AssemblerError); strings with '
              'escapes, quotes, #/,/() characters and 2-/3-/4-byte UTF-8; include_bytes with random contents (incl. empty) in the including '
              'directory / -i directories / several directories, decoy files of equal size in the cwd, three working directories, compared '
              'with the file the documented search finds and with the Lean filesystem model; data lines inside whole programs. Whole programs (C10Program.lean): assemble_sequence_value, assemble_pack_value (all 20 formats, data_width_table), data_unchanged_by_compression. Text (C10Text.lean, Spec/Utf8.lean): string_utf8 for every scalar value with an independent decoder (utf8_decode_encode), the escape theorems for the Latin-1 and the non-Latin-1 path. data_unchanged_by_compression concludes equal slices of full length (d.length = sizeD) inside two frames.'),
        note=TB + ' Non-ASCII text is modelled where the documentation puts it: in the text of string / error lines and in comments, in UTF-8 source files (C10Text: string_utf8, utf8_decode_encode, the escape theorems incl. the Latin-1 / non-Latin-1 paths); non-ASCII characters in the code part of a line, in include paths, lone-surrogate escapes and \\N{...} stay outside the model (unsupported, still judged by the oracle).',
        ref='DESIGN.md §5 C10'),
    'C11': dict(
        category='proof',
        technique='Lean 4 theorems on the eval model (operator semantics, literal spellings, precedence, parser round trip) + tree-evaluated constants and constant-vs-literal program pairs on the real code',
        text=('Theorems (BB.Props.C11, no bounds): every operator node evaluates to the mathematical operation on its operands (// = floor, % with '
              'the divisor\'s sign, >> = floor(x/2^n), ~x = -x-1, & | ^ bitwise at every bit index), the decimal / 0x / 0b spelling of every n '
              'evaluates to n, Python\'s precedence and associativity hold for all 121 operator pairs, fully parenthesised renderings parse back '
              '(parse_render); the model\'s mnemonic tables equal the live module\'s (TablesFront). Tie + oracle: seeded expression trees whose '
              'value is computed from the TREE are rendered with random spacing / redundant parentheses / literal spellings and must equal the '
              'constants table of the real assemble(); all 95 printable ASCII character literals; a constant in each of 21 operand positions '
              '(immediates, shift amounts, register aliases, data, %hi/%lo/%position, li) vs its literal value, both modes; the Lean model must '
              'agree on every program. Character literals (BB.Props.C11Char): for every ASCII character c other than the backslash the line K = \'c\' lexes to three '
              'tokens, parses to the definition of K and evaluates to the code point of c - comma, #, parentheses, blank and the quote included '
              '(const_char; quoted_operand for any operand position; the escapes \'\\\\\' \'\\n\' \'\\x41\'; a lone backslash stays refused); the harness '
              'assembles every printable character literal, alone, with a comment behind it and as an immediate / data value (repaired defect, fix 0465487). '
              'Whole programs (BB.Props.C11 in C11Program.lean): imm_congruence / const_subst_same_result - two item lists that differ only in immediates which '
              'evaluate alike wherever the constants table has K = v give the same assembleItems result (bytes, labels, constants, errors; both modes); '
              'text_congruence lifts it to two source texts; arith_subst: replacing K inside an expression string by the literal of v is such a rewriting; '
              'alias_same_result: the same for a constant used as a register; branch_target_name_vs_value proves the documented exception (a name as a transfer target is a reference).'),
        note=TB + ' Python-only expression syntax beyond the documented operators is unsupported (counted, never compared). A name as a branch/jal target is a reference, not a literal offset (documented operand meaning).',
        ref='DESIGN.md §5 C11'),
    'C13': dict(
        category='proof',
        technique='Lean 4 theorems on the lexer/parser model (sep_irrelevant, blank/comment lines, reg_spelling, int_spelling, base_offset_forms) + pairwise comparison of re-spelled programs on the real code',
        text=('Theorems (BB.Props.C13): replacing any separator run by any other, adding leading/trailing blanks or a trailing comment leaves the '
              'token list unchanged (sep_irrelevant, for all ASCII lines that are not string/error lines and have no apostrophe in front of their comment - inside a quoted character a blank, a comma or # is that character, C11Char); blank and comment-only lines yield no '
              'item; every register spelling (number, xN, ABI alias, hex/binary/octal numeral) names its register; the two base+offset '
              'spellings of all 11 mnemonics parse to the same item from source text. Tie + oracle: each generated program is re-spelled 5-8 '
              'times, every line and operand independently, and the real assembler\'s bytes and ordered label tables must be pairwise equal in '
              'both modes; the Lean model must agree on the variants. Whole programs (C13Program.lean): spelling_same_result - two ASCII source texts whose lines '
              'are related by any interleaving of the documented freedoms (separators / indentation / trailing comment, off(base) vs flat form, register spellings, '
              'blank and comment-only lines inserted or deleted) give the same bytes, labels and constants or both fail, both modes, any filesystem; '
              'assembleItems_regSame: no pass can tell two spellings of a register apart. SpellRel also has the integer-spelling constructor (decimal / 0x / 0b numerals of one value, through C11 congruence); spelling_same_result_errors: the same kind of failure, not only both fail; regRespelled_of_tokens is the token-level condition; ex_both_succeed is an instance where both texts assemble.'),
        note=TB + ' ASCII input; Unicode whitespace is outside the documented freedoms.',
        ref='DESIGN.md §5 C13'),
})

CLAIMS.update({
    'C14': dict(
        category='proof',
        technique='Lean 4 theorems over a filesystem model of read_lines (include_is_splice, include_same_result, cwd_irrelevant, assemble_ignores_line_metadata) + seeded include trees run through the real assemble()/CLI from several working directories against a harness-spliced single file',
        text=('Theorems: an `include F` line contributes exactly the lines read_lines returns for the file the search finds (-i directories '
              'in order, then the including file\'s directory), read relative to that file\'s own directory, recursively to any depth '
              '(include_is_splice); for an include-free F the including text and the text with F\'s lines in place read to the same line '
              'contents (include_textual_splice); lexer, parser and every pass use a Line only through its contents '
              '(assemble_ignores_line_metadata, parseItem_mapLine; all passes covered), so both texts give the same bytes, labels and '
              'constants or both fail (include_same_result); assembling an absolute path with absolute -i directories never consults the '
              'cwd (cwd_irrelevant). Tie and search: 700 / 12000 seeded include trees per run (depth 0-4, include first/middle/last/only '
              'line, sibling / sub / parent / absolute / -i directories, shadow files of the same name where only the search order or the '
              'included file\'s directory decides, include_bytes at every depth, quoted / commented / upper-case forms, cross-file labels and '
              'constants, ~10% failing trees) are materialised in a temp dir and assembled by the real code from 5 working directories (one '
              'full of same-name same-size decoys) with absolute and relative main paths, both modes, and through the CLI with relative and '
              'absolute -i; bytes, ordered label table and constants must be equal everywhere and equal to the harness-spliced single '
              'source; the Lean model (asmfs) must reply the same on the same filesystem. include_tree_splice / include_tree_same_result(_errors): include trees of ANY depth against IncTree.flat, a specification-side splice that mentions neither filesystem nor fuel (depth within the fuel is a hypothesis; trees containing include_bytes lines are outside, because such a line resolves relative to the file it stands in); cwd_irrelevant is true by construction for absolute paths.'),
        note=TB + ' Filesystem = absolute normalised POSIX paths; .. / non-normalised paths, symlinks, non-ASCII file names and include cycles (real code: RecursionError) are outside the model (counted, still covered by the oracle). The search order is the code\'s choice; the oracle splices with it. OS behaviour of os.path/open trusted.',
        ref='DESIGN.md §5 C14'),
    'C17': dict(
        category='proof',
        technique='Lean 4 theorems over a model of cli_main (plan / writeOutputs) with bin2hex as a parameter + Intel HEX specification decoder with proved round trip + the real entry point in subprocesses with sentinel files and failures planted in every pass',
        text=('Theorems: every exit before the first write (missing input, invalid -i directory, invalid --hex-offset, any assemble '
              'failure, an offset Intel HEX cannot hold) leaves the filesystem untouched with a non-zero status (plan_error_untouched, '
              'plan_error_ne0, bad_offset_exits, out_of_range_offset_exits); a run that gets as far as writing has 0 <= offset and offset + '
              'size <= 2^32 (plan_offset_in_range), so under the stated assumption on bin2hex (HexOk: it does not raise for images Intel HEX '
              'can hold) every failing run that is not an operating-system write failure leaves the filesystem unchanged (cli_failure_untouched_range, with the hypothesis not-osFailure; assembler_failure_untouched states the property\'s own quantifier - a failure raised by a pass of the assembler - unconditionally); an OS-refused write is modelled faithfully (ExitStatus.osError: the -l file stays written when -o cannot be opened, os_failure_after_labels_written; not_cliFailureUntouched refutes the unrestricted statement); on success exit 0, -o = the assembled bytes, -l = one '
              '`name 0x%08x` line per label in table order, .hex = bin2hex\'s output, all other paths unchanged (cli_success_files, '
              'labelText_lines), and the .hex file decodes under the specification decoder to the bytes at the offset '
              '(cli_success_hex_decodes); Hex.decode (Hex.encode off bs) = (off, bs) for all off + |bs| <= 2^32 (hex_roundtrip), so the '
              'assumption is satisfiable (hexOk_encode). Tie and search: 1600 / 24000 runs of `python -m bronzebeard.asm` per check run in '
              'temp dirs: generated programs x (-c, -v, -i rel/abs, -o default/rel/subdir/abs, -l, --hex-offset valid / invalid / out of '
              'range, --include-definitions), -o/-l/.hex pre-existing with sentinels, a planted fault for every pass and option check; exit 0 '
              '=> files exactly as computed in-process and the real .hex decoded by the Lean decoder = (offset, bytes), exit != 0 => no '
              'file changed or created; the Lean Cli.run must give the same exit class and written files.'),
        note=TB + ' argparse not modelled (model starts from the namespace); intelhex.bin2hex is third-party: a parameter in the theorems (assumption stated as hypothesis HexOk), its real output checked by decoding; OS write failures (unwritable paths) outside the claim.',
        ref='DESIGN.md §5 C17'),
})

CLAIMS.update({
    'C15': dict(
        category='proof',
        technique='Lean 4 theorems over the pass-by-pass and text-front-end model (every pass keeps Item.line; read_lines numbers lines per file) + planted-fault differential correspondence + direct oracle on exception type, file and line, including the command line',
        text=('Theorems: every pass of assemble() - resolve_constants, resolve_labels, resolve_register_aliases, transform_compressible, '
              'transform_pseudo_instructions, resolve_aligns, resolve_immediates and the one-to-one passes - puts out only items carrying the '
              'Line of an item it was given and raises AssemblerError only with such a Line (lines_preserved); hence an AssemblerError from '
              'anywhere in the pipeline names the line of a parsed item, with and without compression and through pseudo-instruction '
              'expansion (error_line_is_source_line), every parsed item carries a Line read_lines produced (assembleText_error_line), and '
              'every such Line has the path of the file it was read from and its 1-based index in that file\'s splitlines() at any include '
              'depth (readLines_numbered, assembleText_path_error_numbered). One theorem per listed fault class for the simplest shape: '
              'encoder ValueError, data misfit, unknown register in a compression predicate, undefined %offset/%position reference (through '
              'resolve_immediates), failing arithmetic in an immediate or constant, the second definition of a label, the error directive, '
              'a missing include. Tie and search: 8640 (thorough 86400) seeded cases per run - each class x first/middle/last/random '
              'position x include depth 0-3 x both modes, faults on instructions, pseudo-instructions, data directives, explicit c.* '
              'mnemonics and lines a compression rule inspects, escapes unicode_escape rejects - are assembled by the real code; exception '
              'type, .line.file and .line.number must be the planted line\'s, ~10 % also through the CLI; the Lean model must reply the '
              'same error location. Whole programs (C15Program.lean): fault_reported_at_its_line - one faulty item of a listed class anywhere between good items (good = assembles in every context: the surroundings may define labels but contain no constant definitions and no references to labels) '
              '(any labels, data, aligns, instructions, pseudo-instructions that assemble in every context) makes assembleItems fail with the assembler\'s error '
              'carrying that item\'s line, with and without compression; one instance per class; first_fault_wins_*: which of two faults is reported. Text level (C15Text.lean): fault_reported_text - assembleText of a source text fails with the assembler error whose line number is the 1-based index of the faulty line and whose contents are that line of the text (LineOfFile now ties number to text); fault_text_example: a 6-line source whose 4th line addi x5, x6, 2048 is reported, both modes; C15Include.lean: fault_reported_in_include / fault_reported_in_tree - a fault inside an included file is reported with the path the include search produced, its line number in that file and that line\'s text (instance: /r/sub/f.asm line 2).'),
        note=TB + ' Wrong operand counts, unknown mnemonics / pack formats, align 0 and include cycles are not among the listed classes and are not planted. For a duplicated label either definition\'s line satisfies the oracle; the model demands the second. The whole-pipeline statement is proved for one fault among context-independent good items (GoodItem); surroundings whose own success depends on the layout are covered by the planted-fault runs only.',
        ref='DESIGN.md §5 C15'),
    'C16': dict(
        category='translation_validation',
        technique='history correspondence of the real assemble() against a history-free Lean model + module-table snapshots + fresh processes under 8 PYTHONHASHSEED values; the Lean theorems (assemble_pure, history_independent) are true by construction and stated as such',
        text=('Seeded histories of 5-50 assemble() calls in one interpreter (192 per quick run, 1600 thorough) over a pool of valid, failing, '
              'cross-referencing and same-named programs, both modes, with fresh / absent / reused-and-cleared / equal-content caller '
              'dictionaries and dirty-dictionary calls as noise: every result (bytes, ordered labels, ordered constants, or error class + '
              'file + line) must equal every other observation of the same call in any history of any interpreter and the reply of the Lean '
              'model, which has no history; REGISTERS, INSTRUCTIONS, every *_TYPE_INSTRUCTIONS, PSEUDO_INSTRUCTIONS, '
              'BASE_OFFSET_INSTRUCTIONS, NUMERIC_SEQUENCE_NAMES, SHORTHAND_PACK_NAMES and KEYWORDS are compared key by key (identity, '
              'equality, dict order) around every history; the command line is run on 9+ programs under 8 hash seeds and its exit status, '
              '-o bytes, -l text and -v listing must be identical and equal the in-process result. Why this level: a theorem about the '
              'model\'s purity is true by construction (a Lean function has no hidden state); what carries weight is that the real '
              'implementation, run through arbitrary histories, keeps agreeing with that history-free function.'),
        note='Caller dictionaries are inputs (a populated, uncleared dictionary is a different input; pre-populated label tables are outside the model). Interpreter-level state outside asm.py is exercised, not modelled. Partial: no theorem about the Python interpreter.',
        ref='DESIGN.md §5 C16'),
})

PENDING_REASON = 'check not built yet (work in progress; see DESIGN.md section 5 for the plan)'


def main():
    props = [json.loads(l) for l in open(os.path.join(VERIF, 'properties.jsonl'))]
    checks = []
    na = []
    for p in props:
        pid = p['id']
        c = CLAIMS.get(pid)
        if c and os.path.exists(os.path.join(VERIF, 'harness', 'props', pid.lower() + '.py')):
            checks.append({
                'property_id': pid,
                'quick_cmd': './check {} --tier quick'.format(pid),
                'thorough_cmd': './check {} --tier thorough'.format(pid),
                'evidence_file': 'evidence/{}.json'.format(pid),
                'replay_cmd_template': './check {} --replay {{path}}'.format(pid),
                'engine': 'lean-model+harness',
                'level_claimed': {'category': c['category'], 'text': c['text'], 'design_ref': c['ref']},
                'level_note': c['note'],
                'technique': c['technique'],
            })
        else:
            na.append({'property_id': pid, 'reason': (c or {}).get('na', PENDING_REASON)})
    claimed = [c['property_id'] for c in checks]
    m = {
        'version': 1,
        'setup_cmd': 'cd lean && lake build bbdrv && lake build',
        'hooks': {
            'guard': 'BRONZEBEARD_VERIF',
            'enable': 'no source hooks: everything is observed from outside (public functions, wrapped module functions, an injected usb package)',
            'baseline_off_cmd': 'cd /repo && /venv/bin/python -m pytest -ra -q -p no:cacheprovider --timeout=900 --continue-on-collection-errors',
            'source_commits': [],
            'add_only': True,
        },
        'engines': [
            {'name': 'lean-model', 'path': 'lean/', 'serves_properties': claimed,
             'kind_free_text': 'Lean 4 model + specification + theorems; bbdrv line-protocol driver'},
            {'name': 'harness', 'path': 'harness/', 'serves_properties': claimed,
             'kind_free_text': 'Python correspondence / oracle harness running the real code in-process'},
        ],
        'checks': checks,
        'notes': 'Properties move from not_applicable to checks as their check is built. Fixes of genuine defects are "fix:" commits in /repo, listed in KNOWN_FINDINGS.txt.',
        'not_applicable': na,
    }
    with open(os.path.join(VERIF, 'MANIFEST.json'), 'w') as f:
        json.dump(m, f, indent=1)
    print('claimed:', claimed)


if __name__ == '__main__':
    main()
