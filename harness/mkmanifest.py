"""Regenerates /verif/MANIFEST.json from the table below (python -m harness.mkmanifest)."""
import json
import os

from harness import obligations

VERIF = os.path.dirname(os.path.dirname(os.path.abspath(__file__)))

TB = ('Trusted base: Lean 4.33.0 kernel; axioms propext / Classical.choice / Quot.sound only (audited per theorem '
      'on every run, no sorry/native_decide/bv_decide); the hand-written specification under lean/BB/Spec; the '
      'correspondence harness and the Lean compiler/runtime of the bbdrv driver. Modelled, not verified: Python int, '
      'ctypes.c_uint32, struct.pack, re, eval on the documented operator subset, os.path/open.')

CLAIMS = {
    'C01': dict(
        category='proof',
        technique='Lean 4 theorems (enc32_sound, enc32_inj) over a Python-shaped model + exhaustive/boundary differential correspondence + Lean-spec decode oracle',
        text=('Theorems: for every one of the 66 32-bit rows of the instruction table (proved equal to the live module\'s '
              'INSTRUCTIONS by a decide-checked generated table), every accepted argument list denotes legal operands and '
              'the word decodes under the ISA-manual specification to the instruction the source named (enc32_sound); the '
              'encoding is injective per mnemonic up to the documented dual spelling of U-type immediates (enc32_inj). '
              'Tie to the code: ~1.7 M operand tuples per run (all register triples of R-type, every immediate from 64 below '
              'to 64 above each interval, all fence sets, boundary + seeded U/J immediates; the complete cross product in the '
              'thorough tier) are run through the real encoders and the model and must agree, each accepted word is decoded by '
              'the Lean specification and compared with the source operands, collisions are searched per mnemonic, and 6000+ '
              'one-line programs go through assemble().'),
        note=TB + ' Registers given to the encoders directly are ints or ASCII strings.',
        ref='DESIGN.md §5 C01'),
    'C02': dict(
        category='proof',
        technique='Lean 4 theorems over the RVC encoder model + complete enumeration of operand tuples and of all 65 536 halfwords against the real code',
        text=('Every operand tuple in and 8 steps outside each RV32C legal set (complete enumeration, ~0.5 M calls) is run '
              'through the real encoder, the Lean model and the Lean RVC specification (decode16 of the emitted halfword must '
              'be what the source named); in the reverse direction all 65 536 halfwords are decoded by the specification and '
              'the canonical text of each of the 28 461 legal ones must assemble to exactly that halfword, so accepted tuples '
              'and legal halfwords correspond one-to-one. Theorems enc16_sound / enc16_inj / enc16_onto state the same for the model.'),
        note=TB,
        ref='DESIGN.md §5 C02'),
    'C06': dict(
        category='proof',
        technique='Lean 4 theorems accept_iff_legal (both widths) + differential sweep of acceptance against an independent Legal predicate',
        text=('Acceptance by the real encoders is compared, on ~2.2 M operand tuples reaching far beyond both ends of every '
              'interval, all residues of every scale, all register numbers and non-register spellings, with the specification\'s '
              'Legal predicate (written from the ISA manual and the instruction reference) and with the Lean model; the text path '
              'checks that illegal lines are refused by an AssemblerError and legal ones assemble. Theorems tie model acceptance to Legal.'),
        note=TB + ' CSR numbers follow the signed 12-bit I-immediate (documented nowhere else); jalr offsets must be even as documented.',
        ref='DESIGN.md §5 C06'),
    'C07': dict(
        category='proof',
        technique='Lean 4 theorems for every integer (hi_range, lo_range, hi_lo_sum, pair_rebuilds) + differential test of relocate_hi/lo + decoded pair programs',
        text=('Theorems hold for EVERY integer v (no 2^32 bound): %hi fits 20 bits, %lo fits signed 12 bits, '
              '(hi<<12)+lo = v mod 2^32, the U/I/S encoders accept them, and the field placed at bit 12 plus the sign-extended '
              'low part rebuilds v mod 2^32. Tie: relocate_hi/relocate_lo/sign_extend of the real module agree with the model on '
              '~60 k structured values (all low-12-bit patterns x upper classes, negative and >2^32 spellings); lui/auipc + '
              'addi/lw/sw/jalr programs with %hi/%lo of literals, constants, labels and %position are assembled and decoded by the Lean spec.'),
        note=TB,
        ref='DESIGN.md §5 C07'),
}

PENDING_REASON = 'check not built yet (work in progress; see DESIGN.md section 5 for the plan)'


def main():
    props = [json.loads(l) for l in open(os.path.join(VERIF, 'properties.jsonl'))]
    checks = []
    na = []
    for p in props:
        pid = p['id']
        c = CLAIMS.get(pid)
        if c and os.path.exists(os.path.join(VERIF, 'harness', 'props', pid.lower() + '.py')):
            checks.append({
                'property_id': pid,
                'quick_cmd': './check {} --tier quick'.format(pid),
                'thorough_cmd': './check {} --tier thorough'.format(pid),
                'evidence_file': 'evidence/{}.json'.format(pid),
                'replay_cmd_template': './check {} --replay {{path}}'.format(pid),
                'engine': 'lean-model+harness',
                'level_claimed': {'category': c['category'], 'text': c['text'], 'design_ref': c['ref']},
                'level_note': c['note'],
                'technique': c['technique'],
            })
        else:
            na.append({'property_id': pid, 'reason': (c or {}).get('na', PENDING_REASON)})
    claimed = [c['property_id'] for c in checks]
    m = {
        'version': 1,
        'setup_cmd': 'cd lean && lake build bbdrv && lake build',
        'hooks': {
            'guard': 'BRONZEBEARD_VERIF',
            'enable': 'no source hooks: everything is observed from outside (public functions, wrapped module functions, an injected usb package)',
            'baseline_off_cmd': 'cd /repo && /venv/bin/python -m pytest -ra -q -p no:cacheprovider --timeout=900 --continue-on-collection-errors',
            'source_commits': [],
            'add_only': True,
        },
        'engines': [
            {'name': 'lean-model', 'path': 'lean/', 'serves_properties': claimed,
             'kind_free_text': 'Lean 4 model + specification + theorems; bbdrv line-protocol driver'},
            {'name': 'harness', 'path': 'harness/', 'serves_properties': claimed,
             'kind_free_text': 'Python correspondence / oracle harness running the real code in-process'},
        ],
        'checks': checks,
        'notes': 'Properties move from not_applicable to checks as their check is built. Fixes of genuine defects are "fix:" commits in /repo, listed in KNOWN_FINDINGS.txt.',
        'not_applicable': na,
    }
    with open(os.path.join(VERIF, 'MANIFEST.json'), 'w') as f:
        json.dump(m, f, indent=1)
    print('claimed:', claimed)


if __name__ == '__main__':
    main()
