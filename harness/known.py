"""Known findings (KNOWN_FINDINGS.txt): a `finding:` line suppresses a failure of its property only
when the failing input satisfies the finding's *class predicate* below.  Nothing here ever writes
the file.  `fixed:` lines suppress nothing."""
import json
import os
import re

from harness import common

LABEL_RE = re.compile(r'[A-Za-z_][A-Za-z0-9_]*')


def _program_lines(case):
    return (case.get('program') or '').split('\n')


def _label_names(case):
    """names that denote label addresses where a value is needed: a name that is also defined as a constant
    denotes the constant (constants are looked up first), so it is not a label reference"""
    lines = _program_lines(case)
    consts = set(l.split('=')[0].strip() for l in lines if '=' in l and re.fullmatch(r'\s*[A-Za-z_][A-Za-z0-9_]*\s*=.*', l))
    return set(l.strip()[:-1] for l in lines if l.strip().endswith(':') and ' ' not in l.strip()) - consts


def _mentions_label_outside_offset(line, labels):
    """an instruction/li/data line whose immediate mentions a label other than as the sole operand of
    a branch / jump / call / tail (i.e. other than through a plain %offset)"""
    code = line.split('#')[0].strip()
    if not code or code.endswith(':') or '=' in code.split()[1:2]:
        return False
    toks = re.split(r'[\s,()]+', code)
    head = toks[0].lower()
    if head in ('beq', 'bne', 'blt', 'bge', 'bltu', 'bgeu', 'beqz', 'bnez', 'blez', 'bgez', 'bltz', 'bgtz', 'bgt', 'ble',
                'bgtu', 'bleu', 'j', 'jal', 'call', 'tail') and toks[-1] in labels and not any(t in labels for t in toks[1:-1]):
        return False
    return any(t in labels for t in toks[1:])


def _failing_line(case):
    """text of the source line a failure was reported on (checks pass it as case['line'])"""
    return (case.get('line') or '').split('#')[0].strip()


def cls_li_offset(case):
    """KF-D: the failing line is an `li` whose operand contains %offset (in its two-instruction form
    the %lo part is evaluated at the second instruction's own position)"""
    t = _failing_line(case).lower()
    return t.startswith('li ') and '%offset' in t


def cls_li_label_arith(case):
    """KF-A (li): the failing line is an `li` whose operand combines a label with an arithmetic
    operator or with the base of %position, so the early width decision can go stale"""
    t = _failing_line(case)
    if not t.lower().startswith('li '):
        return False
    labels = _label_names(case)
    operand = t.split(None, 2)[2] if len(t.split(None, 2)) > 2 else ''
    has_label = any(tok in labels for tok in re.split(r'[^A-Za-z0-9_]+', operand))
    if '%position' in operand and has_label:
        return True                       # %position(L, base) is the label arithmetic base + L
    return has_label and any(op in operand for op in '+-*/&|^~<>') and '%offset' not in operand.replace('-', '')


DATA_HEADS = ('db', 'dh', 'dw', 'dd', 'pack', 'bytes', 'shorts', 'ints', 'longs', 'longlongs', 'string', 'align',
              'include', 'include_bytes')


def _head(line):
    t = line.split('#')[0].split()
    return t[0].lower() if t else ''


def cls_compress_label_imm(case):
    """KF-A / KF-B (-c): with compression on, the failing line is an instruction or li (not a data
    directive, not a plain branch/jump target) whose immediate mentions a label: a compression
    rule consulted a value that later moved"""
    if not case.get('compress', True):
        return False
    line = _failing_line(case)
    if _head(line) in DATA_HEADS:
        return False
    labels = _label_names(case)
    return _mentions_label_outside_offset(line, labels)


def _emitted_halfword(case):
    """the 2-byte form the failing line was emitted as with -c, read from the problem text (None if it was not 2 bytes)"""
    import re
    msg = case.get('problem') or ''
    m = re.search(r'with -c ([0-9a-f]+)\b', msg) or re.search(r'= ([0-9a-f]+): ', msg)
    if not m or len(m.group(1)) != 4:
        return None
    return int.from_bytes(bytes.fromhex(m.group(1)), 'little')


def cls_compress_drops_label_imm(case):
    """KF-A (-c, value changed): the failing line is an addi / jalr (or mv-like) whose label-dependent
    immediate was 0 at decision time, so the rule chosen (c.mv, c.nop, c.jr, c.jalr) has no
    immediate field at all - the emitted halfword must be one of those forms: a compressed form that HAS an
    immediate field carries the expression to the end and is not this finding"""
    if not case.get('compress', True):
        return False
    line = _failing_line(case)
    if _head(line) not in ('addi', 'jalr'):
        return False
    if not _mentions_label_outside_offset(line, _label_names(case)):
        return False
    h = _emitted_halfword(case)
    if h is None:
        return False
    return h == 0x0001 or (h & 3 == 2 and (h >> 13) == 4)


def cls_program_label_imm(case):
    """KF-A / KF-B seen globally (sizes, outcome): the program contains an li or a non-branch
    instruction whose immediate mentions a label"""
    labels = _label_names(case)
    return any(_mentions_label_outside_offset(l, labels) for l in _program_lines(case)
               if _head(l) not in DATA_HEADS)


def cls_odd_layout(case):
    """KF-E: the program aligns to an odd boundary (align N, N odd and > 1), so whether code addresses are even depends
    on the sizes in front of it and a branch distance can be even without -c and odd with it"""
    for l in _program_lines(case):
        t = l.split('#')[0].split()
        if len(t) == 2 and t[0].lower() == 'align':
            try:
                n = int(t[1], 0)
            except ValueError:
                continue
            if n > 1 and n % 2 == 1:
                return True
    return False


def cls_data_label_offset(case):
    """KF-B2 (-c): the failing line is a data directive (pack / db / dh / dw / dd) whose value is a distance to a label
    (%offset): the distance changes with the layout, so a range check on it can flip"""
    if not case.get('compress', True):
        return False
    line = _failing_line(case)
    return _head(line) in ('pack', 'db', 'dh', 'dw', 'dd') and '%offset' in line


TRANSFERS = ('beq', 'bne', 'blt', 'bge', 'bltu', 'bgeu', 'beqz', 'bnez', 'blez', 'bgez', 'bltz', 'bgtz', 'bgt', 'ble', 'bgtu', 'bleu',
             'j', 'jal', 'call', 'tail')


def cls_transfer_across_align(case):
    """KF-F (-c): the failing line is a branch / jump to a label and an `align N` with N >= 4 lies BETWEEN the two in
    the program: alignment padding is not monotone in what precedes it, so a distance across an align can GROW when
    code shrinks"""
    if not case.get('compress', True):
        return False
    line = _failing_line(case)
    if _head(line) not in TRANSFERS:
        return False
    toks = re.split(r'[\s,()]+', line.strip())
    if not toks or toks[-1] not in _label_names(case):
        return False
    target = toks[-1]
    lines = [l.split('#')[0].strip() for l in _program_lines(case)]
    at = [i for i, l in enumerate(lines) if l == line]
    lab = [i for i, l in enumerate(lines) if l == target + ':']
    if not at or not lab:
        return False
    across = False
    for a in at:
        lo, hi = min(a, lab[0]), max(a, lab[0])
        for l in lines[lo + 1:hi]:
            t = l.split()
            if len(t) == 2 and t[0].lower() == 'align':
                try:
                    if int(t[1], 0) >= 4:
                        across = True
                except ValueError:
                    pass
    if not across:
        return False
    # the finding is about the reach of the form the SOURCE names.  A transfer that the assembler itself turned into its
    # 16-bit form and that then does not reach is something else (the decision is taken on pessimistic sizes and must hold):
    # with the failing line replaced by a transfer no rule compresses, the -c build must still be refused.
    try:
        from harness import progs
        asm = progs.get_asm()
        head = _head(line)
        repl = '    jal x5, %s' % target if head in ('j', 'jal', 'call', 'tail') else '    beq x1, x2, %s' % target
        out, done = [], False
        for l in _program_lines(case):
            if not done and l.split('#')[0].strip() == line:
                out.append(repl)
                done = True
            else:
                out.append(l)
        res = progs.assemble_chunks(asm, '\n'.join(out) + '\n', True)
        return res.status != 'ok'
    except Exception:
        return True


def cls_transfer_to_constant(case):
    """KF-G (-c): the failing line is a branch / jump whose target is a CONSTANT (an absolute address): the instruction
    moves down when code in front of it shrinks, the address does not, so the distance grows"""
    if not case.get('compress', True):
        return False
    line = _failing_line(case)
    if _head(line) not in TRANSFERS:
        return False
    toks = re.split(r'[\s,()]+', line.strip())
    lines = _program_lines(case)
    consts = set(l.split('=')[0].strip() for l in lines if '=' in l and re.fullmatch(r'\s*[A-Za-z_][A-Za-z0-9_]*\s*=.*', l))
    return bool(toks) and toks[-1] in consts


CLASSES = {
    'transfer-across-align': cls_transfer_across_align,
    'transfer-to-constant': cls_transfer_to_constant,
    'data-label-offset': cls_data_label_offset,
    'odd-layout': cls_odd_layout,
    'program-label-imm': cls_program_label_imm,
    'li-offset': cls_li_offset,
    'li-label-arith': cls_li_label_arith,
    'compress-label-imm': cls_compress_label_imm,
    'compress-drops-label-imm': cls_compress_drops_label_imm,
}


from harness import known_c15  # noqa: E402
CLASSES.update(known_c15.CLASSES)


def witness_still_fails(f):
    """re-run the pinned witness of a finding against the current tree; True = it still fails,
    False = it no longer fails (then no KNOWN-FINDING line is printed), None = no witness/unknown"""
    path = os.path.join(common.VERIF, f.get('witness', ''))
    if not f.get('witness') or not os.path.exists(path):
        return None
    w = json.load(open(path))
    from harness import progs, oracle, sem_check
    asm = progs.get_asm()
    chk = w.get('check') or {}
    kind = chk.get('kind')
    try:
        if kind == 'reg_after_line':
            res = progs.assemble_chunks(asm, w['program'], w.get('compress', False))
            if res.status != 'ok':
                return True
            by, _ = progs.chunks_by_line(res.chunks)
            parts = by.get(chk['line'], [])
            off = parts[0][0]
            code = b''.join(d for _, d in parts)
            r, = common.drv(['run %s %d %d 5 %d' % (code.hex(), off, off, len(parts))])
            regs = sem_check.parse_run(r)[3]
            lab = res.labels
            expect = eval(chk['expect'], {'__builtins__': None}, dict(lab, OFF=off)) % (1 << 32)
            return regs[chk['reg']] != expect
        if kind == 'fails_only_with_c':
            a = progs.assemble_chunks(asm, w['program'], False)
            b = progs.assemble_chunks(asm, w['program'], True)
            return a.status == 'ok' and b.status != 'ok'
        if kind == 'grows_with_c':
            a = progs.assemble_chunks(asm, w['program'], False)
            b = progs.assemble_chunks(asm, w['program'], True)
            return a.status == 'ok' and b.status == 'ok' and len(b.bytes) > len(a.bytes)
        if kind == 'python':
            # a self-contained predicate over (asm) returning True when the defect is present
            env = {'asm': asm, 'progs': progs}
            exec(chk['code'], env)
            return bool(env['still_fails']())
    except Exception as e:          # a witness that cannot even be evaluated counts as unknown
        return None
    return None


_model_cache = {}


def model_reproduces(case):
    """A recorded finding is behaviour of the unchanged tree, and the Lean model mirrors that tree pass by pass. So a failure
    may be put down to a finding only if the model, given the same program and mode, gives what the code under check gives.
    True when they agree or when the model cannot judge the program (unsupported / no program text in the case)."""
    src = case.get('program')
    if not src or not isinstance(src, str):
        return True
    compress = bool(case.get('compress', True))
    key = (src, compress)
    if key in _model_cache:
        return _model_cache[key]
    ok = True
    try:
        from harness import progs, corr
        asm = progs.get_asm()
        res = progs.assemble_chunks(asm, src, compress)
        if not (res.status == 'ok' and len(res.bytes) > 300000):
            reply, = common.drv([corr.request(src, compress)])
            ok = corr.compare(reply, res) != 'differ'
    except Exception:
        ok = True
    _model_cache[key] = ok
    return ok


class Known:
    def __init__(self, prop):
        self.prop = prop
        self.findings = [f for f in common.load_known() if f.get('property') == prop]
        self.hits = {}

    def matches(self, case):
        for f in self.findings:
            pred = CLASSES.get(f.get('class'))
            if pred and pred(case):
                if not model_reproduces(case):
                    # the failure has the shape of a recorded finding, but the model - which behaves like the tree the finding
                    # was recorded on, defect included - does NOT behave like the code under check here: something else is wrong
                    self.hits['(shape of %s, not reproduced by the model)' % f['id']] = self.hits.get('(shape of %s, not reproduced by the model)' % f['id'], 0) + 1
                    return False
                self.hits[f['id']] = self.hits.get(f['id'], 0) + 1
                return True
        return False

    def report(self, rep):
        for f in self.findings:
            st = witness_still_fails(f)
            if st is False:
                # the pinned witness passes on this tree: say nothing (a fixed defect is not a finding)
                continue
            rep.known_finding('{} class={} :: {} (suppressed {} matching failures in this run)'.format(
                f.get('id'), f.get('class'), f.get('what'), self.hits.get(f['id'], 0)))
