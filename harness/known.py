"""Known findings (KNOWN_FINDINGS.txt): a `finding:` line suppresses a failure of its property only
when the failing input satisfies the finding's *class predicate* below.  Nothing here ever writes
the file.  `fixed:` lines suppress nothing."""
import json
import os
import re

from harness import common

LABEL_RE = re.compile(r'[A-Za-z_][A-Za-z0-9_]*')


def _program_lines(case):
    return (case.get('program') or '').split('\n')


def _label_names(case):
    return set(l.strip()[:-1] for l in _program_lines(case) if l.strip().endswith(':') and ' ' not in l.strip())


def _mentions_label_outside_offset(line, labels):
    """an instruction/li/data line whose immediate mentions a label other than as the sole operand of
    a branch / jump / call / tail (i.e. other than through a plain %offset)"""
    code = line.split('#')[0].strip()
    if not code or code.endswith(':') or '=' in code.split()[1:2]:
        return False
    toks = re.split(r'[\s,()]+', code)
    head = toks[0].lower()
    if head in ('beq', 'bne', 'blt', 'bge', 'bltu', 'bgeu', 'beqz', 'bnez', 'blez', 'bgez', 'bltz', 'bgtz', 'bgt', 'ble',
                'bgtu', 'bleu', 'j', 'jal', 'call', 'tail') and toks[-1] in labels and not any(t in labels for t in toks[1:-1]):
        return False
    return any(t in labels for t in toks[1:])


def cls_stale_decision(case):
    """KF-A: an `li`, or an instruction matched by a compression rule at decision time, whose
    consulted immediate mentions a label other than through a branch/jump %offset"""
    labels = _label_names(case)
    return any(_mentions_label_outside_offset(l, labels) for l in _program_lines(case))


def cls_label_arith_range(case):
    """KF-B: a non-%offset instruction immediate mentioning a label in a range-checked context"""
    return cls_stale_decision(case)


CLASSES = {
    'stale-decision': cls_stale_decision,
    'label-arith-range': cls_label_arith_range,
}


class Known:
    def __init__(self, prop):
        self.prop = prop
        self.findings = [f for f in common.load_known() if f.get('property') == prop]
        self.hits = {}

    def matches(self, case):
        for f in self.findings:
            pred = CLASSES.get(f.get('class'))
            if pred and pred(case):
                self.hits[f['id']] = self.hits.get(f['id'], 0) + 1
                return True
        return False

    def report(self, rep):
        for f in self.findings:
            rep.known_finding('{} class={} :: {} (suppressed {} matching failures in this run)'.format(
                f.get('id'), f.get('class'), f.get('what'), self.hits.get(f['id'], 0)))
