"""C01 / C02 / C06: the three encoder properties share one sweep and differ in which oracle
failures they own (DESIGN.md §5)."""
import json
import struct

from harness import common, encsweep, obligations, textpath

TITLE = {
    'C01': '32-bit encodings decode to what the source named; injective per mnemonic',
    'C02': '16-bit encodings decode to what the source named; one-to-one with legal halfwords',
    'C06': 'unrepresentable operands refused, representable ones accepted',
}


def which(prop):
    if prop == 'C01':
        return [(n, 32) for n in encsweep.NAMES32]
    if prop == 'C02':
        return [(n, 16) for n in encsweep.NAMES16]
    return [(n, 32) for n in encsweep.NAMES32] + [(n, 16) for n in encsweep.NAMES16]


def replay_case(prop, path):
    """re-run exactly the stored case against the current tree"""
    import importlib
    asm = importlib.import_module('bronzebeard.asm')
    d = json.load(open(path))
    c = d.get('case') or {}
    if 'ops' not in c:
        print('replay file has no operand case:', d.get('what'))
        return 1
    name = c['name']
    ops = [tuple(o) for o in c['ops']]
    res = encsweep.call_impl(asm, name, ops)
    width = 16 if name.startswith('c.') else 32
    iops = encsweep.intent_ops(ops)
    print('impl:', name, [v for _, v in ops], '->', res)
    bad = False
    if iops is not None:
        lg, = common.drv(['legal%d %s %s' % (width, name, ' '.join(iops))])
        print('spec legal:', lg)
        if prop == 'C06' and (lg == 'yes') != res.startswith('ok '):
            bad = True
        if res.startswith('ok '):
            ck, = common.drv(['chk%d %s %s %s' % (width, name, ' '.join(iops), res[3:])])
            print('spec decode == intent:', ck)
            if prop in ('C01', 'C02') and ck != 'yes':
                bad = True
    elif res.startswith('ok '):
        bad = prop == 'C06'
    if 'b' in c and 'word' in c:
        print('collision recorded:', c)
        bad = True
    if bad:
        print('VIOLATION property={} replay={}'.format(prop, path))
        return 1
    print('replayed case no longer fails')
    return 0


def run_enc_property(prop, tier, replay):
    if replay:
        return replay_case(prop, replay)
    rep = common.Report(prop, tier, level='proof')
    ob = common.check_obligations(prop, obligations.THEOREMS[prop])
    stats = encsweep.sweep(which(prop), tier)
    tot_mismatch = 0
    first_mismatch = None
    for st in stats:
        rep.evaluations += st['cases']
        rep.count('accepted', st['accepted'])
        rep.count('refused', st['refused'])
        rep.count('raised_other', st['exc'])
        rep.count('operand_denotes_nothing', st['undenotable'])
        rep.count('distinct_words_' + str(st['width']), st['words'])
        # non-trivial & distinct: distinct accepted encodings + refused calls per mnemonic
        rep.cov.setdefault('per_mnemonic', {})[st['name']] = dict(
            cases=st['cases'], accepted=st['accepted'], refused=st['refused'], distinct_words=st['words'])
        if st['sample']:
            rep.sample(st['sample'])
        tot_mismatch += st['n_model_mismatch']
        if st['model_mismatch'] and first_mismatch is None:
            first_mismatch = st['model_mismatch'][0]
        if prop in ('C01', 'C02'):
            for c in st['decode_fail'][:3]:
                rep.violation('{} {}: emitted word {} decodes to {} instead of what the source named'.format(
                    c['name'], [v for _, v in c['ops']], c['impl'], c['decoded']), dict(case=c))
            for c in st['collisions'][:3]:
                rep.violation('{}: operand tuples {} and {} both encode to {}'.format(
                    c['name'], c['a'], c['b'], c['word']), dict(case=c))
        if prop == 'C06':
            for c in st['legal_mismatch'][:3]:
                rep.violation('{} {}: encoder says {} but the specification says legal={}'.format(
                    c['name'], [v for _, v in c['ops']], c['impl'], c['legal']), dict(case=c))
    # distinct non-trivial cases = distinct accepted words + (refused or raising) calls, measured
    nontrivial = sum(st['words'] + st['distinct_refused'] for st in stats)
    rep.cov['rule'] = ('every mnemonic x (all immediates from 64 below to 64 above the legal interval x 4 register '
                       'tuples) + (all register tuples x boundary/interior immediates) + out-of-range registers, '
                       'huge immediates, non-register spellings; 16-bit: every operand tuple in and 8 steps outside '
                       'each legal set (complete). distinct_nontrivial = distinct accepted encodings + refused calls.')
    # text path (through assemble()) and, for C02, the reverse direction over all 65536 halfwords
    tp = textpath.run(prop, tier, rep)
    nontrivial += tp
    if prop == 'C01':
        # whole programs: constants / register aliases / every operand spelling through all passes
        from harness import layout_check
        progres = layout_check.collect(tier, 400 if tier == 'quick' else 6000, tag=1)
        for r in progres:
            rep.evaluations += 1
            for p, compress, msg in r['problems']:
                if p == 'C01':
                    rep.violation('{} (compress={}): {}'.format(p, compress, msg),
                                  dict(case=dict(program=r['src'], lines=r['lines'], compress=compress, problem=msg, property=p)))
        rep.count('programs_through_pipeline', len(progres))
        nontrivial += len(set(r['nontrivial'] for r in progres))
    if prop in ('C01', 'C02'):
        # independent of the Lean model AND of the hand-written specification: LLVM 14's RISC-V back end
        from harness import llvmx
        nontrivial += llvmx.impl_check(rep, prop, tier)
        rep.evaluations += llvmx.spec_check(rep, 32 if prop == 'C01' else 16, tier)
        rep.cov['llvm_cross_check'] = ('llvm-mc-14: (a) the specification decoder BB.Spec.decode%s vs LLVM\'s disassembler on %s; '
                                       '(b) bronzebeard vs LLVM\'s assembler on literal lines, bytes equal wherever both accept. '
                                       'Documented differences (counted): LLVM also decodes HINT encodings, shift amounts >= 32 '
                                       '(RV64 table), F/D and privileged instructions; bronzebeard refuses odd jalr offsets (its '
                                       'reference documents MO2) and hints.') % (
            ('32', 'every opcode/funct3/funct7 combination + seeded words') if prop == 'C01' else ('16', 'all 49152 halfwords'))
    rep.cov['model_vs_impl_disagreements'] = tot_mismatch
    rep.cov['exhaustive'] = prop == 'C02'
    rep.assumptions += [
        'registers handed to the encoders directly are ints or ASCII strings; non-ASCII spellings are outside the model',
        'Python int / ctypes.c_uint32 semantics are modelled (Int, mod 2^32), not verified',
    ]
    code = finish(rep, ob, tot_mismatch, first_mismatch, nontrivial)
    return code


def finish(rep, ob, tot_mismatch, first_mismatch, nontrivial):
    """violation protocol: a broken obligation / correspondence with no failing input is still a
    violation, flagged no-failing-input-found."""
    if not rep.violations:
        if ob['failed']:
            rep.violation('proof obligation no longer checks: {} ({})'.format(ob['failed'][0][0], ob['failed'][0][1][:300]),
                          dict(theorem=ob['failed'][0][0], detail=ob['failed'][0][1]), no_input=True)
        elif tot_mismatch:
            rep.violation('correspondence model/implementation broke on {} inputs, e.g. {}'.format(tot_mismatch, first_mismatch),
                          dict(correspondence='BB.encode vs INSTRUCTIONS[name](*args)', case=first_mismatch), no_input=True)
    rep.distinct = set(range(nontrivial))
    return rep.finish(obligations=ob)
