"""Systematic sweep over literal-operand instructions on both sides of every RVC operand-set
boundary (C20 eligibility, C12 success preservation, C04 meaning).  Lines are grouped into programs
of a few hundred lines; each program is assembled without and with -c by the real assembler."""
import itertools

from harness import progs

L = progs.Ln

IMM_EDGES = sorted(set(
    [v + d for v in (-2048, -1024, -512, -496, -256, -64, -33, -32, -16, -4, 0, 4, 16, 31, 32, 60, 64, 124, 128, 252, 256,
                     496, 508, 512, 1020, 1024, 2044) for d in (-2, -1, 0, 1, 2)] + [2047, -2048, 1, -1, 8, 12, 48, 100]))
IMM_EDGES = [v for v in IMM_EDGES if -2048 <= v <= 2047]


def reg_sets(tier):
    if tier == 'thorough':
        return list(range(32))
    return [0, 1, 2, 3, 7, 8, 9, 15, 16, 31]


def all_lines(tier):
    R = reg_sets(tier)
    out = []

    def add(name, ops):
        txt = '    %s %s' % (name, ', '.join(('x%d' % v if k == 'r' else str(v)) for k, v in ops))
        out.append(L(txt, 'instr', name, ops))

    for name in ('addi', 'andi'):
        for rd in R:
            for rs in R:
                if name == 'andi' and rd != rs and rd not in (8, 15):
                    continue
                for imm in IMM_EDGES:
                    if name == 'addi' and not (rd == rs or rs in (0, 2) or imm == 0 or rd in (8, 15)):
                        continue
                    add(name, [('r', rd), ('r', rs), ('i', imm)])
    for name in ('lw', 'sw'):
        for a in R:
            for b in R:
                for imm in IMM_EDGES:
                    if imm % 4 and imm not in (1, 2, 3, 125, 126, 127, 253, 254, 255):
                        continue
                    add(name, [('r', a), ('r', b), ('i', imm)])
    for rd in R:
        for imm in [0, 1, 2, 30, 31, 32, 33, -1, -2, -31, -32, -33, 0xfffe0 - 1, 0xfffe0, 0xfffff, 0x7ffff, 0x80000, 0xfffdf, 1000]:
            add('lui', [('r', rd), ('i', imm)])
    for name in ('slli', 'srli', 'srai'):
        for rd in R:
            for rs in R:
                for sh in (0, 1, 2, 15, 16, 30, 31):
                    if rd != rs and sh not in (1, 31):
                        continue
                    add(name, [('r', rd), ('r', rs), ('r', sh)])
    for name in ('add', 'sub', 'xor', 'or', 'and'):
        for rd in R:
            for rs1 in R:
                for rs2 in R:
                    if name != 'add' and rd != rs1 and rd not in (8,):
                        continue
                    add(name, [('r', rd), ('r', rs1), ('r', rs2)])
    for rd in R:
        for rs in R:
            for imm in (0, 2, -2, 4):
                add('jalr', [('r', rd), ('r', rs), ('i', imm)])
    add('ebreak', [])
    add('ecall', [])
    # literal-offset branches / jumps (pc-relative immediates written as numbers)
    for name in ('beq', 'bne', 'blt'):
        for a in R:
            for b in (0, 1, 8):
                for imm in (-258, -256, -254, -2, 0, 2, 254, 256, 258):
                    out.append(L('    %s x%d, x%d, %d' % (name, a, b, imm), 'instr', name, [('r', a), ('r', b), ('i', imm)]))
    for rd in (0, 1, 5):
        for imm in (-2050, -2048, -2046, -2, 0, 2, 2046, 2048):
            out.append(L('    jal x%d, %d' % (rd, imm), 'instr', 'jal', [('r', rd), ('i', imm)]))
    return out


def alias_program():
    """eligible instructions whose register operands are written through alias constants, x0 and sp included: an alias is
    the register it names, in every operand position"""
    out = [L('Z0 = 0', 'const', 'Z0', extra=0), L('SPR = 2', 'const', 'SPR', extra=2), L('W8 = 8', 'const', 'W8', extra=8),
           L('RAL = 1', 'const', 'RAL', extra=1)]
    nm = {0: 'Z0', 2: 'SPR', 8: 'W8', 1: 'RAL'}

    def add(name, ops, alias_at):
        toks = [('x%d' % v if k == 'r' else str(v)) for k, v in ops]
        for i in alias_at:
            toks[i] = nm[ops[i][1]]
        out.append(L('    %s %s' % (name, ', '.join(toks)), 'instr', name, ops))

    add('addi', [('r', 5), ('r', 0), ('i', 5)], [1])          # c.li
    add('addi', [('r', 8), ('r', 0), ('i', -3)], [0, 1])
    add('add', [('r', 5), ('r', 0), ('r', 6)], [1])           # c.mv
    add('add', [('r', 8), ('r', 8), ('r', 9)], [0, 1])        # c.add
    add('beq', [('r', 8), ('r', 0), ('i', 8)], [1])           # c.beqz
    add('bne', [('r', 8), ('r', 0), ('i', -8)], [0, 1])
    add('jal', [('r', 0), ('i', 16)], [0])                    # c.j
    add('jal', [('r', 1), ('i', 16)], [0])                    # c.jal
    add('jalr', [('r', 0), ('r', 1), ('i', 0)], [0, 1])       # c.jr
    add('jalr', [('r', 1), ('r', 5), ('i', 0)], [0])          # c.jalr
    add('addi', [('r', 2), ('r', 2), ('i', 32)], [0, 1])      # c.addi16sp
    add('addi', [('r', 8), ('r', 2), ('i', 16)], [0, 1])      # c.addi4spn
    add('lw', [('r', 8), ('r', 2), ('i', 8)], [0, 1])         # c.lwsp
    add('sw', [('r', 2), ('r', 8), ('i', 8)], [0, 1])         # c.swsp
    add('sub', [('r', 8), ('r', 8), ('r', 9)], [0, 1])
    add('slli', [('r', 8), ('r', 8), ('r', 3)], [0, 1])
    add('lui', [('r', 8), ('i', 5)], [0])
    return out


def programs(tier, per=400):
    lines = all_lines(tier)
    for i in range(0, len(lines), per):
        yield lines[i:i + per]
    yield alias_program()
