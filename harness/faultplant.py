"""Fault planting for C15 (and the failing programs of C16 / C17).

One fault of one of the classes the property lists is inserted, as a new source line, at a chosen
position of an otherwise valid generated program.  Every fault comes with a *control*: the same
program with a valid line of the same shape in the same place (or with no line); a case is only used
when the control assembles in both modes, so the planted line is the one identifiable faulty line.

The program can then be cut into a tree of files connected by `include` lines (depth 0-3); the
planter records, for the faulty line, the file and the 1-based line number it ends up at.

Deliberately NOT planted (DESIGN section 5 C15, section 6 "observations"): wrong operand counts
(`sw x1`, `lui`, `%offset` without a name, `lw x1, %lo(foo)(x2)`, `lw x1, x2, ( 3` which the parser
routes as the `offset(reg)` form, `error` without a message, upper-case `ERROR a b`), unknown
mnemonics / pack formats, `align 0`, include cycles.
"""
import os

from harness import progs

CLASSES = ['range', 'register', 'label', 'constant', 'malformed', 'nonint', 'duplicate', 'error', 'include']

BAD_REGS = ['x32', 'q1', 'X5', 'zer0', 't7', 'a8', 's12', 'x99', 'r5', '$t0', 'x-1', '32', '0x20', 'T0', 'x_1', 'ra1']
UNDEF_LABELS = ['nowhere', 'undefined_label', 'L99', 'missing_target', '_end', 'Loop', 'main.exit']
UNDEF_CONSTS = ['FOO', 'UNDEFINED', 'BASE_ADDR', 'NOPE', 'RCU_BASE_ADDR', 'k0']

# (variant, faulty line, control line, [valid companion lines inserted after it])
RANGE_INSTR = [
    # values with more decimal digits than Python will print (int -> str stops at 4300 digits since 3.11)
    ('I-astronomic', 'addi x5, x6, 1 << 20000', 'addi x5, x6, 1 << 10'),
    ('I-astronomic-neg-c', 'addi x8, x8, -(1 << 15000)', 'addi x8, x8, -(1 << 4)'),
    ('U-astronomic', 'lui x5, 1 << 20000', 'lui x5, 1 << 19'),
    ('B-astronomic', 'beq x5, x6, 1 << 20000', 'beq x5, x6, 1 << 3'),
    ('I-hi', 'addi x5, x6, 2048', 'addi x5, x6, 2047'),
    ('I-lo', 'addi x5, x5, -2049', 'addi x5, x5, -2048'),
    ('I-load-hi', 'lw x5, 2048(x6)', 'lw x5, 2044(x6)'),
    ('I-load-lo-c', 'lw x8, -2049(x9)', 'lw x8, -2048(x9)'),
    ('I-jalr', 'jalr x1, x2, -2049', 'jalr x1, x2, -2048'),
    ('I-jalr-paren', 'jalr x0, 2048(x1)', 'jalr x0, 2044(x1)'),
    ('I-andi-c', 'andi x8, x8, 2048', 'andi x8, x8, 31'),
    ('I-slti-far', 'slti x5, x6, 1 << 20', 'slti x5, x6, 1 << 10'),
    ('I-sp-c', 'addi sp, sp, 2048', 'addi sp, sp, 496'),
    ('I-csr', 'csrrw x1, x2, 2048', 'csrrw x1, x2, 2047'),
    ('S-hi', 'sw x5, 2048(x6)', 'sw x5, 2047(x6)'),
    ('S-lo', 'sb x1, x2, -2049', 'sb x1, x2, -2048'),
    ('S-sp-c', 'sw x8, 4096(sp)', 'sw x8, 252(sp)'),
    ('B-hi', 'beq x5, x6, 4096', 'beq x5, x6, 4094'),
    ('B-lo', 'bne x1, x2, -4098', 'bne x1, x2, -4096'),
    ('B-odd-c', 'beq x8, x0, 3', 'beq x8, x0, 4'),
    ('B-odd-c2', 'bne x8, x0, 257', 'bne x8, x0, 254'),
    ('U-hi', 'lui x5, 0x100000', 'lui x5, 0xfffff'),
    ('U-lo', 'lui x5, -524289', 'lui x5, -524288'),
    ('U-auipc', 'auipc x5, 1048576', 'auipc x5, 1048575'),
    ('J-hi', 'jal x1, 1048576', 'jal x1, 1048574'),
    ('J-lo', 'jal x0, -1048578', 'jal x0, -1048576'),
    ('J-odd-c', 'jal x1, 3', 'jal x1, 4'),
    ('J-odd-c2', 'jal x0, 2049', 'jal x0, 2046'),
    ('shamt-32-c', 'slli x5, x5, 32', 'slli x5, x5, 31'),
    ('shamt-neg-c', 'srai x8, x8, -1', 'srai x8, x8, 1'),
    ('shamt-33', 'srli x9, x10, 33', 'srli x9, x10, 3'),
    ('fence', 'fence 16, 1', 'fence 15, 1'),
    ('amo-aq', 'amoadd.w x5, x6, x7, 2, 0', 'amoadd.w x5, x6, x7, 1, 0'),
]
RANGE_C = [
    ('c.addi-32', 'c.addi x5, 32', 'c.addi x5, 31'),
    ('c.addi-0', 'c.addi x5, 0', 'c.addi x5, 1'),
    ('c.addi-x0', 'c.addi x0, 1', 'c.addi x1, 1'),
    ('c.li', 'c.li x5, -33', 'c.li x5, -32'),
    ('c.lui-0', 'c.lui x5, 0', 'c.lui x5, 1'),
    ('c.lui-sp', 'c.lui x2, 1', 'c.lui x3, 1'),
    ('c.lui-32', 'c.lui x5, 32', 'c.lui x5, 31'),
    ('c.addi16sp-8', 'c.addi16sp 8', 'c.addi16sp 16'),
    ('c.addi16sp-512', 'c.addi16sp 512', 'c.addi16sp 496'),
    ('c.addi16sp-0', 'c.addi16sp 0', 'c.addi16sp -16'),
    ('c.addi4spn-0', 'c.addi4spn x8, 0', 'c.addi4spn x8, 4'),
    ('c.addi4spn-1024', 'c.addi4spn x8, 1024', 'c.addi4spn x8, 1020'),
    ('c.addi4spn-reg', 'c.addi4spn x5, 4', 'c.addi4spn x8, 4'),
    ('c.addi4spn-mis', 'c.addi4spn x8, 6', 'c.addi4spn x8, 8'),
    ('c.lw-128', 'c.lw x8, 128(x9)', 'c.lw x8, 124(x9)'),
    ('c.lw-reg', 'c.lw x7, 0(x9)', 'c.lw x8, 0(x9)'),
    ('c.lw-mis', 'c.lw x8, 2(x9)', 'c.lw x8, 4(x9)'),
    ('c.sw-mis', 'c.sw x8, 3(x9)', 'c.sw x8, 4(x9)'),
    ('c.sw-reg', 'c.sw x8, 0(x16)', 'c.sw x8, 0(x15)'),
    ('c.j-hi', 'c.j 2048', 'c.j 2046'),
    ('c.j-odd', 'c.j 3', 'c.j 4'),
    ('c.jal-lo', 'c.jal -2050', 'c.jal -2048'),
    ('c.beqz-hi', 'c.beqz x8, 256', 'c.beqz x8, 254'),
    ('c.bnez-odd', 'c.bnez x8, 1', 'c.bnez x8, 2'),
    ('c.beqz-reg', 'c.beqz x5, 4', 'c.beqz x8, 4'),
    ('c.srli-32', 'c.srli x8, 32', 'c.srli x8, 31'),
    ('c.srli-0', 'c.srli x8, 0', 'c.srli x8, 1'),
    ('c.srai-reg', 'c.srai x7, 1', 'c.srai x8, 1'),
    ('c.andi-32', 'c.andi x8, 32', 'c.andi x8, 31'),
    ('c.andi-lo', 'c.andi x8, -33', 'c.andi x8, -32'),
    ('c.slli-32', 'c.slli x5, 32', 'c.slli x5, 31'),
    ('c.lwsp-x0', 'c.lwsp x0, 0', 'c.lwsp x1, 0'),
    ('c.lwsp-256', 'c.lwsp x5, 256', 'c.lwsp x5, 252'),
    ('c.swsp-mis', 'c.swsp x5, 2', 'c.swsp x5, 4'),
    ('c.mv-x0', 'c.mv x5, x0', 'c.mv x5, x1'),
    ('c.jr-x0', 'c.jr x0', 'c.jr x1'),
    ('c.add-x0', 'c.add x5, x0', 'c.add x5, x1'),
    ('c.sub-reg', 'c.sub x7, x8', 'c.sub x8, x9'),
]
RANGE_DATA = [
    ('dw-astronomic', 'dw 1 << 20000', 'dw 1 << 20'),
    ('dd-astronomic-neg', 'dd -(1 << 20000)', 'dd -(1 << 20)'),
    ('pack-astronomic', 'pack <I, 1 << 15000', 'pack <I, 1 << 15'),
    ('db-256', 'db 256', 'db 1', ['db 0']),
    ('db-neg', 'db -129', 'db -128', ['db 0']),
    ('bytes-256', 'bytes 256 0', 'bytes 255 0'),
    ('bytes-neg', 'bytes 0 -129', 'bytes 0 -128'),
    ('bytes-3rd', 'bytes 1 2 300 4', 'bytes 1 2 30 4'),
    ('bytes-hex', 'bytes 0x100 0x00', 'bytes 0xff 0x00'),
    ('shorts', 'shorts 65536', 'shorts 65535'),
    ('shorts-neg', 'shorts 1 -32769', 'shorts 1 -32768'),
    ('ints', 'ints 4294967296', 'ints 4294967295'),
    ('longs-neg', 'longs -2147483649', 'longs -2147483648'),
    ('longlongs', 'longlongs 18446744073709551616', 'longlongs 18446744073709551615'),
    ('longlongs-neg', 'longlongs -9223372036854775809', 'longlongs -9223372036854775808'),
    ('dh', 'dh 0x10000', 'dh 0xffff'),
    ('dh-neg', 'dh -32769', 'dh -32768'),
    ('dh-expr', 'dh 0xffff + 1', 'dh 0xfffe + 1'),
    ('dw', 'dw 4294967296', 'dw 4294967295'),
    ('dw-neg', 'dw -2147483649', 'dw -2147483648'),
    ('dd', 'dd 18446744073709551616', 'dd 18446744073709551615'),
    ('dd-neg', 'dd -9223372036854775809', 'dd -9223372036854775808'),
    ('pack-B-neg', 'pack <B -1', 'pack <B 1', ['db 0']),
    ('pack-B-256', 'pack <B 256', 'pack <B 255', ['db 0']),
    ('pack-b', 'pack <b 128', 'pack <b 127', ['db 0']),
    ('pack-b-lo', 'pack >b -129', 'pack >b -128', ['db 0']),
    ('pack-H', 'pack <H 65536', 'pack <H 65535'),
    ('pack-h-be', 'pack >h -32769', 'pack >h -32768'),
    ('pack-I-neg', 'pack <I -1', 'pack <I 1'),
    ('pack-i', 'pack <i 2147483648', 'pack <i 2147483647'),
    ('pack-Q-neg', 'pack >Q -1', 'pack >Q 1'),
    ('pack-q', 'pack <q 9223372036854775808', 'pack <q 9223372036854775807'),
]
REGISTER = [   # {R} = the unknown register, {L} = an existing label
    ('R-rd', 'add {R}, x6, x7', 'add x5, x6, x7'),
    ('R-rs1-c', 'sub x8, {R}, x9', 'sub x8, x8, x9'),
    ('R-rs2-c', 'and x8, x8, {R}', 'and x8, x8, x9'),
    ('R-rs2-mv-c', 'add x5, x0, {R}', 'add x5, x0, x6'),
    ('I-rd-c', 'addi {R}, x1, 0', 'addi x5, x1, 0'),
    ('I-rs1-c', 'addi x8, {R}, 1', 'addi x8, x8, 1'),
    ('I-rs1-sp-c', 'addi sp, {R}, 16', 'addi sp, sp, 16'),
    ('load-base-c', 'lw x8, 4({R})', 'lw x8, 4(x9)'),
    ('load-rd-c', 'lw {R}, 4(x9)', 'lw x8, 4(x9)'),
    ('load-sp-c', 'lw {R}, 8(sp)', 'lw x5, 8(sp)'),
    ('store-base-c', 'sw x8, 0({R})', 'sw x8, 0(x9)'),
    ('store-src-c', 'sw {R}, 8(sp)', 'sw x8, 8(sp)'),
    ('flat-load', 'lbu x5, {R}, 3', 'lbu x5, x6, 3'),
    ('flat-store', 'sh {R}, x6, 2', 'sh x5, x6, 2'),
    ('B-rs1-c', 'beq {R}, x0, {L}', 'beq x8, x0, {L}'),
    ('B-rs2-c', 'bne x8, {R}, {L}', 'bne x8, x9, {L}'),
    ('B-lit', 'bltu {R}, x5, 8', 'bltu x6, x5, 8'),
    ('U-rd-c', 'lui {R}, 1', 'lui x5, 1'),
    ('U-auipc', 'auipc {R}, 1', 'auipc x5, 1'),
    ('J-rd-c', 'jal {R}, {L}', 'jal x1, {L}'),
    ('jalr-rs-c', 'jalr x0, {R}, 0', 'jalr x0, x1, 0'),
    ('jalr-rd-c', 'jalr {R}, 0(x5)', 'jalr x1, 0(x5)'),
    ('shamt-c', 'slli x5, x5, {R}', 'slli x5, x5, 3'),
    ('shamt-srai-c', 'srai x8, x8, {R}', 'srai x8, x8, t0'),
    ('li-rd', 'li {R}, 5', 'li x5, 5'),
    ('li-rd-wide', 'li {R}, 0x12345', 'li x5, 0x12345'),
    ('li-rd-neg', 'li {R}, -2049', 'li x5, -2049'),
    ('mv-rs', 'mv x1, {R}', 'mv x1, x2'),
    ('mv-rd', 'mv {R}, x1', 'mv x5, x1'),
    ('not-rs', 'not x8, {R}', 'not x8, x8'),
    ('neg-rs', 'neg x1, {R}', 'neg x1, x2'),
    ('seqz-rd', 'seqz {R}, x5', 'seqz x6, x5'),
    ('snez-rs', 'snez x5, {R}', 'snez x5, x6'),
    ('sltz-rs', 'sltz x5, {R}', 'sltz x5, x6'),
    ('sgtz-rd', 'sgtz {R}, x5', 'sgtz x6, x5'),
    ('beqz-rs', 'beqz {R}, {L}', 'beqz x8, {L}'),
    ('bnez-rs', 'bnez {R}, {L}', 'bnez x9, {L}'),
    ('blez-rs', 'blez {R}, {L}', 'blez x8, {L}'),
    ('bgtz-rs', 'bgtz {R}, {L}', 'bgtz x8, {L}'),
    ('bgt-rt', 'bgt x1, {R}, {L}', 'bgt x1, x2, {L}'),
    ('bleu-rs', 'bleu {R}, x2, {L}', 'bleu x1, x2, {L}'),
    ('jr', 'jr {R}', 'jr x1'),
    ('jalr-p', 'jalr {R}', 'jalr x5'),
    ('c.mv', 'c.mv {R}, x5', 'c.mv x6, x5'),
    ('c.addi', 'c.addi {R}, 1', 'c.addi x5, 1'),
    ('c.lw-base', 'c.lw x8, 0({R})', 'c.lw x8, 0(x9)'),
    ('c.swsp', 'c.swsp {R}, 4', 'c.swsp x5, 4'),
    ('amo', 'amoadd.w x5, {R}, x6', 'amoadd.w x5, x7, x6'),
    ('lr', 'lr.w {R}, x5', 'lr.w x6, x5'),
    ('csr', 'csrrw x1, {R}, 3', 'csrrw x1, x2, 3'),
]
LABEL = [   # {U} = a name defined nowhere, {L} = an existing label
    ('beq', 'beq x5, x6, {U}', 'beq x5, x6, {L}'),
    ('bne-c', 'bne x8, x0, {U}', 'bne x8, x0, {L}'),
    ('beq-c', 'beq x9, zero, {U}', 'beq x9, zero, {L}'),
    ('bltu', 'bltu x1, x2, {U}', 'bltu x1, x2, {L}'),
    ('jal-ra-c', 'jal x1, {U}', 'jal x1, {L}'),
    ('jal-x0-c', 'jal x0, {U}', 'jal x0, {L}'),
    ('jal-t0', 'jal t0, {U}', 'jal t0, {L}'),
    ('jal-p', 'jal {U}', 'jal {L}'),
    ('j', 'j {U}', 'j {L}'),
    ('call', 'call {U}', 'call {L}'),
    ('tail', 'tail {U}', 'tail {L}'),
    ('beqz', 'beqz x8, {U}', 'beqz x8, {L}'),
    ('bnez', 'bnez x9, {U}', 'bnez x9, {L}'),
    ('blez', 'blez x5, {U}', 'blez x5, {L}'),
    ('bgez', 'bgez x5, {U}', 'bgez x5, {L}'),
    ('bltz', 'bltz x5, {U}', 'bltz x5, {L}'),
    ('bgtz', 'bgtz x5, {U}', 'bgtz x5, {L}'),
    ('bgt', 'bgt x1, x2, {U}', 'bgt x1, x2, {L}'),
    ('bleu', 'bleu x1, x2, {U}', 'bleu x1, x2, {L}'),
    ('dw', 'dw {U}', 'dw {L}'),
    ('dd', 'dd {U}', 'dd {L}'),
    ('pack', 'pack <I {U}', 'pack <I {L}'),
    ('li', 'li t0, {U}', 'li t0, {L}'),
    ('li-pos', 'li t0, %position({U}, 4)', 'li t0, %position({L}, 4)'),
    ('li-pos-flat', 'li t0, %position {U} 0x08000000', 'li t0, %position {L} 0x08000000'),
    ('dw-pos', 'dw %position({U}, 0x1000)', 'dw %position({L}, 0x1000)'),
    ('addi-off', 'addi x5, x5, %offset({U})', 'addi x5, x5, %offset({L})'),
    ('li-off-flat', 'li x5, %offset {U}', 'li x5, %offset {L}'),
    ('dw-off', 'dw %offset({U})', 'dw %offset({L})'),
    ('hi', 'lui x5, %hi({U})', 'lui x5, %hi({L})'),
    ('lo-c', 'addi x5, x5, %lo({U})', 'addi x5, x5, %lo({L})'),
    ('lo-flat-load', 'lw x5, x6, %lo({U})', 'lw x5, x6, %lo({L})'),
    ('lo-flat-store', 'sw x5, x6, %lo({U})', 'sw x5, x6, %lo({L})'),
    ('hi-pos', 'lui x5, %hi(%position({U}, 0x20000000))', 'lui x5, %hi(%position({L}, 0x20000000))'),
    ('auipc-hi-off', 'auipc x5, %hi(%offset({U}))', 'auipc x5, %hi(%offset({L}))'),
    ('c.j', 'c.j %offset({U})', 'c.j %offset({L})'),
    ('c.jal', 'c.jal %offset {U}', 'c.jal %offset {L}'),
]
CONSTANT = [   # {C} = an undefined constant
    ('addi-c', 'addi x1, x1, {C} + 1', 'addi x1, x1, 4 + 1'),
    ('addi-neg', 'addi x8, x8, -{C}', 'addi x8, x8, -3'),
    ('const-def', 'KNEW = {C} * 2', 'KNEW = 7 * 2'),
    ('const-def-paren', 'KNEW = ({C} << 2) | 1', 'KNEW = (3 << 2) | 1'),
    ('const-label', 'KNEW = {L} + 1', 'KNEW = 1 + 1'),
    ('const-forward', 'KNEW = KLATER + 1', 'KNEW = 1 + 1', ['KLATER = 5']),
    ('li', 'li x5, ({C} << 2) | 1', 'li x5, (3 << 2) | 1'),
    ('li-mul', 'li x5, {C} * 1024', 'li x5, 8 * 1024'),
    ('dw', 'dw {C} + 4', 'dw 16 + 4'),
    ('hi', 'lui x5, %hi({C} + 0x800)', 'lui x5, %hi(0x12345 + 0x800)'),
    ('lo', 'addi x5, x5, %lo({C} + 0x800)', 'addi x5, x5, %lo(0x12345 + 0x800)'),
    ('pack', 'pack <H {C} - 1', 'pack <H 10 - 1'),
    ('sw-paren', 'sw x5, {C}(x6)', 'sw x5, 8(x6)'),
    ('lw-arith-c', 'lw x8, x9, {C} * 4', 'lw x8, x9, 2 * 4'),
    ('pos-base', 'li t0, %position({L}, {C})', 'li t0, %position({L}, 64)'),
    ('lui', 'lui x5, {C} >> 12', 'lui x5, 0x12345000 >> 12'),
    ('c.li', 'c.li x5, {C}', 'c.li x5, 3'),
    ('seq', 'bytes {C} 0', 'bytes 1 0'),
]
EXPR_CTX = [   # {E} = the expression; paren = may {E} start with "(" (never in a base+offset mnemonic)
    ('addi-c', 'addi x1, x1, {E}', 'addi x1, x1, 1', True),
    ('andi-c', 'andi x8, x8, {E}', 'andi x8, x8, 1', True),
    ('li', 'li x5, {E}', 'li x5, 1', True),
    ('dw', 'dw {E}', 'dw 1', True),
    ('dh', 'dh {E}', 'dh 1', True),
    ('const', 'KNEW = {E}', 'KNEW = 1', True),
    ('lui-c', 'lui x5, {E}', 'lui x5, 1', True),
    ('pack', 'pack <I {E}', 'pack <I 1', True),
    ('sw-flat-c', 'sw x8, x9, {E}', 'sw x8, x9, 4', False),
    ('lw-flat', 'lw x5, x6, {E}', 'lw x5, x6, 4', False),
    ('lo', 'addi x5, x5, %lo({E})', 'addi x5, x5, %lo(1)', True),
    ('hi-flat', 'lui x5, %hi {E}', 'lui x5, %hi 1', True),
    ('pos', 'li t0, %position({L}, {E})', 'li t0, %position({L}, 1)', True),
    ('c.addi', 'c.addi x5, {E}', 'c.addi x5, 1', True),
    ('c.j', 'c.j {E}', 'c.j 4', True),
    ('jal-imm', 'jalr x1, x5, {E}', 'jalr x1, x5, 0', False),
]
MALFORMED = ['1 +', '( 3', '3 4', '0x', '1__0', '3 )', '* 2', ')(', '08', '0b2', '0o8', '1e', '$5', '5 @', '!1', '1 = 2',
             '1 ? 2 : 3', '1 if', 'lambda', '1_', '1 2 3', '<< 2', '~', '1 + * 2', '(1 + 2', '1 +)', '', '0b', '1 &', '2 **',
             '0x1g', '1..2', '`1`']
NONINT = ['7 / 7', '1.5', '"a"', "'ab'", "''", '1e3', '[1]', '1 == 1', 'None', '1 // 0', '1 % 0', '1 << -1', '2 ** -1', '()',
          'True', '1 < 2', 'not 1', '1j', '0.0', '3 / 1', '"a" * 2', "'", '1 , 2', '(1, 2)', '{}', '1.', '.5', "'\\q1'"]
# Python-only syntax: the Lean expression model answers `unsupported` (the oracle still judges these);
# drawn less often so that most malformed / non-integer cases are also compared with the model
PY_ONLY = {'1e', '$5', '5 @', '!1', '1 = 2', '1 ? 2 : 3', '1 if', 'lambda', '2 **', '1..2', '`1`', '1.5', '"a"', '1e3', '[1]',
           '1 == 1', 'None', '2 ** -1', 'True', '1 < 2', 'not 1', '1j', '0.0', '"a" * 2', '{}', '1.', '.5'}
# expressions whose evaluation raises an UNUSUAL exception type inside Python's eval (IndexError, KeyError,
# TypeError variants, AttributeError): the assembler must still answer with its own error.  Tokens are split on
# whitespace and commas and re-joined with single spaces, so none of these contains either.
PY_EXC = ['[4][1]', '"ab"[2]', '{}[0]', '{}["k"]', '()[0]', '[][0]', "''[0]", 'b"a"[5]', '[1]["a"]', '(1)(2)', '1 .foo',
          '"a"+1', '-"a"', '1<"a"', '"%d"%"x"', '{[]:1}', 'None[0]', 'None.x', '[4][-2]', '"ab"[-3]', '{1:2}[3]', '(0)[0]',
          '[[1]][0][1]', '"a".nope', '[].pop()', '{}.popitem()', '"{}{}".format(1)', '"%(k)d"%{}', '1//0.0', '10.0**1000']
# non-ASCII text inside an expression (character / string literals): outside the model (non-ASCII is modelled in string / error text and comments only), the oracle still applies
UNICODE_EXPR = ["'\u00e9'", "'\u2192'", '"\u65e5\u672c"', "'\u00df'", '"\u00fc"[3]', '\u03c0', '1+\u00b5', "'\U0001f600'"]
# escapes `unicode_escape` rejects: a raw UnicodeDecodeError in the unmodified code (finding KF-C15-esc)
BAD_ESCAPES = ["'\\'", "'\\x'", "'\\x4'", "'\\u12'", "'\\N{x}'", "'\\U0000'"]
NONINT_SEQ = [
    ('seq-word', 'bytes zz 0', 'bytes 1 0'),
    ('seq-float', 'shorts 1.5', 'shorts 1'),
    ('seq-expr', 'ints 1+1', 'ints 2'),
    ('seq-char', "bytes 'a' 0", 'bytes 97 0'),
    ('seq-chars', "bytes 'ab' 0", 'bytes 97 0'),
    ('seq-char-empty', "bytes '' 1", 'bytes 0 1'),
    ('seq-char-escape2', "shorts '\\r\\n'", 'shorts 13'),
    ('seq-empty-hex', 'longs 0x', 'longs 0x0'),
    ('align-word', 'align four', 'align 4'),
    ('align-float', 'align 2.0', 'align 2'),
]
ERROR = [
    ('plain', 'error some message here'),
    ('indent', '    error halt: unsupported board'),
    ('one-word', 'error stop'),
    ('empty', 'error '),
    ('hash', 'error no # comment stripping'),
    ('quotes', 'error "quoted" message'),
    ('escape-ok', 'error line1\\nline2'),
    ('tab-indent', '\terror tab indented'),
    ('doc', "error This device doesn't support displays"),
    ('upper-one', 'ERROR stop'),
]
# messages with text outside ASCII / outside Latin-1 (the documentation's regex is `error (.*)`: any text)
ERROR_UNICODE = [
    ('latin1', 'error caf\u00e9 not supported'),
    ('latin1-umlaut', 'error Gr\u00f6\u00dfe zu gro\u00df'),
    ('arrow', 'error unsupported \u2192 use another board'),
    ('dash', 'error size \u2014 too large'),
    ('le', 'error need size \u2264 4'),
    ('cjk', 'error \u65e5\u672c\u8a9e\u306e\u30e1\u30c3\u30bb\u30fc\u30b8'),
    ('emoji', 'error stop \U0001f6d1'),
    ('indent-cjk', '    error \u4e0d\u652f\u6301'),
    ('mixed-escape', 'error tab\\there \u2192 done'),
    ('greek', 'error \u03bcs timer missing'),
]
ERROR_BAD_ESCAPE = [('escape-bad', 'error trailing\\'), ('escape-bad-x', 'error bad \\x escape')]
INCLUDE = [
    ('plain', 'include missing_file.asm'),
    ('quoted', 'include "not_there.asm"'),
    ('single-quote', "include 'nope.asm'"),
    ('subdir', 'include nodir/none.asm'),
    ('upper', 'INCLUDE gone.asm'),
    ('comment', 'include absent.asm  # optional part'),
    ('spaces', 'include    far_away.asm   '),
    ('tab', 'include\tno_such_file.asm'),
    ('no-ext', 'include definitions'),
    # other path forms ({ROOT} = the directory of the main file, substituted when the tree is written)
    ('dot', 'include ./missing_here.asm'),
    ('dotdot', 'include ../bbc15_missing_up.asm'),
    ('existing-subdir', 'include sub0/missing_in_sub.asm'),
    ('abs', 'include /nonexistent-bbc15/missing_file.asm'),
    ('abs-root', 'include {ROOT}/missing_abs.asm'),
    ('abs-root-quoted', 'include "{ROOT}/sub1/none.asm"'),
    ('abs-upper', 'INCLUDE /nonexistent-bbc15/lib/defs.asm  # absolute'),
    ('bytes', 'include_bytes missing_blob.bin'),
    ('bytes-subdir', 'include_bytes data/missing_blob.bin'),
    ('bytes-abs', 'include_bytes /nonexistent-bbc15/blob.bin'),
    ('bytes-abs-root', 'include_bytes {ROOT}/nothing.bin'),
    ('bytes-dot', 'include_bytes ./missing_blob.bin'),
]


def _spell(rnd, text, indent=True):
    """cosmetic variation that does not change the meaning: indentation, trailing comment"""
    if indent and rnd.random() < 0.6:
        text = rnd.choice(['    ', '  ', '\t', ' ']) + text
    if rnd.random() < 0.15 and '#' not in text and not text.lstrip().startswith(('error', 'include', 'INCLUDE')):
        text = text + rnd.choice(['  # planted', ' #x', '\t# comment'])
    return text


def choose_fault(rnd, cls, labels, escapes=True):
    """-> dict(cls, variant, text, control (None = no line), after=[...]) for class `cls`;
    `labels` = names defined in the base program (never empty)"""
    L = rnd.choice(labels)
    after = []
    indent = True
    if cls == 'range':
        pool = rnd.choice([RANGE_INSTR, RANGE_INSTR, RANGE_C, RANGE_DATA, RANGE_DATA])
        t = rnd.choice(pool)
        variant, text, control = t[0], t[1], t[2]
        after = list(t[3]) if len(t) > 3 else []
    elif cls == 'register':
        variant, text, control = rnd.choice(REGISTER)
        R = rnd.choice(BAD_REGS)
        variant += ':' + R
        text = text.replace('{R}', R)
    elif cls == 'label':
        variant, text, control = rnd.choice(LABEL)
        text = text.replace('{U}', rnd.choice(UNDEF_LABELS))
    elif cls == 'constant':
        t = rnd.choice(CONSTANT)
        variant, text, control = t[0], t[1], t[2]
        after = list(t[3]) if len(t) > 3 else []
        text = text.replace('{C}', rnd.choice(UNDEF_CONSTS))
    elif cls in ('malformed', 'nonint'):
        k0 = rnd.random()
        if cls == 'nonint' and k0 < 0.2:
            variant, text, control = rnd.choice(NONINT_SEQ)
        elif cls == 'nonint' and k0 < 0.4:
            ctx, tmpl, control, paren = rnd.choice(EXPR_CTX)
            e = rnd.choice(PY_EXC if k0 < 0.34 else UNICODE_EXPR)
            while not paren and e.lstrip().startswith('('):
                e = rnd.choice(PY_EXC)
            variant = ctx + ':py:' + e
            text = tmpl.replace('{E}', e)
        else:
            ctx, tmpl, control, paren = rnd.choice(EXPR_CTX)
            if cls == 'malformed' and escapes and rnd.random() < 0.06:
                e = rnd.choice(BAD_ESCAPES)
                variant = ctx + ':escape'
            else:
                pool = MALFORMED if cls == 'malformed' else NONINT
                e = rnd.choice(pool)
                if e in PY_ONLY and rnd.random() < 0.7:
                    e = rnd.choice(pool)
                # (an empty operand or a leading "(" after a base+offset mnemonic is an operand-COUNT matter: not planted)
                while (not paren and (e.lstrip().startswith('(') or e == '')) or (e == '' and ('(' in tmpl or '%' in tmpl)):
                    e = rnd.choice(pool)
                variant = ctx + ':' + e
            text = tmpl.replace('{E}', e)
    elif cls == 'duplicate':
        k = rnd.random()
        if k < 0.7:
            variant = 'existing'
            text = rnd.choice(['{L}:', '{L}:', '  {L}:', '{L}:   # defined again', '{L}::'])
            control = None
        else:
            # two fresh definitions: the first one is a valid companion placed elsewhere
            variant = 'fresh-pair'
            text = 'DUP_LABEL:'
            control = None
            after = None        # the companion goes to a separate position (see plant)
        indent = False
    elif cls == 'error':
        k0 = rnd.random()
        if escapes and k0 < 0.06:
            variant, text = rnd.choice(ERROR_BAD_ESCAPE)
        elif escapes and k0 < 0.3:
            variant, text = rnd.choice(ERROR_UNICODE)
        else:
            variant, text = rnd.choice(ERROR)
        control = None
        indent = False
    elif cls == 'include':
        variant, text = rnd.choice(INCLUDE)
        control = None
        indent = False
    else:
        raise ValueError(cls)
    text = text.replace('{L}', L)
    if control is not None:
        control = control.replace('{L}', L)
    if cls in ('error', 'include', 'duplicate') or variant.endswith(':') or text.endswith(' '):
        spelled = text
    else:
        spelled = _spell(rnd, text, indent)
    return dict(cls=cls, variant=variant, text=spelled, control=control, after=after, label=L)


# ---------------------------------------------------------------------------------------------
# base programs
# ---------------------------------------------------------------------------------------------

FALLBACK = ['start:', '    addi x8, x8, 1', '    lw x9, 4(x8)', 'mid:', '    beq x8, x0, start', '    dw 0x12345678',
            '    li x5, 0x12345', '    j mid', 'end:']


def _ok_both(asm, src, limit=1800):
    for c in (False, True):
        r = progs.assemble_chunks(asm, src, c)
        if r.status != 'ok' or len(r.bytes) > limit:
            return False
    return True


def base_program(asm, rnd):
    """text lines of a valid program (assembles in both modes, output < 1800 bytes so that no
    transfer is near the end of its range); strings may hold non-ASCII text"""
    for _ in range(8):
        lines = progs.gen_program(rnd, size=rnd.randrange(3, 16), fillers=rnd.random() < 0.25)
        texts = []
        for l in lines:
            t = l.text
            if '0x200000' in t and rnd.random() < 0.5:
                t = '    align 4'
            texts.append(t)
        if len(texts) > 120:
            continue
        if _ok_both(asm, '\n'.join(texts) + '\n'):
            return texts
    return list(FALLBACK)


def label_names(texts):
    out = []
    for t in texts:
        s = t.split('#')[0].strip()
        if s.endswith(':') and ' ' not in s:
            out.append(s.rstrip(':'))
    return out


POSITIONS = ['first', 'middle', 'last', 'random']


def plant(asm, rnd, cls, position, escapes=True, tries=6):
    """-> (flat, fault) or None.  `flat` = list of [text, tag] with tag 'fault' on the faulty line
    ('dup0' on the earlier definition of a duplicated label); the control program assembled in both
    modes."""
    for _ in range(tries):
        base = base_program(asm, rnd)
        labels = label_names(base)
        if not labels:
            base = list(FALLBACK)
            labels = label_names(base)
        f = choose_fault(rnd, cls, labels, escapes)
        n = len(base)
        if position == 'first':
            p = 0
        elif position == 'last':
            p = n
        elif position == 'middle':
            p = n // 2
        else:
            p = rnd.randrange(0, n + 1)
        flat = [[t, None] for t in base]
        ctl = list(base)
        after = f['after'] or []
        ins = [[f['text'], 'fault']] + [[_a, None] for _a in after]
        flat[p:p] = ins
        ctl[p:p] = ([f['control']] if f['control'] is not None else []) + list(after)
        if f['cls'] == 'duplicate':
            if f['variant'] == 'fresh-pair':
                q = rnd.randrange(0, len(flat) + 1)
                flat.insert(q, ['DUP_LABEL:', 'dup0'])
                ctl.insert(min(q, len(ctl)), 'DUP_LABEL:')
            else:
                for row in flat:
                    s = row[0].split('#')[0].strip()
                    if row[1] is None and s.endswith(':') and s.rstrip(':') == f['label']:
                        row[1] = 'dup0'
            # the faulty definition is the LATER one in source order
            idx = [i for i, r in enumerate(flat) if r[1] in ('fault', 'dup0')]
            if len(idx) != 2:
                continue
            flat[idx[0]][1], flat[idx[1]][1] = 'dup0', 'fault'
        if not _ok_both(asm, '\n'.join(ctl) + '\n', limit=2400):
            continue
        f['position'] = position
        f['n_lines'] = len(flat)
        return flat, f
    return None


# ---------------------------------------------------------------------------------------------
# include trees
# ---------------------------------------------------------------------------------------------

class Tree:
    """files: {relative path: [text lines]}; where: {tag: (relative path, 1-based line number)}"""

    def __init__(self):
        self.files = {}
        self.where = {}
        self.depth_of = {}
        self.n = 0

    def new_name(self, rnd, parent_dir):
        self.n += 1
        sub = ''
        if rnd.random() < 0.3:
            sub = 'sub%d/' % rnd.randrange(3)
        return parent_dir + sub + rnd.choice(['inc_%d.asm', 'part%d.asm', 'defs_%d.s', 'mod%d.inc']) % self.n


def _noise(rnd, unicode_noise=False):
    if unicode_noise and rnd.random() < 0.5:
        return rnd.choice(['# Kommentar: Gr\u00f6\u00dfe \u2192 4', '    # \u65e5\u672c\u8a9e', '# \u2014\u2014\u2014', '# caf\u00e9'])
    return rnd.choice(['', '', '   ', '# comment line', '    # indented comment', '\t'])


def build_tree(rnd, flat, depth, fault_depth, unicode_noise=False, blobs=False):
    """cut `flat` into a tree of files of include depth `depth` with the 'fault' line at depth
    `fault_depth` (0 = main file).  Returns a Tree; main file is 'main.asm'."""
    tree = Tree()

    def emit(path, rows, level, want_depth, want_fault):
        """write `rows` as file `path`; below it an include chain of `want_depth` more levels;
        the fault line must end up `want_fault` levels below (None = no fault among rows)"""
        d = os.path.dirname(path)
        d = d + '/' if d else ''
        out = []      # (text, tag)
        fi = next((i for i, r in enumerate(rows) if r[1] == 'fault'), None)
        segs = []
        if want_depth > 0 and rows:
            if want_fault is not None and want_fault > 0:
                # the child chain must contain the fault
                a = rnd.randrange(0, fi + 1)
                b = rnd.randrange(fi + 1, len(rows) + 1)
                segs.append((a, b, want_depth - 1, want_fault - 1))
            else:
                # the child chain must avoid the fault
                cands = []
                lo_hi = [(0, len(rows))] if fi is None else [(0, fi), (fi + 1, len(rows))]
                for lo, hi in lo_hi:
                    if hi > lo:
                        cands.append((lo, hi))
                if cands:
                    lo, hi = rnd.choice(cands)
                    a = rnd.randrange(lo, hi)
                    b = rnd.randrange(a + 1, hi + 1)
                    segs.append((a, b, want_depth - 1, None))
                else:
                    segs.append((0, 0, want_depth - 1, None))      # an include of an empty-ish file
        i = 0
        for a, b, wd, wf in segs:
            while i < a:
                out.append(tuple(rows[i]))
                i += 1
            child = tree.new_name(rnd, d)
            q = rnd.choice(['', '', '"', "'"])
            rel = child[len(d):]
            out.append((rnd.choice(['include ', 'include ', 'include  ', 'INCLUDE ']) + q + rel + q, None))
            emit(child, rows[a:b], level + 1, wd, wf)
            i = b
        while i < len(rows):
            out.append(tuple(rows[i]))
            i += 1
        # a second, fault-free sibling include now and then (an included file of comments only)
        if level > 0 and rnd.random() < 0.1:
            child = tree.new_name(rnd, d)
            tree.files[child] = ['# nothing here', '']
            out.insert(rnd.randrange(0, len(out) + 1), ('include ' + child[len(d):], None))
        # an include_bytes of an empty file somewhere in this file: lines after it still
        # belong to THIS file
        if blobs and rnd.random() < 0.25:
            tree.n += 1
            blob = d + rnd.choice(['', 'sub0/']) + 'blob_%d.bin' % tree.n
            tree.files[blob] = []                        # an EMPTY file (.bin files are written verbatim): no position moves
            out.insert(rnd.randrange(0, len(out) + 1), (rnd.choice(['include_bytes ', 'include_bytes  ', 'INCLUDE_BYTES ']) + blob[len(d):], None))
        lines = []
        for text, tag in out:
            while rnd.random() < 0.15:
                lines.append(_noise(rnd, unicode_noise))
            lines.append(text)
            if tag:
                tree.where[tag] = (path, len(lines))
                tree.depth_of[tag] = level
        if not lines:
            lines = ['# empty']
        tree.files[path] = lines

    emit('main.asm', flat, 0, depth, fault_depth)
    return tree


def materialise(tree, root):
    for rel, lines in tree.files.items():
        p = os.path.join(root, rel)
        os.makedirs(os.path.dirname(p), exist_ok=True)
        with open(p, 'w', encoding='utf-8', newline='') as f:
            f.write(''.join(lines) if rel.endswith('.bin') else '\n'.join(lines) + '\n')


def tree_dirs(tree, root):
    ds = {root}
    for rel in tree.files:
        d = os.path.dirname(os.path.join(root, rel))
        while len(d) >= len(root):
            ds.add(d)
            d = os.path.dirname(d)
    return sorted(ds)
