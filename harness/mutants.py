"""Confirm a seeded change and run checks against it.

  python -m harness.mutants confirm <dir-with-patch.diff+demo.py>          (in a scratch worktree)
  python -m harness.mutants run <patch.diff> C03 C09 ...                    (applies to /repo, undoes afterwards)
  python -m harness.mutants adopt <src-dir> <id> <property> C03 C09 ...     (confirm + run + copy to seeded/<id>)
"""
import json
import os
import shutil
import subprocess
import sys
import tempfile

VERIF = os.path.dirname(os.path.dirname(os.path.abspath(__file__)))
REPO = '/repo'                                   # worktrees for confirmation are always cut from the real repository
TARGET = os.environ.get('BB_REPO', REPO)         # where patches are applied for the check runs (a scratch checkout when set)


def sh(cmd, cwd=None, timeout=3600, env=None):
    p = subprocess.run(cmd, cwd=cwd, shell=isinstance(cmd, str), stdout=subprocess.PIPE, stderr=subprocess.STDOUT,
                       text=True, timeout=timeout, env=env)
    return p.returncode, p.stdout


def confirm(src):
    """tests pass with the patch, demo fails with it and passes without - in a scratch worktree"""
    wt = tempfile.mkdtemp(prefix='bbmut-')
    os.rmdir(wt)
    res = {}
    try:
        rc, out = sh(['git', '-C', REPO, 'worktree', 'add', '-q', '--detach', wt, 'HEAD'])
        assert rc == 0, out
        shutil.copy(os.path.join(src, 'demo.py'), os.path.join(wt, 'demo.py'))
        env = dict(os.environ, PYTHONPATH=wt)
        rc, out = sh(['/venv/bin/python', 'demo.py'], cwd=wt, env=env)
        res['demo_without_patch'] = rc
        rc, out = sh(['git', 'apply', os.path.abspath(os.path.join(src, 'patch.diff'))], cwd=wt)
        res['patch_applies'] = rc == 0
        if rc != 0:
            res['apply_error'] = out[-500:]
            return res
        rc, out = sh(['/venv/bin/python', '-m', 'pytest', '-q', '-p', 'no:cacheprovider', '-x'], cwd=wt, env=env)
        res['tests_with_patch'] = rc
        res['tests_tail'] = out.strip().split('\n')[-1]
        rc, out = sh(['/venv/bin/python', 'demo.py'], cwd=wt, env=env)
        res['demo_with_patch'] = rc
        res['confirmed'] = res['demo_without_patch'] == 0 and res['tests_with_patch'] == 0 and res['demo_with_patch'] != 0
    finally:
        sh(['git', '-C', REPO, 'worktree', 'remove', '--force', wt])
        shutil.rmtree(wt, ignore_errors=True)
    return res


def run_checks(patch, props, tier='quick'):
    """apply to /repo, run the checks, undo"""
    rc, out = sh(['git', '-C', TARGET, 'status', '--porcelain'])
    assert out.strip() == '', TARGET + ' is not clean: ' + out
    rc, out = sh(['git', '-C', TARGET, 'apply', os.path.abspath(patch)])
    assert rc == 0, out
    results = {}
    try:
        for p in props:
            rc, out = sh([os.path.join(VERIF, 'check'), p, '--tier', tier], cwd=VERIF)
            viol = [l for l in out.split('\n') if l.startswith('VIOLATION')]
            first = ''
            lines = out.split('\n')
            for i, l in enumerate(lines):
                if l.startswith('VIOLATION') and i + 1 < len(lines):
                    first = lines[i + 1].strip()[:300]
                    break
            results[p] = dict(exit=rc, violations=len(viol), no_input=any('no-failing-input-found' in l for l in viol), first=first)
    finally:
        sh(['git', '-C', TARGET, 'checkout', '--', '.'])
    return results


def adopt(src, mid, prop, props):
    c = confirm(src)
    print('confirm:', c)
    if not c.get('confirmed'):
        return 1
    r = run_checks(os.path.join(src, 'patch.diff'), props)
    for p, v in r.items():
        print(' ', p, v)
    dst = os.path.join(VERIF, 'seeded', mid)
    os.makedirs(dst, exist_ok=True)
    for f in ('patch.diff', 'demo.py'):
        shutil.copy(os.path.join(src, f), os.path.join(dst, f))
    note = ''
    for nf in ('NOTE.txt', 'notes.txt'):
        if os.path.exists(os.path.join(src, nf)):
            note = open(os.path.join(src, nf)).read()
    meta = dict(id=mid, breaks=prop, needs=note.strip(), confirmed=c,
                ran=['./check {} --tier quick'.format(p) for p in props], results=r,
                caught_by=[p for p, v in r.items() if v['exit'] == 1 and not v['no_input']],
                flagged_no_input_by=[p for p, v in r.items() if v['exit'] == 1 and v['no_input']])
    json.dump(meta, open(os.path.join(dst, 'meta.json'), 'w'), indent=1)
    print('caught by:', meta['caught_by'], 'no-input:', meta['flagged_no_input_by'])
    return 0


if __name__ == '__main__':
    cmd = sys.argv[1]
    if cmd == 'confirm':
        print(confirm(sys.argv[2]))
    elif cmd == 'run':
        for p, v in run_checks(sys.argv[2], sys.argv[3:]).items():
            print(p, v)
    elif cmd == 'adopt':
        sys.exit(adopt(sys.argv[2], sys.argv[3], sys.argv[4], sys.argv[5:]))
