"""Seeded generator of assembly programs with machine-readable meaning per line, plus the
chunk-capturing wrapper around the real assembler.

A program is a list of `Ln` records; `text` is what the assembler reads, the other fields say what
the line *means* (independently of the assembler), so that oracles never re-parse text.
"""
import re
import importlib

from harness import common, encsweep

ALIASES = encsweep.ALIASES
BR = ['beq', 'bne', 'blt', 'bge', 'bltu', 'bgeu']
PBR1 = ['beqz', 'bnez', 'blez', 'bgez', 'bltz', 'bgtz']
PBR2 = ['bgt', 'ble', 'bgtu', 'bleu']
R3 = ['add', 'sub', 'sll', 'slt', 'sltu', 'xor', 'srl', 'sra', 'or', 'and', 'mul', 'mulh', 'mulhsu', 'mulhu',
      'div', 'divu', 'rem', 'remu']
SHI = ['slli', 'srli', 'srai']
IMM = ['addi', 'slti', 'sltiu', 'xori', 'ori', 'andi']
LD = ['lb', 'lh', 'lw', 'lbu', 'lhu']
ST = ['sb', 'sh', 'sw']
UN = ['mv', 'not', 'neg', 'seqz', 'snez', 'sltz', 'sgtz']


class Ln:
    """one source line"""
    __slots__ = ('text', 'kind', 'name', 'ops', 'label', 'extra')

    def __init__(self, text, kind, name=None, ops=None, label=None, extra=None):
        self.text, self.kind, self.name, self.ops, self.label, self.extra = text, kind, name, ops, label, extra

    def __repr__(self):
        return 'Ln({!r},{})'.format(self.text, self.kind)

    def to_json(self):
        return [self.text, self.kind, self.name, self.ops, self.label, self.extra]

    @staticmethod
    def from_json(j):
        text, kind, name, ops, label, extra = j
        if ops is not None:
            ops = [tuple(o) if isinstance(o, list) else o for o in ops]
        return Ln(text, kind, name, ops, label, extra)


def reg_txt(rnd, n):
    k = rnd.randrange(4)
    return ['x%d' % n, ALIASES[n], str(n), 'x%d' % n][k]


def creg(rnd):
    """register, biased to the RVC-relevant ones"""
    r = rnd.random()
    if r < 0.45:
        return rnd.randrange(8, 16)
    if r < 0.6:
        return rnd.choice([0, 1, 2])
    return rnd.randrange(32)


def edge_imm(rnd, lo, hi, step=1, extra=()):
    """immediate biased to the edges of [lo,hi] and of the RVC sub-ranges"""
    cands = [lo, hi - (hi - lo) % step if step > 1 else hi, 0, step, -step if lo < 0 else step]
    cands += list(extra)
    r = rnd.random()
    if r < 0.55:
        v = rnd.choice(cands)
    else:
        v = rnd.randrange(lo, hi + 1)
        v -= v % step
    return max(lo, min(hi, v))


RVC_EDGES = [-33, -32, -31, 31, 32, 33, -1, 0, 1, 4, 8, 16, 124, 128, 252, 256, 1020, 1024, -512, -528, -496, 496, 512,
             508, 60, 64, 15, 17, 1023, 3, 5]


def gen_instr(rnd):
    """a literal-operand instruction line (never pc-relative)"""
    k = rnd.random()
    if k < 0.22:
        name = rnd.choice(R3)
        a, b, c = creg(rnd), creg(rnd), creg(rnd)
        if rnd.random() < 0.5:
            b = a
        ops = [('r', a), ('r', b), ('r', c)]
    elif k < 0.32:
        name = rnd.choice(SHI)
        a, b = creg(rnd), creg(rnd)
        if rnd.random() < 0.6:
            b = a
        ops = [('r', a), ('r', b), ('r', rnd.choice([0, 1, 2, 15, 16, 30, 31, rnd.randrange(32)]))]
    elif k < 0.6:
        name = rnd.choice(IMM)
        a, b = creg(rnd), creg(rnd)
        j = rnd.random()
        if j < 0.4:
            b = a
        elif j < 0.55:
            b = 0
        elif j < 0.7:
            b = 2
        ops = [('r', a), ('r', b), ('i', edge_imm(rnd, -2048, 2047, 1, RVC_EDGES))]
    elif k < 0.72:
        name = rnd.choice(LD)
        a, b = creg(rnd), creg(rnd)
        if rnd.random() < 0.3:
            b = 2
        ops = [('r', a), ('r', b), ('i', edge_imm(rnd, -2048, 2047, 1, RVC_EDGES))]
    elif k < 0.84:
        name = rnd.choice(ST)
        a, b = creg(rnd), creg(rnd)
        if rnd.random() < 0.3:
            a = 2
        ops = [('r', a), ('r', b), ('i', edge_imm(rnd, -2048, 2047, 1, RVC_EDGES))]
    elif k < 0.92:
        name = rnd.choice(['lui', 'auipc'])
        ops = [('r', creg(rnd)), ('i', rnd.choice([0, 1, 31, 32, -1, -32, -33, 0xfffff, 0xfffe0, 0xfffdf, 0x7ffff, 0x80000,
                                                 rnd.randrange(-0x80000, 0x100000)]))]
    elif k < 0.95:
        name = 'jalr'
        ops = [('r', rnd.choice([0, 1, creg(rnd)])), ('r', creg(rnd)), ('i', rnd.choice([0, 0, 0, 2, -2, 4, 2046, -2048]))]
    elif k < 0.975:
        # atomics: ordering bits written as integers after the registers
        aq, rl = rnd.choice([(0, 0), (1, 0), (0, 1), (1, 1)])
        if rnd.random() < 0.35:
            name, ops = 'lr.w', [('r', creg(rnd)), ('r', creg(rnd)), ('k', aq), ('k', rl)]
        else:
            name = rnd.choice(['sc.w', 'amoswap.w', 'amoadd.w', 'amoxor.w', 'amoand.w', 'amoor.w', 'amomin.w', 'amomax.w', 'amominu.w', 'amomaxu.w'])
            ops = [('r', creg(rnd)), ('r', creg(rnd)), ('r', creg(rnd)), ('k', aq), ('k', rl)]
    else:
        name = rnd.choice(['ecall', 'ebreak', 'fence.i'])
        ops = []
    return name, ops


def op_txt(rnd, op):
    kind, v = op
    if kind == 'r':
        return reg_txt(rnd, v)
    k = rnd.randrange(3)
    if k == 0 or abs(v) > 2 ** 40:
        return str(v)
    if k == 1:
        return ('-' if v < 0 else '') + hex(abs(v))
    return ('-' if v < 0 else '') + bin(abs(v))


def line_text(rnd, name, ops):
    sep = rnd.choice([' ', ', ', ',', '  '])
    t = name
    for i, op in enumerate(ops):
        if name in SHI and i == 2 and rnd.random() < 0.35:
            # the shift amount travels in a register field but is documented as an integer: every integer spelling
            txt = rnd.choice([hex(op[1]), bin(op[1]), '0o%o' % op[1], '0X%X' % op[1]])
        else:
            txt = op_txt(rnd, op)
        t += (' ' if i == 0 else sep) + txt
    return '    ' + t


class Gen:
    def __init__(self, rnd, n_labels=4, far=False):
        self.rnd = rnd
        self.lines = []
        self.nlab = 0
        self.labels = []

    def new_label(self):
        self.nlab += 1
        return 'L%d' % self.nlab


def gen_program(rnd, size=None, pseudo=True, data=True, aligns=True, transfers=True, consts=True,
                fillers=True, label_arith=False):
    """Returns a list of Ln.  Labels are placed first (names known), references may point forward
    or backward."""
    size = size or rnd.randrange(6, 40)
    nlabels = rnd.randrange(1, 6)
    labels = ['L%d' % i for i in range(nlabels)]
    if rnd.random() < 0.2:
        # names spelled with hex digits only are names all the same (a target `dead` is the label, not the number 0xdead)
        labels = rnd.sample(['dead', 'cafe', 'bad', 'e1', 'a', 'DEAD', 'b0', 'f00d', 'c0de', 'fee', 'abc'], nlabels)
    body = []
    # a pessimistically-far anchor at offset 0: `align 0x200000` there pads nothing in the output but
    # counts 2 MiB while li/call/tail/compression take their decisions, so call/tail FAR0 use the far form
    far_anchor = transfers and aligns and rnd.random() < 0.35
    if far_anchor:
        labels = labels + ['FAR0', 'FAR0']
    consts_defined = []
    if consts and rnd.random() < 0.5:
        for i in range(rnd.randrange(1, 4)):
            v = rnd.choice([rnd.randrange(-2048, 2048), rnd.randrange(0, 32), rnd.randrange(0, 2 ** 32)])
            nm = 'K%d' % i
            body.append(Ln('%s = %s' % (nm, v if rnd.random() < 0.5 else hex(v) if v >= 0 else str(v)), 'const', nm, extra=v))
            consts_defined.append((nm, v))
    for _ in range(size):
        k = rnd.random()
        if k < 0.42:
            name, ops = gen_instr(rnd)
            body.append(Ln(line_text(rnd, name, ops), 'instr', name, ops))
            if name == 'auipc' and rnd.random() < 0.5:
                # a hand-written pair: the jalr behind an auipc is an ordinary instruction (c.jr / c.jalr when its offset is 0)
                rs = ops[0][1] or 5
                jops = [('r', rnd.choice([0, 1])), ('r', rs), ('i', rnd.choice([0, 0, 0, 4, -8]))]
                body.append(Ln(line_text(rnd, 'jalr', jops), 'instr', 'jalr', jops))
        elif k < 0.58 and transfers:
            t = rnd.random()
            L = rnd.choice(labels)
            if t < 0.35:
                name = rnd.choice(BR)
                a, b = creg(rnd), rnd.choice([0, 0, creg(rnd)])
                body.append(Ln('    %s %s, %s, %s' % (name, reg_txt(rnd, a), reg_txt(rnd, b), L), 'branch', name, [a, b], L))
            elif t < 0.5:
                rd = rnd.choice([0, 1, 1, 0, 5])
                body.append(Ln('    jal %s, %s' % (reg_txt(rnd, rd), L), 'jal', 'jal', [rd], L))
            elif t < 0.65 and pseudo:
                name = rnd.choice(PBR1)
                a = creg(rnd)
                body.append(Ln('    %s %s, %s' % (name, reg_txt(rnd, a), L), 'pbranch1', name, [a], L))
            elif t < 0.75 and pseudo:
                name = rnd.choice(PBR2)
                a, b = creg(rnd), creg(rnd)
                body.append(Ln('    %s %s, %s, %s' % (name, reg_txt(rnd, a), reg_txt(rnd, b), L), 'pbranch2', name, [a, b], L))
            elif pseudo:
                name = rnd.choice(['j', 'jal', 'call', 'tail'])
                body.append(Ln('    %s %s' % (name, L), 'pjump', name, [], L))
            else:
                body.append(Ln('    jal x0, %s' % L, 'jal', 'jal', [0], L))
        elif k < 0.70 and pseudo:
            t = rnd.random()
            if t < 0.35:
                rd = creg(rnd)
                v = rnd.choice([0, 1, -1, 31, 32, -32, -33, 2047, 2048, -2048, -2049, 0x7fffffff, 0x80000000, 0xffffffff,
                                0xfffff800, 0x12345678, 4096, 0x1000 * rnd.randrange(1, 64), rnd.randrange(-2 ** 31, 2 ** 32),
                                0x1000 * rnd.randrange(1, 32) + rnd.choice([1, 5, 16, 31, -1, -32]), 0x40021000 + rnd.choice([0, 4, 31]),
                                rnd.randrange(-4096, 4096),
                                # the ends of the 32-bit range and values beyond it (li takes its operand mod 2^32)
                                -2 ** 31, -2 ** 31 + 1, -2 ** 31 - 1, 2 ** 32 + 5, 2 ** 40 + 3, -2 ** 33, 0x1ffffffff, 2 ** 32])
                body.append(Ln('    li %s, %s' % (reg_txt(rnd, rd), v if rnd.random() < 0.5 else (hex(v) if v >= 0 else str(v))),
                               'li', 'li', [rd], extra=v))
            elif t < 0.7:
                name = rnd.choice(UN)
                a, b = creg(rnd), creg(rnd)
                if rnd.random() < 0.3:
                    b = a
                body.append(Ln('    %s %s, %s' % (name, reg_txt(rnd, a), reg_txt(rnd, b)), 'unary', name, [a, b]))
            elif t < 0.85:
                name = rnd.choice(['jr', 'jalr'])
                a = creg(rnd)
                body.append(Ln('    %s %s' % (name, reg_txt(rnd, a)), 'pjr', name, [a]))
            else:
                name = rnd.choice(['nop', 'ret', 'fence'])
                body.append(Ln('    ' + name, 'p0', name, []))
        elif k < 0.80 and data:
            t = rnd.random()
            if t < 0.3:
                d = rnd.choice(['bytes', 'shorts', 'ints', 'longs', 'longlongs'])
                w = {'bytes': 1, 'shorts': 2, 'ints': 4, 'longs': 4, 'longlongs': 8}[d]
                n = rnd.randrange(1, 5)
                vals = [rnd.choice([0, 1, -1, 2 ** (8 * w) - 1, -(2 ** (8 * w - 1)), 2 ** (8 * w - 1) - 1,
                                    rnd.randrange(-(2 ** (8 * w - 1)), 2 ** (8 * w))]) for _ in range(n)]
                if w == 1 and n % 2:
                    vals.append(0)     # keep positions even
                body.append(Ln('    %s %s' % (d, ' '.join(str(v) if rnd.random() < 0.6 or v < 0 else hex(v) for v in vals)),
                               'seq', d, vals))
            elif t < 0.6:
                d = rnd.choice(['dh', 'dw', 'dd'])
                w = {'dh': 2, 'dw': 4, 'dd': 8}[d]
                v = rnd.choice([0, -1, 2 ** (8 * w) - 1, -(2 ** (8 * w - 1)), rnd.randrange(-(2 ** (8 * w - 1)), 2 ** (8 * w))])
                body.append(Ln('    %s %s' % (d, v), 'short', d, [v]))
            elif t < 0.8:
                e = rnd.choice('<>')
                c = rnd.choice('hHiIlLqQ')
                w = {'h': 2, 'i': 4, 'l': 4, 'q': 8}[c.lower()]
                if c.islower():
                    v = rnd.randrange(-(2 ** (8 * w - 1)), 2 ** (8 * w - 1))
                else:
                    v = rnd.randrange(0, 2 ** (8 * w))
                body.append(Ln('    pack %s%s, %s' % (e, c, v), 'pack', e + c, [v]))
            else:
                s = rnd.choice(['hi', 'hello world', 'a\\nb', 'x "y" z', 'tab\\there', 'ab', 'wxyz', 'h\\x41llo!', 'héé', '日本'])
                body.append(Ln('    string ' + s, 'string', 'string', [s]))
                body.append(Ln('    align 2', 'align', 'align', [2]))
        elif k < 0.88 and aligns:
            n = rnd.choice([1, 2, 2, 4, 4, 4, 8, 16, 6, 10, 32, 64, 12])
            if n % 2:
                n = 2 if n != 1 else 1
            body.append(Ln('    align %d' % n, 'align', 'align', [n]))
        elif k < 0.94 and fillers:
            n = rnd.choice([1, 2, 3, 5, 30, 62, 63, 64, 65, 126, 127, 128, 129, 250, 255, 256, 257, 510, 512, 514])
            for _ in range(n):
                body.append(Ln('    addi x0 x0 0', 'instr', 'addi', [('r', 0), ('r', 0), ('i', 0)]))
        elif consts and consts_defined:
            nm, v = rnd.choice(consts_defined)
            if 0 <= v < 32 and rnd.random() < 0.6:
                # a constant as a shift amount, or as a register alias
                a = creg(rnd)
                if rnd.random() < 0.5:
                    name = rnd.choice(SHI)
                    body.append(Ln('    %s %s, %s, %s' % (name, reg_txt(rnd, a), reg_txt(rnd, a), nm), 'instr', name,
                                   [('r', a), ('r', a), ('r', v)]))
                elif pseudo and rnd.random() < 0.4:
                    # the alias as an operand of a pseudo-instruction (resolved again after the expansion)
                    j = rnd.randrange(4)
                    if j == 0:
                        val = rnd.choice([0, 5, -32, 31, 2047, 2048, 0x12345678])
                        body.append(Ln('    li %s, %d' % (nm, val), 'li', 'li', [v], extra=val))
                    elif j == 1:
                        un = rnd.choice(UN)
                        b2 = creg(rnd)
                        body.append(Ln('    %s %s, %s' % (un, nm, reg_txt(rnd, b2)), 'unary', un, [v, b2]) if rnd.random() < 0.5 else
                                    Ln('    %s %s, %s' % (un, reg_txt(rnd, b2), nm), 'unary', un, [b2, v]))
                    elif j == 2 and transfers:
                        pb = rnd.choice(PBR1)
                        lab = rnd.choice(labels)
                        body.append(Ln('    %s %s, %s' % (pb, nm, lab), 'pbranch1', pb, [v], lab))
                    else:
                        pj = rnd.choice(['jr', 'jalr'])
                        body.append(Ln('    %s %s' % (pj, nm), 'pjr', pj, [v]))
                else:
                    name, ops = gen_instr(rnd)
                    if rnd.random() < 0.25:
                        # instruction classes with fields after the registers (ordering bits) rebuilt by the alias pass
                        aq, rl = rnd.choice([(1, 0), (0, 1), (1, 1), (0, 0)])
                        if rnd.random() < 0.5:
                            name, ops = 'lr.w', [('r', 0), ('r', creg(rnd)), ('k', aq), ('k', rl)]
                        else:
                            name = rnd.choice(['sc.w', 'amoswap.w', 'amoadd.w', 'amoor.w', 'amomaxu.w'])
                            ops = [('r', 0), ('r', creg(rnd)), ('r', creg(rnd)), ('k', aq), ('k', rl)]
                    if ops and ops[0][0] == 'r':
                        ops = [('r', v)] + ops[1:]
                        txt = line_text(rnd, name, ops)
                        # replace the first operand by the constant's name (operands may be separated by a bare comma)
                        head, rest = txt.strip().split(None, 1)
                        first = re.split(r'[\s,]+', rest)[0]
                        txt = '    ' + head + ' ' + nm + rest[len(first):]
                        body.append(Ln(txt, 'instr', name, ops))
            elif -2048 <= v <= 2047:
                a, b = creg(rnd), creg(rnd)
                body.append(Ln('    addi %s, %s, %s' % (reg_txt(rnd, a), reg_txt(rnd, b), nm), 'instr', 'addi',
                               [('r', a), ('r', b), ('i', v)]))
            elif 0 <= v <= 0xfffff:
                a = creg(rnd)
                body.append(Ln('    lui %s, %s' % (reg_txt(rnd, a), nm), 'instr', 'lui', [('r', a), ('i', v)]))
            else:
                a = creg(rnd)
                body.append(Ln('    li %s, %s' % (reg_txt(rnd, a), nm), 'li', 'li', [a], extra=v))
    if consts and rnd.random() < 0.15:
        # one name that is BOTH a constant and a label (never a branch target): constants win wherever a value is needed
        val = rnd.choice([400, 8, -32, 31, 2047, 16, 100, -100, 400, 2047])
        a = creg(rnd)
        body.insert(0, Ln('SHARED = %d' % val, 'const', 'SHARED', extra=val))
        consts_defined.append(('SHARED', val))
        body.insert(rnd.randrange(1, len(body) + 1), Ln('    addi %s, %s, SHARED' % (reg_txt(rnd, a), reg_txt(rnd, a)), 'instr', 'addi',
                                                        [('r', a), ('r', a), ('i', val)]))
        # the label mostly sits near the start (a small address) so that label value and constant value fall on
        # different sides of the compressed operand ranges
        body.insert(rnd.randrange(1, min(len(body), 6) + 1) if rnd.random() < 0.7 else rnd.randrange(1, len(body) + 1),
                    Ln('SHARED:', 'label', 'SHARED'))
    # sprinkle the labels
    if far_anchor:
        for _ in range(rnd.randrange(1, 3)):
            nm = rnd.choice(['call', 'call', 'tail'])
            body.insert(rnd.randrange(0, len(body) + 1), Ln('    %s FAR0' % nm, 'pjump', nm, [], 'FAR0'))
    for L in sorted(set(labels)):
        if L == 'FAR0':
            continue
        pos = rnd.randrange(0, len(body) + 1)
        if rnd.random() < 0.5:
            # prefer the places where the label-shifting rules are delicate: right in front of an item
            # that shrinks (li, call, tail, align) or that is compressible
            hot = [i for i, l in enumerate(body) if l.kind in ('li', 'pjump', 'align', 'unary', 'p0')]
            if hot:
                pos = rnd.choice(hot)
        body.insert(pos, Ln('%s:' % L, 'label', L))
    if far_anchor:
        body = [Ln('FAR0:', 'label', 'FAR0'), Ln('    align 0x200000', 'align', 'align', [0x200000])] + body
    # constants must precede their uses: move const lines to the front (stable)
    cs = [l for l in body if l.kind == 'const']
    rest = [l for l in body if l.kind != 'const']
    return cs + rest      # (constants emit nothing, so FAR0 stays at offset 0)


def source(lines):
    return '\n'.join(l.text for l in lines) + '\n'


# ---------------------------------------------------------------------------------------------
# running the real assembler and capturing per-item chunks
# ---------------------------------------------------------------------------------------------

class Result:
    __slots__ = ('status', 'bytes', 'labels', 'constants', 'chunks', 'err_line', 'err_file', 'exc')


def assemble_chunks(asm, src, compress, include_dirs=None):
    """Run asm.assemble and capture the final Blob list (file, line number, bytes) by wrapping
    asm.resolve_blobs from outside - no hook in the source."""
    captured = {}
    orig = asm.resolve_blobs

    def spy(items):
        captured['chunks'] = [(it.line.file, it.line.number, bytes(it.data)) for it in items]
        return orig(items)

    r = Result()
    r.labels, r.constants, r.chunks, r.err_line, r.err_file, r.exc, r.bytes = {}, {}, None, None, None, None, None
    asm.resolve_blobs = spy
    try:
        out = asm.assemble(src, compress=compress, labels=r.labels, constants=r.constants, include_dirs=include_dirs)
        r.status = 'ok'
        r.bytes = bytes(out)
        r.chunks = captured.get('chunks', [])
    except asm.AssemblerError as e:
        r.status = 'asmerr'
        # (an AssemblerError without a line names nothing: recorded as line None / file None)
        r.err_line = getattr(e.line, 'number', None)
        r.err_file = getattr(e.line, 'file', None)
        r.exc = 'AssemblerError'
    except RecursionError:
        r.status = 'exc'
        r.exc = 'RecursionError'
    except Exception as e:
        r.status = 'exc'
        r.exc = type(e).__name__
    finally:
        asm.resolve_blobs = orig
    return r


def chunks_by_line(chunks):
    """{line number: [(offset, bytes), ...]} for a single-file program"""
    out = {}
    off = 0
    for _, ln, data in chunks:
        out.setdefault(ln, []).append((off, data))
        off += len(data)
    return out, off


def get_asm():
    return importlib.import_module('bronzebeard.asm')
