"""Class predicates of the C15 known findings (registered into harness/known.py's CLASSES).

A predicate sees the failing case as passed by harness/props/c15.py:
  case['line']  text of the planted faulty line      case['kind']  internal | wrong-line | wrong-file
  case['exc']   the Python exception type that escaped (kind == 'internal')
"""
import re

CHAR_LIT = re.compile(r"'[^\s,]*'")


def _undecodable(s):
    try:
        s.encode('utf-8').decode('unicode_escape')
        return False
    except UnicodeDecodeError:
        return True
    except Exception:
        return False


def has_bad_escape(line):
    """the line carries a backslash escape that Python's `unicode_escape` codec rejects, in a place
    the assembler decodes with it: a character literal token '...' or the message of an `error`
    directive"""
    m = re.match(r'\s*error (.*)', line)
    if m:
        return _undecodable(m.group(1))
    code = re.sub(r'#.*$', '', line)
    for tok in re.split(r'[\s,()]+', code):
        if len(tok) >= 2 and tok.startswith("'") and tok.endswith("'") and _undecodable(tok[1:-1]):
            return True
    return False


def cls_undecodable_escape(case):
    """KF-C15-esc: the faulty line contains a backslash escape that unicode_escape rejects ('\\',
    '\\x', '\\x4', '\\u12', '\\N{x}' as a character literal; `error text\\`), and what escaped is
    the codec's UnicodeDecodeError - nothing else is excused"""
    if case.get('kind') != 'internal' or case.get('exc') != 'UnicodeDecodeError':
        return False
    return has_bad_escape(case.get('line') or '')


CLASSES = {
    'undecodable-escape': cls_undecodable_escape,
}
