"""Regenerate lean/BB/Generated/Tables.lean from the live bronzebeard.asm module.

The model's instruction table, pseudo-instruction set, keyword sets and REGISTERS spellings are
*proved equal* (by `decide`, in lean/BB/Props/Tables.lean) to what this file dumps, so an added,
removed, re-filed or re-parameterised mnemonic breaks a proof obligation on the next run.
"""
import importlib
import os
import sys

from harness import common


def lean_str(s):
    return '"' + s.replace('\\', '\\\\').replace('"', '\\"') + '"'


def lean_list(xs):
    return '[' + ', '.join(xs) + ']'


CONSTRAINT_NAMES = {
    'RegRdNotZero': '.rdNotZero', 'RegRs1NotZero': '.rs1NotZero', 'RegRs2NotZero': '.rs2NotZero',
    'RegRdRs1NotZero': '.rdRs1NotZero', 'RegRdRs1NotTwo': '.rdRs1NotTwo', 'ImmNotZero': '.immNotZero',
    'ShamtBit5Zero': '.shamtBit5Zero',
}


def kind_of(asm, dict_name, name, part):
    func = part.func.__name__
    kw = dict(part.keywords)
    cs = kw.pop('cs', None)

    def cs_term():
        out = []
        for c in cs or []:
            for py, lean in CONSTRAINT_NAMES.items():
                if getattr(asm, py, None) is c:
                    out.append(lean)
                    break
            else:
                raise ValueError('unknown constraint object in {}'.format(name))
        return lean_list(out)

    def need(expect_func, keys, fixed=None):
        if func != expect_func:
            raise ValueError('{}: encoder {} (expected {})'.format(name, func, expect_func))
        want = set(keys) | set((fixed or {}).keys())
        if set(kw.keys()) != want:
            raise ValueError('{}: bound keywords {} (expected {})'.format(name, sorted(kw), sorted(want)))
        for k, v in (fixed or {}).items():
            if kw[k] != v:
                raise ValueError('{}: {}={} (expected {})'.format(name, k, kw[k], v))
        return [str(kw[k]) for k in keys]

    d = dict_name
    if d == 'R_TYPE_INSTRUCTIONS':
        return '.r ' + ' '.join(need('r_type', ['opcode', 'funct3', 'funct7']))
    if d == 'I_TYPE_INSTRUCTIONS':
        if func == 'ij_type':
            return '.ij ' + ' '.join(need('ij_type', ['opcode', 'funct3']))
        return '.i ' + ' '.join(need('i_type', ['opcode', 'funct3']))
    if d == 'IE_TYPE_INSTRUCTIONS':
        return '.ie ' + ' '.join(need('i_type', ['opcode', 'funct3', 'imm'], {'rd': 0, 'rs1': 0}))
    if d == 'S_TYPE_INSTRUCTIONS':
        return '.s ' + ' '.join(need('s_type', ['opcode', 'funct3']))
    if d == 'B_TYPE_INSTRUCTIONS':
        return '.b ' + ' '.join(need('b_type', ['opcode', 'funct3']))
    if d == 'U_TYPE_INSTRUCTIONS':
        return '.u ' + ' '.join(need('u_type', ['opcode']))
    if d == 'J_TYPE_INSTRUCTIONS':
        return '.j ' + ' '.join(need('j_type', ['opcode']))
    if d == 'FENCE_INSTRUCTIONS':
        return '.fence ' + ' '.join(need('fence', ['opcode', 'funct3'], {'rd': 0, 'rs1': 0, 'fm': 0}))
    if d == 'A_TYPE_INSTRUCTIONS':
        return '.a ' + ' '.join(need('a_type', ['opcode', 'funct3', 'funct5']))
    if d == 'AL_TYPE_INSTRUCTIONS':
        return '.al ' + ' '.join(need('a_type', ['opcode', 'funct3', 'funct5'], {'rs2': 0}))
    if d == 'CR_TYPE_INSTRUCTIONS':
        return '.cr ' + ' '.join(need('cr_type', ['opcode', 'funct4'])) + ' ' + cs_term()
    if d == 'CRJ_TYPE_INSTRUCTIONS':
        return '.crj ' + ' '.join(need('cr_type', ['opcode', 'funct4'], {'rs2': 0})) + ' ' + cs_term()
    if d == 'CRE_TYPE_INSTRUCTIONS':
        if cs:
            raise ValueError('{}: unexpected constraints'.format(name))
        return '.cre ' + ' '.join(need('cr_type', ['opcode', 'funct4'], {'rd_rs1': 0, 'rs2': 0}))
    if d == 'CI_TYPE_INSTRUCTIONS':
        if func == 'ciu_type':
            return '.ciu ' + ' '.join(need('ciu_type', ['opcode', 'funct3'])) + ' ' + cs_term()
        if func == 'cil_type':
            return '.cil ' + ' '.join(need('cil_type', ['opcode', 'funct3'])) + ' ' + cs_term()
        return '.ci ' + ' '.join(need('ci_type', ['opcode', 'funct3'])) + ' ' + cs_term()
    if d == 'CIA_TYPE_INSTRUCTIONS':
        return '.cia ' + ' '.join(need('cia_type', ['opcode', 'funct3'])) + ' ' + cs_term()
    if d == 'CIN_TYPE_INSTRUCTIONS':
        if cs:
            raise ValueError('{}: unexpected constraints'.format(name))
        return '.cin ' + ' '.join(need('ci_type', ['opcode', 'funct3'], {'rd_rs1': 0, 'imm': 0}))
    if d == 'CSS_TYPE_INSTRUCTIONS':
        return '.css ' + ' '.join(need('css_type', ['opcode', 'funct3'])) + ' ' + cs_term()
    if d == 'CIW_TYPE_INSTRUCTIONS':
        return '.ciw ' + ' '.join(need('ciw_type', ['opcode', 'funct3'])) + ' ' + cs_term()
    if d == 'CL_TYPE_INSTRUCTIONS':
        return '.cl ' + ' '.join(need('cl_type', ['opcode', 'funct3'])) + ' ' + cs_term()
    if d == 'CS_TYPE_INSTRUCTIONS':
        return '.cs ' + ' '.join(need('cs_type', ['opcode', 'funct3'])) + ' ' + cs_term()
    if d == 'CA_TYPE_INSTRUCTIONS':
        return '.ca ' + ' '.join(need('ca_type', ['opcode', 'funct2', 'funct6'])) + ' ' + cs_term()
    if d == 'CB_TYPE_INSTRUCTIONS':
        if func == 'cbi_type':
            return '.cbi ' + ' '.join(need('cbi_type', ['opcode', 'funct2', 'funct3'])) + ' ' + cs_term()
        return '.cb ' + ' '.join(need('cb_type', ['opcode', 'funct3'])) + ' ' + cs_term()
    if d == 'CJ_TYPE_INSTRUCTIONS':
        return '.cj ' + ' '.join(need('cj_type', ['opcode', 'funct3'])) + ' ' + cs_term()
    raise ValueError('unknown instruction dictionary ' + d)


def render():
    if 'bronzebeard.asm' in sys.modules:
        asm = sys.modules['bronzebeard.asm']
    else:
        asm = importlib.import_module('bronzebeard.asm')
    dict_names = [n for n in dir(asm) if n.endswith('_TYPE_INSTRUCTIONS') or n == 'FENCE_INSTRUCTIONS']
    entries = {}
    fmt_of = {}
    for dn in sorted(dict_names):
        for name, part in getattr(asm, dn).items():
            if name in entries:
                raise ValueError('mnemonic {} in two format dictionaries'.format(name))
            entries[name] = kind_of(asm, dn, name, part)
            fmt_of[name] = dn
    if set(entries) != set(asm.INSTRUCTIONS):
        raise ValueError('INSTRUCTIONS differs from the union of the format dictionaries: {}'.format(
            sorted(set(entries) ^ set(asm.INSTRUCTIONS))))
    for name, part in asm.INSTRUCTIONS.items():
        if getattr(asm, fmt_of[name])[name] is not part:
            raise ValueError('INSTRUCTIONS[{}] is not the format dictionary entry'.format(name))

    out = []
    out.append('/- GENERATED by harness/gen_tables.py from the live bronzebeard.asm module. Do not edit. -/')
    out.append('import BB.InstrTable')
    out.append('namespace BB.Generated')
    out.append('open BB')
    out.append('')
    out.append('def instrTable : List (String × EncKind) := [')
    rows = ['  ({}, {})'.format(lean_str(n), entries[n]) for n in sorted(entries)]
    out.append(',\n'.join(rows))
    out.append(']')
    out.append('')
    # which parse_item branch (format dictionary) a mnemonic is routed through
    out.append('def formatOf : List (String × String) := [')
    out.append(',\n'.join('  ({}, {})'.format(lean_str(n), lean_str(fmt_of[n])) for n in sorted(fmt_of)))
    out.append(']')
    out.append('')

    def sset(name, xs):
        out.append('def {} : List String := {}'.format(name, lean_list(lean_str(x) for x in sorted(xs))))

    sset('pseudoInstructions', asm.PSEUDO_INSTRUCTIONS)
    sset('baseOffsetInstructions', asm.BASE_OFFSET_INSTRUCTIONS)
    sset('numericSequenceNames', asm.NUMERIC_SEQUENCE_NAMES)
    sset('shorthandPackNames', asm.SHORTHAND_PACK_NAMES)
    sset('keywords', asm.KEYWORDS)
    strs = sorted((k, v) for k, v in asm.REGISTERS.items() if isinstance(k, str))
    ints = sorted((k, v) for k, v in asm.REGISTERS.items() if isinstance(k, int) and not isinstance(k, bool))
    other = [k for k in asm.REGISTERS if not isinstance(k, (str, int))]
    if other:
        raise ValueError('REGISTERS has keys of unexpected type: {}'.format(other))
    out.append('def registersStr : List (String × Nat) := ' + lean_list(
        '({}, {})'.format(lean_str(k), v) for k, v in strs))
    out.append('def registersInt : List (Int × Nat) := ' + lean_list(
        '({}, {})'.format(k, v) for k, v in ints))
    out.append('')
    out.append('end BB.Generated')
    return '\n'.join(out) + '\n'


def write(path):
    try:
        text = render()
    except Exception as e:
        return False, 'cannot dump tables from the live module: {!r}'.format(e)
    old = open(path).read() if os.path.exists(path) else None
    if old != text:
        os.makedirs(os.path.dirname(path), exist_ok=True)
        with open(path, 'w') as f:
            f.write(text)
    return True, 'ok'


if __name__ == '__main__':
    ok, msg = write(os.path.join(common.LEAN_DIR, 'BB', 'Generated', 'Tables.lean'))
    print(msg)
    sys.exit(0 if ok else 1)
