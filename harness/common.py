"""Shared machinery of the bronzebeard verification checks (see /verif/DESIGN.md §3-4).

Everything a check needs: build + axiom audit of the Lean development, the bbdrv line-protocol
driver, seeded RNG, evidence writing, violation / known-finding reporting.
"""
import hashlib
import json
import os
import random
import re
import subprocess
import sys
import tempfile
import time

VERIF = os.path.dirname(os.path.dirname(os.path.abspath(__file__)))
REPO = os.environ.get('BB_REPO', '/repo')
LEAN_DIR = os.environ.get('BB_LEAN_DIR', os.path.join(VERIF, 'lean'))
BBDRV = os.path.join(LEAN_DIR, '.lake', 'build', 'bin', 'bbdrv')
EVIDENCE_DIR = os.path.join(VERIF, 'evidence')
OUT_DIR = os.path.join(VERIF, 'out')          # replay files, logs (git-ignored)
ALLOWED_AXIOMS = {'propext', 'Classical.choice', 'Quot.sound'}
FORBIDDEN_RE = re.compile(r'\bsorry\b|\badmit\b|^axiom |native_decide|bv_decide|implemented_by|unsafe |maxHeartbeats 0')

if REPO not in sys.path:
    sys.path.insert(0, REPO)


def seed():
    try:
        return int(os.environ.get('VERIF_SEED', '0'))
    except ValueError:
        return 0


def rng(tag=''):
    """One PRNG per (seed, tag): every random choice of a check derives from VERIF_SEED."""
    h = hashlib.sha256('{}:{}'.format(seed(), tag).encode()).digest()
    return random.Random(int.from_bytes(h[:8], 'big'))


class Timer:
    def __init__(self):
        self.t0 = time.time()

    def s(self):
        return round(time.time() - self.t0, 3)


# --------------------------------------------------------------------------------------------
# Lean build, generated tables, axiom audit
# --------------------------------------------------------------------------------------------

def run(cmd, cwd=None, timeout=None, env=None):
    p = subprocess.run(cmd, cwd=cwd, stdout=subprocess.PIPE, stderr=subprocess.STDOUT,
                       timeout=timeout, env=env, text=True)
    return p.returncode, p.stdout


def regenerate_tables():
    """Dump the name tables of the live bronzebeard module into lean/BB/Generated/Tables.lean.
    Returns (ok, message).  The file is only rewritten when its contents change."""
    from harness import gen_tables
    return gen_tables.write(os.path.join(LEAN_DIR, 'BB', 'Generated', 'Tables.lean'))


_build_cache = {}


def lake_build(timeout=3000):
    """lake build (library + driver).  Returns (ok, log)."""
    if 'build' in _build_cache:
        return _build_cache['build']
    try:
        ok, msg = regenerate_tables()
    except Exception as e:  # the live module no longer has the tables the dumper reads
        ok, msg = False, 'table dump failed: {!r}'.format(e)
    if not ok:
        res = (False, msg)
        _build_cache['build'] = res
        return res
    # the driver (model + specification, no proofs) first: it must exist even when a proof breaks
    rc, out = run(['lake', 'build', 'bbdrv'], cwd=LEAN_DIR, timeout=timeout)
    if rc != 0:
        raise RuntimeError('the model/driver does not build:\n' + out[-3000:])
    rc, out = run(['lake', 'build'], cwd=LEAN_DIR, timeout=timeout)
    res = (rc == 0, out)
    _build_cache['build'] = res
    return res


def grep_forbidden():
    """sorry/admit/axiom/native_decide/... outside comments, anywhere in the Lean sources."""
    hits = []
    for root, _, files in os.walk(LEAN_DIR):
        if '.lake' in root:
            continue
        for f in files:
            if not f.endswith('.lean'):
                continue
            path = os.path.join(root, f)
            in_block = 0
            for n, line in enumerate(open(path, encoding='utf-8'), 1):
                code = line
                # strip block comments (non-nested is enough for our sources) and line comments
                out = ''
                i = 0
                while i < len(code):
                    if code.startswith('/-', i):
                        in_block += 1
                        i += 2
                    elif code.startswith('-/', i) and in_block:
                        in_block -= 1
                        i += 2
                    elif in_block:
                        i += 1
                    elif code.startswith('--', i):
                        break
                    else:
                        out += code[i]
                        i += 1
                if FORBIDDEN_RE.search(out):
                    hits.append('{}:{}: {}'.format(os.path.relpath(path, VERIF), n, line.strip()))
    return hits


def audit():
    """Run lean/Audit.lean; returns {theorem: set(axioms)} for every `#print axioms` in it,
    or raises RuntimeError with the log if Lean reports an error."""
    if 'audit' in _build_cache:
        return _build_cache['audit']
    rc, out = run(['lake', 'env', 'lean', 'Audit.lean'], cwd=LEAN_DIR, timeout=1800)
    if rc != 0:
        raise RuntimeError(out)
    res = {}
    # "'BB.Props.C07.hi_range' depends on axioms: [propext, Classical.choice]"
    # "'X' does not depend on any axioms"
    text = out.replace('\n ', ' ')
    for m in re.finditer(r"'(\S+)' depends on axioms: \[([^\]]*)\]", text):
        res[m.group(1)] = set(a.strip() for a in m.group(2).split(',') if a.strip())
    for m in re.finditer(r"'(\S+)' does not depend on any axioms", text):
        res[m.group(1)] = set()
    _build_cache['audit'] = res
    return res


def modules_of(theorems):
    """the library modules an independent re-check of these theorems has to replay: every module that declares one of them, and
    every module of BB/Props, BB/Spec and the model proper those modules import (transitively, inside the library BB)"""
    src = {}
    for root, _, files in os.walk(os.path.join(LEAN_DIR, 'BB')):
        for f in files:
            if f.endswith('.lean'):
                path = os.path.join(root, f)
                mod = os.path.relpath(path, LEAN_DIR)[:-5].replace(os.sep, '.')
                src[mod] = open(path, encoding='utf-8').read()
    want = set()
    for name in theorems:
        short = name.split('.')[-1]
        pat = re.compile(r'^\s*(?:private\s+|protected\s+)?(?:theorem|lemma|def|abbrev|structure|inductive)\s+(?:[\w.]*\.)?' + re.escape(short) + r'\b', re.M)
        for mod, text in src.items():
            if pat.search(text):
                want.add(mod)
    todo = list(want)
    while todo:
        m = todo.pop()
        for imp in re.findall(r'^import\s+(BB\.[\w.]+)', src.get(m, ''), re.M):
            if imp in src and imp not in want:
                want.add(imp)
                todo.append(imp)
    slow = set(re.findall(r'^import\s+(BB\.[\w.]+)', open(os.path.join(LEAN_DIR, 'BBSlow.lean')).read(), re.M)) if os.path.exists(os.path.join(LEAN_DIR, 'BBSlow.lean')) else set()
    return sorted(m for m in want if m not in slow)


def check_obligations(prop, expected):
    """Build, audit and grep.  `expected`: list of fully qualified theorem names that decide
    `prop`.  Returns dict(obligations, discharged, failed=[(name, why)], log)."""
    failed = []
    ok, log = lake_build()
    if not ok:
        return dict(obligations=len(expected), discharged=0,
                    failed=[('lake build', log[-4000:])], log=log, axioms={})
    hits = grep_forbidden()
    if hits:
        failed.append(('forbidden-construct', '\n'.join(hits[:10])))
    try:
        ax = audit()
    except RuntimeError as e:
        return dict(obligations=len(expected), discharged=0,
                    failed=[('Audit.lean', str(e)[-4000:])], log=str(e), axioms={})
    if os.environ.get('VERIF_TIER_RUNNING') == 'thorough' and expected:
        # independent re-check of the compiled library (every module BB imports) by Lean's external checker
        # (module by module, in small batches: one process for the whole library needs > 45 GB by now)
        mods = modules_of(expected)
        for k in range(0, len(mods), 12):
            batch = mods[k:k + 12]
            rc, out = run(['lake', 'env', 'leanchecker'] + batch, cwd=LEAN_DIR, timeout=3600)
            if rc != 0 and (rc < 0 or rc >= 128 or not out.strip()):
                # killed (out of memory when several heavy jobs share the machine) or died without a word: the re-checker did
                # not run to a verdict.  That is a failure of the infrastructure (exit 2), not a statement about any proof.
                raise RuntimeError('leanchecker did not run to completion (exit status {}, no diagnostics): not a verdict'.format(rc))
            if rc != 0:
                failed.append(('leanchecker ' + ' '.join(batch), out[-2000:]))
                break
    if os.environ.get('VERIF_TIER_RUNNING') == 'thorough' and expected:
        from harness import obligations as _ob
        slow = _ob.SLOW_THEOREMS.get(prop, [])
        if slow:
            rc, out = run(['lake', 'build', 'BBSlow'], cwd=LEAN_DIR, timeout=5400)
            if rc != 0 and (rc < 0 or rc >= 128 or 'error:' not in out):
                raise RuntimeError('lake build BBSlow did not run to completion (exit status {}): not a verdict'.format(rc))
            if rc != 0:
                failed.append(('lake build BBSlow', out[-3000:]))
            else:
                rc, out = run(['lake', 'env', 'lean', 'AuditSlow.lean'], cwd=LEAN_DIR, timeout=1800)
                if rc != 0:
                    failed.append(('AuditSlow.lean', out[-3000:]))
                else:
                    text = out.replace('\n ', ' ')
                    ax = dict(ax)
                    for m in re.finditer(r"'(\S+)' depends on axioms: \[([^\]]*)\]", text):
                        ax[m.group(1)] = set(a.strip() for a in m.group(2).split(',') if a.strip())
                    for m in re.finditer(r"'(\S+)' does not depend on any axioms", text):
                        ax[m.group(1)] = set()
                    expected = list(expected) + slow
    discharged = 0
    used = {}
    for name in expected:
        if name not in ax:
            failed.append((name, 'theorem missing from the audit'))
            continue
        extra = ax[name] - ALLOWED_AXIOMS
        used[name] = sorted(ax[name])
        if extra:
            failed.append((name, 'depends on axioms {}'.format(sorted(extra))))
            continue
        discharged += 1
    return dict(obligations=len(expected), discharged=discharged, failed=failed, log='', axioms=used)


# --------------------------------------------------------------------------------------------
# bbdrv
# --------------------------------------------------------------------------------------------

def drv(lines, timeout=1800):
    """Send request lines to a fresh bbdrv, return the reply lines (same length)."""
    if not lines:
        return []
    if not os.path.exists(BBDRV):
        raise RuntimeError('bbdrv not built: ' + BBDRV)
    with tempfile.TemporaryFile('w+') as fin:
        fin.write('\n'.join(lines))
        fin.write('\n')
        fin.flush()
        fin.seek(0)
        p = subprocess.run([BBDRV], stdin=fin, stdout=subprocess.PIPE, stderr=subprocess.PIPE,
                           timeout=timeout, text=True)
    if p.returncode != 0:
        raise RuntimeError('bbdrv failed: rc={} {}'.format(p.returncode, p.stderr[-2000:]))
    out = p.stdout.split('\n')
    if out and out[-1] == '':
        out.pop()
    if len(out) != len(lines):
        raise RuntimeError('bbdrv: {} requests, {} replies'.format(len(lines), len(out)))
    return out


class Driver:
    """Interactive bbdrv session (used where the real code talks to the model step by step)."""

    def __init__(self):
        self.p = subprocess.Popen([BBDRV], stdin=subprocess.PIPE, stdout=subprocess.PIPE, text=True, bufsize=1)

    def ask(self, line):
        self.p.stdin.write(line + '\n')
        self.p.stdin.flush()
        return self.p.stdout.readline().rstrip('\n')

    def close(self):
        try:
            self.p.stdin.close()
            self.p.wait(timeout=10)
        except Exception:
            self.p.kill()


def hexs(s):
    b = s.encode('utf-8') if isinstance(s, str) else bytes(s)
    return b.hex() if b else '-'


# --------------------------------------------------------------------------------------------
# reporting
# --------------------------------------------------------------------------------------------

class Report:
    """Collects what a check run covered and found; writes evidence; decides the exit code."""

    def __init__(self, prop, tier, level='proof'):
        self.prop = prop
        self.tier = tier
        self.level = level
        self.timer = Timer()
        self.cov = {}
        self.assumptions = []
        self.violations = []        # (what, replay_path)
        self.known = []             # lines
        self.counters = {}
        self.samples = []
        self.distinct = set()
        self.evaluations = 0

    def count(self, key, n=1):
        self.counters[key] = self.counters.get(key, 0) + n

    def sample(self, s, cap=12):
        if len(self.samples) < cap:
            self.samples.append(s)

    def nontrivial(self, key):
        self.distinct.add(key)

    MAX_VIOLATIONS = 8

    def violation(self, what, payload, no_input=False):
        self.n_violations = getattr(self, 'n_violations', 0) + 1
        if len(self.violations) >= self.MAX_VIOLATIONS:
            return      # counted, not written: the first few replays are enough to act on
        os.makedirs(OUT_DIR, exist_ok=True)
        n = len(self.violations)
        path = os.path.join(OUT_DIR, '{}_{}_{}.json'.format(self.prop, self.tier, n))
        with open(path, 'w') as f:
            json.dump(dict(property=self.prop, what=what, no_failing_input_found=no_input,
                           seed=seed(), tier=self.tier, **payload), f, indent=1, default=repr)
        self.violations.append((what, path, no_input))

    def known_finding(self, text):
        self.known.append(text)

    def finish(self, obligations=None, extra=None):
        cov = dict(self.cov)
        cov['evaluations'] = self.evaluations
        cov['distinct_nontrivial'] = len(self.distinct)
        cov['samples'] = self.samples or ['(none)']
        cov['distribution'] = self.counters
        if obligations is not None:
            cov['obligations'] = obligations['obligations']
            cov['discharged'] = obligations['discharged']
            cov['checker_cmd'] = 'cd lean && lake build && lake env lean Audit.lean  (#print axioms; grep for sorry/admit/axiom/native_decide/bv_decide)'
            cov['trusted_base'] = [
                'Lean 4.33.0 kernel',
                'axioms: propext, Classical.choice, Quot.sound (audited per theorem; nothing else allowed)',
                'hand-written specification in lean/BB/Spec (decode32, decode16, intent, exec, ...)',
                'correspondence harness /verif/harness (generators, canonicalisation, comparison) tying the model to /repo',
                'Lean compiler/runtime for the bbdrv driver (correspondence only)',
            ]
            cov['axioms_used'] = obligations.get('axioms', {})
            if obligations['failed']:
                cov['undischarged'] = [n for n, _ in obligations['failed']]
        if extra:
            cov.update(extra)
        ev = dict(property_id=self.prop, tier=self.tier, seed=seed(), level=self.level,
                  coverage=cov, assumptions=self.assumptions, wall_s=self.timer.s(),
                  violations=getattr(self, 'n_violations', 0))
        os.makedirs(EVIDENCE_DIR, exist_ok=True)
        with open(os.path.join(EVIDENCE_DIR, self.prop + '.json'), 'w') as f:
            json.dump(ev, f, indent=1, default=repr)
        for line in self.known:
            print('KNOWN-FINDING: property={} {}'.format(self.prop, line))
        for what, path, no_input in self.violations:
            print('VIOLATION property={} replay={}{}'.format(
                self.prop, path, ' no-failing-input-found' if no_input else ''))
            print('  ' + what)
        print('{} {}: evaluations={} distinct_nontrivial={} violations={} wall={}s'.format(
            self.prop, self.tier, self.evaluations, len(self.distinct), len(self.violations), self.timer.s()))
        return 1 if self.violations else 0


def load_known():
    """Parse KNOWN_FINDINGS.txt → list of dicts for `finding:` lines (fixed: lines suppress nothing)."""
    path = os.path.join(VERIF, 'KNOWN_FINDINGS.txt')
    res = []
    if not os.path.exists(path):
        return res
    for line in open(path):
        line = line.strip()
        if not line.startswith('finding:'):
            continue
        head, _, what = line[len('finding:'):].partition('::')
        d = dict(tok.split('=', 1) for tok in head.split() if '=' in tok)
        d['what'] = what.strip()
        res.append(d)
    return res
