"""Refresh the generated tables inside DESIGN.md (between <!-- BEGIN x --> / <!-- END x --> markers)."""
import glob
import json
import os
import re

VERIF = os.path.dirname(os.path.dirname(os.path.abspath(__file__)))


def mutants_table():
    rows = ['| mutant | breaks | caught by (exit 1, concrete failing input) | flagged no-failing-input-found | change (needs …) |',
            '|---|---|---|---|---|']
    for d in sorted(glob.glob(os.path.join(VERIF, 'seeded', '*', 'meta.json'))):
        m = json.load(open(d))
        need = re.sub(r'\s+', ' ', m.get('needs', ''))
        need = re.sub(r'^(Change|What changed)\s*:\s*', '', need)[:230].replace('|', '\\|')
        rows.append('| {} | {} | {} | {} | {} |'.format(m['id'], m['breaks'], ', '.join(m['caught_by']) or '—',
                                                      ', '.join(m['flagged_no_input_by']) or '—', need))
    return '\n'.join(rows)


def reverts_table():
    idx = os.path.join(VERIF, 'seeded', 'reverts', 'RESULTS.json')
    if not os.path.exists(idx):
        return '(not yet run)'
    r = json.load(open(idx))
    rows = ['| reverted fix | defect that returns | caught by |', '|---|---|---|']
    for k, v in r.items():
        rows.append('| {} | {} | {} |'.format(k, v['what'], ', '.join(v['caught_by']) or '—'))
    return '\n'.join(rows)


def refresh():
    p = os.path.join(VERIF, 'DESIGN.md')
    s = open(p).read()
    for name, fn in (('MUTANTS', mutants_table), ('REVERTS', reverts_table)):
        b, e = '<!-- BEGIN %s -->' % name, '<!-- END %s -->' % name
        if b in s and e in s:
            s = s[:s.index(b) + len(b)] + '\n' + fn() + '\n' + s[s.index(e):]
    open(p, 'w').write(s)


if __name__ == '__main__':
    refresh()
