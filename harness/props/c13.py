"""C13 - see harness/spell_check.py"""
from harness import spell_check


def run(tier, replay):
    return spell_check.run(tier, replay)
