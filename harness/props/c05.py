"""C05 - see harness/sem_check.py"""
from harness import sem_check


def run(tier, replay):
    return sem_check.run_sem("C05", tier, replay)
