"""C17 - the command line writes exactly the assembled program, or nothing on failure.

Proof: BB.Props.C17 (lean/BB/Props/C17.lean) over the model lean/BB/Cli.lean of cli_main (steps in the
code's order) and the filesystem model: `cli_failure_untouched`, `cli_success_files`, `hex_roundtrip`.

Tie to /repo and search for a failing input: the REAL entry point runs in subprocesses
(`python -m bronzebeard.asm ...`, cwd = a temporary directory) on generated programs x option
combinations, with pre-existing -o / -l / .hex files holding sentinel contents and failures planted in
every pass of the assembler and in every option check.
  ORACLE  exit 0  => the program and the options were valid, the -o file holds exactly the bytes
                     asm.assemble() gives in-process for the same inputs, the -l file is one
                     `name 0x%08x` line per label in table order, the .hex file - decoded by the Lean
                     specification decoder (bbdrv hexdec, written from the format description) - is
                     exactly those bytes at the requested offset, nothing else in the directory changed;
          exit !=0 => no file of the directory changed and none was created;
          a valid program with valid options must exit 0.
  CORRESPONDENCE  the Lean model Cli.run (bbdrv cli) on the same filesystem and arguments gives the same
                  exit status and the same set of written files with the same contents.
"""
import json
import multiprocessing as mp
import os
import shutil
import subprocess
import tempfile

from harness import common, known, obligations, progs

PROP = 'C17'
PY = '/venv/bin/python'
ROOT = '{ROOT}'

THEOREMS = ['BB.Props.C17.' + n for n in (
    'cli_failure_untouched_hex', 'cli_failure_untouched', "cli_failure_untouched'", 'cli_success_files',
    'cli_success_hex_decodes', 'plan_error_untouched', 'plan_error_ne0', 'bad_offset_exits', 'labelText_lines',
    'plan_offset_in_range', 'out_of_range_offset_exits', 'cli_failure_untouched_range', 'hex_roundtrip', 'hexOk_encode')] + [
    'BB.Props.C17.assembler_failure_untouched',
    'BB.Props.C17.os_failure_prefix',
    'BB.Props.C17.os_failure_after_labels_written',
    'BB.Props.C17.not_cliFailureUntouched',
    'BB.Props.C17.plan_error_not_os',
    'BB.Props.C17.labelsStep_ok',
    'BB.Props.C17.labelsStep_error',
    'BB.Props.C17.os_assembles',
    'BB.Props.C17.os_plan',
]

RULE = ('cases = small seeded programs (progs.gen_program without filler runs; optionally an `include part.asm` found in an -i '
        'directory, or `include GD32VF103.asm` with --include-definitions) x options: -c, -v, -i DIR (relative / absolute), '
        '-o (absent = bb.out, relative, in a sub-directory, absolute), -l (absent, relative, absolute, empty string), '
        '--hex-offset in {absent, 0, 0x08000000, 0x20000000, decimal, other int(s,0) spellings} and invalid {zz, 0x, "", '
        '1.5, 08, 0x8g, 12h}, and out-of-range {-4, 0x100000000, 0xffffffff} (class hex-offset-range); each of the -o / -l / '
        '.hex paths independently pre-existing with sentinel contents or absent; ~55% of the cases carry a planted failure: '
        'a faulty line for every pass (read: missing include / include_bytes; lex: bad string escape; parse: unknown mnemonic, '
        'wrong arity, error directive; resolve_constants: undefined name; resolve_labels: duplicate label; '
        'transform_compressible / resolve_instructions: unknown register; transform_pseudo: malformed li/call; '
        'resolve_aligns: align 0; resolve_immediates: undefined label; resolve_instructions: out-of-range immediate / shamt; '
        'resolve_sequences / resolve_packs: misfitting data), an invalid hex offset, a missing input file, an invalid -i '
        'directory; with and without -c. non-trivial = distinct (planted kind, -c, -i, -o form, -l form, hex class, '
        'which files pre-existed, exit status class).')

VALID_OFFSETS = ['0', '0x08000000', '0x20000000', '134217728', '4096', '0x1_0000', ' 16 ', '0b1000', '0o17', '+32',
                 '0X8000000', '65535', '65536', '0xfffffff0', '1']
INVALID_OFFSETS = ['zz', '0x', '', '1.5', '08', '0x8g', '12h', '0x 10', '--4', '1e3']
WIDE_OFFSETS = ['-4', '0x100000000', '0xffffffff', '-1', '4294967296']

FAULTS = {
    'read:missing-include': ['include nosuchfile.asm', 'include "nosuch dir/x.asm"'],
    'read:missing-include-bytes': ['include_bytes nosuchfile.bin'],
    'read:malformed-include': ['include a.asm b.asm'],
    'lex:bad-string-escape': ['    string abc\\x', '    string \\N{nosuchname}'],
    'parse:unknown-mnemonic': ['    bogus x1, x2', '    addx x1, x1, 1'],
    'parse:arity': ['    addi x1, x1', '    lw x1', '    sw x1, 4('],
    'parse:error-directive': ['    error stop right here'],
    'constants:undefined-name': ['KX = UNDEFINED_THING + 1', 'KY = 1 +'],
    'labels:duplicate': ['DUP_LABEL:\n    addi x0, x0, 0\nDUP_LABEL:'],
    'compress-or-encode:unknown-register': ['    addi q1, x1, 0', '    add x1, x2, x99'],
    'pseudo:malformed': ['    li x1', '    call', '    li x1, %hi('],
    'aligns:zero': ['    align 0'],
    'immediates:undefined-label': ['    j nowhere_defined', '    beq x1, x2, nowhere_defined', '    dw nowhere_defined',
                                   '    li a0, nowhere_defined'],
    'instructions:out-of-range': ['    addi x1, x1, 5000', '    slli x1, x1, 40', '    lui x1, 0x100000', '    c.addi x1, 40',
                                  '    jalr x1, x1, 3000'],
    'data:misfit': ['    bytes 256', '    db -129', '    pack <B, -1', '    bytes zz', '    shorts 70000', '    dd 0x10000000000000000'],
}


def classify_offset(s, nbytes):
    if s is None:
        return 'absent', None
    if s == '':
        return 'empty', None
    try:
        v = int(s, 0)
    except ValueError:
        return 'invalid', None
    if v < 0 or v + nbytes > (1 << 32):
        return 'wide', v
    return 'valid', v


def gen_case(rnd, idx):
    c = dict(idx=idx)
    lines = [l.text for l in progs.gen_program(rnd, size=rnd.randrange(2, 14), fillers=False)]
    if rnd.random() < 0.12:
        # a program without a single label: -l still writes its (empty) file
        lines = ['    addi x5, x5, %d' % rnd.randrange(1, 100), '    dw 0x%x' % rnd.randrange(1 << 32), '    add x6, x7, x8'][:rnd.randrange(1, 4)]
    files = {}
    dirs = ['build', 'inc', 'other']
    opts = dict(compress=rnd.random() < 0.5, verbose=rnd.random() < 0.1, incs=[], defs=False)
    main = rnd.choice(['main.asm', 'main.asm', 'src/main.asm'])
    if main.startswith('src/'):
        dirs.append('src')
    # -i DIR with an include that only it can satisfy
    r = rnd.random()
    if r < 0.35:
        files['inc/part.asm'] = ['PART_ENTRY:', '    addi a0, a0, 1', '    ret', 'PART_K = 0x55']
        lines.insert(rnd.randrange(0, len(lines) + 1), 'include part.asm')
        lines.append('    call PART_ENTRY')
        opts['incs'] = [rnd.choice(['inc'] * 5 + [ROOT + '/inc'] * 3 + ['./inc', 'inc/'])]
        if rnd.random() < 0.2:
            opts['incs'] = ['other'] + opts['incs']
        elif rnd.random() < 0.3:
            # the same file name in two -i directories: the command line's order decides, whatever the names sort like
            first = rnd.choice(['zinc', 'other', 'Inc2'])
            dirs.append(first)
            files[first + '/part.asm'] = ['PART_ENTRY:', '    addi a0, a0, 2', '    addi a0, a0, 3', '    ret', 'PART_K = 0x66']
            opts['incs'] = [first] + opts['incs'] if rnd.random() < 0.7 else opts['incs'] + [first]
    elif r < 0.5:
        opts['defs'] = True
        lines.insert(0, 'include GD32VF103.asm')
        lines.append('    li t0, RCU_BASE_ADDR')
        lines.append('    lw t1, RCU_CTL_OFFSET(t0)')
        if rnd.random() < 0.4:
            # the project's own (patched) copy of a bundled file: -i directories come before the bundled definitions
            files['inc/GD32VF103.asm'] = ['RCU_BASE_ADDR = 0x40021040', 'RCU_CTL_OFFSET = 8', 'GPIO_BASE_ADDR_A = 0x40010800']
            opts['incs'] = ['inc']
    # outputs
    opts['output'] = rnd.choice([None, None, 'out.bin', 'out.bin', 'build/out.bin', ROOT + '/build/abs.bin', 'prog'])
    opts['labels'] = rnd.choice([None, 'labels.txt', 'labels.txt', 'build/l.txt', ROOT + '/l.abs', ''])
    h = rnd.random()
    if h < 0.3:
        opts['hex'] = None
    elif h < 0.8:
        opts['hex'] = rnd.choice(VALID_OFFSETS) if rnd.random() < 0.6 else rnd.choice(VALID_OFFSETS[:4])
        if rnd.random() < 0.12:
            opts['hex'] = rnd.choice(['EDGE:0', 'EDGE:0', 'EDGE:-1', 'EDGE:-16'])     # the last offsets that still fit: 2^32 - size - k
    else:
        opts['hex'] = None          # failures decide below
    planted = None
    k = rnd.random()
    if k < 0.40:
        kind = rnd.choice(sorted(FAULTS))
        text = rnd.choice(FAULTS[kind])
        where = 'main'
        if 'inc/part.asm' in files and rnd.random() < 0.3:
            where = 'inc/part.asm'
            tgt = files[where]
        else:
            tgt = lines
        pos = rnd.randrange(0, len(tgt) + 1)
        tgt[pos:pos] = text.split('\n')
        planted = kind + '@' + where
    elif k < 0.47:
        opts['hex'] = rnd.choice(INVALID_OFFSETS)
        planted = 'option:hex-offset-invalid' if opts['hex'] != '' else 'option:hex-offset-empty'
    elif k < 0.50:
        opts['hex'] = rnd.choice(WIDE_OFFSETS + ['EDGE:1', 'EDGE:1', 'EDGE:2', 'EDGE:17'])  # EDGE:k = 2^32 - size + k
        planted = 'option:hex-offset-out-of-range'
    elif k < 0.53:
        planted = 'option:missing-input'
    elif k < 0.57:
        bad = rnd.choice(['nosuchdir', 'main.asm' if main == 'main.asm' else 'src/main.asm', 'build/nosuch'])
        opts['incs'] = opts['incs'] + [bad] if rnd.random() < 0.5 else [bad] + opts['incs']
        planted = 'option:invalid-include-dir'
    if main == 'main.asm' and opts['output'] == 'out.bin' and planted is None and rnd.random() < 0.3:
        # the program embeds the bytes of an older build of itself: the output file is read before it is written
        lines.insert(rnd.randrange(0, len(lines) + 1), 'include_bytes out.bin')
        lines.append('    align 4')
        c['self_embed'] = True
    link = None
    if rnd.random() < 0.12:
        # the input path is a symbolic link into another directory: the files NEXT TO THE LINK are the adjacent ones
        link = 'store'
        dirs.append('store')
        adj = os.path.join(os.path.dirname(main), 'adj.asm')
        files[adj] = ['ADJ_HERE:', '    addi a1, a1, 11']
        files['store/adj.asm'] = ['ADJ_DECOY:', '    addi a1, a1, 22', '    addi a1, a1, 33']
        lines.insert(rnd.randrange(0, len(lines) + 1), 'include adj.asm')
    files[main] = lines
    c.update(files=files, dirs=dirs, main=main, opts=opts, planted=planted, link=link)
    c['main_arg'] = rnd.choice([main] * 6 + [ROOT + '/' + main] * 3 + ['./' + main])
    if planted == 'option:missing-input':
        c['main_arg'] = rnd.choice(['nosuch.asm', 'src/nosuch.asm', ROOT + '/gone.asm'])
    # which output files pre-exist
    c['pre'] = dict(out=rnd.random() < 0.7 or bool(c.get('self_embed')), lab=rnd.random() < 0.7, hex=rnd.random() < 0.7)
    c['salt'] = rnd.randrange(1 << 30)
    return c


def paths_of(c, root):
    o = c['opts']
    out = (o['output'] or 'bb.out').replace(ROOT, root)
    outp = os.path.normpath(os.path.join(root, out))
    labp = None
    if o['labels']:
        labp = os.path.normpath(os.path.join(root, o['labels'].replace(ROOT, root)))
    return outp, labp, outp + '.hex'


def argv_of(c, root):
    o = c['opts']
    a = [c['main_arg'].replace(ROOT, root)]
    if o['compress']:
        a.append('-c')
    if o['verbose']:
        a.append('-v')
    for d in o['incs']:
        a += ['-i', d.replace(ROOT, root)]
    if o['output'] is not None:
        a += ['-o', o['output'].replace(ROOT, root)]
    if o['labels'] is not None:
        a += ['-l', o['labels'].replace(ROOT, root)]
    if o['hex'] is not None:
        a.append('--hex-offset=' + o['hex'])      # `=` form: values such as -4 must not be read as options
    if o['defs']:
        a.append('--include-definitions')
    return a


def snapshot(root):
    snap = {}
    for dp, dns, fns in os.walk(root):
        for fn in fns:
            p = os.path.join(dp, fn)
            snap[p] = open(p, 'rb').read()
    return snap


def check_case(c, repo=None):
    asm = progs.get_asm()
    repo = repo or common.REPO
    root = os.path.realpath(tempfile.mkdtemp(prefix='bbc17-'))
    o = c['opts']
    res = dict(idx=c.get('idx'), problems=[], corr='skipped', case=c)
    try:
        for d in c['dirs']:
            os.makedirs(os.path.join(root, d), exist_ok=True)
        for p, lines in c['files'].items():
            dest = os.path.join(root, p)
            if c.get('link') and p == c['main']:
                dest = os.path.join(root, c['link'], 'main_real.asm')
                os.symlink(os.path.relpath(dest, os.path.dirname(os.path.join(root, p))), os.path.join(root, p))
            with open(dest, 'w', newline='') as f:
                f.write('\n'.join(lines).replace(ROOT, root) + '\n')
        outp, labp, hexp = paths_of(c, root)
        sent = {}
        for key, p in (('out', outp), ('lab', labp), ('hex', hexp)):
            if p and c['pre'][key]:
                sent[p] = ('SENTINEL-%s-%d\n' % (key, c['salt'])).encode() + bytes([0, 255, 10, 13]) * 3
                with open(p, 'wb') as f:
                    f.write(sent[p])
        before = snapshot(root)

        # what the options and the program amount to, computed in-process (cwd = the same directory)
        main_path = os.path.normpath(os.path.join(root, c['main_arg'].replace(ROOT, root)))
        inc_abs = [os.path.normpath(os.path.join(root, d.replace(ROOT, root))) for d in o['incs']]
        input_ok = os.path.exists(main_path)
        incs_ok = all(os.path.isdir(d) for d in inc_abs)
        defs_dir = os.path.join(os.path.dirname(os.path.abspath(asm.__file__)), 'definitions')
        r = None
        if input_ok and incs_ok:
            old = os.getcwd()
            os.chdir(root)
            try:
                r = progs.assemble_chunks(asm, main_path, o['compress'], include_dirs=inc_abs + ([defs_dir] if o['defs'] else []))
            finally:
                os.chdir(old)
        asm_ok = r is not None and r.status == 'ok'
        nbytes = len(r.bytes) if asm_ok else 0
        if o['hex'] and o['hex'].startswith('EDGE:'):
            # an offset on the boundary of what Intel HEX can hold, known only now that the size is known
            kk = int(o['hex'][5:])
            vv = (1 << 32) - nbytes + kk
            o = dict(o, hex=hex(vv) if kk % 2 else str(vv))
            c = dict(c, opts=o)
            res['case'] = c
        hclass, hval = classify_offset(o['hex'], nbytes)
        exp_success = input_ok and incs_ok and asm_ok and hclass in ('absent', 'empty', 'valid')
        res['asm_status'] = (r.status + (':' + str(r.exc) if r.status == 'exc' else '')) if r is not None else 'not-run'
        res['hclass'] = hclass

        env = dict(os.environ, PYTHONPATH=repo, PYTHONDONTWRITEBYTECODE='1')
        p = subprocess.run([PY, '-m', 'bronzebeard.asm'] + argv_of(c, root), cwd=root, env=env,
                           stdout=subprocess.PIPE, stderr=subprocess.PIPE, timeout=300)
        rc = p.returncode
        after = snapshot(root)
        changed = {q: b for q, b in after.items() if before.get(q) != b}
        removed = [q for q in before if q not in after]
        res['rc'] = rc
        res['n_changed'] = len(changed)
        rel = lambda q: os.path.relpath(q, root)
        prob = res['problems']

        def bad(kind, msg):
            prob.append(dict(kind=kind, msg=msg + ' | argv: ' + ' '.join(argv_of(c, ROOT)) +
                             ' | stderr: ' + p.stderr.decode('utf-8', 'replace').strip().split('\n')[-1][:160]))

        if removed:
            bad('file-removed', 'files disappeared: %s' % [rel(q) for q in removed])
        if rc != 0:
            if changed:
                what = ', '.join('%s (%s)' % (rel(q), 'sentinel overwritten' if q in sent else 'created') for q in sorted(changed))
                bad('failure-touched-files', 'exit %d but the run changed: %s' % (rc, what))
            if exp_success:
                bad('valid-run-failed', 'valid program and options, yet exit %d' % rc)
        else:
            if not exp_success:
                why = ('input missing' if not input_ok else 'invalid -i directory' if not incs_ok else
                       'assemble() fails in-process with %s' % res['asm_status'] if not asm_ok else 'hex offset %r is %s' % (o['hex'], hclass))
                bad('failure-exits-0', 'exit 0 although the run cannot succeed: ' + why)
            if asm_ok:
                expect = {outp: bytes(r.bytes)}
                if labp:
                    expect[labp] = ''.join('{} 0x{:08x}\n'.format(k, v) for k, v in r.labels.items()).encode()
                got_out = after.get(outp)
                if got_out != expect[outp]:
                    bad('output-bytes', '-o file %s holds %s, assemble() gives %s' % (
                        rel(outp), None if got_out is None else got_out.hex()[:64], bytes(r.bytes).hex()[:64]))
                if labp and after.get(labp) != expect[labp]:
                    bad('labels-file', '-l file holds %r, the label table gives %r' % (
                        after.get(labp, b'')[:120], expect[labp][:120]))
                if hclass in ('valid', 'wide'):
                    hx = after.get(hexp)
                    if hx is None or (hexp in sent and hx == sent[hexp]):
                        bad('hex-missing', '--hex-offset %r given but %s was not written' % (o['hex'], rel(hexp)))
                    else:
                        reply, = common.drv(['hexdec ' + common.hexs(hx)])
                        want = 'empty' if nbytes == 0 else 'ok %d %s' % (hval, bytes(r.bytes).hex())
                        if reply != want:
                            bad('hex-image', 'the Intel HEX file decodes to %s, expected %s' % (reply[:100], want[:100]))
                    expect[hexp] = hx
                for q in changed:
                    if q not in expect:
                        bad('stray-file', 'the run also changed %s' % rel(q))

        # correspondence with the Lean model of cli_main
        if True:
            res['corr'], detail = model_compare(c, root, before, changed, rc, defs_dir if o['defs'] else None)
            if res['corr'] == 'differ':
                res['corr_detail'] = detail
    finally:
        shutil.rmtree(root, ignore_errors=True)
    return res


def model_compare(c, root, before, changed, rc, defs_dir):
    o = c['opts']
    files = dict(before)
    dirs = set()
    for dp, dns, _ in os.walk(root):
        dirs.add(dp)
    d = root
    while d != '/':
        d = os.path.dirname(d)
        dirs.add(d)
    if defs_dir:
        d = defs_dir                 # with its ancestors: the model walks a path component by component, like the OS
        while d != '/':
            dirs.add(d)
            d = os.path.dirname(d)
        for fn in os.listdir(defs_dir):
            files[os.path.join(defs_dir, fn)] = open(os.path.join(defs_dir, fn), 'rb').read()
    H = common.hexs

    def opt(s):
        return '-' if s is None or s == '' else H(s.replace(ROOT, root))
    toks = ['cli', H(root), H(c['main_arg'].replace(ROOT, root)), '1' if o['compress'] else '0', str(len(o['incs']))]
    toks += [H(x.replace(ROOT, root)) for x in o['incs']]
    toks += [H((o['output'] or 'bb.out').replace(ROOT, root)), opt(o['labels']), opt(o['hex']), opt(defs_dir), str(len(files))]
    for q, b in files.items():
        toks += [H(q), H(b)]
    dl = sorted(dirs)
    toks.append(str(len(dl)))
    toks += [H(x) for x in dl]
    reply, = common.drv([' '.join(toks)])
    if reply.startswith('unsupported'):
        return 'unsupported', reply
    parts = reply.split()
    if parts[0] != 'exit':
        return 'differ', reply[:200]
    mrc = int(parts[1])
    n = int(parts[2])
    mfiles = {}
    for i in range(n):
        pth = bytes.fromhex(parts[3 + 2 * i]).decode()
        b = parts[4 + 2 * i]
        mfiles[pth] = b'' if b == '-' else bytes.fromhex(b)
    real = dict(changed)
    # Intel HEX files are compared as decoded images: the model prints "H <offset> <bytes>"
    hexq = [q for q in changed if q.endswith('.hex') and q in mfiles and mfiles[q].startswith(b'H ')]
    if hexq:
        for q, rep in zip(hexq, common.drv(['hexdec ' + H(changed[q]) for q in hexq])):
            _, off, body = mfiles[q].split(b' ', 2)
            if rep == 'empty' and body == b'':
                real[q] = mfiles[q]
            elif rep.startswith('ok '):
                _, roff, hx = rep.split()
                real[q] = ('H %s ' % roff).encode() + bytes.fromhex(hx)
    if (mrc == 0) != (rc == 0) or (rc != 0 and mrc != rc):
        return 'differ', 'exit status: model %d, implementation %d' % (mrc, rc)
    if real != mfiles:
        return 'differ', 'written files: model %s, implementation %s' % (
            {os.path.relpath(k, root): v[:40] for k, v in mfiles.items()}, {os.path.relpath(k, root): v[:40] for k, v in real.items()})
    return 'same', ''


# ---------------------------------------------------------------------------------------------
# known finding: hex offsets that Intel HEX cannot hold
# ---------------------------------------------------------------------------------------------

def cls_hex_offset_range(case):
    """the --hex-offset value parses as an integer that is negative or reaches beyond 2^32 with the program's size"""
    return case.get('hclass') == 'wide'


known.CLASSES.setdefault('hex-offset-range', cls_hex_offset_range)


def one_case(args):
    seedv, idx, tier = args
    os.environ['VERIF_SEED'] = str(seedv)
    rnd = common.rng('c17:%d' % idx)
    return check_case(gen_case(rnd, idx))


def run(tier, replay):
    if replay:
        return replay_case(replay)
    rep = common.Report(PROP, tier, level=obligations.LEVEL.get(PROP, 'proof'))
    ob = common.check_obligations(PROP, obligations.THEOREMS.get(PROP, THEOREMS))
    n = 1600 if tier == 'quick' else 24000
    ctx = mp.get_context('fork')
    with ctx.Pool(min(16, os.cpu_count() or 4)) as pool:
        results = pool.map(one_case, [(common.seed(), i, tier) for i in range(n)], chunksize=4)
    kf = known.Known(PROP)
    corr_diff = []
    for r in results:
        c = r['case']
        o = c['opts']
        rep.evaluations += 1
        rep.count('planted_' + (c['planted'] or 'none').split('@')[0])
        rep.count('exit_%s' % ('0' if r['rc'] == 0 else 'nonzero'))
        rep.count('hex_offset_' + r['hclass'])
        rep.count('assemble_' + r['asm_status'])
        rep.count('compress_%s' % o['compress'])
        rep.count('model_vs_impl_' + r['corr'])
        if o['defs']:
            rep.count('include_definitions')
        if o['incs']:
            rep.count('with_include_dir')
        if r['rc'] != 0 and any(c['pre'].values()):
            rep.count('failing_runs_with_preexisting_outputs')
        oform = 'default' if o['output'] is None else 'abs' if o['output'].startswith(ROOT) else 'subdir' if '/' in o['output'] else 'rel'
        lform = 'none' if o['labels'] is None else 'empty' if o['labels'] == '' else 'abs' if o['labels'].startswith(ROOT) else 'rel'
        rep.nontrivial(((c['planted'] or 'none'), o['compress'], bool(o['incs']), o['defs'], oform, lform, r['hclass'],
                        tuple(sorted(c['pre'].items())), r['rc'] == 0))
        if r['corr'] == 'differ':
            corr_diff.append(dict(case=c, detail=r.get('corr_detail')))
        for p in r['problems']:
            case = dict(c, problem=p, hclass=r['hclass'])
            if kf.matches(case):
                continue
            rep.violation('{}: {}'.format(p['kind'], p['msg']), dict(case=case))
        if len(rep.samples) < 6 and (r['rc'] == 0) == (len(rep.samples) % 2 == 0):
            rep.sample(dict(argv=argv_of(c, ROOT), planted=c['planted'], pre=c['pre'], exit=r['rc'], changed_files=r['n_changed'],
                            program=c['files'][c['main']][:10]))
    kf.report(rep)
    rep.cov['programs'] = len(results)
    rep.cov['rule'] = RULE
    rep.cov['model_vs_impl_disagreements'] = len(corr_diff)
    rep.assumptions += [
        'argparse is not modelled: the model starts from the parsed namespace; option strings are passed as --hex-offset=VALUE',
        'intelhex.bin2hex is third-party code: its output is checked by decoding every produced file with the Lean specification '
        'decoder (Hex.decode); in the theorems it is a parameter whose only assumed property is that Hex.decode of its output is the '
        'image (offset, bytes), for offsets with 0 <= offset and offset + size <= 2^32',
        'failures of the operating system while writing (unwritable -o path, missing parent directory, full disk) are not assembler '
        'failures and are outside the claim (the property quantifies over failures raised by the passes of the assembler); the model '
        'follows them faithfully all the same (ExitStatus.osError: the -l file stays written when -o cannot be opened; an unwritable '
        '.hex ends with exit status 0 because the return value of bin2hex is ignored) - theorem os_failure_after_labels_written; '
        'this check plants none',
        'operating-system behaviour of os.path / open is trusted (filesystem = map from absolute normalised paths to contents)',
    ]
    if not rep.violations and ob['failed']:
        rep.violation('proof obligation no longer checks: {} ({})'.format(ob['failed'][0][0], ob['failed'][0][1][:300]),
                      dict(theorem=ob['failed'][0][0], detail=ob['failed'][0][1]), no_input=True)
    elif not rep.violations and corr_diff:
        d = corr_diff[0]
        rep.violation('correspondence BB.Cli.run (Lean model of cli_main) vs the real command line broke on {} runs; first: {}'.format(
            len(corr_diff), str(d['detail'])[:300]),
            dict(correspondence='BB.Cli.run vs python -m bronzebeard.asm', case=d['case'], detail=d['detail']), no_input=True)
    return rep.finish(obligations=ob if ob['obligations'] else None)


def replay_case(path):
    d = json.load(open(path))
    c = d.get('case') or {}
    if 'files' not in c:
        print('replay file names no command-line case:', d.get('what'))
        print('VIOLATION property={} replay={} no-failing-input-found'.format(PROP, path))
        return 1
    c = {k: v for k, v in c.items() if k not in ('problem', 'hclass')}
    r = check_case(c)
    print('argv:', ' '.join(argv_of(c, ROOT)), ' exit:', r['rc'], ' model:', r['corr'], r.get('corr_detail', ''))
    for p in r['problems']:
        print(' ', p['kind'], p['msg'])
    if r['problems']:
        print('VIOLATION property={} replay={}'.format(PROP, path))
        return 1
    if r['corr'] == 'differ' and d.get('no_failing_input_found'):
        print('VIOLATION property={} replay={} no-failing-input-found'.format(PROP, path))
        return 1
    print('replayed command line no longer violates', PROP)
    return 0
