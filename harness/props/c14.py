"""C14 - include is textual splicing, resolved independently of the working directory.

Proof: BB.Props.C14 (lean/BB/Props/C14.lean) over the filesystem model of lean/BB/Read.lean:
`cwd_irrelevant`, `include_is_splice` (the include line contributes exactly the lines of the file the
search finds, recursively), `include_same_result` (same bytes / labels / constants as the spliced text).

Tie to /repo and search for a failing input: seeded include trees are materialised in a temporary
directory (outside /repo and /verif, always removed) and
  (1) assembled by the REAL code - asm.assemble(main, include_dirs=...) in-process from several working
      directories (one of them full of decoy files with the same names and sizes but other contents),
      with the main path absolute and relative, and through the command line in subprocesses;
  (2) spliced by the harness itself (the generator knows which file every include is meant to find)
      into one source string, assembled by the real code;
  ORACLE: bytes, label table (order too) and constants are equal across working directories and equal
      to the spliced program's;
  (3) CORRESPONDENCE: the Lean model (bbdrv `asmfs`, same files / directories / cwd) gives the same
      canonical reply as the real code (failing trees: error class + file + line only).
"""
import json
import multiprocessing as mp
import os
import shutil
import subprocess
import tempfile

from harness import common, corr, obligations, progs

PROP = 'C14'
PY = '/venv/bin/python'
ROOT = '{ROOT}'                      # placeholder for the temporary directory inside stored trees

THEOREMS = ['BB.Props.C14.' + n for n in (
    'cwd_irrelevant', 'include_is_splice', 'include_is_splice_source', 'include_textual_splice',
    'frontEnd_include_splice', 'assemble_ignores_line_metadata', 'assemble_ignores_line_metadata_erased',
    'include_same_result', 'path_same_as_source')] + [
    'BB.Props.C14.include_tree_splice',
    'BB.Props.C14.include_tree_reads',
    'BB.Props.C14.include_tree_same_result',
    'BB.Props.C14.deepTree_valid',
    'BB.Props.C14.deep_same',
    'BB.Props.C14.include_tree_same_result_errors',
]

RULE = ('seeded include trees: depth 0-4; include line first / middle / last / only line of the including file; the included '
        'file in the including file\'s directory, in a sub-directory written sub/x.asm, in a parent directory written ../x.asm, '
        'under an absolute path, or in one of 0-2 -i directories; about a third of the paths re-spelled with . / .. / doubled-slash '
        'components (./x, a//b, a/./b, updir/../x, ../here/../x, /abs/../abs/x) and half of the -i directories handed over with a '
        'trailing slash, /. , // or a down-and-up /../name; the same file name present in several searched directories '
        '(shadow files with other contents, placed where only the search order -i dirs in order, then the including file\'s '
        'directory - decides); nested includes that only resolve relative to the INCLUDED file\'s directory (with a shadow of '
        'the same name next to the main file); include_bytes in main and included files; quoted paths, comments after the '
        'path, upper-case INCLUDE; cross-file label references and constants (so that the splice position matters); a '
        'label-free file included twice; ~10% failing trees (missing include - also paths that exist only after LEXICAL '
        'normalisation: nosuchdir/../me.asm, me.asm/, me.asm/../me.asm -, missing include_bytes, include of a '
        'directory, include cycle, malformed include line, a faulty line inside an included file). Each tree: '
        'asm.assemble on the absolute main path from >= 3 working directories (root, a directory of same-name same-size '
        'decoys, an unrelated empty one, the main file\'s own directory), on the relative main path from its directory and '
        'its parent, on the absolute main path written with ./.. components, with and without -c; every 4th tree also through the command line (-i relative and absolute, main '
        'relative and absolute). non-trivial = distinct (depth, include positions, path forms, resolution classes, '
        'failure kind, outcome).')


# ---------------------------------------------------------------------------------------------
# generation
# ---------------------------------------------------------------------------------------------

class Tree:
    """files: {relpath: [line, ...]}   bins: {relpath: hex}   dirs: [relpath]   (all relative to the root)
    includes: {(file, line index) -> target relpath}   (what the include / include_bytes on that line is MEANT to find)"""

    def __init__(self):
        self.files = {}
        self.bins = {}
        self.dirs = set()
        self.targets = {}            # "file:lineidx" -> relpath of the file the line must resolve to
        self.main = None
        self.incdirs = []
        self.compress = False
        self.expect = 'ok'           # ok | missing | missing_bytes | dir | cycle | malformed | bad_line
        self.expect_at = None        # [file relpath, line number] of the expected AssemblerError
        self.meta = {}

    def to_json(self):
        return dict(files=self.files, bins=self.bins, dirs=sorted(self.dirs), targets=self.targets, main=self.main,
                    incdirs=self.incdirs, compress=self.compress, expect=self.expect, expect_at=self.expect_at,
                    meta=self.meta)

    @staticmethod
    def from_json(j):
        t = Tree()
        t.files, t.bins, t.dirs = j['files'], j['bins'], set(j['dirs'])
        t.targets, t.main, t.incdirs, t.compress = j['targets'], j['main'], j['incdirs'], j['compress']
        t.expect, t.expect_at, t.meta = j['expect'], j.get('expect_at'), j.get('meta', {})
        return t


def body_lines(rnd, st, prefix, n):
    """n source lines: literal instructions, labels, constants, label references (placeholders), data"""
    out = []
    for _ in range(n):
        k = rnd.random()
        if k < 0.40:
            name, ops = progs.gen_instr(rnd)
            out.append(progs.line_text(rnd, name, ops))
        elif k < 0.52:
            lab = '%s_L%d' % (prefix, len(st['labels']))
            st['labels'].append(lab)
            out.append(lab + ':')
        elif k < 0.60:
            nm = '%s_K%d' % (prefix, len(st['consts']))
            v = rnd.choice([rnd.randrange(-2048, 2048), rnd.randrange(0, 32), rnd.randrange(0, 1 << 32)])
            st['consts'].append((nm, v))
            out.append('%s = %s' % (nm, hex(v) if v >= 0 and rnd.random() < 0.5 else v))
        elif k < 0.74:
            form = rnd.choice(['    j @LBL@', '    beq x8, x9, @LBL@', '    call @LBL@', '    bnez a0, @LBL@', '    jal ra, @LBL@',
                               '    dw @LBL@', '    li t0, @LBL@', '    tail @LBL@'])
            out.append(form)
        elif k < 0.84 and st['consts']:
            nm, v = rnd.choice(st['consts'])
            if -2048 <= v <= 2047:
                out.append('    addi %s, %s, %s' % (progs.reg_txt(rnd, progs.creg(rnd)), progs.reg_txt(rnd, progs.creg(rnd)), nm))
            else:
                out.append('    li %s, %s' % (progs.reg_txt(rnd, progs.creg(rnd)), nm))
        elif k < 0.90:
            out.append('    ' + rnd.choice(['bytes 1 2 3 4', 'shorts 0x1234 -2', 'dw 0xdeadbeef', 'string ab\\ncd  # not a comment',
                                            'pack <I, 77', 'dh -1', 'ints 1 0x7fffffff', 'string gr\u00fc\u00dfe \u2192 \u65e5\u672c',
                                            'string \U0001f600 ok', 'string caf\u00e9 \\x41\\u00e9']))
            out.append('    align 4')
        elif k < 0.95:
            out.append(rnd.choice(['', '   ', '# a comment line', '    # indented comment', '\t', '# Gr\u00f6\u00dfe \u2192 \u65e5\u672c\u8a9e',
                                   '    addi x0, x0, 0   # \u00b5s \u2264 5']))
        else:
            out.append('    align %d' % rnd.choice([2, 4, 8, 16]))
    return out


INCLUDE_FORMS = ['include %s', 'include "%s"', "include '%s'", 'include %s  # trailing comment', 'include   %s', 'INCLUDE %s',
                 'include "%s"   # quoted, then a comment', 'Include %s', 'include %s   ']


def gen_tree(rnd, idx):
    t = Tree()
    st = dict(labels=[], consts=[], nfile=0, rnd=rnd, forms=set(), resol=set(), positions=set(), depth=0)
    maindir = rnd.choice(['proj', 'proj', 'proj/src', 'a/b/c'])
    ninc = rnd.choice([0, 0, 1, 1, 2, 2])
    t.incdirs = ['inc%d' % (i + 1) for i in range(ninc)]
    if ninc and rnd.random() < 0.3:
        t.incdirs[0] = maindir + '/vendor'          # an -i directory below the project
    elif ninc and rnd.random() < 0.3:
        t.incdirs[rnd.randrange(ninc)] = maindir    # the main file's own directory given as an -i directory (first or later)
    t.dirs.update([maindir, 'decoy', 'decoy/deep', 'elsewhere'] + t.incdirs)
    t.compress = rnd.random() < 0.5
    maxdepth = rnd.choice([0, 1, 1, 2, 2, 3, 3, 4])
    fail = None
    if idx % 10 == 7:
        fail = rnd.choice(['missing', 'missing_bytes', 'dir', 'cycle', 'malformed', 'bad_line', 'missing', 'bad_line'])
    t.main = maindir + '/main.asm'
    common_file = [None]

    def new_name(ext='asm'):
        st['nfile'] += 1
        # file names are case-sensitive: Regs3.asm and regs3.asm are two files
        stem = rnd.choice(['f', 'f', 'f', 'Regs', 'GPIO_', 'Pins']) if rnd.random() < 0.4 else 'f'
        return '%s%d.%s' % (stem, st['nfile'], ext)

    added = []

    def add_shadow(d, name, note):
        """a file of the same name, other contents, in directory d (never the intended target)"""
        p = d + '/' + name
        if p in t.files or p in t.bins:
            return
        added.append(p)
        t.dirs.add(d)
        if name.endswith('.bin'):
            t.bins[p] = bytes(rnd.randrange(256) for _ in range(rnd.randrange(1, 9))).hex()
        else:
            st['nshadow'] = st.get('nshadow', 0) + 1
            lab = 'SHADOW_%d' % st['nshadow']
            t.files[p] = ['%s_%s:' % (lab, note), '    addi x31, x31, %d' % rnd.randrange(1, 2000), '    dw 0x5ad0']

    def place(incl_dir, name, depth):
        """choose where the file `name` lives and how the including file (in incl_dir) writes it.
        returns (target relpath, written path)"""
        choices = ['same', 'same', 'sub', 'sub']
        if t.incdirs:
            choices += ['inc', 'inc', 'inc', 'incsub']
        if '/' in incl_dir:
            choices.append('parent')
        choices.append('abs')
        how = rnd.choice(choices)
        searched = t.incdirs + [incl_dir]
        del added[:]
        if how == 'same':
            target, written = incl_dir + '/' + name, (name if rnd.random() < 0.8 else './' + name)
            if depth >= 1 and incl_dir != maindir and rnd.random() < 0.7:
                # only the INCLUDED file's own directory has the right one; a shadow sits next to main
                add_shadow(maindir, name, 'nextToMain')
                st['resol'].add('nested-relative-to-included-file')
        elif how == 'sub':
            sub = rnd.choice(['sub', 'parts', 'sub/deep'])
            target, written = '%s/%s/%s' % (incl_dir, sub, name), '%s/%s' % (sub, name)
            if rnd.random() < 0.4:
                add_shadow(incl_dir, name, 'flat')       # same base name one level up: must not be taken
        elif how == 'inc':
            k = rnd.randrange(len(t.incdirs))
            target, written = t.incdirs[k] + '/' + name, name
            r = rnd.random()
            if r < 0.45 and incl_dir not in t.incdirs:
                add_shadow(incl_dir, name, 'adjacent')   # -i directories are searched first
                st['resol'].add('inc-before-adjacent')
            if k + 1 < len(t.incdirs) and r > 0.3:
                add_shadow(t.incdirs[k + 1], name, 'laterInc')
                st['resol'].add('inc-order')
        elif how == 'incsub':
            k = rnd.randrange(len(t.incdirs))
            target, written = '%s/lib/%s' % (t.incdirs[k], name), 'lib/' + name
        elif how == 'parent':
            target, written = os.path.dirname(incl_dir) + '/' + name, '../' + name
        else:
            target, written = 'abs/' + name, ROOT + '/abs/' + name
            add_shadow(incl_dir, name, 'relative')       # an absolute path ignores the search directories
        # a shadow that the documented search (-i directories in order, then the including file's directory) would
        # reach BEFORE the target would make the tree mean something else: take such shadows back
        tdir = os.path.dirname(target)
        for d in searched:
            cand = os.path.normpath(d + '/' + written) if not written.startswith(ROOT) else written[len(ROOT) + 1:]
            if cand == target:
                break
            if cand in t.files or cand in t.bins:
                assert cand in added, (cand, target, written)
                t.files.pop(cand, None)
                t.bins.pop(cand, None)
        del added[:]
        st['resol'].add(how)
        t.dirs.add(tdir)
        return target, respell(written, target, searched, incl_dir)

    def respell(written, target, searched, incl_dir):
        """the same path written with `.` / `..` / doubled-slash components (what the OS resolves identically)"""
        if rnd.random() < 0.65:
            return written
        if written.startswith(ROOT):
            tail = written[len(ROOT) + 1:]                      # abs/<name>
            st['resol'].add('spelling:abs-updown')
            return ROOT + '/abs/../' + tail if rnd.random() < 0.5 else ROOT + '//' + tail
        # the searched directory the written path is relative to
        base = None
        for d in searched:
            if os.path.normpath(d + '/' + written) == target:
                base = d
                break
        kinds = ['dot']
        if '/' in written:
            kinds += ['dslash', 'middot']
        if base is not None and not written.startswith('..'):
            kinds.append('updown')
        if written.startswith('../'):
            kinds.append('parent-downup')
        k = rnd.choice(kinds)
        st['resol'].add('spelling:' + k)
        if k == 'dot':
            return './' + written
        if k == 'dslash':
            return written.replace('/', '//', 1)
        if k == 'middot':
            return written.replace('/', '/./', 1)
        if k == 'updown':
            t.dirs.add(base + '/updir')
            return 'updir/../' + written
        # ../name  ->  ../<this directory>/../name
        return '../' + os.path.basename(incl_dir) + '/' + written

    def reuse_ancestor_name(d, wchain):
        """an include written exactly like the include of one of its own ancestors, which the search rule nevertheless
        resolves to another file (proj/sub/x.asm, included as `sub/x.asm`, includes `sub/x.asm` = proj/sub/sub/x.asm).
        At most once per tree, so that no later file can come to stand in front of it on the search path."""
        if st.get('reused') or not wchain or d in t.incdirs or rnd.random() >= 0.3:
            return None                    # (a new file in an -i directory would be found by the ancestor's include too)
        w = rnd.choice(wchain)
        if w.startswith(ROOT) or '..' in w.split('/'):
            return None
        cands = [os.path.normpath(x + '/' + w) for x in t.incdirs + [d]]
        if any(c in t.files or c in t.bins or c in t.dirs for c in cands):
            return None
        st['reused'] = True
        st['nfile'] += 1
        st['resol'].add('ancestor-name-other-file')
        t.dirs.add(os.path.dirname(cands[-1]))
        return cands[-1], w

    def make_file(path, depth, chain, wchain=()):
        """generate the text file at `path` (program order = generation order)"""
        d = os.path.dirname(path)
        prefix = 'F%d' % st['nfile'] if path != t.main else 'M'
        st['depth'] = max(st['depth'], depth)
        lines = []
        t.files[path] = lines
        n_inc = 0
        if depth < maxdepth:
            n_inc = rnd.choice([1, 1, 1, 2]) if depth == 0 else rnd.choice([0, 1, 1, 2])
        slots = []
        for j in range(n_inc):
            slots.append(rnd.choice(['first', 'middle', 'last']) if j == 0 else 'middle')
        if n_inc == 1 and rnd.random() < 0.08:
            slots = ['only']
        segs = []
        pre_n = 0 if slots and slots[0] in ('first', 'only') else rnd.randrange(1, 6)
        lines += body_lines(rnd, st, prefix, pre_n)
        for j, slot in enumerate(slots):
            st['positions'].add(slot)
            kind = 'include'
            name = new_name()
            target, written = reuse_ancestor_name(d, wchain) or place(d, name, depth)
            if os.path.basename(target) != os.path.basename(target).lower():
                add_shadow(os.path.dirname(target), os.path.basename(target).lower(), 'lowercase')
                st['resol'].add('case-sensitive-name')
            form = rnd.choice(INCLUDE_FORMS)
            st['forms'].add(form.replace('%s', 'P').split('P')[0].strip() + ('q' if '"' in form or "'" in form else '') +
                            ('#' if '#' in form else ''))
            t.targets['%s:%d' % (path, len(lines))] = target
            lines.append(form % written)
            make_file(target, depth + 1, chain + [path], tuple(wchain) + (written,))
            last = (j == len(slots) - 1)
            if not (last and slot in ('last', 'only')):
                lines += body_lines(rnd, st, prefix, rnd.randrange(1, 5))
        if not slots:
            lines += body_lines(rnd, st, prefix, rnd.randrange(1, 5))
        # include_bytes
        if rnd.random() < 0.35:
            name = new_name('bin')
            target, written = place(d, name, depth)
            t.bins[target] = bytes(rnd.randrange(256) for _ in range(rnd.choice([1, 2, 3, 4, 7, 8, 16]))).hex()
            pos = rnd.randrange(0, len(lines) + 1)
            # inserting shifts the recorded include targets of this file that come after pos
            shift_targets(path, pos, 2)
            lines[pos:pos] = ['include_bytes ' + written, '    align 4']
            t.targets['%s:%d' % (path, pos)] = target
            st['resol'].add('include_bytes@depth%d' % min(depth, 2))
        # a label-free file included twice
        if depth <= 1 and rnd.random() < 0.12:
            if common_file[0] is None:
                common_file[0] = (t.incdirs[0] if t.incdirs and rnd.random() < 0.5 else maindir) + '/common.asm'
                t.files[common_file[0]] = ['    addi x5, x5, 1', '# shared', '    xor x6, x6, x7']
            cf = common_file[0]
            cd = os.path.dirname(cf)
            if cd == d or cd in t.incdirs:
                pos = rnd.randrange(0, len(lines) + 1)
                shift_targets(path, pos, 1)
                lines[pos:pos] = ['include common.asm']
                t.targets['%s:%d' % (path, pos)] = cf
                st['resol'].add('included-twice')

    def shift_targets(path, pos, by):
        moved = {}
        for key in list(t.targets):
            f, _, i = key.rpartition(':')
            if f == path and int(i) >= pos:
                moved[key] = t.targets.pop(key)
        for key, v in moved.items():
            f, _, i = key.rpartition(':')
            t.targets['%s:%d' % (f, int(i) + by)] = v

    make_file(t.main, 0, [])

    # resolve label placeholders (any label of any file: forward and backward, across files)
    labels = st['labels'] or None
    for p, lines in t.files.items():
        for i, l in enumerate(lines):
            if '@LBL@' in l:
                lines[i] = l.replace('@LBL@', rnd.choice(labels)) if labels else '    addi x0, x0, 0'

    # planted failure
    if fail:
        plant_failure(rnd, t, fail, shift_targets)
    # how the -i directories are spelled when handed to assemble(): normal, trailing slash, /., down-and-up
    inc_spell = []
    for d in t.incdirs:
        inc_spell.append(rnd.choice(['', '', '', '/', '/.', '/../' + os.path.basename(d), '//']) if rnd.random() < 0.5 else '')
    t.meta = dict(depth=st['depth'], positions=sorted(st['positions']), forms=sorted(st['forms']),
                  resolution=sorted(st['resol']), n_files=len(t.files), n_bins=len(t.bins), fail=t.expect,
                  inc_spell=inc_spell)
    return t


def gen_chain(rnd, idx):
    """a long acyclic chain of includes (file k includes file k+1, across a few directories): splicing has no depth of its own"""
    t = Tree()
    n = rnd.choice([12, 40, 63, 64, 65, 66, 100, 150])
    dirs = ['proj', 'proj/a', 'proj/a/b', 'proj/lib']
    t.dirs.update(dirs + ['decoy', 'decoy/deep', 'elsewhere'])
    t.compress = rnd.random() < 0.5
    t.main = 'proj/main.asm'
    paths = [t.main] + ['%s/c%d.asm' % (dirs[k % len(dirs)], k) for k in range(1, n + 1)]
    for k, pth in enumerate(paths):
        lines = ['CH%d:' % k if k % 7 == 0 else '    addi x%d, x%d, %d' % (5 + k % 20, 5 + k % 20, k % 100 + 1)]
        if k < n:
            rel = os.path.relpath(paths[k + 1], os.path.dirname(pth))
            t.targets['%s:%d' % (pth, len(lines))] = paths[k + 1]
            lines.append('include ' + rel)
            lines.append('    dw %d' % k)
        else:
            lines.append('    j CH0')
        t.files[pth] = lines
    t.meta = dict(depth=n, positions=['middle'], forms=['include'], resolution=['chain-%d' % n], n_files=len(t.files), n_bins=0, fail='ok',
                  inc_spell=[])
    return t


def reachable_files(t):
    """text files in program order of first inclusion, starting at main (follows the intended targets)"""
    seen, order = set(), []

    def walk(p):
        if p in seen:
            return
        seen.add(p)
        order.append(p)
        for i, l in enumerate(t.files[p]):
            tg = t.targets.get('%s:%d' % (p, i))
            if tg is not None and tg in t.files and l.lower().startswith('include '):
                walk(tg)
    walk(t.main)
    return order


def plant_failure(rnd, t, kind, shift_targets):
    files = reachable_files(t)
    p = rnd.choice(files)
    lines = t.files[p]
    pos = rnd.randrange(0, len(lines) + 1)

    def insert(text):
        shift_targets(p, pos, 1)
        lines[pos:pos] = [text]
        return [p, pos + 1]

    t.expect = kind
    if kind == 'missing':
        me = os.path.basename(p)
        t.expect_at = insert(rnd.choice(['include nosuchfile.asm', 'include "sub/nosuchfile.asm"', 'include main.asm.bak  # gone',
                                         # present only for a reader that normalises the path string instead of asking the OS
                                         'include nosuchdir/../%s' % me, 'include %s/' % me, 'include %s/../%s' % (me, me),
                                         'include ./nosuchdir/./../%s  # lexically this is me' % me]))
    elif kind == 'missing_bytes':
        t.expect_at = insert('include_bytes nosuchfile.bin')
    elif kind == 'malformed':
        t.expect_at = insert(rnd.choice(['include a.asm b.asm', 'include_bytes a.bin b.bin', 'include   # nothing']))
    elif kind == 'dir':
        d = os.path.dirname(p)
        t.dirs.add(d + '/adir')
        insert('include adir')
        t.expect_at = None
    elif kind == 'cycle':
        # include an ancestor (or itself) by a path that resolves from here
        insert('include %s/%s' % (ROOT, rnd.choice([p, t.main])))
        t.expect_at = None
    elif kind == 'bad_line':
        t.expect_at = insert(rnd.choice(['    addi x1, x1, 5000', '    j no_such_label_anywhere', '    lw x1, 0(x99)', '    bogus x1, x2']))


def splice(t, root):
    """the single-file program: every include line replaced by the lines of the file it is meant to find
    (recursively), every include_bytes path replaced by the absolute path of the file it is meant to find.
    -> source text, or None when the tree contains a cycle"""
    out = []

    def walk(p, chain):
        if p in chain:
            raise RecursionError
        for i, l in enumerate(t.files[p]):
            tg = t.targets.get('%s:%d' % (p, i))
            low = l.lower()
            if tg is not None and low.startswith('include '):
                walk(tg, chain + [p])
            elif tg is not None and low.startswith('include_bytes '):
                out.append('include_bytes ' + os.path.join(root, tg))
            else:
                out.append(l.replace(ROOT, root))
    try:
        walk(t.main, [])
    except RecursionError:
        return None
    return '\n'.join(out) + '\n'


def materialise(t, root):
    for d in sorted(t.dirs):
        os.makedirs(os.path.join(root, d), exist_ok=True)
    for p, lines in t.files.items():
        os.makedirs(os.path.dirname(os.path.join(root, p)), exist_ok=True)
        with open(os.path.join(root, p), 'w', newline='') as f:
            f.write('\n'.join(lines).replace(ROOT, root))
    for p, hx in t.bins.items():
        os.makedirs(os.path.dirname(os.path.join(root, p)), exist_ok=True)
        with open(os.path.join(root, p), 'wb') as f:
            f.write(bytes.fromhex(hx))
    # decoys: for every written relative path, a file of the same relative name and the same size but other contents,
    # relative to the decoy directory (what a cwd-relative lookup would find)
    decoy = os.path.join(root, 'decoy')
    n = 0
    for p, lines in t.files.items():
        for l in lines:
            low = l.lower()
            if not (low.startswith('include ') or low.startswith('include_bytes ')):
                continue
            parts = l.split('#')[0].split()
            if len(parts) != 2:
                continue
            rel = parts[1].strip('"\'').replace(ROOT, root)
            if os.path.isabs(rel):
                continue
            deep = os.path.join(decoy, 'deep')
            os.makedirs(deep, exist_ok=True)
            found = None
            for d in spelled_incs(t, root) + [os.path.join(root, os.path.dirname(p))]:
                if os.path.isfile(os.path.join(d, rel)):
                    found = os.path.join(d, rel)
                    break
            if found is None:
                # an include that must be REFUSED: a file of that name relative to the working directories decoy/ and
                # decoy/deep, which only a lookup that consults the working directory would find
                for base in (decoy, deep):
                    dp = os.path.normpath(os.path.join(base, rel))
                    if dp.startswith(decoy + os.sep) and not os.path.exists(dp) and not rel.endswith('/'):
                        try:
                            os.makedirs(os.path.dirname(dp), exist_ok=True)
                            with open(dp, 'wb') as f:
                                f.write(b'\x01\x02\x03\x04' if rel.endswith('.bin') else b'# found relative to the working directory\n')
                            n += 1
                        except OSError:
                            pass
                continue
            size = os.path.getsize(found)
            # what a lookup of the written path relative to the working directories decoy/ and decoy/deep would find
            # (never outside the decoy directory: a decoy must not become reachable through the real search path)
            for base in (decoy, deep):
                raw = os.path.join(base, rel)
                dp = os.path.normpath(raw)
                if not dp.startswith(decoy + os.sep) or os.path.isdir(dp):
                    continue
                if not _mkdirs_literal(os.path.dirname(raw), inside=decoy):
                    continue
                os.makedirs(os.path.dirname(dp), exist_ok=True)
                with open(dp, 'wb') as f:
                    if rel.endswith('.bin'):
                        src = open(found, 'rb').read()
                        f.write(bytes(b ^ 0xff for b in src))
                    else:
                        f.write((b'#' * max(size - 1, 0) + b'\n')[:size] if size else b'')
                n += 1
    return n


def _mkdirs_literal(path, inside):
    """make every directory the OS walks through when it resolves `path` (which may contain . and .. components);
    False (nothing more created) as soon as the walk would leave the directory `inside`"""
    cur = '/'
    for c in path.split('/'):
        if c in ('', '.'):
            continue
        cur = os.path.normpath(os.path.join(cur, c))
        if cur.startswith(inside + os.sep) or cur == inside:
            os.makedirs(cur, exist_ok=True)
        elif inside.startswith(cur + os.sep) or cur == '/':
            continue            # still on the way down to `inside`
        else:
            return False
    return True


def spelled_incs(t, root):
    """the -i directories as handed to assemble(): absolute, possibly with a trailing slash, /. or down-and-up"""
    sp = (t.meta or {}).get('inc_spell') or []
    return [os.path.join(root, d) + (sp[i] if i < len(sp) else '') for i, d in enumerate(t.incdirs)]


# ---------------------------------------------------------------------------------------------
# running the real code
# ---------------------------------------------------------------------------------------------

def norm_res(res, cwd):
    """comparable form of a progs.Result; error files made absolute + normalised"""
    if res.status == 'ok':
        return ('ok', res.bytes.hex(), tuple(res.labels.items()), tuple(res.constants.items()))
    if res.status == 'asmerr':
        f = res.err_file
        if f != '<string>':
            f = os.path.normpath(os.path.join(cwd, f))
        return ('asmerr', f, res.err_line)
    return ('exc', res.exc)


def run_impl(asm, main_arg, cwd, incdirs, compress):
    old = os.getcwd()
    os.chdir(cwd)
    try:
        return progs.assemble_chunks(asm, main_arg, compress, include_dirs=list(incdirs))
    finally:
        os.chdir(old)


def run_cli(repo, cwd, main_arg, inc_args, compress, outdir, tag):
    out = os.path.join(outdir, tag + '.bin')
    lab = os.path.join(outdir, tag + '.lab')
    cmd = [PY, '-m', 'bronzebeard.asm', main_arg, '-o', out, '-l', lab]
    if compress:
        cmd.append('-c')
    for d in inc_args:
        cmd += ['-i', d]
    env = dict(os.environ, PYTHONPATH=repo, PYTHONDONTWRITEBYTECODE='1')
    p = subprocess.run(cmd, cwd=cwd, env=env, stdout=subprocess.PIPE, stderr=subprocess.PIPE, timeout=120)
    b = open(out, 'rb').read() if os.path.exists(out) else None
    l = open(lab).read() if os.path.exists(lab) else None
    return p.returncode, b, l, p.stderr.decode('utf-8', 'replace')[-300:]


def model_request(t, root, cwd, compress, main=None):
    """bbdrv asmfs request: the same files / directories as absolute normalised paths; the -i directories and the
    main path as the strings the real code is given"""
    files = []
    for p, lines in t.files.items():
        files.append((os.path.join(root, p), '\n'.join(lines).replace(ROOT, root).encode()))
    for p, hx in t.bins.items():
        files.append((os.path.join(root, p), bytes.fromhex(hx)))
    # the decoys are part of the filesystem too
    decoy = os.path.join(root, 'decoy')
    for dp, _, fns in os.walk(decoy):
        for fn in fns:
            files.append((os.path.join(dp, fn), open(os.path.join(dp, fn), 'rb').read()))
    dirs = set([root])
    for dp, dns, _ in os.walk(root):
        dirs.add(dp)
    d = root
    while d != '/':
        d = os.path.dirname(d)
        dirs.add(d)
    incs = spelled_incs(t, root)
    toks = ['asmfs', '1' if compress else '0', common.hexs(cwd), 'p', common.hexs(main or os.path.join(root, t.main)), str(len(incs))]
    toks += [common.hexs(x) for x in incs]
    toks.append(str(len(files)))
    for p, b in files:
        toks += [common.hexs(p), common.hexs(b)]
    dl = sorted(dirs)
    toks.append(str(len(dl)))
    toks += [common.hexs(x) for x in dl]
    return ' '.join(toks)


def labels_text(labels):
    return ''.join('{} 0x{:08x}\n'.format(k, v) for k, v in labels)


def check_tree(t, with_cli=False, repo=None):
    """materialise, run everything, -> dict(problems=[...], corr=..., stats)"""
    asm = progs.get_asm()
    repo = repo or common.REPO
    root = tempfile.mkdtemp(prefix='bbc14-')
    root = os.path.realpath(root)
    out = dict(problems=[], corr=[], corr_diff=[], results={}, cli_runs=0, n_decoys=0)
    try:
        out['n_decoys'] = materialise(t, root)
        main_abs = os.path.join(root, t.main)
        maindir = os.path.dirname(main_abs)
        incs = spelled_incs(t, root)
        cwds = [root, os.path.join(root, 'decoy'), os.path.join(root, 'decoy', 'deep'), os.path.join(root, 'elsewhere'), maindir, '/']
        flat = splice(t, root)
        reqs = []
        for compress in ([t.compress] if t.expect != 'ok' else [False, True]):
            runs = []
            for cwd in cwds:
                res = run_impl(asm, main_abs, cwd, incs, compress)
                runs.append(('abs-main cwd=' + os.path.relpath(cwd, root), norm_res(res, cwd), res))
            # relative main path, from its own directory and from the parent
            res = run_impl(asm, os.path.basename(main_abs), maindir, incs, compress)
            runs.append(('rel-main cwd=maindir', norm_res(res, maindir), res))
            par = os.path.dirname(maindir)
            res = run_impl(asm, os.path.relpath(main_abs, par), par, incs, compress)
            runs.append(('rel-main cwd=parent', norm_res(res, par), res))
            # the absolute main path written with . and .. components
            md = os.path.basename(maindir)
            main_odd = os.path.join(os.path.dirname(maindir), '.', md, '..', md, 'main.asm')
            odd_res = run_impl(asm, main_odd, root, incs, compress)
            runs.append(('abs-main with ./.. components', norm_res(odd_res, root), odd_res))
            ref_name, ref, ref_res = runs[0]
            out['results'][compress] = ref[0] if ref[0] != 'exc' else 'exc:' + str(ref[1])
            for name, r, _ in runs[1:]:
                if r != ref:
                    out['problems'].append(dict(kind='cwd-dependence', compress=compress,
                                                msg='result depends on the working directory / on how the main path is written: '
                                                    '[%s] %s  vs  [%s] %s' % (ref_name, short(ref), name, short(r))))
                    break
            # spliced program
            if flat is not None and t.expect in ('ok', 'bad_line'):
                fres = run_impl(asm, flat, os.path.join(root, 'elsewhere'), [], compress)
                f = norm_res(fres, root)
                if ref[0] == 'ok' or f[0] == 'ok':
                    if f != ref:
                        out['problems'].append(dict(kind='not-a-splice', compress=compress, spliced=flat,
                                                    msg='the include tree and the spliced single file differ: tree %s  vs  spliced %s'
                                                        % (short(ref), short(f))))
                elif ref[0] != f[0]:
                    # both fail: the failure class must be the same (an AssemblerError stays an AssemblerError)
                    out['problems'].append(dict(kind='not-a-splice', compress=compress, spliced=flat,
                                                msg='tree fails with %s, spliced program with %s' % (short(ref), short(f))))
            if t.expect == 'ok' and ref[0] != 'ok':
                out['unexpected_failure'] = short(ref)
            if t.expect in ('missing', 'missing_bytes') and ref[0] != 'asmerr':
                # the planted path names nothing the operating system finds from any searched directory
                out['problems'].append(dict(kind='missing-include-found', compress=compress,
                                            msg='line %d of %s names a file that does not exist in any searched directory, yet the '
                                                'outcome is %s instead of an AssemblerError' % (t.expect_at[1], t.expect_at[0], short(ref))))
            if t.expect_at is not None:
                # where the planted fault is reported (counted; the location itself is C15's subject)
                want = ('asmerr', os.path.join(root, t.expect_at[0]), t.expect_at[1])
                out['planted'] = 'reported-at-planted-line' if ref == want else 'reported-elsewhere'
            # correspondence requests (two cwds)
            for cwd in (cwds[0], cwds[1]):
                reqs.append((compress, cwd, ref_res, model_request(t, root, cwd, compress)))
            reqs.append((compress, root, odd_res, model_request(t, root, root, compress, main=main_odd)))
            # the command line
            if with_cli:
                outdir = os.path.join(root, 'elsewhere', 'out')
                os.makedirs(outdir, exist_ok=True)
                variants = [
                    ('cli-abs', root, main_abs, incs),
                    ('cli-rel-decoy', os.path.join(root, 'decoy'), os.path.relpath(main_abs, os.path.join(root, 'decoy')),
                     [os.path.relpath(d, os.path.join(root, 'decoy')) for d in incs]),
                    ('cli-rel-maindir', maindir, os.path.basename(main_abs), [os.path.relpath(d, maindir) for d in incs]),
                ]
                for tag, cwd, marg, iargs in variants:
                    rc, b, l, err = run_cli(repo, cwd, marg, iargs, compress, outdir, tag + ('c' if compress else 'n'))
                    out['cli_runs'] += 1
                    if ref[0] == 'ok':
                        if rc != 0 or b is None or b.hex() != ref[1] or l != labels_text(ref[2]):
                            out['problems'].append(dict(kind='cli-differs', compress=compress,
                                                        msg='command line [%s] exit=%s bytes=%s labels=%r  vs  assemble() %s ; stderr: %s'
                                                            % (tag, rc, None if b is None else b.hex()[:80], l and l[:120], short(ref), err)))
                            break
                    else:
                        if rc == 0 or b is not None or l is not None:
                            out['problems'].append(dict(kind='cli-differs', compress=compress,
                                                        msg='command line [%s] exit=%s wrote output although assemble() fails with %s'
                                                            % (tag, rc, short(ref))))
                            break
        replies = common.drv([r[3] for r in reqs]) if reqs else []
        for (compress, cwd, res, _), reply in zip(reqs, replies):
            v = corr.compare(reply, res)
            if v == 'differ' and res.status == 'exc' and res.exc == 'RecursionError':
                v = 'unsupported'
            if v == 'differ' and res.status == 'asmerr' and reply.startswith('err asm '):
                # C14 compares WHICH file and line (the spelling of the path in the message is C15's subject)
                _, _, hx, ln = reply.split()
                mfile = bytes.fromhex(hx).decode('utf-8', 'replace')
                if int(ln) == res.err_line and os.path.normpath(mfile) == os.path.normpath(res.err_file):
                    v = 'same'
                    out['spelling_only'] = out.get('spelling_only', 0) + 1
            out['corr'].append(v)
            if v == 'differ':
                out['corr_diff'].append(dict(compress=compress, cwd=os.path.relpath(cwd, root), root=root,
                                             model=reply[:400], impl=corr.canon_impl(res)[:400]))
    finally:
        shutil.rmtree(root, ignore_errors=True)
    return out


def short(r):
    if r[0] == 'ok':
        lab = ','.join('%s=%d' % kv for kv in r[2])
        return 'ok bytes=%s(%d) labels=[%s] constants=%d' % (r[1][:48], len(r[1]) // 2, lab[:160], len(r[3]))
    return ' '.join(str(x) for x in r)


def one_case(args):
    seedv, idx, tier = args
    os.environ['VERIF_SEED'] = str(seedv)
    rnd = common.rng('c14:%d' % idx)
    t = gen_chain(rnd, idx) if idx % 60 == 17 else gen_tree(rnd, idx)
    r = check_tree(t, with_cli=(idx % 4 == 1))
    r['idx'] = idx
    r['tree'] = t.to_json()
    return r


def run(tier, replay):
    if replay:
        return replay_case(replay)
    rep = common.Report(PROP, tier, level=obligations.LEVEL.get(PROP, 'proof'))
    ob = common.check_obligations(PROP, obligations.THEOREMS.get(PROP, THEOREMS))
    n = 700 if tier == 'quick' else 12000
    ctx = mp.get_context('fork')
    with ctx.Pool(min(16, os.cpu_count() or 4)) as pool:
        results = pool.map(one_case, [(common.seed(), i, tier) for i in range(n)], chunksize=4)
    corr_diff = []
    for r in results:
        tj = r['tree']
        m = tj['meta']
        rep.evaluations += 1
        rep.count('depth_%d' % m['depth'])
        for p in m['positions']:
            rep.count('include_position_' + p)
        for f in m['forms']:
            rep.count('include_form_[%s]' % f)
        for x in m['resolution']:
            rep.count('resolution_' + x)
        rep.count('expect_' + tj['expect'])
        rep.count('cli_runs', r['cli_runs'])
        rep.count('decoy_files', r['n_decoys'])
        for c, st in r['results'].items():
            rep.count('assemble_%s_%s' % ('c' if c else 'nc', st))
        if 'unexpected_failure' in r:
            rep.count('generated_ok_tree_fails_consistently')
        if 'planted' in r:
            rep.count('planted_fault_' + r['planted'])
        if r.get('spelling_only'):
            rep.count('error_path_differs_in_spelling_only', r['spelling_only'])
        for v in r['corr']:
            rep.count('model_vs_impl_' + v)
        for d in r['corr_diff']:
            corr_diff.append(dict(tree=tj, **d))
        rep.nontrivial((m['depth'], tuple(m['positions']), tuple(m['forms']), tuple(m['resolution']), tj['expect'],
                        tuple(sorted(r['results'].items()))))
        for p in r['problems']:
            rep.violation('{} (compress={}): {}'.format(p['kind'], p['compress'], p['msg']),
                          dict(case=dict(tree=tj, problem=p, with_cli=p['kind'] == 'cli-differs')))
        if len(rep.samples) < 4 and m['depth'] >= 2 and tj['expect'] == 'ok' and r['results'].get(True) == 'ok':
            rep.sample(dict(main=tj['main'], incdirs=tj['incdirs'], files={k: v[:12] for k, v in list(tj['files'].items())[:6]},
                            bins=list(tj['bins']), meta=m))
    # the programs the repository ships (5 of 7 start with `include ../bronzebeard/definitions/<chip>.asm`)
    nex, exdiff = corr.examples_check(rep, PROP)
    corr_diff += [dict(tree=None, example=e['example'], compress=e['compress'], model=e['model'], impl=e['impl']) for e in exdiff]
    rep.cov['programs'] = len(results)
    rep.cov['rule'] = RULE
    rep.cov['model_vs_impl_disagreements'] = len(corr_diff)
    rep.assumptions += [
        'operating-system behaviour of os.path.exists/join/dirname/abspath/getsize and open() is trusted (modelled as a map from '
        'absolute normalised paths to contents; exercised by the correspondence on real temporary directories)',
        'path strings with . and .. components, repeated and trailing slashes are INSIDE the model (FS.resolve walks the components '
        'the way the OS does on a filesystem without symbolic links); outside the model (counted as unsupported, still covered by '
        'the oracle on the real code): symbolic links, a leading //, NUL in a path, non-ASCII file names, include cycles '
        '(the real code dies with RecursionError: counted, not flagged)',
        'the search order (-i directories in order, then the including file\'s directory) is the code\'s documented choice; '
        'the oracle splices with that order',
    ]
    if not rep.violations and ob['failed']:
        rep.violation('proof obligation no longer checks: {} ({})'.format(ob['failed'][0][0], ob['failed'][0][1][:300]),
                      dict(theorem=ob['failed'][0][0], detail=ob['failed'][0][1]), no_input=True)
    elif not rep.violations and corr_diff:
        d = corr_diff[0]
        rep.violation('correspondence BB.assembleText over the filesystem model vs asm.assemble broke on {} runs; first: model {} / impl {}'.format(
            len(corr_diff), d['model'][:160], d['impl'][:160]),
            dict(correspondence='BB.assembleText (asmfs) vs asm.assemble(path, include_dirs)', case=d), no_input=True)
    return rep.finish(obligations=ob if ob['obligations'] else None)


def replay_case(path):
    d = json.load(open(path))
    c = d.get('case') or {}
    if 'tree' not in c:
        print('replay file names no include tree:', d.get('what'))
        print('VIOLATION property={} replay={} no-failing-input-found'.format(PROP, path))
        return 1
    t = Tree.from_json(c['tree'])
    r = check_tree(t, with_cli=bool(c.get('with_cli')) or True)
    for p in r['problems']:
        print(' ', p['kind'], 'compress=%s' % p['compress'], p['msg'])
    for x in r['corr_diff']:
        print('  model/implementation disagree:', x)
    if r['problems']:
        print('VIOLATION property={} replay={}'.format(PROP, path))
        return 1
    if r['corr_diff'] and d.get('no_failing_input_found'):
        print('VIOLATION property={} replay={} no-failing-input-found'.format(PROP, path))
        return 1
    print('replayed include tree no longer violates', PROP)
    return 0
