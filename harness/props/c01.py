"""C01 — 32-bit instructions encode exactly as the RISC-V specification defines."""
from harness import common, encsweep, encprops


def run(tier, replay):
    return encprops.run_enc_property('C01', tier, replay)
