"""C07 — %hi / %lo always split a value so that the consuming pair rebuilds it.

theorems : BB.Props.C07.* hold for EVERY integer (no bound)
tie      : asm.relocate_hi / relocate_lo / sign_extend vs the Lean model on structured values
oracle   : ranges and (hi<<12)+lo == v (mod 2^32) checked directly on the implementation's values;
           programs `lui/auipc + addi/lw/sw/jalr` written with %hi/%lo of literals, constants, labels
           and %position expressions are assembled, the emitted words decoded with the Lean
           specification, and the address the pair forms recomputed.
"""
import importlib
import json

from harness import common, obligations

M32 = 1 << 32


def values(tier, rnd):
    out = []
    lows = range(1 << 13) if tier == 'thorough' else list(range(0, 1 << 13, 7)) + [0x7ff, 0x800, 0x801, 0xfff, 0x1000, 0x17ff, 0x1800]
    uppers = [0, 1, 2, 0x7fffe, 0x7ffff, 0x80000, 0x80001, 0xffffe, 0xfffff, 0x100000, 0x12345, 0xabcde,
              0x3ffff, 0x40000, 0xc0000, 0xbffff] + [rnd.randrange(1 << 20) for _ in range(48 if tier == 'thorough' else 8)]
    for u in uppers:
        for lo in lows:
            out.append((u << 12) | (lo & 0xfff) | ((lo >> 12) << 12))
    out += [-v for v in out[:4000]]
    out += [v - M32 for v in out[:4000]]
    out += [rnd.randrange(-2 ** 64, 2 ** 64) for _ in range(20000)]
    out += [2 ** 31 - 1, 2 ** 31, -2 ** 31, -2 ** 31 - 1, M32 - 1, M32, M32 + 0x800, -M32, 10 ** 30, -10 ** 30, 0, -1, -2048, -2049, 2047, 2048]
    return out


def run(tier, replay):
    asm = importlib.import_module('bronzebeard.asm')
    if replay:
        d = json.load(open(replay))
        v = d['case']['v']
        hi, lo = asm.relocate_hi(v), asm.relocate_lo(v)
        ok = -524288 <= hi <= 524287 and -2048 <= lo <= 2047 and ((hi << 12) + lo - v) % M32 == 0
        print('v={} hi={} lo={} -> {}'.format(v, hi, lo, 'holds' if ok else 'FAILS'))
        if not ok:
            print('VIOLATION property=C07 replay={}'.format(replay))
        return 0 if ok else 1
    rep = common.Report('C07', tier, level='proof')
    ob = common.check_obligations('C07', obligations.THEOREMS['C07'])
    rnd = common.rng('c07')
    vals = values(tier, rnd)
    replies = common.drv(['hilo %d' % v for v in vals])
    mism = 0
    first = None
    for v, r in zip(vals, replies):
        rep.evaluations += 1
        try:
            hi, lo = asm.relocate_hi(v), asm.relocate_lo(v)
        except Exception as e:
            hi = lo = None
            impl = 'exc ' + type(e).__name__
        else:
            impl = '%d %d' % (hi, lo)
        if impl != r:
            mism += 1
            first = first or dict(v=v, impl=impl, model=r)
        if hi is None or not (-524288 <= hi <= 524287 and -2048 <= lo <= 2047 and ((hi << 12) + lo - v) % M32 == 0):
            rep.violation('relocate_hi/lo({}) = {} does not rebuild the value'.format(v, impl), dict(case=dict(v=v, impl=impl)))
        rep.nontrivial(('v', v & 0xfff, (v >> 12) & 0xfffff, v < 0, abs(v) >= M32))
    rep.count('values', len(vals))
    # the same split as an assembler nobody here wrote computes it: LLVM's %hi / %lo of a constant
    from harness import llvmx
    if llvmx.available():
        lv = [v for v in vals if 0 <= v < M32][:1500] + [rnd.randrange(0, M32) for _ in range(1500)] + [0x7ff, 0x800, 0xfff, 0x1000, 0xfffff7ff, 0xfffff800, M32 - 1]
        enc = llvmx.assemble(['lui x1, %%hi(%d)' % v for v in lv] + ['addi x1, x1, %%lo(%d)' % v for v in lv], rvc=False)
        nl = len(lv)
        for k, v in enumerate(lv):
            a, b = enc[k], enc[nl + k]
            rep.evaluations += 1
            if a is None or b is None:
                rep.count('llvm_hi_lo_refused')
                continue
            lhi = int.from_bytes(a, 'little') >> 12
            llo = int.from_bytes(b, 'little') >> 20
            hi, lo = asm.relocate_hi(v), asm.relocate_lo(v)
            if lhi != hi % (1 << 20) or llo != lo % (1 << 12):
                rep.violation('%%hi/%%lo of {}: relocate_hi/lo give fields {} / {} but LLVM encodes {} / {}'.format(
                    v, hi % (1 << 20), lo % (1 << 12), lhi, llo), dict(case=dict(v=v, impl='%d %d' % (hi, lo))))
            else:
                rep.count('llvm_hi_lo_agree')
    else:
        rep.count('llvm_hi_lo_skipped_no_llvm_mc')
    # sign_extend too
    se = [(rnd.randrange(-2 ** 40, 2 ** 40), b) for b in (12, 20) for _ in range(3000)]
    rs = common.drv(['sext %d %d' % (v, b) for v, b in se])
    for (v, b), r in zip(se, rs):
        rep.evaluations += 1
        if str(asm.sign_extend(v, b)) != r:
            mism += 1
            first = first or dict(v=v, bits=b, impl=asm.sign_extend(v, b), model=r)
    # programs
    n_prog = pair_programs(asm, rep, tier, rnd)
    rep.count('pair_programs', n_prog)
    rep.count('li_programs', li_programs(asm, rep, tier, rnd))
    rep.cov['rule'] = ('all low-13-bit patterns (stride 7 in quick) x 24+ upper classes, their negations and -2^32 '
                       'spellings, 20000 random 65-bit values; each pair program is lui/auipc + consumer with '
                       '%hi/%lo of a literal / constant / label / %position / a compound expression over constants whose inner parentheses decide the value; non-trivial = distinct '
                       '(low 12 bits, upper 20 bits, sign, beyond-32-bit) classes')
    rep.cov['model_vs_impl_disagreements'] = mism
    rep.assumptions += ['Python int semantics of &, >>, + are modelled, not verified']
    if not rep.violations:
        if ob['failed']:
            rep.violation('proof obligation no longer checks: {}'.format(ob['failed'][0][0]),
                          dict(theorem=ob['failed'][0][0], detail=ob['failed'][0][1]), no_input=True)
        elif mism:
            rep.violation('correspondence relocate_hi/lo vs model broke on {} inputs, e.g. {}'.format(mism, first),
                          dict(correspondence='BB.relocateHi/Lo vs asm.relocate_hi/lo', case=first), no_input=True)
    return rep.finish(obligations=ob)


def li_programs(asm, rep, tier, rnd):
    """`li rd, v` is the %hi/%lo pair the assembler writes itself: one addi when v fits 12 bits, else lui + addi; every
    value from -2^31 to 2^32-1 (and any value beyond, taken mod 2^32) must be accepted and rebuilt."""
    edge = [-2 ** 31, -2 ** 31 + 1, -2 ** 31 + 0x7ff, -2 ** 31 + 0x800, 2 ** 31 - 1, 2 ** 31, 2 ** 32 - 1, 2 ** 32 - 0x800, 2 ** 32 - 0x801,
            0x7ffff7ff, 0x7ffff800, 0x7fffffff, -2048, -2049, 2047, 2048, 0, -1, 0xfffff000, 0x800, 0xfff, 0x1000, 2 ** 32, 2 ** 32 + 0x801, -2 ** 31 - 1]
    vals = edge + [rnd.randrange(-2 ** 31, 2 ** 32) for _ in range(100 if tier == 'quick' else 2000)]
    reqs, keep = [], []
    for j, v in enumerate(vals):
        txt = str(v) if j % 3 else (hex(v) if v >= 0 else '-' + hex(-v))
        src = 'li x{}, {}\n'.format(5 + j % 20, txt)
        rep.evaluations += 1
        try:
            b = bytes(asm.assemble(src))
        except Exception as e:
            rep.violation('li refused: {!r}: {!r}'.format(src, e), dict(case=dict(program=src, error=repr(e))))
            continue
        ws = [int.from_bytes(b[i:i + 4], 'little') for i in range(0, len(b), 4)]
        if len(b) not in (4, 8):
            rep.violation('li emitted {} bytes: {!r}'.format(len(b), src), dict(case=dict(program=src, bytes=b.hex())))
            continue
        keep.append((src, v, len(reqs), len(ws)))
        reqs += ['dec32 %d' % w for w in ws]
    out = common.drv(reqs)
    for src, v, at, n in keep:
        d = [out[at + i].split() for i in range(n)]
        rd = int(src.split()[1].rstrip(',')[1:])
        if n == 1:
            ok = d[0][:1] == ['i'] and int(d[0][-1]) % M32 == v % M32          # addi rd, x0, v
        else:
            ok = d[0][0] == 'lui' and d[1][0] == 'i' and ((int(d[0][2]) << 12) + int(d[1][-1]) - v) % M32 == 0
        if not ok:
            rep.violation('li does not build its value: {!r} decodes to {} (wanted {})'.format(src, ' ; '.join(out[at:at + n]), v % M32),
                          dict(case=dict(program=src, value=v, decoded=out[at:at + n])))
    return len(keep)


def pair_programs(asm, rep, tier, rnd):
    """lui+addi, lui+lw, lui+sw, auipc+addi, auipc+jalr written with %hi/%lo of the same expression."""
    n = 400 if tier == 'quick' else 4000
    cases = []
    for i in range(n):
        kind = i % 5
        how = (i // 5) % 5       # literal / constant / label / %position / compound expression with inner parentheses
        v = rnd.choice([rnd.randrange(0, M32), rnd.randrange(-2 ** 31, 2 ** 31), rnd.choice([0x7ff, 0x800, 0xfff, 0x1000, 0x7ffff800, 0x7ffff7ff, 0xfffff800, 0x80000000])])
        pre = ''
        nop_before = rnd.randrange(0, 5)
        base = 0
        if how == 0:
            expr = hex(v) if v >= 0 else str(v)
            val = v
        elif how == 1:
            pre = 'K = {}\n'.format(v)
            expr = 'K'
            val = v
        elif how == 2:
            expr = 'L'
            val = None      # label offset, filled below
        elif how == 3:
            base = rnd.randrange(0, M32) & ~1
            btxt = hex(base)
            if rnd.random() < 0.4:
                # the base written as an expression whose top operator binds looser than label + base
                a, op, b = rnd.choice([(0x20000000, '|', 0x400), (1, '<<', 11), (3, '<<', 12), (0x40021000, '^', 0x1000), (0xfff000, '&', 0xff800),
                                       (0x80000000, '>>', 3), (0x08000000, '|', 0x7fe)])
                btxt = '{} {} {}'.format(hex(a), op, b if op in ('<<', '>>') else hex(b))
                base = {'|': a | b, '^': a ^ b, '&': a & b, '<<': a << b, '>>': a >> b}[op]
            expr = '%position(L, {})'.format(btxt)
            val = None
        else:
            # parentheses that decide the value: dropping or moving any of them changes it
            env = dict(BASE=rnd.choice([0x20000000, 0x40021000, 0x08000000, rnd.randrange(0, 2 ** 31) & ~0xf]),
                       N=rnd.randrange(1, 200), STRIDE=rnd.choice([4, 8, 12, 0x400, 0x1004]), K=rnd.randrange(2, 4000) * 2)
            expr = rnd.choice(['BASE + (N + 1) * STRIDE', '(BASE | 0x800) + (N << 2)', '(BASE + N) * 2 - (K - (N - 1))',
                               '-(BASE + 4) & 0xfffffffe', 'BASE - (K - N * 2)', '(BASE + K) & ~(STRIDE - 1)',
                               '((BASE >> 12) + (N & 7)) << 12 | (K + (N << 1))', 'BASE + 2 * (K + STRIDE * (N - 1))'])
            if kind == 4:
                expr = '(' + expr + ') & ~1'
            pre = ''.join('{} = {}\n'.format(k, x) for k, x in env.items())
            val = eval(expr, {'__builtins__': {}}, env)
        body = 'addi x0 x0 0\n' * nop_before
        if kind == 0:
            pair = 'lui x5, %hi({e})\naddi x5, x5, %lo({e})\n'
        elif kind == 1:
            pair = 'lui x6, %hi({e})\nlw x7, x6, %lo({e})\n'
        elif kind == 2:
            pair = 'lui x6, %hi({e})\nsw x6, x7, %lo({e})\n'
        elif kind == 3:
            pair = 'auipc x5, %hi({e})\naddi x5, x5, %lo({e})\n'
        else:
            pair = 'auipc x1, %hi({e})\njalr x1, x1, %lo({e})\n'
            if how in (0, 1):
                v &= ~1
                if how == 0:
                    expr = hex(v) if v >= 0 else str(v)
                else:
                    pre = 'K = {}\n'.format(v)
                val = v
        tail_nops = rnd.randrange(0, 4)
        ptxt = pair.format(e=expr)
        if rnd.random() < 0.25:
            # the modifiers are matched without regard to case
            ptxt = ptxt.replace('%hi', rnd.choice(['%HI', '%Hi', '%hI'])).replace('%lo', rnd.choice(['%LO', '%Lo', '%lO']))
        src = pre + body + ptxt + 'addi x0 x0 0\n' * tail_nops + 'L:\n'
        label_off = 4 * (nop_before + 2 + tail_nops)
        if how == 2:
            val = label_off
        elif how == 3:
            val = base + label_off
        cases.append((src, val, nop_before * 4, kind))
    reqs = []
    keep = []
    for src, val, off, kind in cases:
        rep.evaluations += 1
        try:
            b = bytes(asm.assemble(src))
        except Exception as e:
            if kind == 4 and val % 2:
                continue        # an odd jalr low part is legitimately refused
            rep.violation('pair program refused: {!r}: {!r}'.format(src, e), dict(case=dict(program=src, error=repr(e))))
            continue
        w0 = int.from_bytes(b[off:off + 4], 'little')
        w1 = int.from_bytes(b[off + 4:off + 8], 'little')
        reqs += ['dec32 %d' % w0, 'dec32 %d' % w1]
        keep.append((src, val, w0, w1))
    out = common.drv(reqs)
    for k, (src, val, w0, w1) in enumerate(keep):
        d0 = out[2 * k].split()
        d1 = out[2 * k + 1].split()
        field = int(d0[2]) if d0 and d0[0] in ('lui', 'auipc') else None
        imm = int(d1[-1]) if d1 and d1[0] in ('i', 'load', 'store', 'jalr') else None
        ok = field is not None and imm is not None and ((field << 12) + imm - val) % M32 == 0
        if not ok:
            rep.violation('pair does not address the value: {!r} decodes to {} / {} (wanted {})'.format(src, out[2 * k], out[2 * k + 1], val),
                          dict(case=dict(program=src, value=val, first=out[2 * k], second=out[2 * k + 1])))
        if k < 3:
            rep.sample(dict(program=src, value=val, first=out[2 * k], second=out[2 * k + 1]))
    return len(keep)
