"""C15 - a faulty source line is reported as an assembler error naming that file and line.

Each case: an otherwise valid generated program (its *control* - the same program with a valid line in
the fault's place - assembles in both modes) with ONE fault of a listed class planted at a chosen
position, cut into a tree of files of include depth 0-3 with the faulty line at a chosen depth.

Oracle (on the implementation alone), for compress in (False, True): the outcome must be
`asm.AssemblerError` (any other exception escaping = "an internal exception"), its `.line.number` the
faulty line's 1-based number and `abspath(.line.file)` the path the include search produced for the
file holding it.  About one case in ten also goes through the command line in a fresh process: exit
status != 0 and `File "<path>", line <n>` on stderr.

Correspondence: the Lean model (`asms` on the source text for single-file cases, `asmfs` over the
tree) must reply the same `err asm <file> <line>`.  A disagreement without an oracle failure goes
through the no-failing-input-found path of DESIGN section 4.
"""
import json
import multiprocessing as mp
import os
import re
import shutil
import subprocess
import sys
import tempfile
import warnings

from harness import common, corr, faultplant, known, obligations, progs

PROP = 'C15'
PY = '/venv/bin/python'
INTERNAL_NOTE = 'not the assembler\'s own error: a raw {} escaped from assemble()'


def asmfs_request(root, tree, compress, main='main.asm', include_dirs=()):
    files = sorted(tree.files.items())
    dirs = faultplant.tree_dirs(tree, root)
    toks = ['asmfs', '1' if compress else '0', common.hexs(root), 'p', common.hexs(os.path.join(root, main)), str(len(include_dirs))]
    toks += [common.hexs(d) for d in include_dirs]
    toks.append(str(len(files)))
    for rel, lines in files:
        toks.append(common.hexs(os.path.join(root, rel)))
        toks.append(common.hexs(''.join(lines) if rel.endswith('.bin') else '\n'.join(lines) + '\n') or '-')
    toks.append(str(len(dirs)))
    toks += [common.hexs(d) for d in dirs]
    return ' '.join(toks)


def run_impl(asm, target, compress):
    """-> dict(status ok|asmerr|exc, exc, file, line)"""
    try:
        asm.assemble(target, compress=compress)
        return dict(status='ok', exc=None, file=None, line=None)
    except asm.AssemblerError as e:
        return dict(status='asmerr', exc='AssemblerError', file=getattr(e.line, 'file', None), line=getattr(e.line, 'number', None))
    except RecursionError:
        return dict(status='exc', exc='RecursionError', file=None, line=None)
    except Exception as e:
        return dict(status='exc', exc=type(e).__name__, file=None, line=None)


def canon(r):
    if r['status'] == 'ok':
        return 'ok'
    if r['status'] == 'asmerr':
        return 'err asm %s %d' % (common.hexs(str(r['file'])), r['line'] or 0)
    return 'internal ' + str(r['exc'])


# classes whose acceptance no other property judges: a label defined twice, an `error` directive and an
# include of a missing file must refuse the program (DESIGN section 6, F6); for the operand classes a
# line that is not refused at all is C06's business, not C15's
MUST_REFUSE = ('duplicate', 'error', 'include')


def judge(r, want_file, want_line, alt=None, cls=None):
    """-> (kind, message) or None.  `alt` = another (file, line) that also satisfies the statement
    (the earlier definition of a duplicated label)"""
    if r['status'] == 'ok':
        if cls in MUST_REFUSE:
            return 'not-refused', 'the program was assembled although line {} of {} is a fault of class {}'.format(want_line, want_file, cls)
        return None                     # not refused: C15 says nothing (acceptance is C06's business)
    if r['status'] != 'asmerr':
        return 'internal', INTERNAL_NOTE.format(r['exc'])
    if r['file'] is None or r['line'] is None:
        return 'no-line', 'the AssemblerError carries no source line at all (line = None): it names neither file nor line; the faulty line is {} line {}'.format(want_file, want_line)
    got = (os.path.abspath(r['file']) if r['file'] != '<string>' else '<string>', r['line'])
    if got == (want_file, want_line):
        return None
    if alt is not None and got == alt:
        return None
    if got[0] != want_file:
        return 'wrong-file', 'AssemblerError names {} line {}, the faulty line is {} line {}'.format(got[0], got[1], want_file, want_line)
    return 'wrong-line', 'AssemblerError names line {} of {}, the faulty line is line {}'.format(got[1], want_file, want_line)


def run_cli(root, main, compress, repo):
    env = dict(os.environ, PYTHONPATH=repo, PYTHONUTF8='1', PYTHONWARNINGS='ignore::SyntaxWarning')      # source files are written as UTF-8
    out = os.path.join(root, 'cli_out.bin')
    cmd = [PY, '-m', 'bronzebeard.asm', main, '-o', out] + (['-c'] if compress else [])
    p = subprocess.run(cmd, cwd=root, env=env, stdout=subprocess.PIPE, stderr=subprocess.PIPE, text=True, timeout=120)
    return p.returncode, p.stderr, os.path.exists(out)


def cli_exception_type(err):
    """type named on the last `Type: message` line of a traceback (3.11+ may add note lines after it)"""
    t = None
    for l in err.split('\n'):
        m = re.match(r'^([A-Za-z_][\w.]*(?:Error|Exception|Exit|Interrupt))\b', l)
        if m:
            t = m.group(1).split('.')[-1]
    return t


def judge_cli(rc, err, wrote, want_file, want_line, alt=None, cls=None):
    if rc == 0:
        if cls in MUST_REFUSE:
            return 'not-refused', 'command line: exit status 0 although line {} of {} is a fault of class {}'.format(want_line, want_file, cls)
        return None
    if 'Traceback (most recent call last)' in err:
        return 'internal', 'command line: a raw {} escaped (traceback on stderr)'.format(cli_exception_type(err))
    ok = 'File "{}", line {}\n'.format(want_file, want_line) in err
    if not ok and alt is not None:
        ok = 'File "{}", line {}\n'.format(alt[0], alt[1]) in err
    if not ok:
        return 'wrong-line', 'command line: stderr does not name File "{}", line {}: {!r}'.format(want_file, want_line, err[:200])
    return None


def make_case(asm, idx, tier):
    """deterministic in (VERIF_SEED, idx)"""
    rnd = common.rng('c15:%d' % idx)
    cls = faultplant.CLASSES[idx % len(faultplant.CLASSES)]
    position = faultplant.POSITIONS[(idx // len(faultplant.CLASSES)) % 4]
    depth = (idx // 36) % 4
    if depth == 0:
        fault_depth = 0
    else:
        fault_depth = rnd.randrange(0, depth + 1)
    got = faultplant.plant(asm, rnd, cls, position)
    if got is None:
        return None
    flat, fault = got
    as_string = depth == 0 and rnd.random() < 0.5
    tree = faultplant.build_tree(rnd, flat, depth, fault_depth, unicode_noise=(rnd.random() < 0.04), blobs=not as_string)
    return dict(idx=idx, fault=fault, depth=depth, fault_depth=tree.depth_of.get('fault', 0), as_string=as_string,
                files={k: v for k, v in tree.files.items()}, where=tree.where, cli=(rnd.random() < 0.1))


class _T:
    def __init__(self, files):
        self.files = files


def evaluate(asm, case, ask_model=True, keep_root=None):
    """run the oracle on one case -> result dict (problems, outcomes, model requests)"""
    root = tempfile.mkdtemp(prefix='bbc15-')
    root = os.path.realpath(root)
    # {ROOT} in a planted line stands for the directory of the main file (absolute include paths)
    files = {k: [l.replace('{ROOT}', root) for l in v] for k, v in case['files'].items()}
    tree = _T(files)
    res = dict(idx=case['idx'], problems=[], outcome={}, requests=[], cli=[])
    try:
        faultplant.materialise(tree, root)
        frel, fline = case['where']['fault']
        alt = None
        if case['as_string']:
            target = '\n'.join(files['main.asm']) + '\n'
            want_file = '<string>'
            if 'dup0' in case['where']:
                alt = ('<string>', case['where']['dup0'][1])
        else:
            target = os.path.join(root, 'main.asm')
            want_file = os.path.join(root, frel)
            if 'dup0' in case['where']:
                alt = (os.path.join(root, case['where']['dup0'][0]), case['where']['dup0'][1])
        res['want'] = (want_file, fline)
        res['root'] = root
        for compress in (False, True):
            r = run_impl(asm, target, compress)
            res['outcome'][compress] = canon(r)
            res.setdefault('raw', {})[compress] = r
            if r['status'] == 'asmerr' and alt is not None:
                got = (os.path.abspath(r['file']) if r['file'] != '<string>' else '<string>', r['line'])
                res['dup_reported'] = 'first' if got == alt else ('second' if got == (want_file, fline) else 'other')
            bad = judge(r, want_file, fline, alt, case['fault']['cls'])
            if bad:
                res['problems'].append(dict(compress=compress, kind=bad[0], msg=bad[1], exc=r['exc'], via='assemble()'))
            if ask_model:
                if case['as_string']:
                    res['requests'].append((compress, corr.request(target, compress)))
                else:
                    res['requests'].append((compress, asmfs_request(root, tree, compress)))
        if case.get('cli'):
            # the command line is always given a file: a string-mode case is written to main.asm
            for compress in (False, True):
                rc, err, wrote = run_cli(root, 'main.asm', compress, common.REPO)
                cwant = os.path.join(root, frel)
                calt = (os.path.join(root, case['where']['dup0'][0]), case['where']['dup0'][1]) if 'dup0' in case['where'] else None
                res['cli'].append(rc)
                bad = judge_cli(rc, err, wrote, cwant, fline, calt, case['fault']['cls'])
                if bad:
                    exc = cli_exception_type(err) if bad[0] == 'internal' else None
                    res['problems'].append(dict(compress=compress, kind=bad[0], msg=bad[1], exc=exc, via='command line'))
    finally:
        if keep_root is None:
            shutil.rmtree(root, ignore_errors=True)
    return res


def chunk_worker(args):
    seedv, lo, hi, tier = args
    os.environ['VERIF_SEED'] = str(seedv)
    warnings.filterwarnings('ignore', category=SyntaxWarning)      # Python's eval comments on `[1]["a"]`, `(0)[0]`, ...
    asm = progs.get_asm()
    out = []
    reqs = []
    for idx in range(lo, hi):
        case = make_case(asm, idx, tier)
        if case is None:
            out.append(dict(idx=idx, skipped=True))
            continue
        r = evaluate(asm, case)
        r['case'] = case
        for compress, q in r.pop('requests'):
            reqs.append((len(out), compress, q))
        r.pop('raw', None)
        out.append(r)
    replies = common.drv([q for _, _, q in reqs]) if reqs else []
    for (i, compress, _), rep in zip(reqs, replies):
        r = out[i]
        root = r.get('root', '')
        impl = r['outcome'][compress]
        if rep.startswith('unsupported'):
            v = 'unsupported'
            try:
                r.setdefault('unsupported_why', []).append(bytes.fromhex(rep.split()[1]).decode())
            except (ValueError, IndexError):
                pass
        elif rep == impl or (impl == 'ok' and rep.startswith('ok ')):
            v = 'same'
        elif impl == 'ok':
            v = 'differ-not-refused'
        else:
            v = 'differ'
        r.setdefault('corr', {})[compress] = v
        if v.startswith('differ'):
            r.setdefault('corr_diff', []).append(dict(compress=compress, model=decode_reply(rep, root), impl=decode_reply(impl, root)))
    return out


def decode_reply(rep, root):
    t = rep.split()
    if len(t) == 4 and t[0] == 'err' and t[1] == 'asm':
        try:
            f = bytes.fromhex(t[2]).decode()
        except ValueError:
            f = t[2]
        if root and f.startswith(root):
            f = f[len(root) + 1:]
        return 'err asm {} {}'.format(f, t[3])
    return rep[:120]


def case_for_known(case, problem):
    frel, fline = case['where']['fault']
    return dict(property=PROP, fault=case['fault'], line=case['fault']['text'], files=case['files'], where=case['where'],
                as_string=case['as_string'], depth=case['depth'], compress=problem['compress'], kind=problem['kind'],
                exc=problem.get('exc'), problem=problem['msg'], via=problem['via'], idx=case['idx'])


def replay_case(path):
    d = json.load(open(path))
    c = d.get('case') or {}
    if 'files' not in c:
        print('replay file names no program:', d.get('what'))
        print('VIOLATION property={} replay={} no-failing-input-found'.format(PROP, path))
        return 1
    asm = progs.get_asm()
    case = dict(idx=c.get('idx', 0), fault=c['fault'], depth=c.get('depth', 0), as_string=c.get('as_string', False),
                files=c['files'], where={k: tuple(v) for k, v in c['where'].items()}, cli=(c.get('via') == 'command line'))
    r = evaluate(asm, case, ask_model=False)
    print('faulty line:', repr(c['fault']['text']), 'class', c['fault']['cls'], 'expected', r.get('want'))
    for k, v in r['outcome'].items():
        print('  compress={}: {}'.format(k, decode_reply(v, r.get('root', ''))))
    for p in r['problems']:
        print('  ', p['via'], 'compress=%s' % p['compress'], p['kind'], p['msg'])
    if r['problems']:
        print('VIOLATION property={} replay={}'.format(PROP, path))
        return 1
    print('replayed case no longer violates', PROP)
    return 0


def run(tier, replay):
    if replay:
        return replay_case(replay)
    rep = common.Report(PROP, tier, level=obligations.LEVEL.get(PROP, 'proof'))
    ob = common.check_obligations(PROP, obligations.THEOREMS.get(PROP, []))
    n = 8640 if tier == "quick" else 86400
    step = 24
    jobs = [(common.seed(), lo, min(n, lo + step), tier) for lo in range(0, n, step)]
    ctx = mp.get_context('fork')
    with ctx.Pool(min(16, os.cpu_count() or 4)) as pool:
        chunks = pool.map(chunk_worker, jobs, chunksize=1)
    kf = known.Known(PROP)
    corr_diff = []
    depth_hist = {}
    for chunk in chunks:
        for r in chunk:
            if r.get('skipped'):
                rep.count('skipped_no_valid_control')
                continue
            case = r['case']
            f = case['fault']
            rep.evaluations += 1
            rep.count('class_' + f['cls'])
            rep.count('position_' + f['position'])
            rep.count('fault_depth_%d' % case['fault_depth'])
            rep.count('input_' + ('source-string' if case['as_string'] else 'file-tree'))
            depth_hist[case['depth']] = depth_hist.get(case['depth'], 0) + 1
            rep.nontrivial((f['cls'], f['variant'].split(':')[0], case['fault_depth'], f['position']))
            for c, o in r['outcome'].items():
                rep.count('outcome_%s_%s' % ('c' if c else 'nc', o.split()[0] + ('_' + o.split()[1] if o.startswith('internal') else '')))
            if 'dup_reported' in r:
                rep.count('duplicate_label_reported_at_' + r['dup_reported'] + '_definition')
            if r['cli']:
                rep.count('cli_runs', len(r['cli']))
                rep.count('cli_nonzero_exit', sum(1 for x in r['cli'] if x != 0))
            for c, v in r.get('corr', {}).items():
                rep.count('model_vs_impl_' + v)
            for w in r.get('unsupported_why', []):
                rep.count('model_unsupported:' + w)
            oracle_failed = False
            for p in r['problems']:
                kc = case_for_known(case, p)
                if kf.matches(kc):
                    rep.count('known_finding_suppressed')
                    oracle_failed = True
                    continue
                oracle_failed = True
                rep.violation('{} compress={} class={} variant={} line {!r}: {}'.format(
                    p['via'], p['compress'], f['cls'], f['variant'], f['text'], p['msg']), dict(case=kc))
            for d in r.get('corr_diff', []):
                if not oracle_failed:
                    corr_diff.append(dict(case=case_for_known(case, dict(compress=d['compress'], kind='correspondence', msg='', via='model')), **d))
            if len(rep.samples) < 6 and case['depth'] == len(rep.samples) % 4:
                rep.sample(dict(fault=f, files=case['files'], expected=case['where']['fault'], outcome={str(k): decode_reply(v, r.get('root', '')) for k, v in r['outcome'].items()}))
    kf.report(rep)
    rep.cov['programs'] = rep.evaluations
    rep.cov['include_depth_histogram'] = {str(k): v for k, v in sorted(depth_hist.items())}
    rep.cov['model_vs_impl_disagreements'] = len(corr_diff)
    rep.cov['traces_validated_against_impl'] = rep.counters.get('model_vs_impl_same', 0)
    rep.cov['rule'] = ('case i: fault class = i mod 9 (range, register, label, constant, malformed, nonint, duplicate, error, include), '
                       'position = first/middle/last/random line of a seeded valid base program (progs.gen_program, control assembles in '
                       'both modes), include depth = (i div 36) mod 4 with the faulty line at a seeded depth; variants drawn from the tables '
                       'of harness/faultplant.py (instructions, pseudo-instructions, data directives, explicit c.* mnemonics, lines a '
                       'compression rule inspects). Each case assembled with and without -c through asm.assemble(); ~10% also through the '
                       'command line. non-trivial = distinct (class, variant template, fault depth, position).')
    rep.assumptions += ['wrong operand counts, unknown mnemonics/pack formats, align 0 and include cycles are not among the listed fault classes and are not planted',
                        'for a duplicated label either definition\'s line satisfies the oracle (counted separately); the model correspondence demands the second',
                        'a planted line that is not refused at all is not a C15 matter (counted as differ-not-refused against the model)',
                        'source files are written as UTF-8 and read by an interpreter in UTF-8 mode (PYTHONUTF8=1 for the command line); non-ASCII text is modelled in string / error text and comments, elsewhere it is outside the model (unsupported) and the oracle still judges it']
    if not rep.violations and ob['failed']:
        rep.violation('proof obligation no longer checks: {} ({})'.format(ob['failed'][0][0], ob['failed'][0][1][:300]),
                      dict(theorem=ob['failed'][0][0], detail=ob['failed'][0][1]), no_input=True)
    elif not rep.violations and corr_diff:
        d = corr_diff[0]
        rep.violation('correspondence assembleText (Lean model) vs asm.assemble broke on {} faulty programs; first: line {!r} compress={} model {} / impl {}'.format(
            len(corr_diff), d['case']['line'], d['compress'], d['model'], d['impl']),
            dict(correspondence='BB.assembleText vs asm.assemble (error class and location)', case=d['case'], model=d['model'], impl=d['impl']), no_input=True)
    return rep.finish(obligations=ob if ob['obligations'] else None)
