"""C16 - assembly is a pure, deterministic function of its inputs.

(1) HISTORIES.  A global pool of programs (valid ones of every kind from progs.gen_program, failing
    ones from C15's fault planting, and *cross-reference* pairs: program X defines a label / constant
    that program Y uses without defining it) is assembled through seeded histories of 5-50
    asm.assemble() calls, several histories per worker interpreter: different programs in different
    orders, failing calls interleaved, both modes, and every way of passing the dictionaries -
    fresh `labels={}`/`constants={}`, no dictionaries at all, dictionaries used by an EARLIER call and
    then `.clear()`ed, separately built dictionaries of EQUAL contents (`constants={'PRE_K': 7}`), and
    (results ignored, as noise) dictionaries left dirty by an earlier call.
    Every observed result (bytes, ordered labels, ordered constants | error class + file + line) must
    equal (a) every other observation of the same (program, mode, dictionary-input class) anywhere
    in any history of any worker and (b) the reply of the history-free Lean model (`asms`).
    Around each history the module-level tables (REGISTERS, INSTRUCTIONS, every *_TYPE_INSTRUCTIONS,
    PSEUDO_INSTRUCTIONS, BASE_OFFSET_INSTRUCTIONS, NUMERIC_SEQUENCE_NAMES, SHORTHAND_PACK_NAMES, KEYWORDS)
    are snapshotted: same keys, same values (identity for the encoder partials, equality for ints),
    same iteration order for the dicts.
(2) FRESH PROCESSES.  The command line on a handful of programs under 8 PYTHONHASHSEED values
    (0, fixed ones, `random`): -o bytes, -l text and the -v listing identical across seeds and equal
    to the in-process result.

Interpretation (DESIGN section 5 C16): the dictionaries a caller passes in are INPUTS; a
pre-populated, non-cleared dictionary is a different input and is never compared with the
empty-dictionary result.
"""
import json
import multiprocessing as mp
import os
import shutil
import subprocess
import tempfile

from harness import common, corr, faultplant, obligations, progs

PROP = 'C16'
PY = '/venv/bin/python'
TABLE_NAMES = ['REGISTERS', 'INSTRUCTIONS', 'PSEUDO_INSTRUCTIONS', 'BASE_OFFSET_INSTRUCTIONS', 'NUMERIC_SEQUENCE_NAMES',
               'SHORTHAND_PACK_NAMES', 'KEYWORDS']
MODES = ['fresh', 'none', 'reused-cleared', 'equal-contents', 'dirty']
HASH_SEEDS = ['0', '1', '2', '42', '12345', '4294967295', 'random', 'random']


# ---------------------------------------------------------------------------------------------
# the pool
# ---------------------------------------------------------------------------------------------

CASE_REGS = ['A0', 'T0', 'SP', 'S1', 'X5', 'Zero', 'Ra', 'fP', 'A1', 'T1']


def tree_group(rnd, gid, root):
    """a small project of files: main.asm / main2.asm include lib/util.asm, which includes hw_defs.asm (and on odd
    gids include_bytes fw.bin) that live ONLY in ext/ - so the same main file fails inside the nested include with
    include_dirs=None and assembles with include_dirs=[ext]: the include_dirs input decides, never the history"""
    d = 'g%d/' % gid
    base = rnd.choice([0x40000000, 0x08000000, 0x20000000]) + 16 * gid
    util = ['# utility routines', 'include hw_defs.asm', 'util_fn%d:' % gid, '    li t0, HW_BASE', '    lw t1, CTRL_OFF(t0)', '    ret']
    if gid % 2:
        util += ['fw_blob%d:' % gid, 'include_bytes fw.bin', '    align 4']
    files = {
        d + 'main.asm': '\n'.join(['start%d:' % gid, '    addi sp, sp, -16', 'include lib/util.asm', '    call util_fn%d' % gid,
                                    '    j start%d' % gid] + ['    nop'] * rnd.randrange(0, 4)) + '\n',
        d + 'main2.asm': '\n'.join(['# second program of the project', '    nop', 'entry%d:' % gid, '    tail util_fn%d' % gid, '',
                                     'include "lib/util.asm"', '    dw HW_BASE + %d' % rnd.randrange(1, 99)]) + '\n',
        d + 'lib/util.asm': '\n'.join(util) + '\n',
        d + 'ext/hw_defs.asm': 'HW_BASE = 0x%x\nCTRL_OFF = %d\n' % (base, 4 * rnd.randrange(0, 8)),
        d + 'ext/fw.bin': bytes(rnd.randrange(256) for _ in range(4 * rnd.randrange(1, 4))),
        d + 'empty/readme.txt': 'nothing to include here\n',
    }
    ext, empty = os.path.join(root, d, 'ext'), os.path.join(root, d, 'empty')
    main, main2 = os.path.join(root, d, 'main.asm'), os.path.join(root, d, 'main2.asm')
    progs_ = [dict(kind='tree-nodirs', path=main, include_dirs=None), dict(kind='tree-ext', path=main, include_dirs=[ext]),
              dict(kind='tree-ext-main2', path=main2, include_dirs=[ext]), dict(kind='tree-empty-ext', path=main, include_dirs=[empty, ext]),
              dict(kind='tree-nodirs-main2', path=main2, include_dirs=[])]
    # twin projects: the same file names, the same sizes (and, once unpacked, the same timestamps) in two directories, the
    # contents differ - a name, a size or a timestamp identifies no file, only its path does
    va, vb = rnd.sample(range(0x40020000, 0x40030000, 0x400), 2)
    for tag, v in (('a', va), ('b', vb)):
        files[d + 'tw%s/main.asm' % tag] = 'include config.asm\nmain%d:\n    li t0, BASE\n    lw t1, CTRL(t0)\n    j main%d\n' % (gid, gid)
        files[d + 'tw%s/config.asm' % tag] = 'BASE = 0x%08x\nCTRL = %d\n' % (v, 4 if tag == 'a' else 8)
        progs_.append(dict(kind='twin-' + tag, path=os.path.join(root, d, 'tw' + tag, 'main.asm'), include_dirs=None))
    for q in progs_:
        q.update(files=files, troot=os.path.join(root, 'g%d' % gid), group='tree%d' % gid)
    return progs_


def fault_tree(asm, rnd, gid, root):
    """a C15 case (or, every other time, a valid program) cut into an include tree of depth 1-2 under root/f<gid>/"""
    d = 'f%d/' % gid
    if gid % 2:
        cls = faultplant.CLASSES[rnd.randrange(len(faultplant.CLASSES))]
        got = faultplant.plant(asm, rnd, cls, rnd.choice(faultplant.POSITIONS), escapes=False)
        if got is None:
            return []
        flat, f = got
        if '{ROOT}' in f['text']:
            return []
        depth = rnd.randrange(1, 3)
        tree = faultplant.build_tree(rnd, flat, depth, rnd.randrange(0, depth + 1))
        kind = 'tree-failing:' + f['cls']
    else:
        flat = [[t, None] for t in faultplant.base_program(asm, rnd)]
        tree = faultplant.build_tree(rnd, flat, rnd.randrange(1, 3), None)
        kind = 'tree-valid'
    files = {d + k: '\n'.join(v) + '\n' for k, v in tree.files.items()}
    return [dict(kind=kind, path=os.path.join(root, d, 'main.asm'), include_dirs=None, files=files,
                 troot=os.path.join(root, 'f%d' % gid), group='ftree%d' % gid)]


def materialise_pool(pool, root):
    for p in pool:
        for rel, content in (p.get('files') or {}).items():
            path = os.path.join(root, rel)
            if os.path.exists(path):
                continue
            os.makedirs(os.path.dirname(path), exist_ok=True)
            with open(path, 'wb') as f:
                f.write(content if isinstance(content, bytes) else content.encode('utf-8'))
            # one timestamp for every file, as after a fresh checkout or unpacking an archive: files of different projects
            # then share name, size and mtime, and only their directory tells them apart
            os.utime(path, (1700000000, 1700000000))


def make_pool(asm, n, root='/nonexistent-bbc16'):
    """deterministic in (VERIF_SEED, root): list of dict(id, kind, src | path + include_dirs + files)"""
    pool = []
    rnd = common.rng('c16:pool')
    i = 0
    while len(pool) < n:
        k = i % 12
        i += 1
        if k == 10:
            # register spellings in another case: refused today; a call that "learns" a spelling must not change what
            # later programs mean whose constants mention (BASE = A0 + 1) or are named like (T0 = 3) that spelling
            a, b, c = rnd.sample(CASE_REGS, 3)
            g = 'case%d' % len(pool)
            pool.append(dict(kind='case-reg-use', group=g, src='    add %s, %s, %s\n    lw %s, 4(%s)\n' % (a, b, c, c, a)))
            pool.append(dict(kind='case-reg-use', group=g, src='    nop\n    slli x5, x5, %s\n    mv %s, x1\n' % (b, c)))
            pool.append(dict(kind='case-reg-const-expr', group=g, src='BASE = %s + 1\n    li t0, BASE\n' % a))
            pool.append(dict(kind='case-reg-const-name', group=g, src='%s = 3\n    addi x5, x5, %s\n    slli x6, x6, %s\n' % (b, b, b)))
            pool.append(dict(kind='case-reg-const-name', group=g, src='%s = 9\nlab%d:\n    li x7, %s * 2\n' % (c, len(pool), c)))
            continue
        if k == 11:
            gid = len(pool)
            pool.extend(tree_group(rnd, gid, root))
            pool.extend(fault_tree(asm, rnd, gid + 1000, root))
            continue
        if k < 5:
            lines = progs.gen_program(rnd, size=rnd.randrange(3, 30), fillers=rnd.random() < 0.3)
            src = progs.source(lines)        # (strings and comments of generated programs may hold non-ASCII text: modelled)
            pool.append(dict(kind='generated', src=src))
        elif k < 8:
            cls = faultplant.CLASSES[rnd.randrange(len(faultplant.CLASSES))]
            got = faultplant.plant(asm, rnd, cls, rnd.choice(faultplant.POSITIONS), escapes=False)
            if got is None:
                continue
            flat, f = got
            pool.append(dict(kind='failing:' + f['cls'], src='\n'.join(t for t, _ in flat) + '\n'))
        elif k == 8:
            # X defines what Y lacks: Y assembles only if state leaks from X's call
            tag = len(pool)
            lab, con = 'SHARED_T%d' % tag, 'SHARED_K%d' % tag
            pool.append(dict(kind='xref-def', group='xref%d' % tag, src='%s = 5\n    addi x8, x8, 1\n%s:\n    j %s\n    addi x5, x0, %s\n' % (con, lab, lab, con)))
            pool.append(dict(kind='xref-use-label', group='xref%d' % tag, src='    addi x8, x8, 1\n    j %s\n    dw %s\n' % (lab, lab)))
            pool.append(dict(kind='xref-use-const', group='xref%d' % tag, src='    addi x5, x0, %s\nlocal%d:\n    li t0, %s + 1\n' % (con, tag, con)))
        else:
            # same label / constant NAMES as other programs with different values (stale-cache bait)
            v = rnd.randrange(1, 30)
            # the constant's name also varies over spellings that look like hex digits / number fragments: a cache keyed on
            # the expression TEXT must not take `ADC` or `BEEF` for a literal
            nm = rnd.choice(['K0', 'K0', 'ADC', 'DAC', 'BEEF', 'CAFE', 'FACE', 'a', 'b', 'ab', 'A', 'x_1', 'E1', 'b_0'])
            # ... in threes (the same name, three values), so that whichever history meets one of them meets the others
            for v in rnd.sample(range(1, 30), 3):
                pool.append(dict(kind='same-names', group='sn_' + nm, src='%s = %d\nL0:\n%s    addi x5, x5, %s\n    li x6, %s + 1\n    j L0\nL1:\n    dw L1\n' % (
                    nm, v, '    nop\n' * rnd.randrange(0, 6), nm, nm)))
    # Python-only syntax that BINDS a name while a constant is evaluated: whatever it does, it does to this call only
    pool.append(dict(kind='walrus', group='walrus', src='N_W = 3\nAREA_W = (k_w := N_W + 1) * k_w\n    dw AREA_W\n'))
    pool.append(dict(kind='walrus', group='walrus', src='k_w = 7\nt0_w = (t0 := 31)\n    addi t0, x0, 1\n    dw k_w\n'))
    pool.append(dict(kind='walrus', group='walrus', src='    addi x5, x0, 1\nk_w = 9\n    dw k_w\n'))
    # a legacy source file that is not UTF-8, and UTF-8 files with non-ASCII text: how one file was decoded says nothing about the next
    enc = {'e/legacy.asm': 'start_l:\n    string caf\u00e9\n    align 4\n    j start_l\n'.encode('latin-1'),
           'e/utf8.asm': 'start_u:\n    string gr\u00fc\u00dfe \u2192 \u65e5\u672c\n    align 4\nafter_u:\n    j after_u\n'.encode('utf-8'),
           'e/utf8b.asm': '# \u00fcber\n    string \u00e9\u00e8\nend_b:\n    dw end_b\n'.encode('utf-8')}
    for rel in sorted(enc):
        pool.append(dict(kind='encoding:' + rel.split('/')[1], group='encoding', path=os.path.join(root, rel), include_dirs=None, files=enc,
                         troot=os.path.join(root, 'e')))
    # one project directory whose included file is rewritten between calls: three variants of the same length
    for tag, v in (('a', 0x11), ('b', 0x22), ('c', 0x33)):
        fl = {'main.asm': 'include cfg.asm\nrw_entry:\n    li t0, RW_BASE\n    addi t1, t1, RW_STEP\n    j rw_entry\n',
              'cfg.asm': 'RW_BASE = 0x400%02x000\nRW_STEP = %d\n' % (v, v % 7 + 1)}
        pool.append(dict(kind='rewritten-' + tag, group='rewrite', path=os.path.join(root, 'rw', 'w0', 'main.asm'), include_dirs=None,
                         rewrite=fl, files={'rw/w0/' + k: c for k, c in fl.items()}, troot=os.path.join(root, 'rw')))
    for j, p in enumerate(pool):
        p['id'] = j
    return pool


# ---------------------------------------------------------------------------------------------
# one call
# ---------------------------------------------------------------------------------------------

def dshow(d):
    return ','.join('%s=%d' % (common.hexs(k), v) for k, v in d.items()) or '-'


def call(asm, prog, compress, mode, state):
    """-> canonical result string ; state carries the dictionaries of earlier calls.  `prog` = a pool entry:
    source text (`src`) or a file (`path`) with its `include_dirs` input"""
    kw = {}
    labels = constants = None
    if 'path' in prog:
        src = prog['path']
        if prog.get('rewrite'):
            # the project is written out anew before this call (same paths, same sizes, same timestamps as whatever variant
            # was there before): what is assembled is what the files hold NOW
            wdir = os.path.join(state.get('_root', os.path.dirname(os.path.dirname(src))), 'rw', 'w%d' % state.get('_wid', 0))
            os.makedirs(wdir, exist_ok=True)
            for rel, content in prog['rewrite'].items():
                with open(os.path.join(wdir, rel), 'wb') as f:
                    f.write(content.encode('utf-8'))
                os.utime(os.path.join(wdir, rel), (1700000000, 1700000000))
            src = os.path.join(wdir, 'main.asm')
        extra = dict(include_dirs=(list(prog['include_dirs']) if prog['include_dirs'] is not None else None))
    else:
        src, extra = prog['src'], {}
    if mode == 'fresh':
        labels, constants = {}, {}
    elif mode == 'reused-cleared':
        labels, constants = state.get('labels'), state.get('constants')
        if labels is None:
            labels, constants = {}, {}
        labels.clear()
        constants.clear()
    elif mode == 'equal-contents':
        labels, constants = {}, dict([('PRE_K', 7)])
    elif mode == 'dirty':
        labels, constants = state.get('labels'), state.get('constants')
        if labels is None:
            labels, constants = {'STALE_L': 12}, {'STALE_K': 3}
    if labels is not None:
        kw = dict(labels=labels, constants=constants)
    try:
        out = bytes(asm.assemble(src, compress=compress, **kw, **extra))
        if mode == 'none':
            res = 'ok %s' % (out.hex() or '-')
        else:
            res = 'ok %s L %s K %s' % (out.hex() or '-', dshow(labels), dshow(constants))
    except asm.AssemblerError as e:
        res = 'err asm %s %d' % (common.hexs(str(getattr(e.line, 'file', None))), getattr(e.line, 'number', None) or 0)
    except RecursionError:
        res = 'internal RecursionError'
    except Exception as e:
        res = 'internal ' + type(e).__name__
    if labels is not None:
        state['labels'], state['constants'] = labels, constants
    return res


def snapshot(asm):
    """the module-level tables, in a form that compares keys, values and (for dicts) order"""
    snap = {}
    names = list(TABLE_NAMES) + sorted(n for n in vars(asm) if n.endswith('_TYPE_INSTRUCTIONS') or n == 'FENCE_INSTRUCTIONS')
    for n in names:
        t = getattr(asm, n, None)
        if isinstance(t, dict):
            items = []
            for k, v in t.items():
                if isinstance(v, int):
                    items.append((repr(k), v))
                else:
                    items.append((repr(k), id(v), getattr(getattr(v, 'func', None), '__name__', None),
                                  repr(getattr(v, 'args', None)), repr(getattr(v, 'keywords', None))))
            snap[n] = ('dict', id(t), items)
        elif isinstance(t, (set, frozenset)):
            snap[n] = ('set', id(t), sorted(map(repr, t)))
        else:
            snap[n] = ('other', id(t), repr(t))
    # process-wide state a call could leave behind: the working directory (relative paths and includes of later calls hang on it)
    snap['(process working directory)'] = ('other', 0, os.getcwd())
    return snap


def other_state(asm):
    """observation only: every other module-level container and the defaults of assemble()"""
    out = {}
    for n, v in vars(asm).items():
        if n in TABLE_NAMES or n.endswith('_INSTRUCTIONS') or n.startswith('__'):
            continue
        if isinstance(v, (dict, list, set)):
            out['global ' + n] = repr(v)[:2000]
        elif isinstance(v, (int, str)) and not callable(v) and n.upper() != n:
            out['global ' + n] = repr(v)[:200]
    for fn in ('assemble', 'read_lines', 'resolve_labels', 'resolve_constants'):
        f = getattr(asm, fn, None)
        if f is not None:
            out['defaults ' + fn] = repr((f.__defaults__, f.__kwdefaults__))[:2000]
    return out


def diff_snap(a, b):
    for n in a:
        if n not in b or a[n] != b[n]:
            kind = a[n][0]
            if kind == 'dict' and n in b and b[n][0] == 'dict':
                ka, kb = [x[0] for x in a[n][2]], [x[0] for x in b[n][2]]
                if sorted(ka) != sorted(kb):
                    return '{}: keys changed (added {}, removed {})'.format(n, sorted(set(kb) - set(ka))[:5], sorted(set(ka) - set(kb))[:5])
                if ka != kb:
                    return '{}: iteration order changed'.format(n)
                ch = [x[0] for x, y in zip(a[n][2], b[n][2]) if x != y]
                return '{}: values changed for keys {}'.format(n, ch[:5])
            if kind == 'set' and n in b:
                return '{}: members changed (added {}, removed {})'.format(n, sorted(set(b[n][2]) - set(a[n][2]))[:5], sorted(set(a[n][2]) - set(b[n][2]))[:5])
            return '{}: changed ({!r} -> {!r})'.format(n, a[n][2], b[n][2]) if a[n][0] == 'other' and n in b else '{}: changed'.format(n)
    for n in b:
        if n not in a:
            return '{}: appeared'.format(n)
    return None


def history_plan(rnd, pool_n, groups=None):
    """[(program id, compress, mode)] of length 5-50 over ~12 programs (+ the group siblings of up to two of them)"""
    k = min(pool_n, rnd.randrange(8, 16))
    mine = rnd.sample(range(pool_n), k)
    if groups:
        added = 0
        for pid in list(mine):
            sib = groups.get(pid)
            if sib and added < 2:
                mine += [q for q in sib if q not in mine]
                added += 1
    n = rnd.randrange(5, 51)
    plan = []
    for _ in range(n):
        plan.append((rnd.choice(mine), rnd.random() < 0.5, rnd.choices(MODES, weights=[4, 3, 3, 2, 2])[0]))
    return plan


def group_map(pool):
    g = {}
    for p in pool:
        if p.get('group'):
            g.setdefault(p['group'], []).append(p['id'])
    return {p['id']: g[p['group']] for p in pool if p.get('group')}


def show(prog):
    """a pool entry, for messages and replay files"""
    if 'path' in prog:
        return dict(kind=prog['kind'], path=prog['path'], include_dirs=prog['include_dirs'],
                    files={k: (v if isinstance(v, str) else v.hex()) for k, v in prog['files'].items()})
    return dict(kind=prog['kind'], src=prog['src'])


def model_request(prog, compress):
    if 'path' not in prog:
        return corr.request(prog['src'], compress)
    troot = prog['troot']
    root = os.path.dirname(troot)
    files = sorted(prog['files'].items())
    dirs = set([troot])
    for rel, _ in files:
        d = os.path.dirname(os.path.join(root, rel))
        while len(d) >= len(troot):
            dirs.add(d)
            d = os.path.dirname(d)
    inc = prog['include_dirs'] or []
    toks = ['asmfs', '1' if compress else '0', common.hexs(troot), 'p', common.hexs(prog['path']), str(len(inc))]
    toks += [common.hexs(d) for d in inc]
    toks.append(str(len(files)))
    for rel, content in files:
        toks += [common.hexs(os.path.join(root, rel)), common.hexs(content)]
    toks.append(str(len(dirs)))
    toks += [common.hexs(d) for d in sorted(dirs)]
    return ' '.join(toks)


def worker(args):
    """one interpreter: several histories one after the other"""
    seedv, wid, n_hist, pool_n, root = args
    os.environ['VERIF_SEED'] = str(seedv)
    asm = progs.get_asm()
    pool = make_pool(asm, pool_n, root)
    groups = group_map(pool)
    if os.path.isdir(root):
        os.chdir(root)
    out = dict(wid=wid, obs=[], table_changes=[], other_changes=[], histories=[], calls=[])
    for h in range(n_hist):
        rnd = common.rng('c16:hist:%d:%d' % (wid, h))
        plan = history_plan(rnd, len(pool), groups)
        before = snapshot(asm)
        obefore = other_state(asm)
        state = {'_wid': wid, '_root': root}
        trace = []
        for step, (pid, compress, mode) in enumerate(plan):
            res = call(asm, pool[pid], compress, mode, state)
            trace.append((pid, compress, mode))
            out['calls'].append((pid, compress, mode))
            if mode != 'dirty':
                out['obs'].append((pid, compress, mode, res, wid, h, step, len(out['calls'])))
        after = snapshot(asm)
        d = diff_snap(before, after)
        if d:
            out['table_changes'].append(dict(wid=wid, history=h, change=d, plan=list(out['calls'])))
        oafter = other_state(asm)
        for k in oafter:
            if obefore.get(k) != oafter[k]:
                out['other_changes'].append(dict(wid=wid, history=h, what=k, before=obefore.get(k, '(absent)')[:200], after=oafter[k][:200]))
        out['histories'].append(plan)
    return out


def expected_from_model(reply, mode):
    """what a call in `mode` must show when the model (fresh dictionaries) replies `reply`"""
    if not reply.startswith('ok '):
        return reply
    t = reply.split()      # ok <hex> L <labels> K <consts>
    if mode == 'none':
        return 'ok ' + t[1]
    if mode == 'equal-contents':
        pre = '%s=7' % common.hexs('PRE_K')
        k = pre if t[5] == '-' else pre + ',' + t[5]
        return ' '.join(t[:5] + [k])
    return reply


# ---------------------------------------------------------------------------------------------
# fresh processes
# ---------------------------------------------------------------------------------------------

def cli_include_cases(root):
    """programs whose include is found through -i directories that ALL hold a file of that name with different
    contents: the search order (= command-line order, then the including file's directory) decides what is assembled"""
    names = ['inc_a', 'inc_b', 'inc_c', 'inc_d']
    for k, d in enumerate(names):
        os.makedirs(os.path.join(root, d), exist_ok=True)
        with open(os.path.join(root, d, 'board.asm'), 'w') as f:
            f.write('BOARD_ID = %d\nboard_%s:\n%s    li t0, BOARD_ID\n' % (k + 1, d, '    nop\n' * k))
        with open(os.path.join(root, d, 'GD32VF103.asm'), 'w') as f:        # shadows a file of --include-definitions
            f.write('RCU_BASE_ADDR = 0x%x\nlocal_defs_%s:\n' % (0x1000 * (k + 1), d))
    os.makedirs(os.path.join(root, 'proj'), exist_ok=True)
    with open(os.path.join(root, 'use_board.asm'), 'w') as f:
        f.write('start:\n    nop\ninclude board.asm\n    dw BOARD_ID\nend:\n')
    with open(os.path.join(root, 'use_defs.asm'), 'w') as f:
        f.write('include GD32VF103.asm\n    li t0, RCU_BASE_ADDR\nafter:\n')
    cases = []
    for nm, main, dirs, more in [('incAB', 'use_board', ['inc_a', 'inc_b'], []), ('incBA', 'use_board', ['inc_b', 'inc_a'], []),
                                 ('incCBA', 'use_board', ['inc_c', 'inc_b', 'inc_a'], []),
                                 ('incDCBA', 'use_board', ['inc_d', 'inc_c', 'inc_b', 'inc_a'], []),
                                 ('incABdup', 'use_board', ['inc_a', 'inc_b', './inc_a'], []),
                                 ('defsA', 'use_defs', ['inc_a'], ['--include-definitions']),
                                 ('defsBA', 'use_defs', ['inc_b', 'inc_a'], ['--include-definitions'])]:
        args = []
        for d in dirs:
            args += ['-i', d]
        cases.append(dict(id=-2, kind='cli-include:' + nm, name=main, tag=nm, cli_args=args + more,
                          include_dirs=[os.path.abspath(os.path.join(root, d)) for d in dirs], definitions=bool(more),
                          src=open(os.path.join(root, main + '.asm')).read()))
    return cases


def cli_run(root, name, compress, hashseed, repo, slot=0, extra=(), tag=None):
    env = dict(os.environ, PYTHONPATH=repo, PYTHONHASHSEED=hashseed)
    tag = '%s_%d_%d' % (tag or name, 1 if compress else 0, slot)      # one output pair per (parallel) run
    o, l = os.path.join(root, tag + '.bin'), os.path.join(root, tag + '.lbl')
    for p in (o, l):
        if os.path.exists(p):
            os.remove(p)
    cmd = [PY, '-m', 'bronzebeard.asm', name + '.asm', '-v', '-o', o, '-l', l] + (['-c'] if compress else []) + list(extra)
    p = subprocess.run(cmd, cwd=root, env=env, stdout=subprocess.PIPE, stderr=subprocess.PIPE, timeout=300)
    ob = open(o, 'rb').read() if os.path.exists(o) else None
    lt = open(l).read() if os.path.exists(l) else None
    return dict(rc=p.returncode, out=ob, labels=lt, stdout=p.stdout.decode('utf-8', 'replace'), stderr=p.stderr.decode('utf-8', 'replace')[-400:])


def cli_job(args):
    root, name, compress, hs, repo, slot, extra, tag = args
    r = cli_run(root, name, compress, hs, repo, slot, extra, tag)
    return (tag, compress, hs, r)


def run(tier, replay):
    if replay:
        return replay_case(replay)
    rep = common.Report(PROP, tier, level=obligations.LEVEL.get(PROP, 'translation_validation'))
    ob = common.check_obligations(PROP, obligations.THEOREMS.get(PROP, []))
    asm = progs.get_asm()
    quick = tier == 'quick'
    pool_n = 120 if quick else 360
    n_workers = 16 if quick else 64
    n_hist = 12 if quick else 25
    proot = os.path.realpath(tempfile.mkdtemp(prefix='bbc16p-'))
    ctx = mp.get_context('fork')
    try:
        pool = make_pool(asm, pool_n, proot)
        materialise_pool(pool, proot)
        with ctx.Pool(min(16, os.cpu_count() or 4)) as p:
            outs = p.map(worker, [(common.seed(), w, n_hist, pool_n, proot) for w in range(n_workers)], chunksize=1)
    finally:
        shutil.rmtree(proot, ignore_errors=True)
    # model replies, once per (program, mode) - the model has no history at all
    keys = sorted(set((pid, c) for o in outs for (pid, c, *_r) in o['obs']))
    replies = common.drv([model_request(pool[pid], c) for pid, c in keys])
    model = dict(zip(keys, replies))
    table = {}       # (pid, compress, result class) -> first observation
    disagreements = []
    n_hist_total = 0
    for o in outs:
        n_hist_total += len(o['histories'])
        for ch in o['table_changes']:
            rep.violation('module-level table changed during a history of assemble() calls: {}'.format(ch['change']),
                          dict(case=dict(kind='table-change', plan=ch['plan'], change=ch['change'], pool_n=pool_n)))
        for ch in o['other_changes']:
            rep.count('observation_other_module_state_changed:' + ch['what'])
        for (pid, c, mode, res, wid, h, step, ncalls) in o['obs']:
            rep.evaluations += 1
            rep.count('calls_mode_' + mode)
            rep.count('calls_' + pool[pid]['kind'].split(':')[0])
            rep.count('outcome_' + res.split()[0] + ('_' + res.split()[1] if res.startswith('internal') else ''))
            rep.nontrivial((pid, c, mode))
            cls = 'none' if mode == 'none' else ('pre' if mode == 'equal-contents' else 'empty')
            first = table.setdefault((pid, c, cls), (res, wid, h, step, mode))
            if first[0] != res:
                disagreements.append(dict(kind='history', pid=pid, compress=c, mode=mode, got=res[:300], first=first[0][:300],
                                          where=(wid, h, step), first_where=first[1:4], first_mode=first[4],
                                          plan=outs[wid]['calls'][:ncalls]))
            m = model[(pid, c)]
            if m.startswith('unsupported'):
                rep.count('model_unsupported')
            else:
                want = expected_from_model(m, mode)
                if want == res:
                    rep.count('model_vs_impl_same')
                else:
                    rep.count('model_vs_impl_differ')
                    disagreements.append(dict(kind='model', pid=pid, compress=c, mode=mode, got=res[:300], model=want[:300],
                                              where=(wid, h, step), plan=outs[wid]['calls'][:ncalls]))
    hist_dis = [d for d in disagreements if d['kind'] == 'history']
    model_dis = [d for d in disagreements if d['kind'] == 'model']
    # a model disagreement that shows at SOME occurrence of a call but not at others is history dependence;
    # one that shows at every occurrence is a plain model/implementation difference (not C16's to judge)
    same_count = {}
    for o in outs:
        for (pid, c, mode, res, *_r) in o['obs']:
            same_count.setdefault((pid, c, mode), set()).add(res)
    seen = set()
    for d in hist_dis:
        k = (d['pid'], d['compress'], d['mode'], d['got'])
        if k in seen:
            continue
        seen.add(k)
        rep.violation('history dependence: program {} ({}) compress={} mode={} gave {} at (worker, history, call) {} but {} at {} (mode {})'.format(
            d['pid'], pool[d['pid']]['kind'], d['compress'], d['mode'], d['got'][:100], d['where'], d['first'][:100], d['first_where'], d['first_mode']),
            dict(case=dict(d, program=show(pool[d['pid']]), pool_n=pool_n)))
    # ---- fresh processes ---------------------------------------------------------------------
    n_cli = 8 if quick else 32
    root = os.path.realpath(tempfile.mkdtemp(prefix='bbc16-'))
    cli_dis = 0
    try:
        rnd = common.rng('c16:cli')
        chosen = []
        cands = [p for p in pool if p['kind'] in ('generated', 'same-names', 'xref-def')] + [p for p in pool if p['kind'].startswith('failing')][:2]
        for p in cands:
            if len(chosen) >= n_cli:
                break
            chosen.append(p)
        # a program with many constants and labels: dict / set ordering would show here
        many = ''.join('C_%s = %d\n' % (w, i) for i, w in enumerate(['zeta', 'alpha', 'mid', 'Beta', 'k9', 'a', 'zz', 'Q', 'omega', 'b2'])) + \
            ''.join('%s:\n    addi x5, x5, C_zeta\n' % w for w in ['one', 'two', 'three', 'four', 'five', 'six', 'seven', 'eight'])
        chosen.append(dict(id=-1, kind='many-names', src=many))
        jobs = []
        for p in chosen:
            p['name'] = p['tag'] = 'p%d' % (p['id'] if p['id'] >= 0 else 9999)
            with open(os.path.join(root, p['name'] + '.asm'), 'w') as f:
                f.write(p['src'])
        chosen += cli_include_cases(root)
        for p in chosen:
            compress = rnd.random() < 0.5
            for slot, hs in enumerate(HASH_SEEDS):
                jobs.append((root, p['name'], compress, hs, common.REPO, slot, tuple(p.get('cli_args', ())), p['tag']))
        with ctx.Pool(min(16, os.cpu_count() or 4)) as pl:
            res = pl.map(cli_job, jobs, chunksize=1)
        byprog = {}
        for name, compress, hs, r in res:
            byprog.setdefault((name, compress), []).append((hs, r))
        for p in chosen:
            name = p['tag']
            for (nm, compress), runs in byprog.items():
                if nm != name:
                    continue
                rep.count('cli_programs_' + p['kind'].split(':')[0])
                rep.count('cli_runs', len(runs))
                ref = runs[0][1]
                for hs, r in runs[1:]:
                    for field in ('rc', 'out', 'labels', 'stdout'):
                        if r[field] != ref[field]:
                            cli_dis += 1
                            rep.violation('fresh processes: {} differs between PYTHONHASHSEED={} and {} for program {} (compress={})'.format(
                                {'rc': 'exit status', 'out': '-o bytes', 'labels': '-l text', 'stdout': '-v listing'}[field], runs[0][0], hs, name, compress),
                                dict(case=dict(kind='hashseed', program=p['src'], cli_args=list(p.get('cli_args', ())), include_case=p['kind'],
                                               compress=compress, seeds=[runs[0][0], hs], field=field,
                                               a=repr(ref[field])[:400], b=repr(r[field])[:400])))
                            break
                # equal to the in-process result
                lab, con = {}, {}
                try:
                    idirs = list(p.get('include_dirs', []))
                    if p.get('definitions'):
                        idirs.append(os.path.join(os.path.abspath(os.path.dirname(asm.__file__)), 'definitions'))
                    b = bytes(asm.assemble(os.path.join(root, p['name'] + '.asm'), compress=compress, labels=lab, constants=con, include_dirs=idirs))
                    want = (0, b, ''.join('{} 0x{:08x}\n'.format(k, v) for k, v in lab.items()))
                except asm.AssemblerError:
                    want = (1, None, None)
                got = (ref['rc'], ref['out'], ref['labels'])
                if got != want:
                    cli_dis += 1
                    rep.violation('fresh process result differs from the in-process result for program {} (compress={}): rc {} vs {}'.format(
                        name, compress, got[0], want[0]),
                        dict(case=dict(kind='cli-vs-inprocess', program=p['src'], cli_args=list(p.get('cli_args', ())), include_case=p['kind'],
                                       compress=compress, cli=repr(got)[:400], inproc=repr(want)[:400])))
                else:
                    rep.count('cli_equals_inprocess')
    finally:
        shutil.rmtree(root, ignore_errors=True)
    # ---- evidence ----------------------------------------------------------------------------
    rep.cov['programs'] = len(pool)
    rep.cov['histories'] = n_hist_total
    rep.cov['interpreters'] = len(outs)
    rep.cov['disagreements_checked'] = len(disagreements) + cli_dis
    rep.cov['distinct_calls_compared_with_model'] = len(keys)
    rep.cov['hash_seeds'] = HASH_SEEDS
    rep.cov['rule'] = ('pool of seeded programs (generated valid programs of every kind, programs with one planted fault of each C15 class, '
                       'cross-reference pairs, same-names programs, programs spelling registers in another case and programs whose constants mention or are named like such spellings, '
                       'FILE-based projects whose nested include is found only through include_dirs (same main file: fails with include_dirs=None, assembles with [ext]), '
                       'C15 cases cut into include trees); group siblings join a history together; each interpreter runs several histories of 5-50 assemble() calls over '
                       '~12 pool programs, modes fresh / none / reused-cleared / equal-contents / dirty(noise); every non-noise result is '
                       'compared with every other observation of the same (program, -c, dictionary-input class) and with the history-free '
                       'Lean model (asms / asmfs with the include dirs); module tables snapshotted around each history; CLI under 8 PYTHONHASHSEED values, '
                       'including programs run with 2-4 -i directories (and --include-definitions) that all hold a same-named include. '
                       'non-trivial = distinct (program, -c, mode) triples observed.')
    for o in outs[:2]:
        if o['histories']:
            rep.sample(dict(history=[(pid, pool[pid]['kind'], c, m) for pid, c, m in o['histories'][0][:12]]))
    rep.sample(dict(program=pool[0]['src'][:300], model=model.get((0, False), '')[:200]))
    rep.sample(dict(tree_program=next((show(p) for p in pool if 'path' in p), None)))
    rep.assumptions += ['caller dictionaries are inputs: a pre-populated non-cleared dictionary is a different input (such calls run as noise, their results are not compared)',
                        'pre-populated LABEL tables are outside the model (the label-shifting rule moves caller entries); only constants are pre-populated in equal-contents calls',
                        'interpreter-level state outside asm.py (import caches, logging handlers) is exercised by the histories, not modelled',
                        'changes of module-level objects other than the named tables are counted as observations, not failures (a correct memo cache would not violate C16)']
    if not rep.violations and ob['failed']:
        rep.violation('proof obligation no longer checks: {} ({})'.format(ob['failed'][0][0], ob['failed'][0][1][:300]),
                      dict(theorem=ob['failed'][0][0], detail=ob['failed'][0][1]), no_input=True)
    elif not rep.violations and model_dis:
        # history-INdependent difference between model and implementation: the tie broke, no failing input for C16
        d = model_dis[0]
        rep.violation('correspondence assembleText (history-free Lean model) vs asm.assemble inside histories broke on {} calls, the same way at every '
                      'occurrence; first: program {} ({}) compress={} mode={}: impl {} / model {}'.format(
                          len(model_dis), d['pid'], pool[d['pid']]['kind'], d['compress'], d['mode'], d['got'][:100], d['model'][:100]),
                      dict(correspondence='BB.Props.C16.standalone vs asm.assemble', case=dict(d, program=show(pool[d['pid']]), pool_n=pool_n)), no_input=True)
    return rep.finish(obligations=ob if ob['obligations'] else None)


def replay_case(path):
    d = json.load(open(path))
    c = d.get('case') or {}
    asm = progs.get_asm()
    kind = c.get('kind')
    if kind in ('history', 'table-change', 'model') and c.get('plan'):
        os.environ['VERIF_SEED'] = str(d.get('seed', 0))
        proot = os.path.realpath(tempfile.mkdtemp(prefix='bbc16p-'))
        try:
            pool = make_pool(asm, c.get('pool_n', 96), proot)
            materialise_pool(pool, proot)
            plan = [tuple(x) for x in c['plan']]
            before = snapshot(asm)
            state = {}
            last = None
            for pid, compress, mode in plan:
                last = call(asm, pool[pid], compress, mode, state)
            ch = diff_snap(before, snapshot(asm))
            pid, compress, mode = plan[-1]
            prog = {k: v for k, v in pool[pid].items() if k in ('src', 'path', 'include_dirs', 'kind')}
            alone = subprocess.run([PY, '-c', 'import sys, json; sys.path.insert(0, %r); sys.path.insert(0, %r)\n'
                                    'from harness import progs\nfrom harness.props import c16\nasm = progs.get_asm()\n'
                                    'print(c16.call(asm, json.loads(sys.stdin.read()), %r, %r, {}))' % (common.VERIF, common.REPO, compress, mode)],
                                   input=json.dumps(prog), stdout=subprocess.PIPE, text=True, env=dict(os.environ, PYTHONPATH=common.REPO)).stdout.strip()
        finally:
            shutil.rmtree(proot, ignore_errors=True)
        print('program                   :', json.dumps(show(pool[pid]))[:300])
        print('last call of the history  :', (last or '')[:160])
        print('same call, fresh process  :', alone[:160])
        if ch:
            print('module table change       :', ch)
        if ch or (mode != 'dirty' and last != alone):
            print('VIOLATION property={} replay={}'.format(PROP, path))
            return 1
        print('replayed history no longer violates', PROP)
        return 0
    if kind in ('hashseed', 'cli-vs-inprocess'):
        root = os.path.realpath(tempfile.mkdtemp(prefix='bbc16-'))
        try:
            cli_include_cases(root)
            open(os.path.join(root, 'p.asm'), 'w').write(c['program'])
            runs = [cli_run(root, 'p', c['compress'], hs, common.REPO, i, c.get('cli_args', ())) for i, hs in enumerate(HASH_SEEDS)]
        finally:
            shutil.rmtree(root, ignore_errors=True)
        bad = any((r['rc'], r['out'], r['labels'], r['stdout']) != (runs[0]['rc'], runs[0]['out'], runs[0]['labels'], runs[0]['stdout']) for r in runs)
        if bad:
            print('outputs differ between hash seeds', HASH_SEEDS, 'for', ['p.asm'] + list(c.get('cli_args', ())))
            print('VIOLATION property={} replay={}'.format(PROP, path))
            return 1
        print('replayed program gives identical outputs under', HASH_SEEDS)
        return 0
    print('replay file names no history:', d.get('what'))
    print('VIOLATION property={} replay={} no-failing-input-found'.format(PROP, path))
    return 1
