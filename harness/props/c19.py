"""C19 - DFU refuses oversize firmware untouched and never reports a failed flash as done.

Proof: BB.Props.C19.oversize_no_request, BB.Props.C19.device_error_not_done (and its single /
double injection corollaries) in lean/BB/Props/C19.lean.
Tie to /repo: the REAL bronzebeard.dfu.cli_main against the LEAN device (harness/dfu_fake.py), with an
error status injected by the schedule at one or two operations, and with oversize firmware files.
"""
import itertools

from harness import common
from harness import dfu_fake as F

THEOREMS = [
    'BB.Props.C19.oversize_no_request',
    'BB.Props.C19.device_error_not_done',
    'BB.Props.C19.single_injection_not_done',
    'BB.Props.C19.double_injection_not_done',
    'BB.Props.C19.status_only_set_address_stops',
]

RULE = ('fault cases = (firmware length, schedule with an error status at one or two operation indices); operations are '
        'numbered in the order the host starts them: erase of page 0..n-1, then set-address and write of each page. '
        'About 30% of the injected faults are of the status-only flavour (bStatus = the error in the completing GETSTATUS, '
        'bState = dfuDNLOAD_IDLE as after a success; written q<status> in the schedule), at erase, set-address and write '
        'steps alike; the others end in dfuERROR. '
        'Enumerated completely: every status 1..15 at every one of the 3n operations of runs of n = 1..4 pages (two lengths and '
        'two busy-count shapes each), every pair of operations x every pair of statuses 1..15 for n = 1, 2. Oversize cases: '
        'size+1, size+2, size+2048, 2*size and a seeded sample of size+1..size+2048 for the four flash sizes. A case is '
        'non-trivial when the real host issued at least one request (fault cases) or when the file is oversize; distinct = '
        'distinct (page_count, length class, start state, busy-count vector, fault vector).')


def fault_cases(tier):
    r = common.rng('c19-fault')
    # single injections
    for pg in (1, 2, 3, 4):
        for i in range(3 * pg):
            for st in range(1, 16):
                for v in range(2 if tier == 'quick' else 4):
                    n = pg * F.PAGE if v % 2 else (pg - 1) * F.PAGE + 1 + (st * 67 + i) % 1023
                    counts = [(v + i + k) % 3 for k in range(3 * pg)] if v < 2 else [r.randrange(4) for _ in range(3 * pg)]
                    f = F.soft(st) if (7 * i + 3 * st + v) % 10 < 3 else st
                    yield 'single-injection', dict(
                        pc=(16, 32, 64, 128)[(i + st) % 4], length=n, salt=st, faults={str(i): f},
                        sched=F.sched_str(0 if (i + st) % 4 else st, [1], F.ops_from_counts(counts, r, {i: f})),
                        flash='-')
    # double injections
    for pg in (1, 2):
        for i, j in itertools.combinations(range(3 * pg), 2):
            for s1 in range(1, 16):
                for s2 in range(1, 16):
                    n = pg * F.PAGE if (s1 + s2) % 2 else (pg - 1) * F.PAGE + 1 + (s1 * 16 + s2)
                    counts = [(s1 + k) % 2 for k in range(3 * pg)]
                    f1 = F.soft(s1) if (3 * i + 5 * s1 + s2) % 10 < 3 else s1
                    f2 = F.soft(s2) if (i + 7 * j + s1 + 3 * s2) % 10 < 3 else s2
                    yield 'double-injection', dict(
                        pc=16, length=n, salt=s2, faults={str(i): f1, str(j): f2},
                        sched=F.sched_str(0, [0], F.ops_from_counts(counts, r, {i: f1, j: f2})), flash='-')
    # seeded: longer runs, random positions (incl. statuses that are not in the DFU table)
    for k in range(300 if tier == 'quick' else 4000):
        pc = r.choice([16, 32, 64, 128])
        pg = r.randrange(1, min(pc, 6 if tier == 'quick' or k % 20 else pc) + 1)
        n = max(1, pg * F.PAGE - r.choice([0, 0, 1, 2, r.randrange(F.PAGE)]))
        pg = F.pages_of(n)
        faults = {r.randrange(3 * pg): r.choice(list(range(1, 16)) + [16, 200, 255])}
        if r.random() < 0.4:
            faults[r.randrange(3 * pg)] = r.randrange(1, 16)
        faults = {a: (F.soft(b) if r.random() < 0.3 else b) for a, b in faults.items()}
        yield 'seeded-injection', dict(pc=pc, length=n, salt=k % 251, faults={str(a): b for a, b in faults.items()},
                                       sched=F.sched_str(r.choice([0, 0, 9]), [r.choice(F.TIMEOUTS)],
                                                         F.random_ops(r, 3 * pg, 4, faults)),
                                       flash=r.choice(['-', 'e' * pc]))


def full_flash_fault_cases(tier):
    """images that reach into the LAST page of the part (and the ones just short of it), with a fault at the very first erase,
    at the last one, at the first and the last write: whatever special treatment a full image gets, an error is an error"""
    r = common.rng('c19-full')
    for pc in (16, 32) if tier == 'quick' else (16, 32, 64, 128):
        size = pc * F.PAGE
        for n in (size, size - 1, size - F.PAGE + 1, size - F.PAGE):
            pg = F.pages_of(n)
            for i in (0, pg - 1, pg, 3 * pg - 2, 3 * pg - 1, r.randrange(3 * pg)):
                for st in (r.randrange(1, 16), 10):
                    f = F.soft(st) if r.random() < 0.3 else st
                    yield 'full-flash-injection', dict(pc=pc, length=n, salt=st, faults={str(i): f},
                                                       sched=F.sched_str(0, [0], F.ops_from_counts([r.randrange(2) for _ in range(3 * pg)], r, {i: f})),
                                                       flash='-')


def oversize_cases(tier):
    r = common.rng('c19-oversize')
    for pc in (16, 32, 64, 128):
        size = pc * F.PAGE
        extra = sorted(set([1, 2, 3, 1023, 1024, 1025, 2047, 2048] +
                           [r.randrange(1, 2049) for _ in range(16 if tier == 'quick' else 200)]))
        for d in extra:
            yield 'oversize', dict(pc=pc, length=size + d, salt=d % 251,
                                   sched=F.sched_str(r.choice([0, 0, 6]), [r.choice(F.TIMEOUTS)], F.random_ops(r, 4, 2)),
                                   flash=r.choice(['-', 'e' * pc, 'oedo']))
        yield 'oversize', dict(pc=pc, length=2 * size, salt=1, sched=F.sched_str(0, [], []), flash='-')
        # the same through other kinds of path, and with file contents that look like something else than code:
        # an excess that is all 0xff / 0x00 filler, a DFU-suffix look-alike at the end, container magic at the start
        for j, d in enumerate([1, 16, 17, 1024, 1040, r.randrange(1, 2049)]):
            extra_kw = [dict(via='fifo'), dict(via='symlink'), dict(tail='ff*%d' % (d + r.choice([0, 7, 2048]))), dict(tail='00*%d' % d),
                        dict(tail='ffffffffffffffff' + '554644' + '10' + '00000000'), dict(head='44667553650100000000')][j % 6 if tier == 'quick' else r.randrange(6)]
            yield 'oversize-odd-file', dict(pc=pc, length=size + d, salt=j, sched=F.sched_str(0, [r.choice(F.TIMEOUTS)], F.random_ops(r, 4, 2)),
                                            flash=r.choice(['-', 'oedo']), **extra_kw)


def run(tier, replay):
    if replay:
        return F.replay('C19', replay, tier)
    rep = common.Report('C19', tier)
    ob = common.check_obligations('C19', THEOREMS)
    sess = F.Session()
    tally = F.Tally(rep)
    try:
        for group, case in oversize_cases(tier):
            F.evaluate(sess, tally, case, F.oracle_c19_oversize, group)
            rep.nontrivial(F.shape(case) + (case['length'] - case['pc'] * F.PAGE,))
            if tally.stop():
                break
        for gen in (fault_cases, full_flash_fault_cases):
            for group, case in gen(tier):
                if tally.stop():
                    break
                F.evaluate(sess, tally, case, F.oracle_c19_fault, group)
    finally:
        sess.close()
    F.conclude(rep, tally, ob, THEOREMS)
    rep.cov['rule'] = RULE
    return rep.finish(obligations=ob)
