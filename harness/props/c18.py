"""C18 - A completed DFU run leaves the device flash equal to the firmware image.

Proof: BB.Props.C18.dfu_run_ok (lean/BB/Props/C18.lean) over the host model BB.Dfu.Host composed
with the device specification BB.Dfu.Device, for every firmware, every fault-free schedule.
Tie to /repo: the REAL bronzebeard.dfu.cli_main runs against the LEAN device (harness/dfu_fake.py);
its event trace is compared with the Lean host model's, and the property itself (final flash,
erase/write logs, monitors, exit status, 'done!') is evaluated on what the real host did.
"""
import itertools

from harness import common
from harness import dfu_fake as F

THEOREMS = [
    'BB.Props.C18.dfu_run_ok',
    'BB.Props.C18.run_halted',
    'BB.Props.C18.run_fuel_irrelevant',
]

RULE = ('cases = (page_count, firmware length, schedule, initial flash). Enumerated completely: every length 0..3*1024+1 '
        'for page_count 16 (two schedules each: one cycling through busy-count patterns, one seeded random); lengths '
        'size-2..size for the four flash sizes; every assignment of 0..3 busy polls to each of the 3 operations of a 1-page '
        'run and the 6 operations of a 2-page run, every assignment of 0..B to the 9 operations of a 3-page run '
        '(B=1 quick, B=2 thorough); seeded random (boundary-biased lengths, busy counts up to 6 (and a slow-part family with 64..1200 busy polls on chosen operations; a blank-pages family whose images contain whole pages of 0xff or 0x00 on non-blank flash; an odd-files family: DFU-suffix / container-magic / filler look-alikes at the end or start of the image, images read through a named pipe or a symbolic link), poll timeouts from '
        '{0,1,2,5,10,100,255,256,65535,65536,2^24-1}, start in dfuIDLE or dfuERROR, initial flash original/erased/programmed) '
        'beyond. A case counts as non-trivial when the real host issued at least one request; distinct = distinct '
        '(page_count, length class [pages, aligned / 1 byte / 1023 bytes / other remainder, empty, full], start state, '
        'busy-count vector, fault vector).')


def fit_cases(tier):
    r = common.rng('c18')
    pats = list(itertools.product(range(3), repeat=3))
    # A. every length 0..3*1024+1 on the 16-page part
    top = 3 * F.PAGE + 1
    for n in range(top + 1):
        pg = F.pages_of(n)
        a, b, c = pats[n % len(pats)]
        counts = [a] * pg + [b, c] * pg
        yield 'all-lengths', dict(pc=16, length=n, salt=n % 251,
                                  sched=F.sched_str(0 if n % 3 else 4 + n % 11, [n % 7, 3], F.ops_from_counts(counts, r)),
                                  flash='-' if n % 2 else 'eodo')
        yield 'all-lengths', dict(pc=16, length=n, salt=(n * 7) % 251,
                                  sched=F.sched_str(r.choice([0, 0, 7, 10]), [r.choice(F.TIMEOUTS), r.choice(F.TIMEOUTS)],
                                                    F.random_ops(r, 3 * pg, 4)),
                                  flash=r.choice(['-', 'eeeeeeeeeeeeeeee', 'dddd', 'oeod']))
    # B. around the flash size of every variant
    for pc in (16, 32, 64, 128):
        size = pc * F.PAGE
        for n in range(size - 2, size + 1):
            for k in range(2 if tier == 'quick' else 6):
                yield 'flash-size-boundary', dict(pc=pc, length=n, salt=k,
                                                  sched=F.sched_str(r.choice([0, 3]), [1, 2], F.random_ops(r, 3 * F.pages_of(n), 3)),
                                                  flash='-')
        for n in (size - F.PAGE - 1, size - F.PAGE, size - F.PAGE + 1, size // 2 + 1):
            yield 'flash-size-boundary', dict(pc=pc, length=n, salt=9,
                                              sched=F.sched_str(0, [0], F.random_ops(r, 3 * F.pages_of(n), 2)), flash='-')
    # C. schedules, exhaustive
    for pg, hi in ((1, 3), (2, 3), (3, 1 if tier == 'quick' else 2)):
        for j, counts in enumerate(itertools.product(range(hi + 1), repeat=3 * pg)):
            n = (pg * F.PAGE) if j % 2 else ((pg - 1) * F.PAGE + 1 + j % 1023)
            yield 'schedules-exhaustive-{}p'.format(pg), dict(
                pc=(16, 32, 64, 128)[j % 4], length=n, salt=j % 251,
                sched=F.sched_str(0 if j % 5 else 1 + j % 15, [j % 3], F.ops_from_counts(counts, r)), flash='-')
    # D. seeded random
    for j in range(1500 if tier == 'quick' else 12000):
        pc = r.choice([16, 16, 32, 64, 128])
        size = pc * F.PAGE
        pgmax = pc if (tier == 'thorough' and j % 40 == 0) or j % 300 == 0 else min(pc, 8)
        pg = r.randrange(pgmax + 1)
        n = max(0, min(size, pg * F.PAGE + r.choice([-2, -1, 0, 0, 1, 2, r.randrange(F.PAGE)])))
        npg = F.pages_of(n)
        if r.random() < 0.3:
            counts = [r.randrange(4) for _ in range(3 * npg)]
            ops = F.ops_from_counts(counts, r)
        else:
            ops = F.random_ops(r, 3 * npg, 6)
        yield 'seeded-random', dict(pc=pc, length=n, salt=r.randrange(251),
                                    sched=F.sched_str(r.choice([0, 0, 0] + list(range(1, 16))),
                                                      [r.choice(F.TIMEOUTS) for _ in range(2)], ops),
                                    flash=r.choice(['-', '-', 'e' * pc, 'd' * (pc // 2), 'oe' * (pc // 2)]))
    # F. images with whole pages that look like erased flash (0xff) or like padding (0x00), on flash that is not blank
    for j in range(60 if tier == 'quick' else 400):
        pc = r.choice([16, 32])
        pg = r.randrange(1, 7)
        n = pg * F.PAGE - r.choice([0, 0, 1, 5, r.randrange(F.PAGE)])
        holes = sorted(set(r.randrange(pg) for _ in range(r.choice([1, 1, 2, 3]))))
        yield 'blank-pages', dict(pc=pc, length=n, salt=r.randrange(251),
                                  fill=','.join('{}:{}'.format(p, r.choice(['ff', 'ff', 'ff', '00'])) for p in holes),
                                  sched=F.sched_str(r.choice([0, 0, 3]), [r.choice(F.TIMEOUTS)], F.random_ops(r, 3 * F.pages_of(n), 3)),
                                  flash=r.choice(['d' * pc, 'oe' * (pc // 2), 'do' * (pc // 2), '-']))
    # H. files whose bytes look like something else than code (a DFU suffix at the end, container magic at the start, text),
    #    and files reached through a pipe or a symbolic link: the image is the file's bytes, all of them
    tails = ['ffffffffffffffff' + '554644' + '10' + 'deadbeef', '0000' + '0000' + '0000' + '1a01' + '554644' + '10' + '12345678',
             '554644' + '10' + '00000000', 'ff*16', 'ff*300', '00*16', '0a', '1a', '0d0a']
    heads = ['44667553650100000000', '7f454c46010101', '3a3130303030303030', 'efbbbf', '4d5a', '00*8', 'ff*8']
    for j in range(40 if tier == 'quick' else 400):
        pg = r.randrange(1, 5)
        n = pg * F.PAGE - r.choice([0, 0, 1, 16, 17, r.randrange(F.PAGE)])
        kw = {}
        if j % 4 != 3:
            kw['tail' if j % 2 == 0 else 'head'] = r.choice(tails if j % 2 == 0 else heads)
        if j % 4 >= 2:
            kw['via'] = r.choice(['fifo', 'symlink'])
        yield 'odd-files', dict(pc=16, length=n, salt=r.randrange(251), sched=F.sched_str(0, [r.choice(F.TIMEOUTS)], F.random_ops(r, 3 * F.pages_of(n), 2)),
                                flash=r.choice(['-', 'd' * 16]), **kw)
    # G. very slow parts: one or more operations stay busy for hundreds of polls
    for j in range(24 if tier == 'quick' else 200):
        pg = r.randrange(1, 4)
        n = pg * F.PAGE - r.choice([0, 1, r.randrange(F.PAGE)])
        counts = [r.randrange(3) for _ in range(3 * pg)]
        for k in r.sample(range(3 * pg), r.choice([1, 1, 2, 3 * pg])):
            counts[k] = r.choice([64, 99, 100, 101, 128, 255, 256, 257, 300, 1000, r.randrange(90, 1200)])
        yield 'slow-part', dict(pc=16, length=n, salt=r.randrange(251),
                                sched=F.sched_str(0, [0], F.ops_from_counts(counts, r)), flash=r.choice(['-', 'd' * 16]))
    if tier == 'thorough':
        # E. long runs: every page count boundary with heavier schedules, full-size images
        for pc in (16, 32, 64, 128):
            size = pc * F.PAGE
            for k in range(12):
                n = size - r.choice([0, 0, 1, 2, F.PAGE - 1, F.PAGE, r.randrange(size)])
                yield 'long-runs', dict(pc=pc, length=n, salt=k,
                                        sched=F.sched_str(r.choice([0, 5]), [2, 2], F.random_ops(r, 3 * F.pages_of(n), 8)),
                                        flash=r.choice(['-', 'e' * pc]))


def run(tier, replay):
    if replay:
        return F.replay('C18', replay, tier)
    rep = common.Report('C18', tier)
    ob = common.check_obligations('C18', THEOREMS)
    sess = F.Session()
    tally = F.Tally(rep)
    try:
        for group, case in fit_cases(tier):
            F.evaluate(sess, tally, case, F.oracle_c18, group)
            if tally.stop():
                break
    finally:
        sess.close()
    F.conclude(rep, tally, ob, THEOREMS)
    rep.cov['rule'] = RULE
    return rep.finish(obligations=ob)
