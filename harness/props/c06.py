"""C06"""
from harness import encprops


def run(tier, replay):
    return encprops.run_enc_property("C06", tier, replay)
