"""C10 - see harness/data_check.py"""
from harness import data_check


def run(tier, replay):
    return data_check.run(tier, replay)
