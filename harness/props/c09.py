"""C09 - see harness/layout_check.py"""
from harness import layout_check


def run(tier, replay):
    return layout_check.run_layout("C09", tier, replay)
