"""C11 - see harness/const_check.py"""
from harness import const_check


def run(tier, replay):
    return const_check.run(tier, replay)
