"""C02"""
from harness import encprops


def run(tier, replay):
    return encprops.run_enc_property("C02", tier, replay)
