"""C08 - see harness/label_check.py"""
from harness import label_check


def run(tier, replay):
    return label_check.run(tier, replay)
