"""C11 — constants evaluate as integer arithmetic and substitute transparently."""
import json
import multiprocessing as mp
import os

from harness import common, corr, known, layout_check, obligations, progs

BIN = ['+', '-', '*', '//', '%', '<<', '>>', '&', '|', '^']
PREC = {'|': 0, '^': 1, '&': 2, '<<': 3, '>>': 3, '+': 4, '-': 4, '*': 5, '//': 5, '%': 5}


class Undefined(Exception):
    pass


def gen_tree(rnd, depth, names):
    if depth == 0 or rnd.random() < 0.25:
        if names and rnd.random() < 0.3:
            return ('name', rnd.choice(names))
        v = rnd.choice([0, 1, 2, 3, 7, 8, 15, 16, 31, 32, 255, 256, 0x7ff, 0x800, 0xfff, 0x1000, 0x7fffffff, 0x80000000,
                        0xffffffff, rnd.randrange(0, 1 << 16), rnd.randrange(0, 1 << 32), rnd.randrange(0, 1 << 40)])
        return ('lit', v, rnd.randrange(4))
    if rnd.random() < 0.2:
        return ('un', rnd.choice(['-', '~', '+']), gen_tree(rnd, depth - 1, names))
    op = rnd.choice(BIN)
    a = gen_tree(rnd, depth - 1, names)
    if op in ('<<', '>>'):
        b = ('lit', rnd.choice([0, 1, 2, 4, 5, 8, 12, 16, 31, 32, 33, 63]), rnd.randrange(2))
    else:
        b = gen_tree(rnd, depth - 1, names)
    return ('bin', op, a, b)


def ev(t, env):
    """integer arithmetic, from the tree (not from text)"""
    k = t[0]
    if k == 'lit':
        return t[1]
    if k == 'name':
        return env[t[1]]
    if k == 'un':
        v = ev(t[2], env)
        return {'-': -v, '~': -v - 1, '+': v}[t[1]]
    op, a, b = t[1], ev(t[2], env), ev(t[3], env)
    if op == '+':
        return a + b
    if op == '-':
        return a - b
    if op == '*':
        return a * b
    if op in ('//', '%'):
        if b == 0:
            raise Undefined()
        q = a // b          # floor division on Python ints IS the mathematical floor
        return q if op == '//' else a - b * q
    if op == '<<':
        if b < 0:
            raise Undefined()
        return a * (1 << b)
    if op == '>>':
        if b < 0:
            raise Undefined()
        return a // (1 << b)
    # bitwise on two's complement of sufficient width
    w = max(a.bit_length(), b.bit_length()) + 2
    m = (1 << w) - 1
    r = {'&': (a & m) & (b & m), '|': (a & m) | (b & m), '^': (a & m) ^ (b & m)}[op]
    return r - (1 << w) if r >> (w - 1) else r


def lit_txt(v, how):
    if how == 1:
        return hex(v)
    if how == 2:
        return bin(v)
    if how == 3 and v >= 1000:
        s = str(v)
        return s[:-3] + '_' + s[-3:]
    return str(v)


def render(t, rnd, parent_prec=-1, right=False):
    k = t[0]
    if k == 'lit':
        return lit_txt(t[1], t[2])
    if k == 'name':
        return t[1]
    if k == 'un':
        inner = render(t[2], rnd, 6)
        s = t[1] + (' ' if rnd.random() < 0.3 else '') + inner
        return '(' + s + ')' if parent_prec >= 6 else s
    op = t[1]
    p = PREC[op]
    sp = rnd.choice(['', ' ', ' ', '  '])
    s = render(t[2], rnd, p, False) + sp + op + sp + render(t[3], rnd, p, True)
    need = p < parent_prec or (p == parent_prec and right)
    if need or rnd.random() < 0.15:
        return '(' + (' ' if rnd.random() < 0.2 else '') + s + ')'
    return s


def expr_case(args):
    seedv, idx, tier = args
    os.environ['VERIF_SEED'] = str(seedv)
    asm = progs.get_asm()
    rnd = common.rng('c11expr:%d' % idx)
    names, env, lines, want = [], {}, [], {}
    bad_line = None
    for i in range(rnd.randrange(1, 6)):
        t = gen_tree(rnd, rnd.randrange(1, 6), names)
        nm = 'C%d' % i
        if names and rnd.random() < 0.25:
            nm = rnd.choice(names)           # a redefinition: definitions are sequential, the latest one counts
        try:
            v = ev(t, env)
        except Undefined:
            v = None
        lines.append('%s = %s' % (nm, render(t, rnd)))
        if v is None:
            bad_line = len(lines)
            break
        if abs(v) > 1 << 200:
            lines.pop()
            continue
        env[nm] = v
        if nm not in names:
            names.append(nm)
        want[nm] = v
    src = '\n'.join(lines) + '\n'
    res = progs.assemble_chunks(asm, src, False)
    out = dict(kind='expr', src=src, problems=[], status=res.status, want={k: str(v) for k, v in want.items()})
    if bad_line is not None:
        if res.status != 'asmerr' or res.err_line != bad_line:
            out['problems'].append('division by zero / negative shift on line {} must be an AssemblerError there, got {} line {}'.format(
                bad_line, res.status + ':' + str(res.exc), res.err_line))
    elif res.status != 'ok':
        out['problems'].append('valid constant definitions were refused: {} line {}'.format(res.exc, res.err_line))
    else:
        for k, v in want.items():
            if res.constants.get(k) != v:
                out['problems'].append('constant {} = {} but its (last) defining expression {!r} evaluates to {}'.format(
                    k, res.constants.get(k), [l for l in lines if l.startswith(k + ' =')][-1], v))
    m, = common.drv([corr.request(src, False)])
    out['corr'] = corr.compare(m, res)
    if out['corr'] == 'differ':
        out['corr_diff'] = dict(model=m[:200], impl=corr.canon_impl(res)[:200])
    return out


# NOT a position: the target operand of branches / jal.  A NAME there is a *reference* (label-like: the
# encoded offset is value - position), while a number is a literal offset; this is the documented
# meaning of that operand ('behavior is "offset" for branches to labels'), see DESIGN.md §5 C11.
POSITIONS = [
    ('imm', 'addi x5, x6, {}', lambda v: -2048 <= v <= 2047),
    ('imm-c', 'addi x8, x8, {}', lambda v: -2048 <= v <= 2047),
    ('load', 'lw x9, {}(x8)', lambda v: -2048 <= v <= 2047),
    ('store', 'sw x9, {}(x2)', lambda v: -2048 <= v <= 2047),
    ('lui', 'lui x7, {}', lambda v: 0 <= v <= 0xfffff),
    ('shamt', 'slli x8, x8, {}', lambda v: 0 <= v <= 31),
    ('shamt2', 'srai x9, x10, {}', lambda v: 0 <= v <= 31),
    ('regalias-rd', 'add {}, x6, x7', lambda v: 0 <= v <= 31),
    ('regalias-rs', 'sub x8, {}, x9', lambda v: 0 <= v <= 31),
    ('regalias-base', 'lw x8, 4({})', lambda v: 0 <= v <= 31),
    ('li', 'li x5, {}', lambda v: True),
    ('db', 'db {}', lambda v: -128 <= v <= 255),
    ('dh', 'dh {}', lambda v: -32768 <= v <= 65535),
    ('dw', 'dw {}', lambda v: -(1 << 31) <= v < (1 << 32)),
    ('dd', 'dd {}', lambda v: -(1 << 63) <= v < (1 << 64)),
    ('pack', 'pack <I {}', lambda v: 0 <= v < (1 << 32)),
    ('hi', 'lui x5, %hi({})', lambda v: True),
    ('lo', 'addi x5, x5, %lo({})', lambda v: True),
    ('position', 'dw %position(HERE, {})', lambda v: 0 <= v < (1 << 31)),
    ('expr', 'addi x5, x6, {} + 1', lambda v: -2048 <= v + 1 <= 2047),
    ('csr', 'csrrw x1, x2, {}', lambda v: -2048 <= v <= 2047),
    # the compressed jumps / branches take their operand as a plain offset: a constant there is its value
    ('cj', 'c.j {}', lambda v: -2048 <= v <= 2046 and v % 2 == 0),
    ('cjal', 'c.jal {}', lambda v: -2048 <= v <= 2046 and v % 2 == 0),
    ('cbeqz', 'c.beqz x8, {}', lambda v: -256 <= v <= 254 and v % 2 == 0),
    ('caddi', 'c.addi x9, {}', lambda v: -32 <= v <= 31 and v != 0),
    # register aliases in hand-written compressed instructions
    ('c-regalias-rd', 'c.addi {}, 1', lambda v: 1 <= v <= 31),
    ('c-regalias-mv', 'c.mv {}, x9', lambda v: 1 <= v <= 31),
    ('c-regalias-rs2', 'c.add x9, {}', lambda v: 1 <= v <= 31),
    ('c-regalias-base', 'c.lw x8, 4({})', lambda v: 8 <= v <= 15),
    ('c-regalias-jr', 'c.jr {}', lambda v: 1 <= v <= 31),
    ('c-regalias-sub', 'c.sub {}, x9', lambda v: 8 <= v <= 15),
]


# code points of the characters the line lexer gives a meaning to outside quotes (separator, comment, parentheses), the quote and the backslash
SPECIAL_CHARS = [0x20, 0x23, 0x27, 0x28, 0x29, 0x2c, 0x5c]

# backslash escapes `unicode_escape` decodes to one character
ESCAPES = [(r"'\n'", 10), (r"'\t'", 9), (r"'\r'", 13), (r"'\0'", 0), (r"'\''", 39), (r"""'\"'""", 34), (r"'\x41'", 0x41), (r"'\x2c'", 0x2c),
           (r"'\x7f'", 0x7f), (r"'\101'", 0o101), (r"'\u0041'", 0x41), (r"'\u1234'", 0x1234), (r"'\U0001f600'", 0x1f600), (r"'\a'", 7),
           (r"'\\'", 92)]


def char_literal(code):
    """the documented spelling of a character: the character between single quotes; the backslash is written twice"""
    return "'\\\\'" if code == 0x5c else "'%s'" % chr(code)


def subst_case(args):
    seedv, idx, tier = args
    os.environ['VERIF_SEED'] = str(seedv)
    asm = progs.get_asm()
    rnd = common.rng('c11sub:%d' % idx)
    pname, tmpl, okfn = POSITIONS[idx % len(POSITIONS)]
    for _ in range(50):
        v = rnd.choice([0, 1, 2, 5, 8, 15, 16, 31, 32, -1, -32, -33, 2047, -2048, 255, 0x800, 0xfffff, 0x12345678, -2, 6, 254, -256, 2046,
                        rnd.randrange(-40, 40), rnd.randrange(-2048, 2048), rnd.randrange(0, 1 << 32),
                        rnd.choice(SPECIAL_CHARS), rnd.randrange(0x20, 0x7f)])
        if okfn(v):
            break
    # names that begin like a directive, a mnemonic or a register are still just names
    name = rnd.choice(['K', 'VALUE', 'k1', 'RCU_BASE', '_x', 'string_base', 'error_mask', 'stringy', 'errors', 'include_dir', 'align4',
                       'bytes_n', 'pack_fmt', 'db2', 'li_v', 'x1_copy', 'a0b', 'sp_top', 'nop_count', 'ret_addr', 'c_j',
                       # a mnemonic or directive in another case is a name like any other (names are case-sensitive, keywords are not names)
                       'ADD', 'Li', 'DW', 'MV', 'SLLI', 'Ret', 'Nop', 'DB', 'Lw', 'PACK'])
    pre = ['addi x0 x0 0'] * rnd.randrange(0, 3)
    post = ['HERE:', 'addi x0 x0 0']
    same_label = rnd.random() < 0.25
    if pname == 'li' and idx % 2 == 0:
        # li decides between one and two instructions from the VALUE: with a label of the same name at a small address and a
        # constant that needs lui + addi, any pass that looks the name up in the wrong order shows
        same_label = True
        v = rnd.choice([0x12345, 0x12345678, 0xfffff800, 4096, -4097, 0x80000000, 2048])
    lit = str(v) if rnd.random() < 0.5 or v < 0 else hex(v)
    defs = ['%s = %s' % (name, lit)]
    if 0x20 <= v < 0x7f and rnd.random() < 0.6:
        # the constant defined by a quoted character: blank, comma, '#', parentheses and the quote are characters like any other
        defs = ['%s = %s%s' % (name, char_literal(v), rnd.choice(['', '', '  # the character ' + chr(v), " # it's %d" % v]))]
    elif rnd.random() < 0.3:
        # an earlier definition of the same name, superseded (possibly in terms of itself) before the use
        first = rnd.choice([v + 1, 0, -v, 7])
        defs = ['%s = %d' % (name, first), '%s = %s - %d' % (name, name, first - v)] if rnd.random() < 0.5 else ['%s = %d' % (name, first)] + defs
    if same_label:
        # a label of the same name (in both programs): the constant is what the name means wherever both exist
        if rnd.random() < 0.5:
            post = post + [name + ':', 'addi x0 x0 0']
        else:
            pre = pre + [name + ':']
    with_const = '\n'.join(defs + pre + ['    ' + tmpl.format(name)] + post) + '\n'
    literal = '\n'.join(pre + ['    ' + tmpl.format(lit)] + post) + '\n'
    out = dict(kind='subst', src=with_const, literal=literal, position=pname, problems=[], status=None)
    cd = []
    reqs = []
    ress = []
    for c in (False, True):
        a = progs.assemble_chunks(asm, with_const, c)
        b = progs.assemble_chunks(asm, literal, c)
        out['status'] = a.status
        if (a.status, a.bytes, list(a.labels.items())) != (b.status, b.bytes, list(b.labels.items())):
            out['problems'].append('compress={}: writing constant {}={} in position {} gives {} {} but writing the value literally gives {} {}'.format(
                c, name, v, pname, a.status + ':' + str(a.exc), (a.bytes or b'').hex(), b.status + ':' + str(b.exc), (b.bytes or b'').hex()))
        reqs += [corr.request(with_const, c)]
        ress += [a]
    ms = common.drv(reqs)
    out['corr'] = 'same'
    for m, r in zip(ms, ress):
        v2 = corr.compare(m, r)
        if v2 == 'differ':
            out['corr'] = 'differ'
            out['corr_diff'] = dict(model=m[:200], impl=corr.canon_impl(r)[:200])
        elif v2 == 'unsupported' and out['corr'] == 'same':
            out['corr'] = 'unsupported'
    return out


def run(tier, replay):
    prop = 'C11'
    asm = progs.get_asm()
    if replay:
        d = json.load(open(replay))
        c = d.get('case') or {}
        if c.get('kind') == 'subst':
            a = progs.assemble_chunks(asm, c['src'], c.get('compress', False))
            b = progs.assemble_chunks(asm, c['literal'], c.get('compress', False))
            same = (a.status, a.bytes, list(a.labels.items())) == (b.status, b.bytes, list(b.labels.items()))
            print('constant:', a.status, (a.bytes or b'').hex(), '| literal:', b.status, (b.bytes or b'').hex())
            if not same:
                print('VIOLATION property=C11 replay={}'.format(replay))
                return 1
            print('replayed case no longer fails')
            return 0
        if c.get('kind') in ('expr', 'char'):
            res = progs.assemble_chunks(asm, c['src'], False)
            want = {k: int(v) for k, v in (c.get('want') or {}).items()}
            bad = res.status != 'ok' or any(res.constants.get(k) != v for k, v in want.items())
            print(res.status, dict(res.constants), 'wanted', want)
            if c.get('literal'):
                ref = progs.assemble_chunks(asm, c['literal'], False)
                print('bytes', (res.bytes or b'').hex(), '| with the values written as numbers:', (ref.bytes or b'').hex())
                bad = bad or (res.status, res.bytes) != (ref.status, ref.bytes)
            if bad:
                print('VIOLATION property=C11 replay={}'.format(replay))
                return 1
            print('replayed case no longer fails')
            return 0
        if c.get('kind') == 'char-refused':
            res = progs.assemble_chunks(asm, c['src'], False)
            print(res.status, res.exc)
            if res.status != 'asmerr':
                print('VIOLATION property=C11 replay={}'.format(replay))
                return 1
            print('replayed case no longer fails')
            return 0
        print('VIOLATION property=C11 replay={} no-failing-input-found'.format(replay))
        return 1
    rep = common.Report(prop, tier, level=obligations.LEVEL.get(prop, 'proof'))
    ob = common.check_obligations(prop, obligations.THEOREMS.get(prop, []))
    n = 1500 if tier == 'quick' else 30000
    ctx = mp.get_context('fork')
    with ctx.Pool(min(16, os.cpu_count() or 4)) as pool:
        results = pool.map(expr_case, [(common.seed(), i, tier) for i in range(n)], chunksize=16)
        results += pool.map(subst_case, [(common.seed(), i, tier) for i in range(n // 2)], chunksize=16)
    diffs = []
    kf = known.Known(prop)
    for r in results:
        rep.evaluations += 1
        rep.count(r['kind'] + '_' + str(r['status']))
        rep.count('model_vs_impl_' + r['corr'])
        if r['corr'] == 'differ':
            diffs.append(dict(src=r['src'], **r['corr_diff']))
        rep.nontrivial((r['kind'], r.get('position'), r['src']))
        for msg in r['problems']:
            rep.violation(msg, dict(case=dict(kind=r['kind'], src=r['src'], literal=r.get('literal'), want=r.get('want'), problem=msg)))
        if len(rep.samples) < 4 and r['kind'] == 'expr' and r['status'] == 'ok':
            rep.sample(dict(src=r['src'], constants=r['want']))
    # every printable ASCII character literal (the backslash is written '\\'), alone on its line and with a comment behind it,
    # some escapes, and the same literal as an immediate / data value; the Lean model must agree on each program
    char_cases = []
    for code in range(0x20, 0x7f):
        lit = char_literal(code)
        char_cases.append((chr(code), "K = %s\n" % lit, {'K': code}, None))
        char_cases.append((chr(code), "K = %s  # it's the character %s, isn't it\n" % (lit, chr(code)), {'K': code}, None))
        char_cases.append((chr(code), "    db %s\n    li x5, %s\n" % (lit, lit), {}, "    db %d\n    li x5, %d\n" % (code, code)))
    for lit, code in ESCAPES:
        char_cases.append((lit, "K = %s\n" % lit, {'K': code}, None))
    for code in SPECIAL_CHARS:
        lit = char_literal(code)
        char_cases.append((chr(code), "    lw x9, %s(x8) # %s\n    addi x5, x6, %%lo(%s)\n" % (lit, lit, lit),
                           {}, "    lw x9, %d(x8)\n    addi x5, x6, %%lo(%d)\n" % (code, code)))
    replies = common.drv([corr.request(src, False) for _, src, _, _ in char_cases])
    for (ch, src, want, literal), m in zip(char_cases, replies):
        res = progs.assemble_chunks(asm, src, False)
        rep.evaluations += 1
        rep.nontrivial(('char', src))
        ok = res.status == 'ok' and all(res.constants.get(k) == v for k, v in want.items())
        problem = "{!r} gives {} {}".format(src, res.status + ':' + str(res.exc), dict(res.constants))
        if ok and literal is not None:
            ref = progs.assemble_chunks(asm, literal, False)
            ok = (res.status, res.bytes) == (ref.status, ref.bytes)
            problem = "{!r} gives {} but with the code points written as numbers {}".format(src, (res.bytes or b'').hex(), (ref.bytes or b'').hex())
        rep.count('char_' + ('ok' if ok else 'bad'))
        v2 = corr.compare(m, res)
        rep.count('model_vs_impl_' + v2)
        if v2 == 'differ':
            diffs.append(dict(src=src, model=m[:200], impl=corr.canon_impl(res)[:200]))
        if not ok:
            case = dict(kind='char', src=src, char=ch, literal=literal, want={k: str(v) for k, v in want.items()}, problem=problem)
            if kf.matches(case):
                continue
            rep.violation("character literal {!r}: {}".format(ch, problem), dict(case=case))
    # a lone backslash between quotes is not a character literal (the backslash is written '\\'): refused, as an AssemblerError
    for src in ["K = '\\'\n", "    addi x5, x6, '\\'\n", "K = '\\' # don't\n"]:
        res = progs.assemble_chunks(asm, src, False)
        rep.evaluations += 1
        rep.count('char_lone_backslash_' + res.status)
        if res.status != 'asmerr':
            rep.violation("{!r} must be refused with an AssemblerError, got {}".format(src, res.status + ':' + str(res.exc)),
                          dict(case=dict(kind='char-refused', src=src, problem='not refused with an AssemblerError: ' + res.status)))
    kf.report(rep)
    rep.cov['programs'] = len(results)
    rep.cov['rule'] = ('constant definitions from seeded expression trees (depth <= 5) over + - * // % << >> & | ^ unary - ~ + and parentheses, '
                       'decimal / hex / binary / underscored literals, earlier constants by name, redefinitions (sequential, the latest counts), random spacing and redundant parentheses, '
                       'value computed from the TREE; division by zero planted; every printable ASCII character literal; a constant written in '
                       'each of {} operand positions (immediate, load/store offset, lui, shift amount, register alias rd/rs/base, li, '
                       'db/dh/dw/dd/pack, %hi/%lo/%position, inside an expression, branch offset, csr) vs its value written literally, both '
                       'modes. non-trivial = distinct (kind, position, source text).').format(len(POSITIONS))
    rep.cov['model_vs_impl_disagreements'] = len(diffs)
    rep.assumptions += ['expression syntax outside the documented operator set is outside the model (unsupported, counted)']
    if not rep.violations:
        if ob['failed']:
            rep.violation('proof obligation no longer checks: {}'.format(ob['failed'][0][0]),
                          dict(theorem=ob['failed'][0][0], detail=ob['failed'][0][1]), no_input=True)
        elif diffs:
            rep.violation('correspondence model/implementation broke on {} programs, e.g. {}'.format(len(diffs), diffs[0]),
                          dict(correspondence='BB.assembleText vs asm.assemble (constants)', case=diffs[0]), no_input=True)
    return rep.finish(obligations=ob if ob['obligations'] else None)
