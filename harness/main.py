"""./check <Cnn> [--tier quick|thorough] [--replay <file>]

Dispatches to harness/props/cNN.py, whose `run(tier, replay)` returns the exit status:
0 = held on everything explored (KNOWN-FINDING lines allowed), 1 = VIOLATION line printed,
2 = the check itself could not run (timeout, missing tool) - never a verdict.
"""
import argparse
import importlib
import os
import sys
import traceback


def main():
    ap = argparse.ArgumentParser()
    ap.add_argument('prop')
    ap.add_argument('--tier', default=os.environ.get('VERIF_TIER', 'quick'), choices=['quick', 'thorough'])
    ap.add_argument('--replay', default=None)
    args = ap.parse_args()
    prop = args.prop.upper()
    os.environ['VERIF_TIER_RUNNING'] = args.tier      # read by common.check_obligations (leanchecker in the thorough tier)
    try:
        mod = importlib.import_module('harness.props.' + prop.lower())
    except ModuleNotFoundError:
        print('no check for property', prop)
        return 2
    try:
        return mod.run(args.tier, args.replay)
    except KeyboardInterrupt:
        return 2
    except Exception:
        traceback.print_exc()
        print('check {} could not run (internal error of the harness; not a verdict)'.format(prop))
        return 2


if __name__ == '__main__':
    sys.exit(main())
