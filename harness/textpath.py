"""Encoder properties through the text front end: one-line programs given to asm.assemble().

* C01 / C06: seeded operand tuples rendered with varied register / integer spellings and separators;
  the assembled bytes must be the little-endian word whose Lean-spec decoding is what the line named
  (accepted), or the line must be refused by an AssemblerError (operands outside Legal).
* C02: the reverse direction - every one of the 65 536 halfwords is decoded by the Lean specification;
  each legal, non-hint, non-reserved RV32C encoding's canonical text must assemble to exactly that
  halfword.
"""
import importlib
import warnings
import struct

from harness import common, encsweep


def spell_int(v, k):
    k %= 4
    if k == 0 or abs(v) > 2 ** 40:
        return str(v)
    if k == 1:
        return ('-' if v < 0 else '') + hex(abs(v))
    if k == 2:
        return ('-' if v < 0 else '') + bin(abs(v))
    return ('-' if v < 0 else '') + '0X%X' % abs(v)


def spell_reg_text(n, k):
    k %= 5
    if not 0 <= n < 32:
        return [str(n), hex(n), 'x%d' % n, bin(n), str(n)][k]          # no register: a number (or xN) that names none
    if k == 0:
        return 'x%d' % n
    if k == 1:
        return encsweep.ALIASES[n]
    if k == 2:
        return str(n)
    if k == 3:
        return hex(n)
    return 'fp' if n == 8 else 'x%d' % n


def render(name, ops, k):
    toks = []
    for i, (kind, v) in enumerate(ops):
        if kind == 'r':
            toks.append(spell_reg_text(v, k + i))
        else:
            toks.append(spell_int(v, k // 3 + i))
    # one register operand written through a register alias defined on the line before (RA = x9 / c.mv RA, x11)
    h0 = (k * 40503 + 17) & 0xffff
    regs_at = [i for i, (kind, _) in enumerate(ops) if kind == 'r']
    if regs_at and h0 % 5 == 2:
        i = regs_at[(h0 >> 4) % len(regs_at)]
        alias = ['RA', 'dst', 'W', 'base_reg'][(h0 >> 8) % 4]
        return '%s = %s\n' % (alias, toks[i]) + _render(name, ops, k, toks[:i] + [alias] + toks[i + 1:])
    return _render(name, ops, k, toks)


def _render(name, ops, k, toks):
    seps = [' ', ', ', ',', '\t', '  ,  ']
    h = (k * 2654435761) & 0xffffffff          # spelling choices independent of the position of the mnemonic in its table
    line = name.upper() if h % 11 == 0 else name.capitalize() if h % 11 == 5 else name
    if len(ops) == 3 and ops[2][0] == 'i' and (h >> 8) % 3 == 1 and name in ('lb', 'lh', 'lw', 'lbu', 'lhu', 'jalr', 'sb', 'sh', 'sw', 'c.lw', 'c.sw'):
        # the documented alternative spelling imm(base): loads / jalr `rd, imm(rs1)`, stores `rs2, imm(rs1)`
        data, base = (toks[0], toks[1]) if name.split('.')[-1][0] != 's' else (toks[1], toks[0])
        return '%s %s%s%s(%s)' % (line, data, seps[k % len(seps)], toks[2], base) + ('   # c' if k % 7 == 0 else '')
    for i, t in enumerate(toks):
        line += (' ' if i == 0 else seps[(k + i) % len(seps)]) + t
    if k % 7 == 0:
        line = '   ' + line + '   # c'
    return line


def assemble_line(asm, line):
    try:
        b = bytes(asm.assemble(line))
        return 'ok', b
    except asm.AssemblerError:
        return 'asmerr', None
    except Exception as e:
        return 'exc ' + type(e).__name__, None


def text_cases(prop, tier, rnd):
    n = 6000 if tier == 'quick' else 60000
    names = encsweep.NAMES32 if prop in ('C01', 'C06') else []
    names16 = encsweep.NAMES16 if prop in ('C02', 'C06') else []
    out = []
    for i in range(n):
        if names and (not names16 or i % 2 == 0):
            name = names[i % len(names)]
            ops = gen_ops32(name, rnd)
            out.append((name, 32, ops))
        else:
            name = names16[i % len(names16)]
            ops = gen_ops16(name, rnd)
            out.append((name, 16, ops))
    return out


def edgey(rnd, lo, hi, step=1):
    r = rnd.random()
    if r < 0.5:
        return rnd.choice([lo, lo + step, hi, hi - step, 0, step, -step, lo - step, hi + step, lo - 1, hi + 1])
    if r < 0.9:
        return rnd.randrange(lo, hi + 1)
    return rnd.choice([2 ** 31, -2 ** 31, 2 ** 32 - 1, 2 ** 32, 10 ** 20, -(2 ** 40)])


def gen_ops32(name, rnd):
    # (now and then a register written as a number that is no register: refused, never folded into the next field)
    R = lambda: ('r', rnd.randrange(32) if rnd.random() < 0.97 else rnd.choice([32, 33, 63, 64, 255, 256, 1023]))
    if name in encsweep.R_NAMES:
        return [R(), R(), R()]
    if name in encsweep.I_NAMES:
        return [R(), R(), ('i', edgey(rnd, -2048, 2047))]
    if name in encsweep.B_NAMES:
        return [R(), R(), ('i', edgey(rnd, -4096, 4094, 2))]
    if name in encsweep.U_NAMES:
        return [R(), ('i', edgey(rnd, -0x80000, 0xfffff))]
    if name == 'jal':
        return [R(), ('i', edgey(rnd, -2 ** 20, 2 ** 20 - 2, 2))]
    if name == 'fence':
        return [('k', rnd.randrange(-1, 18)), ('k', rnd.randrange(-1, 18))]
    if name in encsweep.A_NAMES:
        return [R(), R(), R(), ('k', rnd.choice([0, 1, 0, 1, 2, 3])), ('k', rnd.choice([0, 1, 0, 1, -1, 2, 3]))]
    if name == 'lr.w':
        return [R(), R(), ('k', rnd.choice([0, 1, 0, 1, 2])), ('k', rnd.choice([0, 1, 0, 1, 2, 3]))]
    return []


def gen_ops16(name, rnd):
    shape, lo, hi = encsweep.C_SHAPES[name]
    R = lambda: ('r', rnd.choice([rnd.randrange(32), rnd.randrange(8, 16)]))
    imm = ('i', edgey(rnd, lo, hi, 2))
    return {'': [], 'r': [R()], 'rr': [R(), R()], 'i': [imm], 'ri': [R(), imm], 'rri': [R(), R(), imm]}[shape]


def assemble_line_c(asm, line):
    try:
        b = bytes(asm.assemble(line, compress=True))
        return 'ok', b
    except asm.AssemblerError:
        return 'asmerr', None
    except Exception as e:
        return 'exc ' + type(e).__name__, None


def compress_shapes(tier, rnd):
    """32-bit lines in the register shapes the compression criteria look at (rd = rs, x0, sp, the x8..x15 window) with
    immediates on and beyond both ends of the 32-bit interval: with -c the range check of the 32-bit instruction must
    not be lost to a compressed form that has no (or a narrower) immediate field"""
    n = 1500 if tier == 'quick' else 20000
    out = []
    lowr = lambda: rnd.randrange(8, 16)
    anyr = lambda: rnd.randrange(1, 32)
    for _ in range(n):
        k = rnd.randrange(12)
        far = rnd.choice([2048, -2049, 4096, -4096, 2 ** 12 + 1, 65536, -65536, 2 ** 31, -2 ** 31 - 1, 2 ** 32, 2 ** 32 + 1])
        rvc = rnd.choice([512, -512, 496, 508, -528, 1020, 1024, 124, 128, 252, 256, 31, 32, -32, -33, 16, -16, 4, 60, 64])
        imm = rnd.choice([far, far, edgey(rnd, -2048, 2047), rvc, rvc])
        if k == 0:
            out.append(('addi', 32, [('r', 0), ('r', 0), ('i', imm)]))
        elif k == 1:
            r = anyr(); out.append(('addi', 32, [('r', r), ('r', r), ('i', imm)]))
        elif k == 2:
            out.append(('addi', 32, [('r', anyr()), ('r', 0), ('i', imm)]))
        elif k == 3:
            out.append(('addi', 32, [('r', 2), ('r', 2), ('i', imm)]))
        elif k == 4:
            out.append(('addi', 32, [('r', lowr()), ('r', 2), ('i', imm)]))
        elif k == 5:
            out.append((rnd.choice(['lw', 'sw']), 32, [('r', lowr()), ('r', rnd.choice([2, lowr()])), ('i', imm)]))
        elif k == 6:
            r = lowr()
            nm = rnd.choice(['andi', 'srli', 'srai', 'slli'])
            if nm == 'andi':
                out.append((nm, 32, [('r', r), ('r', r), ('i', rnd.choice([imm, 32, 33, 64, -1, 31, -32, -33]))]))
            else:
                # the shift amount travels in the rs2 field: 0..31 denote, anything else does not
                sh = rnd.choice([0, 1, 31, 16, 32, 33, 64, -1])
                out.append((nm, 32, [('r', r), ('r', r), ('r', sh) if 0 <= sh < 32 else ('k', sh)]))
        elif k == 7:
            out.append(('lui', 32, [('r', anyr()), ('i', rnd.choice([0x100000, -0x80001, 0x100005, 2 ** 32, -2 ** 31, edgey(rnd, -0x80000, 0xfffff)]))]))
        elif k == 8:
            out.append(('jal', 32, [('r', rnd.choice([0, 1])), ('i', rnd.choice([2 ** 20, -2 ** 20 - 2, 2 ** 21, 2 ** 32, 3, -1, edgey(rnd, -2048, 2046, 2)]))]))
        elif k == 9:
            out.append((rnd.choice(['beq', 'bne']), 32, [('r', lowr()), ('r', 0), ('i', rnd.choice([4096, -4098, 8192, 2 ** 32, 1, 255, edgey(rnd, -256, 254, 2)]))]))
        elif k == 10:
            out.append(('jalr', 32, [('r', rnd.choice([0, 1])), ('r', anyr()), ('i', imm)]))
        else:
            r = anyr(); out.append(('addi', 32, [('r', r), ('r', rnd.choice([r, anyr()])), ('i', rnd.choice([0, imm]))]))
    return out


def run(prop, tier, rep):
    """returns the number of distinct non-trivial text cases evaluated"""
    asm = importlib.import_module('bronzebeard.asm')
    rnd = common.rng('textpath:' + prop)
    cases = text_cases(prop, tier, rnd)
    req = []
    rows = []
    seen = set()
    for k, (name, width, ops) in enumerate(cases):
        line = render(name, ops, k)
        if line in seen:
            continue
        seen.add(line)
        npre = 0
        if width == 32 and (name in encsweep.B_NAMES or name == 'jal') and (k * 7919 >> 3) % 3 == 0:
            # a transfer written with a NUMBER is that pc-relative offset wherever the line stands: not only at address 0
            npre = 1 + (k >> 2) % 3
            line = 'addi x0, x0, 0\n' * npre + line
        st, b = assemble_line(asm, line)
        if st == 'ok' and npre:
            b = b[4 * npre:] if b[:4 * npre] == bytes.fromhex('13000000') * npre else b
        iops = encsweep.intent_ops(ops)
        if iops is None:
            # some operand names nothing at all (a register number that is no register): there is no instruction to decode to
            rep.evaluations += 1
            rep.count('text_operand_denotes_nothing_' + st.split()[0])
            if st == 'ok':
                rep.violation('line {!r} has an operand that names no register but assembled to {}'.format(line, b.hex()),
                              dict(case=dict(line=line, name=name, ops=[list(o) for o in ops], status=st, bytes=b.hex()), text_line=line))
            continue
        req.append('legal%d %s %s' % (width, name, ' '.join(iops)))
        if st == 'ok':
            if len(b) != width // 8:
                w = -1
            else:
                w = int.from_bytes(b, 'little')
            req.append('chk%d %s %s %d' % (width, name, ' '.join(iops), w))
        rows.append((line, name, width, ops, iops, st, b))
    out = common.drv(req)
    j = 0
    for line, name, width, ops, iops, st, b in rows:
        rep.evaluations += 1
        lg = out[j]
        j += 1
        ck = None
        if st == 'ok':
            ck = out[j]
            j += 1
        rep.count('text_' + st.split()[0])
        case = dict(line=line, name=name, ops=[list(o) for o in ops], status=st, bytes=b.hex() if b else None,
                    legal=lg, decode_ok=ck)
        if prop in ('C01', 'C02') and st == 'ok' and ck != 'yes' and ((width == 32) == (prop == 'C01')):
            rep.violation('text line {!r} assembled to {} which decodes to {}'.format(line, b.hex(), ck),
                          dict(case=case, text_line=line))
        if prop == 'C06':
            if lg == 'yes' and st != 'ok':
                rep.violation('legal line {!r} was refused ({})'.format(line, st), dict(case=case, text_line=line))
            if lg != 'yes' and st == 'ok':
                rep.violation('line {!r} is not representable but assembled to {}'.format(line, b.hex()),
                              dict(case=case, text_line=line))
            if lg != 'yes' and st.startswith('exc'):
                rep.count('text_refused_by_raw_exception')
        if len(rep.samples) < 10 and st == 'ok':
            rep.sample('{!r} -> {}'.format(line, b.hex()))
    n = len(rows)
    if prop == 'C06':
        n += run_compress_shapes(asm, tier, rnd, rep)
        n += run_nonint(asm, rep)
    if prop == 'C02':
        n += reverse_halfwords(asm, rep)
    if prop in ('C01', 'C02', 'C06'):
        n += run_named_base(asm, rep, prop)
    return n


def run_named_base(asm, rep, prop):
    """`imm(base)` written after a mnemonic: whatever is accepted must use the register the source NAMED as the base.
    For an instruction with an explicit base register the line must mean `mnemonic data, base, imm`; for an sp-relative
    one it can only be accepted with sp as the base; an instruction without any base register has no halfword / word
    that holds the named register, so accepting the line would emit an access the source did not write."""
    tmpl, imms = [], []
    if prop in ('C02', 'C06'):
        tmpl = [('c.lwsp', 'x1', 2, 'c.lwsp x1, {imm}'), ('c.lwsp', 'a5', 2, 'c.lwsp a5, {imm}'), ('c.swsp', 'x5', 2, 'c.swsp x5, {imm}'),
                ('c.swsp', 's1', 2, 'c.swsp s1, {imm}'), ('c.lw', 'x9', None, 'c.lw x9, {base}, {imm}'), ('c.sw', 'x10', None, 'c.sw {base}, x10, {imm}'),
                ('c.li', 'x9', -1, None), ('c.lui', 'x9', -1, None), ('c.addi', 'x9', -1, None), ('c.addi4spn', 'x9', 2, 'c.addi4spn x9, {imm}'),
                ('c.slli', 'x9', -1, None)]
        imms = [0, 4, 8, 16, 64, 124]
    if prop in ('C01', 'C06'):
        tmpl += [('lw', 'x5', None, 'lw x5, {base}, {imm}'), ('sw', 'x5', None, 'sw {base}, x5, {imm}'), ('jalr', 'x1', None, 'jalr x1, {base}, {imm}'),
                ('lbu', 'x7', None, 'lbu x7, {base}, {imm}'), ('lui', 'x5', -1, None), ('auipc', 'x5', -1, None), ('jal', 'x1', -1, None),
                ('addi', 'x5', None, 'addi x5, {base}, {imm}')]
        imms = sorted(set(imms + [0, 4, 8, -4, 2044]))
    bases = [('sp', 2), ('x2', 2), ('x9', 9), ('a0', 10), ('x8', 8), ('s1', 9), ('x15', 15), ('x0', 0), ('ra', 1), ('t6', 31)]
    n = 0
    warnings.simplefilter('ignore', SyntaxWarning)      # eval('4 ( x9 )') inside the assembler warns before it fails
    for name, data, implicit, canon in tmpl:
        for imm in imms:
            for bname, bnum in bases:
                for line in ('{} {}, {}({})'.format(name, data, imm, bname), '{} {} {}({})'.format(name, data, imm, bname)):
                    st, b = assemble_line(asm, line)
                    rep.evaluations += 1
                    n += 1
                    rep.count('text_named_base_' + st.split()[0])
                    if st != 'ok':
                        continue
                    case = dict(line=line, status=st, bytes=b.hex(), named_base=bname)
                    if implicit == -1 or (implicit is not None and bnum != implicit):
                        rep.violation('{!r} names base register {} but assembled to {}, an instruction that {}'.format(
                            line, bname, b.hex(), 'has no base register' if implicit == -1 else 'addresses relative to x%d' % implicit),
                            dict(case=case, text_line=line))
                        continue
                    st2, b2 = assemble_line(asm, canon.format(base=bname, imm=imm))
                    if st2 != 'ok' or b2 != b:
                        rep.violation('{!r} assembled to {} but {!r} gives {}'.format(line, b.hex(), canon.format(base=bname, imm=imm),
                                                                                       b2.hex() if b2 else st2), dict(case=case, text_line=line))
    return n


NONINT = ['7/2', '10/4', '2047.9', '31.75', '9/2', '1e3', '3.0', '0.5', '-1.5', '5/1', '2**0.5', '1/3', '4/2',
          # a register name is not a number either
          'sp', 'tp', 'x5', 'a0', 'zero', 's0', 'ra + 1']


def run_nonint(asm, rep):
    """operands that do not denote an integer (a fraction, a float - true division gives a float even when it is whole) are
    not representable in any field: refused in both modes, never rounded"""
    tmpl = ['addi x1, x0, {}', 'addi x8, x8, {}', 'lw x1, x2, {}', 'sw x2, x3, {}', 'lui x5, {}', 'slti x9, x9, {}', 'c.addi x9, {}',
            'c.lwsp x1, {}', 'c.li x8, {}', 'li x5, {}', 'jalr x1, x2, {}', 'andi x8, x8, {}', 'dw {}', 'db {}', 'pack <I, {}']
    n = 0
    for t in tmpl:
        for v in NONINT:
            line = '    ' + t.format(v)
            for comp, fn in ((False, assemble_line), (True, assemble_line_c)):
                st, b = fn(asm, line)
                rep.evaluations += 1
                n += 1
                rep.count('text_nonint_' + st.split()[0])
                if st == 'ok':
                    rep.violation('the operand of {!r} is not an integer but the line assembled to {} (compress={})'.format(
                        line.strip(), b.hex(), comp), dict(case=dict(line=line, status=st, bytes=b.hex(), compress=comp), text_line=line))
    return len(tmpl) * len(NONINT)


def run_compress_shapes(asm, tier, rnd, rep):
    cases = compress_shapes(tier, rnd)
    req, rows, seen = [], [], set()
    for k, (name, width, ops) in enumerate(cases):
        line = render(name, ops, k)
        if line in seen:
            continue
        seen.add(line)
        st, b = assemble_line_c(asm, line)
        iops = encsweep.intent_ops(ops)
        req.append('legal32 %s %s' % (name, ' '.join(iops)))
        rows.append((line, name, ops, st, b))
    out = common.drv(req)
    for (line, name, ops, st, b), lg in zip(rows, out):
        rep.evaluations += 1
        rep.count('text_c_' + st.split()[0])
        case = dict(line=line, name=name, ops=[list(o) for o in ops], status=st, bytes=b.hex() if b else None, legal=lg, compress=True)
        if lg == 'yes' and st != 'ok':
            rep.violation('with -c the legal line {!r} was refused ({})'.format(line, st), dict(case=case, text_line=line, compress=True))
        if lg != 'yes' and st == 'ok':
            rep.violation('with -c the line {!r} is not representable but assembled to {}'.format(line, b.hex()),
                          dict(case=case, text_line=line, compress=True))
    return len(rows)


def reverse_halfwords(asm, rep):
    """all 65 536 halfwords: spec-decode, print canonical text, assemble it, compare."""
    replies = common.drv(['dec16 %d' % h for h in range(65536)])
    legal = 0
    for h, r in enumerate(replies):
        if r == 'none':
            continue
        legal += 1
        toks = r.split()
        name = toks[0]
        ops = []
        for t in toks[1:]:
            ops.append('x' + t[1:] if t[0] == 'R' else t[1:])
        line = name + ' ' + ' '.join(ops)
        st, b = assemble_line(asm, line)
        rep.evaluations += 1
        if st != 'ok' or b != struct.pack('<H', h):
            rep.violation('legal RV32C halfword 0x{:04x} = {!r} assembles to {}'.format(
                h, line, b.hex() if b else st), dict(halfword=h, text_line=line, status=st, bytes=b.hex() if b else None))
            if len(rep.violations) > 5:
                break
    rep.count('legal_halfwords', legal)
    rep.cov['halfwords_enumerated'] = 65536
    rep.cov['legal_rv32c_halfwords'] = legal
    return legal
