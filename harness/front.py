"""Differential testing of the text front end: the Lean model (BB.Expr / BB.Lex / BB.Parse through
bbdrv) against the REAL bronzebeard code (`Arithmetic.eval`, `unicode_escape`, `lex_tokens`,
`parse_item`) on the same inputs.

Reply format (both sides are canonicalised to exactly these strings):

    evalarith : ok <int> | err | internal <PyType>            (model may also say: unsupported)
    unesc     : ok <hex> | internal <PyType>
    lex       : ok <hex tok> ... | err asm | internal <PyType>
    parse     : ok <item> | none | err asm | internal <PyType>
    parsetoks : as parse, for an explicit token list given to parse_item

`unsupported` replies of the model are counted and never compared.

Run:  /venv/bin/python -m harness.front [n] [seeds] [evalarith,unesc,lex,parse,parsetoks]
"""
import inspect
import signal
import sys
import time
import warnings

from harness import common

sys.set_int_max_str_digits(0)
warnings.simplefilter('ignore')

from bronzebeard import asm  # noqa: E402  (common put /repo on sys.path)

hexs = common.hexs


# --------------------------------------------------------------------------------------------
# (a) the real code, canonicalised
# --------------------------------------------------------------------------------------------

def _exc(e):
    if isinstance(e, asm.AssemblerError):
        return 'err asm'
    return 'internal ' + type(e).__name__


def hexs_sp(s):
    """hex of UTF-8, tolerating the lone surrogates unicode_escape can produce"""
    b = s.encode('utf-8', 'surrogatepass')
    return b.hex() if b else '-'


class Watchdog(BaseException):
    pass


def _alarm(sig, frm):
    raise Watchdog()


def impl_evalarith(expr, env):
    """Arithmetic(expr).eval(None-like position, env, line) of the real code"""
    line = asm.Line('f', 1, expr)
    try:
        signal.signal(signal.SIGALRM, _alarm)
        signal.setitimer(signal.ITIMER_REAL, 20)
        try:
            v = asm.Arithmetic(expr).eval(0, dict(env), line)
        finally:
            signal.setitimer(signal.ITIMER_REAL, 0)
    except asm.AssemblerError:
        return 'err'
    except BaseException as e:  # noqa
        return 'internal ' + type(e).__name__
    if type(v) is not int:
        return 'internal non-int:' + type(v).__name__
    if v.bit_length() > 2000000:
        # printing it would take minutes; only reachable through shifts the model does not support
        return 'ok <{} bits>'.format(v.bit_length())
    return 'ok {}'.format(v)


def impl_unesc(s):
    try:
        r = s.encode('utf-8').decode('unicode_escape')
    except Exception as e:
        return 'internal ' + type(e).__name__
    return 'ok ' + hexs_sp(r)


def impl_lex(text):
    try:
        lt = asm.lex_tokens(asm.Line('f', 1, text))
    except Exception as e:
        return _exc(e)
    return ' '.join(['ok'] + [hexs_sp(t) for t in lt.tokens])


def show_imm(e):
    if isinstance(e, asm.Arithmetic):
        return 'A:' + hexs_sp(e.expr)
    if isinstance(e, asm.Position):
        if not isinstance(e.expr, asm.Arithmetic):
            return 'P?'
        return 'P:' + hexs_sp(e.reference) + ':' + hexs_sp(e.expr.expr)
    if isinstance(e, asm.Offset):
        return 'O:' + hexs_sp(e.reference)
    if isinstance(e, asm.Hi):
        return 'H(' + show_imm(e.expr) + ')'
    if isinstance(e, asm.Lo):
        return 'L(' + show_imm(e.expr) + ')'
    if type(e) is int:
        return 'V:{}'.format(e)
    return '?imm:' + type(e).__name__


def show_reg(r):
    if type(r) is str:
        return 's:' + hexs_sp(r)
    if type(r) is int:
        return 'n:{}'.format(r)
    return '?reg:' + type(r).__name__


def show_strs(l):
    return ' '.join([str(len(l))] + [hexs_sp(x) for x in l])


def show_item(it):
    cls = type(it).__name__
    ln = 'ln:{}'.format(it.line.number)
    if isinstance(it, asm.Label):
        return 'Label {} {}'.format(ln, hexs_sp(it.name))
    if isinstance(it, asm.Constant):
        return 'Constant {} {} {}'.format(ln, hexs_sp(it.name), show_imm(it.expr))
    if isinstance(it, asm.IncludeBytes):
        return 'IncludeBytes {} {} {}'.format(ln, hexs_sp(it.path), it.fsize)
    if isinstance(it, asm.String):
        return 'String {} {}'.format(ln, hexs_sp(it.value))
    if isinstance(it, asm.Sequence):
        return 'Sequence {} {} {}'.format(ln, hexs_sp(it.name), show_strs(it.values))
    if isinstance(it, asm.Pack):
        return 'Pack {} {} {}'.format(ln, hexs_sp(it.fmt), show_imm(it.imm))
    if isinstance(it, asm.ShorthandPack):
        return 'ShorthandPack {} {} {}'.format(ln, hexs_sp(it.name), show_imm(it.imm))
    if isinstance(it, asm.Align):
        return 'Align {} {}'.format(ln, it.alignment)
    if isinstance(it, asm.Blob):
        return 'Blob {} {}'.format(ln, len(it.data))
    if isinstance(it, asm.PseudoInstruction):
        return 'PseudoInstruction {} {} {}'.format(ln, hexs_sp(it.name), show_strs(list(it.args)))
    if isinstance(it, asm.Instruction):
        # fields in constructor order
        out = [ln, cls]
        params = list(inspect.signature(type(it).__init__).parameters.values())[2:]
        for p in params:
            v = getattr(it, p.name)
            if p.name == 'name':
                out.append(hexs_sp(v))
            elif p.name == 'imm':
                out.append(show_imm(v))
            elif type(v) is bool:
                out.append('1' if v else '0')
            else:
                out.append(show_reg(v))
        return ' '.join(out)
    return '?item:' + cls


def impl_parse(text):
    """lex_tokens + parse_item chained the way assemble() chains them"""
    line = asm.Line('f', 1, text)
    try:
        lt = asm.lex_tokens(line)
        if len(lt) == 0:
            return 'none'
        it = asm.parse_item(lt)
    except Exception as e:
        return _exc(e)
    if it is None:
        return 'none'
    return 'ok ' + show_item(it)


def impl_parsetoks(tokens):
    line = asm.Line('f', 1, '')
    try:
        it = asm.parse_item(asm.LineTokens(line, list(tokens)))
    except Exception as e:
        return _exc(e)
    return 'ok ' + show_item(it)


# --------------------------------------------------------------------------------------------
# (b) generators
# --------------------------------------------------------------------------------------------

ENV = {'a': 5, 'b': -3, 'foo': 0x20000000, '_x': 1, 'X1': 4096, 'zero': 0, 'neg': -2049, 'K_9': 12}
UNKNOWN_NAMES = ['q', 'undefined_name', '__builtins__', 'A', 'x1', 'print', 'int', '_']
BOUNDARY = [0, 1, 2, 3, 7, 8, 15, 16, 31, 32, 33, 63, 64, 127, 128, 255, 256, 2047, 2048, 2049, 4095,
            4096, 4097, 0x7fff, 0x8000, 0xffff, 0x10000, 0xfffff, 0x100000, 0x7fffffff, 0x80000000,
            0xffffffff, 0x100000000, 2**63 - 1, 2**63, 2**64 - 1, 2**64, 10**30]


def underscored(r, digits):
    """insert single underscores between digits (legal placement)"""
    if len(digits) < 2 or r.random() < 0.7:
        return digits
    out = digits[0]
    for d in digits[1:]:
        if r.random() < 0.3:
            out += '_'
        out += d
    return out


def gen_value(r):
    k = r.random()
    if k < 0.5:
        return r.choice(BOUNDARY)
    if k < 0.8:
        return r.randrange(0, 70)
    return r.getrandbits(r.choice([8, 12, 16, 32, 33, 64, 100]))


def gen_literal(r, v=None):
    if v is None:
        v = gen_value(r)
    k = r.random()
    if k < 0.45:
        s = underscored(r, str(v))
    elif k < 0.75:
        body = format(v, 'x')
        if r.random() < 0.3:
            body = body.upper()
        elif r.random() < 0.2:
            body = ''.join(c.upper() if r.random() < 0.5 else c for c in body)
        s = r.choice(['0x', '0x', '0X']) + ('_' if r.random() < 0.05 else '') + underscored(r, body)
    elif k < 0.9:
        s = r.choice(['0b', '0b', '0B']) + ('_' if r.random() < 0.05 else '') + underscored(r, format(v, 'b'))
    else:
        s = r.choice(['0o', '0o', '0O']) + ('_' if r.random() < 0.05 else '') + underscored(r, format(v, 'o'))
    if v == 0 and r.random() < 0.3:
        s = r.choice(['0', '00', '0_0', '000', '0_00', '0x0', '0b0', '0o0'])
    return s


BINOPS = ['+', '-', '*', '//', '%', '<<', '>>', '&', '|', '^']
NONSHIFT = ['+', '-', '*', '//', '%', '&', '|', '^']
UNOPS = ['+', '-', '~']


def sp(r):
    k = r.random()
    return '' if k < 0.35 else ' ' if k < 0.9 else '  ' if k < 0.97 else '\t'


def gen_expr(r, depth):
    """a syntactically valid expression over the documented operators; random parenthesisation,
    so precedence and associativity are exercised"""
    if depth <= 0 or r.random() < 0.25:
        k = r.random()
        if k < 0.7:
            return gen_literal(r)
        if k < 0.97:
            return r.choice(list(ENV))
        return r.choice(UNKNOWN_NAMES)
    k = r.random()
    if k < 0.15:
        return r.choice(UNOPS) + sp(r) + gen_expr(r, depth - 1)
    if k < 0.3:
        return '(' + sp(r) + gen_expr(r, depth - 1) + sp(r) + ')'
    op = r.choice(BINOPS)
    lhs = gen_expr(r, depth - 1)
    if op in ('<<', '>>'):
        # keep shift counts small (the model refuses << beyond 4096, and huge counts are expensive
        # for the real interpreter); now and then negative, or right at the model's limit
        j = r.random()
        if j < 0.85:
            rhs = gen_literal(r, r.randrange(0, 70))
        elif j < 0.9:
            rhs = '-' + gen_literal(r, r.randrange(0, 5))
        elif j < 0.95:
            rhs = str(r.choice([4095, 4096, 4097, 5000]))
        else:
            rhs = '((' + gen_expr(r, 1) + ') % 64)'
    else:
        rhs = gen_expr(r, depth - 1)
    if r.random() < 0.3:
        lhs = '(' + lhs + ')'
    if r.random() < 0.3:
        rhs = '(' + rhs + ')'
    if op in ('<<', '>>'):
        # a shift is always parenthesised as a whole, so that no enclosing `*` can capture its count
        return '(' + lhs + sp(r) + op + sp(r) + rhs + ')'
    return lhs + sp(r) + op + sp(r) + rhs


def gen_flat(r):
    """atom op atom op atom ... without parentheses: pure precedence/associativity"""
    n = r.randrange(2, 7)
    out = ''
    shifted = False
    for i in range(n):
        if i:
            op = r.choice(BINOPS)
            if shifted and op == '*':
                op = '+'                  # `1 << 39 * 299 * 299` would be a gigantic shift
            shifted = shifted or op in ('<<', '>>')
            out += sp(r) + op + sp(r)
            if op in ('<<', '>>'):
                out += str(r.randrange(0, 40))
                continue
        for _ in range(r.choice([0, 0, 0, 1, 1, 2])):
            out += r.choice(UNOPS) + sp(r)
        # after a shift operator only small literals follow (a name such as foo would be part of the count)
        out += gen_literal(r, r.randrange(0, 300)) if (shifted or r.random() < 0.8) else r.choice(list(ENV))
    return out


BAD_LITERALS = ['0x', '0X_', '0b', '0o', '1_', '1__0', '0_', '09', '010', '0_1', '0b2', '0b12', '0o8', '0o18',
                '0xg', '0x1g', '1a', '1x', '0b1a', '1_a', '0x1_', '0x__1', '1e3', '1E3', '1j', '1e', '0e0', '00e1',
                '1if', '0xfor', '1or', '1and', '1in', '1is', '1not', '1else', '100_', '0_0_', '00_0', '0__0',
                '08', '0_8', '00_1', '1l', '1L', '0xAbC_dEf', '0B_1', '0O_7', '1_0_0', '9' * 30]
SOUP = (['+', '-', '*', '//', '/', '%', '<<', '>>', '&', '|', '^', '~', '(', ')', '(', ')']
        + ['1', '2', '0', '7', '10', '0x1f', '0b101', '0o17', '3', '64']
        + ['a', 'b', 'foo', 'q', '_x'])
SOUP_RARE = BAD_LITERALS + [',', '.', "'", '"', '<', '>', '=', '==', '!=', '<=', '!', '@', '[', ']', '{', '}', ':', ';',
                            '#', '\\', '$', '?', '`', 'and', 'or', 'not', 'if', 'else', 'lambda', 'in', 'is', 'None',
                            'True', 'False', '__debug__', 'for', 'await', 'yield', '1.5', '.5', '1.', 'a.b', "'a'",
                            '\x0c', '\n', '\x00', '\x7f', 'é', '٣']


def gen_soup(r):
    n = r.randrange(0, 9)
    out = ''
    prev = ''
    for _ in range(n):
        t = r.choice(SOUP_RARE) if r.random() < 0.12 else r.choice(SOUP)
        if t == '*' and prev == '*':
            t = '+'                      # never build `**` by accident: 9**9**9 would hang the real eval
        if prev in ('<<', '*') and not t[:1].isdigit():
            t = '3'                      # keep shift counts small
        if prev in ('<<', '*') and len(t) > 6:
            t = '3'
        s = sp(r)
        if prev == '*' and s == '':
            s = ' '
        out += (s if out else '') + t
        prev = t
    return out


def gen_unbalanced(r):
    e = gen_expr(r, 3)
    k = r.random()
    pos = r.randrange(0, len(e) + 1)
    if k < 0.4:
        return e[:pos] + r.choice('()') + e[pos:]
    if k < 0.8:
        idx = [i for i, c in enumerate(e) if c in '()']
        if idx:
            i = r.choice(idx)
            return e[:i] + e[i + 1:]
        return '(' + e
    if '<<' in e:
        # text spliced into a shift count can make the real eval allocate gigabytes
        return e[:pos] + ')' + e[pos:]
    return e[:pos] + r.choice(BAD_LITERALS[:-1]) + e[pos:]


PRINTABLE = [chr(c) for c in range(32, 127)]
CHAR_FIXED = (["'" + c + "'" for c in PRINTABLE]
              + ["'\\" + c + "'" for c in PRINTABLE]
              + ["'", "''", "'''", "''''", "'ab'", "'a' + 'b'", "'\\'", "'\\\\'", "'\\x41'", "'\\x4'", "'\\x'", "'\\xg1'",
                 "'\\101'", "'\\0'", "'\\00'", "'\\000'", "'\\0000'", "'\\777'", "'\\400'", "'\\8'", "'\\18'",
                 "'\\u0041'", "'\\u004'", "'\\U00000041'", "'\\U0010ffff'", "'\\U00110000'", "'\\U0000004'",
                 "'\\ud800'", "'\\udfff'", "'\\ue000'", "'\\N{DIGIT ONE}'", "'\\N'", "' '", "'  '", "'\t'",
                 "'\\\n'", "'a\\\n'", "'é'", "'\\xe9'", "'\\xff'", "'\\x7f'", "'\\x80'", "'a", "a'", "'1'+1",
                 "'\\x41\\x42'", "'\\1\\2'", "'\\12'", "'\\123'", "'\\1234'", "'\\uD7FF'", "'\\Ud800'"])

ESC_ALPHABET = ['\\', '\\', '\\', 'x', 'u', 'U', 'N', '{', '}', '0', '1', '4', '7', '8', '9', 'a', 'f', 'F', 'g',
                'n', 't', 'r', 'b', 'v', "'", '"', ' ', '\n', 'z', 'D', 'd', '8', '0', '0', '0', 'e']


def gen_esc(r):
    k = r.random()
    if k < 0.5:
        return ''.join(r.choice(ESC_ALPHABET) for _ in range(r.randrange(0, 12)))
    if k < 0.7:
        return '\\' + r.choice('xuU') + ''.join(r.choice('0123456789abcdefABCDEFg') for _ in range(r.randrange(0, 10)))
    if k < 0.8:
        return '\\' + ''.join(r.choice('01234567890') for _ in range(r.randrange(0, 5)))
    if k < 0.9:
        return ''.join(r.choice(PRINTABLE) for _ in range(r.randrange(0, 8)))
    return r.choice(['\\U0010ffff', '\\U00110000', '\\ud800', '\\udfff', '\\ud7ff', '\\ue000', '\\N{DIGIT ONE}',
                     'a\\', '\\\\', '\\\\\\', 'é', 'aé\\n', '\\x', '\\x1', '\\x12', '\\u123', '\\U1234567'])


def gen_evalarith(r):
    """(kind, expr)"""
    k = r.random()
    if k < 0.55:
        return 'tree', gen_expr(r, r.randrange(0, 7))
    if k < 0.70:
        return 'flat', gen_flat(r)
    if k < 0.80:
        return 'soup', gen_soup(r)
    if k < 0.87:
        return 'unbalanced', gen_unbalanced(r)
    if k < 0.90:
        return 'badlit', (r.choice(BAD_LITERALS) if r.random() < 0.6 else
                          r.choice(BAD_LITERALS) + sp(r) + r.choice(NONSHIFT) + sp(r) + gen_literal(r))
    if k < 0.97:
        return 'char', r.choice(CHAR_FIXED)
    return 'charesc', "'" + gen_esc(r) + "'"


# ---- source lines ---------------------------------------------------------------------------

DICT_NAMES = ['R_TYPE_INSTRUCTIONS', 'I_TYPE_INSTRUCTIONS', 'IE_TYPE_INSTRUCTIONS', 'S_TYPE_INSTRUCTIONS',
              'B_TYPE_INSTRUCTIONS', 'U_TYPE_INSTRUCTIONS', 'J_TYPE_INSTRUCTIONS', 'FENCE_INSTRUCTIONS',
              'A_TYPE_INSTRUCTIONS', 'AL_TYPE_INSTRUCTIONS', 'CR_TYPE_INSTRUCTIONS', 'CRJ_TYPE_INSTRUCTIONS',
              'CRE_TYPE_INSTRUCTIONS', 'CI_TYPE_INSTRUCTIONS', 'CIA_TYPE_INSTRUCTIONS', 'CIN_TYPE_INSTRUCTIONS',
              'CSS_TYPE_INSTRUCTIONS', 'CIW_TYPE_INSTRUCTIONS', 'CL_TYPE_INSTRUCTIONS', 'CS_TYPE_INSTRUCTIONS',
              'CA_TYPE_INSTRUCTIONS', 'CB_TYPE_INSTRUCTIONS', 'CJ_TYPE_INSTRUCTIONS']
# operand shape per format dictionary: r = register, i = immediate, t = branch/jump target, f = fence set
SHAPES = {
    'R_TYPE_INSTRUCTIONS': 'rrr', 'I_TYPE_INSTRUCTIONS': 'rri', 'IE_TYPE_INSTRUCTIONS': '', 'S_TYPE_INSTRUCTIONS': 'rri',
    'B_TYPE_INSTRUCTIONS': 'rrt', 'U_TYPE_INSTRUCTIONS': 'ri', 'J_TYPE_INSTRUCTIONS': 'rt', 'FENCE_INSTRUCTIONS': 'ff',
    'A_TYPE_INSTRUCTIONS': 'rrr', 'AL_TYPE_INSTRUCTIONS': 'rr', 'CR_TYPE_INSTRUCTIONS': 'rr', 'CRJ_TYPE_INSTRUCTIONS': 'r',
    'CRE_TYPE_INSTRUCTIONS': '', 'CI_TYPE_INSTRUCTIONS': 'ri', 'CIA_TYPE_INSTRUCTIONS': 'i', 'CIN_TYPE_INSTRUCTIONS': '',
    'CSS_TYPE_INSTRUCTIONS': 'ri', 'CIW_TYPE_INSTRUCTIONS': 'ri', 'CL_TYPE_INSTRUCTIONS': 'rri', 'CS_TYPE_INSTRUCTIONS': 'rri',
    'CA_TYPE_INSTRUCTIONS': 'rr', 'CB_TYPE_INSTRUCTIONS': 'ri', 'CJ_TYPE_INSTRUCTIONS': 't',
}
PSEUDO_SHAPES = {
    'nop': '', 'li': 'ri', 'mv': 'rr', 'not': 'rr', 'neg': 'rr', 'seqz': 'rr', 'snez': 'rr', 'sltz': 'rr', 'sgtz': 'rr',
    'beqz': 'rt', 'bnez': 'rt', 'blez': 'rt', 'bgez': 'rt', 'bltz': 'rt', 'bgtz': 'rt', 'bgt': 'rrt', 'ble': 'rrt',
    'bgtu': 'rrt', 'bleu': 'rrt', 'j': 't', 'jal': 't', 'jr': 'r', 'jalr': 'r', 'ret': '', 'call': 't', 'tail': 't',
    'fence': '',
}


def all_mnemonics():
    out = []
    for dn in DICT_NAMES:
        for m in getattr(asm, dn):
            out.append((m, SHAPES[dn]))
    for m in sorted(asm.PSEUDO_INSTRUCTIONS):
        out.append((m, PSEUDO_SHAPES.get(m, 'rr')))
    return out


MNEMONICS = all_mnemonics()
REG_SPELLINGS = sorted(k for k in asm.REGISTERS if isinstance(k, str))
LABELS = ['main', 'loop', 'end', 'L1', '_start', 'a.b', 'x', 'foo']


def gen_reg(r):
    k = r.random()
    if k < 0.9:
        return r.choice(REG_SPELLINGS)
    if k < 0.94:
        return r.choice(['0x5', '0b11', '0o7', '32', 'q1', 'X5', 'T0', 'ZERO', '-1'])
    if k < 0.97:
        return r.choice(['ALIAS', 'my_reg', 'foo'])
    return r.choice(['=', '(', ')', ':', '%hi', "'a'", '1+1'])


def gen_simple_imm(r):
    k = r.random()
    if k < 0.5:
        v = gen_value(r)
        return ('-' if r.random() < 0.3 else '') + gen_literal(r, v)
    if k < 0.75:
        return gen_expr(r, r.randrange(0, 3))
    if k < 0.85:
        return r.choice(LABELS + list(ENV))
    return r.choice(CHAR_FIXED[:95] + ["','", "'#'", "'('", "')'", "' '", "'\\n'", "'\\''"])


def wrap_mod(r, mod, inner_parts):
    """%mod(...) / %mod ... / %MOD (...) with the given inner token strings"""
    m = mod if r.random() < 0.85 else r.choice([mod.upper(), mod.capitalize(), mod[:2].upper() + mod[2:]])
    inner = r.choice([', ', ',', ' ', ' , ']).join(inner_parts)
    k = r.random()
    if k < 0.6:
        return m + '(' + inner + ')'
    if k < 0.75:
        return m + ' (' + inner + ' )'
    if k < 0.92:
        return m + ' ' + inner
    if k < 0.96:
        return m + '(' + inner            # missing close
    return m + inner + ')'               # glued / stray close


def gen_imm(r, depth=2):
    k = r.random()
    if depth <= 0 or k < 0.45:
        return gen_simple_imm(r)
    if k < 0.6:
        return wrap_mod(r, r.choice(['%hi', '%lo']), [gen_imm(r, depth - 1)])
    if k < 0.72:
        parts = [r.choice(LABELS)]
        if r.random() < 0.85:
            parts.append(gen_simple_imm(r))
        if r.random() < 0.1:
            parts.append(gen_simple_imm(r))
        return wrap_mod(r, '%position', parts)
    if k < 0.84:
        parts = [r.choice(LABELS)] if r.random() < 0.85 else r.choice([[], [r.choice(LABELS), r.choice(LABELS)]])
        return wrap_mod(r, '%offset', parts)
    if k < 0.9:
        return r.choice(['%hi', '%lo', '%position', '%offset', '%hi(', '%hi()', '%lo( )', '%offset(', '%offset()',
                         '%position()', '%position(a)', '%position(', '%hi(%lo(1))', '%hi %lo 1', '%hi(%hi)',
                         '%foo(1)', '%', '%hi)', '%position a', '%position(a,)', '%offset a b', '%offset(a b)'])
    return gen_simple_imm(r)


def gen_target(r):
    k = r.random()
    if k < 0.5:
        return r.choice(LABELS)
    if k < 0.8:
        return ('-' if r.random() < 0.4 else '') + gen_literal(r, r.randrange(0, 4096) * 2)
    if k < 0.9:
        return gen_imm(r, 1)
    return r.choice(['(', ')', '%offset', '%hi', ' 4', '0x', '1_0', '+4', '- 4', '1+1'])


def case_variant(r, m):
    k = r.random()
    if k < 0.8:
        return m
    if k < 0.9:
        return m.upper()
    if k < 0.95:
        return m.capitalize()
    return ''.join(c.upper() if r.random() < 0.5 else c for c in m)


def join_ops(r, m, ops):
    """mnemonic + operands with comma / whitespace variants"""
    style = r.random()
    if style < 0.5:
        sep = ', '
    elif style < 0.7:
        sep = ' '
    elif style < 0.8:
        sep = ','
    elif style < 0.9:
        sep = r.choice([' , ', ',  ', '\t', ' \t ', ',,', ', ,'])
    else:
        sep = None
    head = m + (r.choice([' ', ' ', ' ', '\t', '  ', ',']) if ops else '')
    if sep is None:
        body = ''
        for i, o in enumerate(ops):
            if i:
                body += r.choice([', ', ' ', ',', '  ', '\t', ' ,'])
            body += o
    else:
        body = sep.join(ops)
    return head + body


def decorate(r, text):
    """indentation, trailing blanks, comments"""
    if r.random() < 0.4:
        text = r.choice(['  ', '    ', '\t', ' ', '\t\t', ' \t']) + text
    if r.random() < 0.2:
        text = text + r.choice([' ', '  ', '\t', ' ,', ','])
    if r.random() < 0.25:
        text = text + r.choice([' # comment', '# c', ' #', '  # a, b (c)', " # it's", '\t# x = 1', ' ## #'])
    return text


def gen_instr_line(r):
    m, shape = r.choice(MNEMONICS)
    ops = []
    mem_form = (m in asm.BASE_OFFSET_INSTRUCTIONS) and r.random() < 0.6
    for idx, c in enumerate(shape):
        if c == 'r':
            ops.append(gen_reg(r))
        elif c == 'i':
            ops.append(gen_imm(r))
        elif c == 't':
            ops.append(gen_target(r))
        elif c == 'f':
            ops.append(r.choice(['rw', 'iorw', 'r', 'w', 'io', '0', 'x', 'RW', '3', '0b11']))
    if mem_form and len(ops) == 3:
        # `op r, off(base)`; source order for stores is `rs2, off(rs1)`
        off = ops[2] if r.random() < 0.9 else r.choice(['', '%lo(foo)', '%lo foo', '4 + 4', '(4)'])
        k = r.random()
        inner = ops[1] if k < 0.9 else r.choice(['', 'a b', '(x1)', 'x1)'])
        form = r.choice(['{o}({b})', '{o}({b})', '{o} ({b})', '{o}( {b} )', '{o}({b}', '{o}{b})', '({b})'])
        ops = [ops[0], form.format(o=off, b=inner)]
    if m in asm.A_TYPE_INSTRUCTIONS or m in asm.AL_TYPE_INSTRUCTIONS:
        k = r.random()
        if k < 0.4:
            ops += [r.choice(['0', '1', 'aq', '2']), r.choice(['0', '1', 'rl'])]
        elif k < 0.5:
            ops += [r.choice(['0', '1'])]
        elif k < 0.55:
            ops += ['1', '1', '1']
    # arity errors
    k = r.random()
    if k < 0.12 and ops:
        del ops[r.randrange(len(ops))]
    elif k < 0.2:
        ops.insert(r.randrange(len(ops) + 1), r.choice([gen_reg(r), gen_simple_imm(r)]))
    elif k < 0.23:
        ops = []
    elif k < 0.26:
        ops = ops[:1]
    return 'instr:' + ('bad' if k < 0.26 else 'ok'), decorate(r, join_ops(r, case_variant(r, m), ops))


DIRECTIVE_FIXED = [
    'x = = 3', 'X =', '= 3', 'X = 3', 'X=3', 'X = %hi(3)', 'X = %position(a, 3)', 'X = %offset(a)', 'X == 3',
    'x = 3 = 4', 'add = 3', 'a: = 3', 'a : = 3', 'X = ', ' = ', '=', '= =', 'X = (', 'X = 3 # c', 'x1 = 5', 'zero = 1',
    'main:', 'main::', ':', '::', 'a:b', 'a: b', 'a:b:', 'main: # c', ' main:', 'add:', 'main :', 'ma in:', '1:', "':'",
    'error', 'error ', 'error x', 'error  x', ' error x', 'errors x', 'ERROR', 'ERROR x', 'ERROR x y', 'Error x',
    'error\tx', 'error x y # z', 'error \\x41', 'error \\', 'error \\x4', 'error,x', 'error,', 'error (', 'error, x y',
    'string', 'string ', 'string x', 'string  x', '   string  x', 'strings x', 'STRING x', 'STRING x y', 'String x',
    'string\tx', 'string x y # z', 'string \\x41\\n', 'string \\', 'string \\u00e9', 'string,x', 'string,x,y', 'string (',
    'string \\N{DIGIT ONE}', 'string \\ud800', 'string a\\', 'string é', 'string \\U0001F600', 'string\x0bx',
    '\x0cstring x', 'string \x1f', ' \x1cstring x', 'string #x', 'error #x', 'string x',
    'bytes', 'bytes 1 2 3', 'BYTES 1', 'Bytes 0x1 -1', 'bytes a', 'shorts 1, 2', 'ints 1', 'longs', 'longlongs 1 2',
    'bytes (1)', "bytes 'a'", 'bytes 1 # c',
    'db 1', 'DB 1', 'Db 1 + 2', 'dh %hi(5)', 'dw main', 'dd', 'dd 1 2', 'DW', 'dw %offset(a)', "db ','", "db '#'", "db '('",
    "db ')'", "db ' '", "db 'a'", "db '\\n'", "db '''", "db '\\''",
    'pack', 'pack <I', 'pack <I 3', 'PACK <I 3', 'pack <I, 3 + 4', 'pack <I %position(a, 1)', 'pack < I 3', 'pack (',
    'align', 'align 4', 'ALIGN 4', 'align 0x10', 'align x', 'align 4 4', 'align -4', 'align 0', 'align (4)', 'align 4_0',
    'align 09', 'align 0b100', 'align  4 # c', 'align +4', 'align 1e3',
    'include_bytes', 'include_bytes p', 'include_bytes p 10', 'include_bytes p 0x10', 'include_bytes p zz',
    'INCLUDE_BYTES p 10', 'include_bytes p 10 11', 'include_bytes p -1', 'include_bytes p 1_0', 'include_bytes p 1__0',
    'include p', 'include', '', ' ', '\t', '#', ' # c', ',', ',,', '( )', '(', ')', '()', 'nosuch x1', 'nosuch',
    'fence', 'fence rw', 'fence rw, rw', 'fence rw rw rw', 'FENCE', 'fence.i', 'fence.i x', 'ecall', 'ecall 1', 'ebreak x y',
    'jal main', 'jal x1 main', 'jal x1, 8', 'jal', 'jal x1 main x', 'JAL main', 'jalr x1', 'jalr x1, 0(x2)', 'jalr x1, x2, 0',
    'jalr', 'jalr x1 x2', 'jalr x1, (x2)', 'jalr x1 x2 x3 x4 x5', 'lw x1', 'lw', 'lw x1 x2', 'lw x1, 4(x2)', 'lw x1, 4(x2) x',
    'lw x1, (x2)', 'lw x1, x2, 4', 'lw x1, x2, 4 + 4', 'lw x1, x2, (', 'lw x1, 4 (', 'lw = 4 ( x2 )', 'lw = x2 4',
    'sw x1', 'sw', 'sw x1, 4(x2)', 'sw x1, x2, 4', 'sw x1, x2', 'sw x1, x2, 4, 5', 'sw x1 4 ( x2', 'c.lw', 'c.lw x8',
    'c.lw x8, 4(x9)', 'c.lw x8, x9, 4', 'c.sw x8, 4(x9)', 'c.sw x8, x9, 4', 'c.sw x8, x9', 'c.lw x8 4 ( x9 ) )',
    'beq x1 x2 (', 'beq x1, x2, main', 'beq x1, x2, 8', 'beq x1, x2', 'beq x1, x2, %offset', 'beq x1, x2, %hi',
    'beq x1, x2, -0x8', 'beq x1, x2, 0x', 'beq x1 x2 = ', 'lui', 'lui x1', 'lui x1, 5', 'lui x1, %hi(main)', 'lui x1 %hi',
    'c.j', 'c.j main', 'c.j %offset(main)', 'c.j 4', 'c.jal', 'c.addi16sp', 'c.addi16sp 16', 'c.nop 1', 'c.ebreak 1',
    'lr.w x1, x2', 'lr.w x1, x2, 1, 1', 'lr.w x1, x2, 1', 'lr.w x1', 'sc.w x1, x2, x3', 'sc.w x1, x2, x3, 1, 0',
    'sc.w x1, x2, x3, 1', 'sc.w x1, x2', 'amoadd.w x1 x2 x3 aq rl', 'li x1 5', 'li x1, %hi(5)', 'li', 'LI x1 5', 'ret',
    'ret x', 'call main', 'tail main', 'nop', 'nop nop', 'mv x1', 'j 8', 'lw x1, %lo(foo)(x2)', 'lw x1, x2, %lo(foo)',
    'sw x1, %lo(foo)(x2)', 'addi x1, x2, 4(x3)', 'addi x1 x2 ( 4 )',
]


def gen_directive_line(r):
    k = r.random()
    if k < 0.35:
        return 'fixed', decorate(r, r.choice(DIRECTIVE_FIXED)) if r.random() < 0.5 else r.choice(DIRECTIVE_FIXED)
    if k < 0.5:
        name = r.choice(['X', 'ADDR', 'rcu_base', 'x', 'add', 'a.b', '_', '9', 'x1'])
        eq = r.choice([' = ', ' = ', '=', ' =', '= ', ' == ', ' = = '])
        return 'constant', decorate(r, name + eq + gen_imm(r))
    if k < 0.58:
        return 'label', decorate(r, r.choice(LABELS + ['add', '1', '', 'a b']) + r.choice([':', ':', ':', '::', ' :', ': x']))
    if k < 0.72:
        name = case_variant(r, r.choice(sorted(asm.NUMERIC_SEQUENCE_NAMES)))
        vals = [('-' if r.random() < 0.2 else '') + gen_literal(r, r.randrange(0, 300)) if r.random() < 0.9 else gen_simple_imm(r)
                for _ in range(r.randrange(0, 6))]
        return 'sequence', decorate(r, join_ops(r, name, vals))
    if k < 0.84:
        name = case_variant(r, r.choice(sorted(asm.SHORTHAND_PACK_NAMES)))
        ops = [gen_imm(r)] if r.random() < 0.9 else []
        return 'shorthand', decorate(r, join_ops(r, name, ops))
    if k < 0.92:
        fmt = r.choice(['<B', '<b', '<H', '<h', '<I', '<i', '<L', '<l', '<Q', '<q', '>I', '>H', 'I', '<', '<II', '(', '='])
        ops = [fmt] + ([gen_imm(r)] if r.random() < 0.9 else [])
        return 'pack', decorate(r, join_ops(r, case_variant(r, 'pack'), ops))
    if k < 0.96:
        ops = [r.choice(['1', '2', '4', '8', '16', '0x100', '0', '-4', 'x', '4_0', '09', '', '0b100'])]
        if r.random() < 0.1:
            ops.append('4')
        return 'align', decorate(r, join_ops(r, case_variant(r, 'align'), [o for o in ops if o]))
    kw = r.choice(['string', 'error'])
    body = gen_esc(r) if r.random() < 0.5 else ''.join(r.choice(PRINTABLE) for _ in range(r.randrange(0, 12)))
    lead = r.choice(['', '', ' ', '  ', '\t', '\x0b', '\x1f '])
    gap = r.choice([' ', ' ', ' ', '  ', '\t', '', ','])
    return kw, lead + kw + gap + body


def gen_line(r):
    if r.random() < 0.7:
        return gen_instr_line(r)
    return gen_directive_line(r)


def mutate_line(r, text):
    """byte-level noise for the lexer: separators of every kind, parens, hashes, odd whitespace"""
    n = r.choice([0, 0, 1, 1, 2, 3])
    for _ in range(n):
        pos = r.randrange(0, len(text) + 1)
        ins = r.choice([' ', ',', '\t', '(', ')', '#', '\x0b', '\x0c', '\x1c', '\x1d', '\x1e', '\x1f', '\r', "'", ':',
                        '=', '  ', ' , ', '\x00', '\x7f', '%', '\\', '"',
                        # quoted characters: kept whole by the lexer whatever they hold
                        "','", "'#'", "'('", "')'", "' '", "'''", "'\t'", "'\\\\'", "'\\n'", "'\\x41'", "'\\''", "'\\'", "''", "'a'",
                        " ','", "','+1", "('#')", "# it's"])
        if r.random() < 0.02:
            ins = r.choice(['\n', 'é', ' ', ' ', '\x85'])
        text = text[:pos] + ins + text[pos:]
    return text


VOCAB = (['', '(', ')', '=', ':', '%hi', '%lo', '%LO', '%Hi', '%position', '%offset', '%OFFSET', '%Position', 'x1', 'sp', 'a0',
          '4', '-8', '0x10', 'main', 'main:', '1+1', "'", 'rw', '1', '0', 'error', 'string', 'pack', 'align', '<I', 'DB', 'db',
          'bytes', 'BYTES', 'include_bytes', 'zz', 'X', ' 4', '4 ', 'é', 'pacK', '%hİ']
         + [m for m, _ in MNEMONICS] + [m.upper() for m, _ in MNEMONICS[::7]])


def gen_toklist(r):
    k = r.random()
    if k < 0.6:
        m, shape = r.choice(MNEMONICS)
        n = r.randrange(0, 8)
        return [case_variant(r, m)] + [r.choice(VOCAB[:43]) for _ in range(n)]
    return [r.choice(VOCAB) for _ in range(r.randrange(0, 8))]


# --------------------------------------------------------------------------------------------
# (c) differential runs
# --------------------------------------------------------------------------------------------

def _run(kinds, inputs, reqs, impl_fn):
    t0 = time.time()
    impl_replies = [impl_fn(x) for x in inputs]
    t_impl = time.time() - t0
    t1 = time.time()
    model_replies = common.drv(reqs)
    t_model = time.time() - t1
    res = dict(total=len(inputs), mismatches=[], unsupported=0, by_kind={}, unsupported_by_kind={}, outcomes={},
               model_s=round(t_model, 3), impl_s=round(t_impl, 3))
    for kind, inp, m, i in zip(kinds, inputs, model_replies, impl_replies):
        res['by_kind'][kind] = res['by_kind'].get(kind, 0) + 1
        if m == 'unsupported':
            res['unsupported'] += 1
            res['unsupported_by_kind'][kind] = res['unsupported_by_kind'].get(kind, 0) + 1
            continue
        parts = i.split(' ')
        oc = parts[0] + (' ' + parts[1] if parts[0] in ('internal', 'err') and len(parts) > 1 else '')
        res['outcomes'][oc] = res['outcomes'].get(oc, 0) + 1
        if m != i:
            res['mismatches'].append((inp, m, i))
    res['unsupported_rate'] = round(res['unsupported'] / max(1, res['total']), 5)
    return res


def differential_evalarith(n, tag='evalarith'):
    r = common.rng('front:' + tag)
    kinds, inputs = [], []
    for e in CHAR_FIXED:
        kinds.append('char-fixed')
        inputs.append(e)
    for e in BAD_LITERALS:
        kinds.append('badlit-fixed')
        inputs.append(e)
    for _ in range(n):
        k, e = gen_evalarith(r)
        kinds.append(k)
        inputs.append(e)
    env = ' '.join('{}={}'.format(k, v) for k, v in ENV.items())
    reqs = ['evalarith {} {}'.format(hexs(e), env) for e in inputs]
    return _run(kinds, inputs, reqs, lambda e: impl_evalarith(e, ENV))


def differential_unesc(n, tag='unesc'):
    r = common.rng('front:' + tag)
    inputs = [c[1:-1] for c in CHAR_FIXED] + [gen_esc(r) for _ in range(n)]
    kinds = ['esc'] * len(inputs)
    reqs = ['unesc ' + hexs(s) for s in inputs]
    return _run(kinds, inputs, reqs, impl_unesc)


def _lines(r, n):
    kinds, inputs = [], []
    for t in DIRECTIVE_FIXED:
        kinds.append('fixed')
        inputs.append(t)
    for m, shape in MNEMONICS:          # every mnemonic, canonical arity and every shorter/longer one, both cases
        ops = ['x8' if c == 'r' else '4' if c == 'i' else 'main' if c == 't' else 'rw' for c in shape]
        for mm in (m, m.upper()):
            kinds.append('every-mnemonic')
            inputs.append(mm + ' ' + ', '.join(ops))
            for cut in range(len(ops)):
                kinds.append('every-mnemonic-arity')
                inputs.append(mm + ' ' + ', '.join(ops[:cut]))
            kinds.append('every-mnemonic-arity')
            inputs.append(mm + ' ' + ', '.join(ops + ['x9']))
        if m in asm.BASE_OFFSET_INSTRUCTIONS:
            for form in ('{m} x8, 4(x9)', '{m} x8, x9, 4', '{m} x8, %lo(foo)(x9)', '{m} x8, x9, %lo(foo)', '{m} x8 4(x9',
                         '{m} x8, 4(x9) x', '{m} x8, (x9)', '{m} x8, 4 + 4(x9)'):
                kinds.append('base-offset')
                inputs.append(form.format(m=m))
    for _ in range(n):
        k, t = gen_line(r)
        kinds.append(k)
        inputs.append(t)
    return kinds, inputs


def differential_lex(n, tag='lex'):
    r = common.rng('front:' + tag)
    kinds, inputs = _lines(r, n)
    kinds2, inputs2 = [], []
    for k, t in zip(kinds, inputs):
        kinds2.append(k)
        inputs2.append(t)
        if r.random() < 0.5:
            kinds2.append('mutated')
            inputs2.append(mutate_line(r, t))
    reqs = ['lex ' + hexs(t) for t in inputs2]
    return _run(kinds2, inputs2, reqs, impl_lex)


def differential_parse(n, tag='parse'):
    r = common.rng('front:' + tag)
    kinds, inputs = _lines(r, n)
    for i in range(len(inputs)):
        if r.random() < 0.15:
            inputs[i] = mutate_line(r, inputs[i])
            kinds[i] = 'mutated'
    reqs = ['parse ' + hexs(t) for t in inputs]
    return _run(kinds, inputs, reqs, impl_parse)


def differential_parsetoks(n, tag='parsetoks'):
    r = common.rng('front:' + tag)
    inputs = [gen_toklist(r) for _ in range(n)]
    kinds = ['toklist'] * len(inputs)
    reqs = [' '.join(['parsetoks'] + [hexs(t) for t in toks]) for toks in inputs]
    return _run(kinds, inputs, reqs, impl_parsetoks)


DIFFERENTIALS = {
    'evalarith': differential_evalarith,
    'unesc': differential_unesc,
    'lex': differential_lex,
    'parse': differential_parse,
    'parsetoks': differential_parsetoks,
}


def differential(n, tag=''):
    """all five streams; returns {function: dict(total, mismatches, unsupported, by_kind, ...)}"""
    return {name: fn(n, name + ':' + str(tag)) for name, fn in DIFFERENTIALS.items()}


def main(argv):
    n = int(argv[1]) if len(argv) > 1 else 20000
    seeds = int(argv[2]) if len(argv) > 2 else 1
    only = argv[3].split(',') if len(argv) > 3 else list(DIFFERENTIALS)
    bad = 0
    for s in range(seeds):
        for name in only:
            t0 = time.time()
            res = DIFFERENTIALS[name](n, '{}:{}'.format(name, s))
            dt = time.time() - t0
            print('{:10s} seed={} total={} mismatches={} unsupported={} ({:.2%}) wall={:.1f}s impl={:.1f}s model={:.1f}s'.format(
                name, s, res['total'], len(res['mismatches']), res['unsupported'], res['unsupported_rate'], dt,
                res['impl_s'], res['model_s']))
            if s == 0:
                print('   outcomes', dict(sorted(res['outcomes'].items(), key=lambda kv: -kv[1])))
                print('   unsupported_by_kind', res['unsupported_by_kind'], 'of', res['by_kind'])
            for inp, m, i in res['mismatches'][:15]:
                print('   MISMATCH input={!r}\n      model={}\n      impl ={}'.format(inp, m, i))
            bad += len(res['mismatches'])
    return 1 if bad else 0


if __name__ == '__main__':
    sys.exit(main(sys.argv))
