"""Shared machinery of the DFU checks C18 / C19 (DESIGN.md section 5).

The REAL `bronzebeard.dfu.cli_main` is run in-process against the LEAN device model:

  * a fake `usb` package is put into sys.modules before `bronzebeard.dfu` is imported;
    `usb.core.find` returns a device whose `ctrl_transfer` forwards every control transfer to
    bbdrv (`dfu-req`, lean/Driver/DfuProto.lean) and hands the Lean device's reply back
    (array of bytes for IN, byte count for OUT, `usb.core.USBError` for a stall);
  * the module's `time` is replaced by an object whose `sleep` forwards to `dfu-sleep`;
  * sys.argv is set, stdout captured, the firmware lives in a temp directory that is removed.

Nothing in /repo is edited or hooked.  The same inputs are given to `dfu-host` (Lean host model
against the Lean device); the two event traces are compared (correspondence), and the property
oracles below are evaluated on what the REAL host did to the Lean device.
"""
import array
import contextlib
import io
import itertools
import json
import os
import shutil
import threading
import sys
import tempfile
import types

from harness import common

PAGE = 1024
BASE = 0x08000000
VARIANTS = {16: '4', 32: '6', 64: '8', 128: 'B'}      # page_count -> third character of the serial number
MON_NAMES = ['writeUnerased', 'busyRequest', 'earlyRequest', 'addrRange', 'misaligned']

ASSUMPTIONS = [
    'time.sleep really waits at least the requested time (the replaced sleep advances the model clock by exactly the requested amount)',
    'no USB transport errors other than a protocol stall; the pyusb/libusb backend and usb.core.find are replaced by a fake package',
    'the hardware behaves like the DFU 1.1 + DfuSe automaton of lean/BB/Dfu/Device.lean (page size 1024, base 0x08000000, erase granularity one page)',
    'page_count is what the GD32 serial-number quirk yields (16/32/64/128); argparse, file reading and the progress prints are exercised but not modelled',
    'the device starts in dfuIDLE or dfuERROR (not in the middle of an earlier download)',
]


# ---------------------------------------------------------------------------------------------
# fake usb package + the real cli_main
# ---------------------------------------------------------------------------------------------

class USBError(IOError):
    pass


class _Link:
    """what the fake device and the fake clock talk to: one bbdrv session + the event trace"""

    def __init__(self):
        self.drv = None
        self.trace = []
        self.pending = 0

    def tell(self, line):
        """send a request whose reply ('ok') is only read together with the next ask (saves a round trip)"""
        self.drv.p.stdin.write(line + '\n')
        self.pending += 1

    def ask(self, line):
        p = self.drv.p
        p.stdin.write(line + '\n')
        p.stdin.flush()
        while self.pending:
            r = p.stdout.readline().rstrip('\n')
            if r != 'ok':
                raise RuntimeError('bbdrv: dfu-sleep answered {!r}'.format(r))
            self.pending -= 1
        return p.stdout.readline().rstrip('\n')


LINK = _Link()


class FakeDevice:
    def __init__(self, serial):
        self.serial_number = serial

    def ctrl_transfer(self, bmRequestType, bRequest, wValue=0, wIndex=0, data_or_wLength=None, timeout=None):
        if bmRequestType & 0x80:
            n = int(data_or_wLength or 0)
            pl = 'L{}'.format(n)
            arg = str(n)
        else:
            data = bytes(data_or_wLength or b'')
            pl = data.hex() if data else '-'
            arg = pl
        reply = LINK.ask('dfu-req {} {} {} {}'.format(bmRequestType, bRequest, wValue, arg))
        LINK.trace.append('R{}.{}.{}.{}={}'.format(bmRequestType, bRequest, wValue, pl, reply))
        if reply == 's':
            raise USBError('[Errno 32] Pipe error')
        if reply.startswith('b'):
            return array.array('B', bytes.fromhex('' if reply == 'b-' else reply[1:]))
        if reply.startswith('c'):
            return int(reply[1:])
        raise RuntimeError('bbdrv: unexpected reply {!r}'.format(reply))


class FakeTime:
    @staticmethod
    def sleep(seconds):
        ms = int(round(seconds * 1000))
        LINK.tell('dfu-sleep {}'.format(ms))
        LINK.trace.append('S{}'.format(ms))


_current = {'serial': None}


def _install_fake_usb():
    usb = types.ModuleType('usb')
    core = types.ModuleType('usb.core')
    backend = types.ModuleType('usb.backend')
    libusb1 = types.ModuleType('usb.backend.libusb1')
    core.USBError = USBError
    core.find = lambda **kw: FakeDevice(_current['serial'])
    libusb1.get_backend = lambda **kw: object()
    usb.core, usb.backend, backend.libusb1 = core, backend, libusb1
    usb.__path__ = []
    backend.__path__ = []
    sys.modules.update({'usb': usb, 'usb.core': core, 'usb.backend': backend, 'usb.backend.libusb1': libusb1})


_dfu = None


def dfu_module():
    global _dfu
    if _dfu is None:
        _install_fake_usb()
        import bronzebeard.dfu as m
        m.time = FakeTime
        _dfu = m
    return _dfu


def serial_for(page_count):
    # cli_main reads sn = serial.encode('utf-16-le').decode('utf-8') and looks at sn[2]
    s = ('GD' + VARIANTS[page_count] + 'J').encode('ascii').decode('utf-16-le')
    assert s.encode('utf-16-le').decode('utf-8')[2] == VARIANTS[page_count]
    return s


def firmware(length, salt):
    """non-zero bytes (so that zero padding is distinguishable), different in every page"""
    pat = _PATTERNS.get(salt)
    if pat is None:
        pat = _PATTERNS[salt] = bytes(((i * 131 + salt) % 255) + 1 for i in range(255))
    return (pat * (length // 255 + 1))[:length]


_PATTERNS = {}


def firmware_of(case):
    """the image of a case; case['fill'] = 'p:vv,p:vv' overwrites whole pages p with byte vv (blank-looking
    0xff pages, zero pages), clipped to the image length"""
    fw = bytearray(firmware(case['length'], case['salt']))
    for cell in filter(None, case.get('fill', '').split(',')):
        p, v = cell.split(':')
        lo, hi = int(p) * PAGE, min(len(fw), (int(p) + 1) * PAGE)
        if lo < hi:
            fw[lo:hi] = bytes([int(v, 16)]) * (hi - lo)
    # case['tail'] / case['head'] = 'hex' or 'vv*N': bytes that overwrite the end / the beginning of the image (container magic,
    # a DFU-suffix look-alike, erased-flash filler): the tool flashes FILES, whatever their bytes say
    for key in ('tail', 'head'):
        spec = case.get(key)
        if spec:
            if '*' in spec:
                v, n = spec.split('*')
                bs = bytes([int(v, 16)]) * int(n)
            else:
                bs = bytes.fromhex(spec)
            bs = bs[-len(fw):] if key == 'tail' else bs[:len(fw)]
            if bs:
                if key == 'tail':
                    fw[len(fw) - len(bs):] = bs
                else:
                    fw[:len(bs)] = bs
    return bytes(fw)


# ---------------------------------------------------------------------------------------------
# schedules
# ---------------------------------------------------------------------------------------------

def soft(status):
    """the status-only flavour of an injected fault: the completing GETSTATUS carries bStatus = status while bState is
    dfuDNLOAD_IDLE as after a success (the schedule writes it q<status>)"""
    return 'q{}'.format(status)


def fault_status(f):
    """numeric status of a fault as written in a schedule / a case's `faults` (int, '7' or 'q7')"""
    return int(str(f).lstrip('q'))


def sched_str(start_err, idle, ops):
    """ops: list of (busy timeouts list, done timeout, fault); fault = status (0 = none) or soft(status)"""
    return 'S{}/I{}'.format(start_err, ','.join(map(str, idle))) + ''.join(
        '/O{}:{}:{}'.format(','.join(map(str, b)), d, f) for b, d, f in ops)


def pages_of(length):
    return (length + PAGE - 1) // PAGE


TIMEOUTS = [0, 0, 1, 2, 5, 10, 100, 255, 256, 65535, 65536, 16777215]


def random_ops(r, nops, max_busy, faults=None):
    ops = []
    for i in range(nops):
        nb = r.choice([0, 0, 1, 1, 2, 3, max_busy, r.randrange(max_busy + 1)])
        ops.append(([r.choice(TIMEOUTS) for _ in range(nb)], r.choice(TIMEOUTS), (faults or {}).get(i, 0)))
    return ops


def ops_from_counts(counts, r, faults=None):
    return [([r.choice(TIMEOUTS) for _ in range(n)], r.choice(TIMEOUTS), (faults or {}).get(i, 0))
            for i, n in enumerate(counts)]


def op_kind(i, pages):
    """operation i of a run over `pages` pages: ('erase', p) | ('addr', p) | ('data', p)"""
    if i < pages:
        return 'erase', i
    j = i - pages
    return ('addr' if j % 2 == 0 else 'data'), j // 2


# ---------------------------------------------------------------------------------------------
# running one case
# ---------------------------------------------------------------------------------------------

def parse_report(text):
    d = dict(tok.split('=', 1) for tok in text.split(' ') if '=' in tok)
    flash = {}
    if d.get('flash', '-') != '-':
        for cell in d['flash'].split(','):
            p, v = cell.split(':', 1)
            flash[int(p)] = 'e' if v == 'e' else bytes.fromhex('' if v == 'd-' else v[1:])
    lst = lambda s: [] if s in ('-', None) else [int(x) for x in s.split(',')]
    return dict(nreq=int(d['nreq']), stalls=int(d['stalls']), mon=d['mon'], state=int(d['state']),
                status=int(d['status']), clock=int(d['clock']), erased=lst(d.get('erased')),
                written=lst(d.get('written')), flash=flash)


class Session:
    def __init__(self):
        self.drv = common.Driver()
        self.tmp = tempfile.mkdtemp(prefix='bbdfu')
        LINK.drv = self.drv

    def close(self):
        self.drv.close()
        shutil.rmtree(self.tmp, ignore_errors=True)

    def run_real(self, case):
        """case: dict(pc, length, salt, sched, flash).  Returns what the real cli_main did."""
        m = dfu_module()
        fw = firmware_of(case)
        path = os.path.join(self.tmp, 'fw.bin')
        feeder = None
        if os.path.lexists(path):
            os.unlink(path)
        if case.get('via') == 'fifo':
            # the image arrives through a named pipe (mkfifo; `cat fw.bin > pipe &`): its stat size says nothing
            os.mkfifo(path)

            def feed():
                try:
                    with open(path, 'wb') as f:
                        f.write(fw)
                except OSError:
                    pass
            feeder = threading.Thread(target=feed, daemon=True)
            feeder.start()
        elif case.get('via') == 'symlink':
            real = os.path.join(self.tmp, 'fw.real')
            with open(real, 'wb') as f:
                f.write(fw)
            os.symlink('fw.real', path)
        else:
            with open(path, 'wb') as f:
                f.write(fw)
        _current['serial'] = serial_for(case['pc'])
        LINK.trace = []
        r = LINK.ask('dfu-begin {} {} {}'.format(case['pc'], case['sched'], case['flash']))
        if r != 'ok':
            raise RuntimeError('dfu-begin: ' + r)
        out = io.StringIO()
        argv = sys.argv
        sys.argv = ['bronzebeard-dfu', '28e9:0189', path]
        exit_status, exit_kind, exit_text = 0, 'ok', ''
        try:
            with contextlib.redirect_stdout(out):
                m.cli_main()
        except SystemExit as e:
            if e.code is None or e.code == 0:
                exit_status = 0
            elif isinstance(e.code, int):
                exit_status, exit_kind = e.code, 'exit-int'
            else:
                exit_status, exit_kind, exit_text = 1, 'message', str(e.code)
        except USBError as e:
            exit_status, exit_kind, exit_text = 1, 'usbError', repr(e)
        except AssertionError as e:
            exit_status, exit_kind, exit_text = 1, 'assertion', repr(e)
        except Exception as e:  # any other uncaught exception: traceback, exit status 1
            exit_status, exit_kind, exit_text = 1, 'exception:' + type(e).__name__, repr(e)
        finally:
            sys.argv = argv
            if feeder is not None:
                if feeder.is_alive():
                    # nobody opened the pipe for reading: release the writer
                    try:
                        fd = os.open(path, os.O_RDONLY | os.O_NONBLOCK)
                        feeder.join(2)
                        os.close(fd)
                    except OSError:
                        pass
                feeder.join(2)
        rep = parse_report(LINK.ask('dfu-end'))
        stdout = out.getvalue()
        done = any(line.strip() == 'done!' for line in stdout.replace('\r', '\n').split('\n'))
        return dict(exit=exit_status, kind=exit_kind, text=exit_text, done=done, trace=list(LINK.trace),
                    report=rep, fw=fw)

    def run_model(self, case):
        fw = firmware_of(case)
        line = LINK.ask('dfu-host {} {} {} {}'.format(case['pc'], fw.hex() if fw else '-', case['sched'], case['flash']))
        head, _, rest = line.partition(' trace=')
        d = dict(tok.split('=', 1) for tok in head.split(' '))
        tr, _, report = rest.partition(' ')
        return dict(exit=int(d['exit']), msg=d['msg'], done=d['done'] == '1', halted=d['halted'] == '1',
                    fuel=int(d['fuel']), trace=[] if tr == '-' else tr.split(','), report=parse_report(report))


# ---------------------------------------------------------------------------------------------
# oracles (the property, evaluated on what the real host did to the Lean device)
# ---------------------------------------------------------------------------------------------

def initial_cells(case):
    cells = {}
    if case['flash'] != '-':
        for p, ch in enumerate(case['flash']):
            if ch == 'e':
                cells[p] = 'e'
            elif ch == 'd':
                cells[p] = b''
    return cells


def oracle_c18(case, real):
    """C18 on a fault-free schedule with fitting firmware.  Returns a list of failures (empty = holds)."""
    fails = []
    fw = real['fw']
    n = pages_of(len(fw))
    padded = fw + b'\0' * (n * PAGE - len(fw))
    rep = real['report']
    if real['exit'] != 0 or not real['done']:
        fails.append('run did not complete: exit={} kind={} {} done={}'.format(real['exit'], real['kind'], real['text'][:80], real['done']))
    want = initial_cells(case)
    for p in range(n):
        want[p] = padded[p * PAGE:(p + 1) * PAGE]
    got = rep['flash']
    if got != want:
        bad = sorted(p for p in set(got) | set(want) if got.get(p) != want.get(p))
        fails.append('final flash differs from the zero-padded firmware at page(s) {} (of {} firmware pages)'.format(bad[:8], n))
    if sorted(set(rep['erased'])) != list(range(n)):
        fails.append('pages erased {} != firmware pages 0..{}'.format(sorted(set(rep['erased']))[:10], n - 1))
    if sorted(set(rep['written'])) != list(range(n)):
        fails.append('pages written {} != firmware pages 0..{}'.format(sorted(set(rep['written']))[:10], n - 1))
    if rep['mon'] != '00000':
        fails.append('monitor(s) raised: ' + ','.join(nm for nm, b in zip(MON_NAMES, rep['mon']) if b == '1'))
    return fails


def oracle_c19_oversize(case, real):
    fails = []
    if any(ev.startswith('R') for ev in real['trace']) or real['report']['nreq'] != 0:
        fails.append('{} request(s) were sent although the firmware does not fit'.format(real['report']['nreq']))
    if real['report']['flash'] != initial_cells(case):
        fails.append('flash was touched')
    if real['exit'] == 0:
        fails.append('oversize firmware was not refused (exit status 0)')
    if real['done']:
        fails.append("'done!' was printed")
    return fails


def first_reported_error(trace, with_state=False):
    """the first GETSTATUS reply with a status other than OK that follows a DNLOAD, attributed to that DNLOAD:
    returns (kind, address or None, status) with kind 'erase' / 'addr' / 'data' / 'other', or None; with_state=True adds
    the bState of that reply (10 = dfuERROR, 5 = dfuDNLOAD_IDLE: the status-only flavour).
    Read off the trace of the real host, so it does not depend on the order in which a host starts operations."""
    last, ptr = None, None
    for ev in trace:
        if ev.startswith('R33.1.'):
            _, _, rest = ev.partition('R33.1.')
            wvalue, _, tail = rest.partition('.')
            payload = tail.split('=', 1)[0]
            if wvalue == '0' and len(payload) == 10 and payload[:2] in ('41', '21'):
                addr = int.from_bytes(bytes.fromhex(payload[2:]), 'little')
                if payload[:2] == '41':
                    last = ('erase', addr)
                else:
                    last, ptr = ('addr', addr), addr
            elif wvalue != '0' and wvalue != '1':
                last = ('data', ptr)
            else:
                last = ('other', None)
        elif last is not None and ev.startswith('R161.3.') and '=b' in ev:
            reply = ev.split('=b', 1)[1]
            status = int(reply[:2] or '0', 16)
            if status != 0:
                if with_state:
                    return last[0], last[1], status, int(reply[8:10] or '0', 16)
                return last[0], last[1], status
    return None


def oracle_c19_fault(case, real):
    """an error status was injected at operation(s) case['faults'] ({op index: status, or soft(status) for the
    status-only flavour}).  Demanded whenever the device actually reported an error status for an erase or a write (data)
    to this host - in bStatus, whatever bState says: exit status != 0, no 'done!', and a message naming the failure.
    A failed set-address is part of the write step: the same is demanded of it."""
    fails = []
    rep = first_reported_error(real['trace'])
    if rep is None:
        return fails        # the device never got to report an injected status to this host
    kind, addr, status = rep
    where = '{} at {}'.format(kind, '0x{:08x}'.format(addr) if addr is not None else '?')
    if real['exit'] == 0:
        fails.append('device reported status {} for the {} and the run ended with exit status 0'.format(status, where))
    if real['done']:
        fails.append("device reported status {} for the {} and 'done!' was printed".format(status, where))
    if kind in ('erase', 'data', 'addr') and real['exit'] != 0 and not fails:
        # "naming the failure": the message that comes with the non-zero exit status must say what failed -
        # the step ('eras...' / 'writ...'), or the page address, or the device's status (its DFU 1.1 description).
        # A bare transport exception (USBError: Pipe error) raised by a LATER request names nothing.
        text = real['text'].lower()
        desc = dfu_module().STATUS_DESCRIPTION.get(status)
        names = ['eras'] if kind == 'erase' else ['writ'] if kind == 'data' else ['addr', 'writ']
        if addr is not None:
            names.append('{:08x}'.format(addr))
        if desc:
            names.append(desc.lower())
        if real['kind'] == 'usbError' or not any(n in text for n in names):
            fails.append('device reported status {} for the {}; the run ended with exit status {} ({}: {!r}) '
                         'which does not name the failure'.format(status, where, real['exit'], real['kind'], real['text'][:80]))
    return fails


# ---------------------------------------------------------------------------------------------
# correspondence real host <-> Lean host model
# ---------------------------------------------------------------------------------------------

MODEL_KIND = {'ok': 'ok', 'tooLarge': 'message', 'eraseFailed': 'message', 'addrFailed': 'message', 'writeFailed': 'message',
              'assertion': 'assertion', 'usbError': 'usbError', 'keyError': 'exception:KeyError'}


def correspondence(real, model):
    """list of differences between what the real host did and what the Lean host model does"""
    diffs = []
    if not model['halted']:
        diffs.append('model run did not halt within fuelBound={}'.format(model['fuel']))
    if real['trace'] != model['trace']:
        k = next((j for j, (a, b) in enumerate(zip(real['trace'], model['trace'])) if a != b),
                 min(len(real['trace']), len(model['trace'])))
        diffs.append('event trace differs at event {}: real={} model={}'.format(
            k, (real['trace'][k:k + 1] or ['<end>'])[0][:60], (model['trace'][k:k + 1] or ['<end>'])[0][:60]))
    if real['exit'] != model['exit']:
        diffs.append('exit status real={} model={}'.format(real['exit'], model['exit']))
    if real['done'] != model['done']:
        diffs.append("'done!' real={} model={}".format(real['done'], model['done']))
    mk = MODEL_KIND.get(model['msg'].split(':')[0], model['msg'])
    if mk != real['kind']:
        diffs.append('exit class real={} model={}'.format(real['kind'], model['msg']))
    if real['report'] != model['report']:
        keys = [k for k in real['report'] if real['report'][k] != model['report'].get(k)]
        diffs.append('device end state differs in {}'.format(keys))
    return diffs


def shape(case):
    """(length class, schedule shape) used to count distinct non-trivial cases"""
    n = case['length']
    size = case['pc'] * PAGE
    if n > size:
        lc = 'oversize'
    elif n == size:
        lc = 'full'
    elif n == 0:
        lc = 'empty'
    else:
        lc = '{}p{}'.format(pages_of(n), 'a' if n % PAGE == 0 else ('l' if n % PAGE == PAGE - 1 else ('f' if n % PAGE == 1 else 'm')))
    ops = case['sched'].split('/')[2:]
    busy = tuple(len([x for x in o[1:].split(':')[0].split(',') if x]) for o in ops)
    faults = tuple((i, o.split(':')[2]) for i, o in enumerate(ops) if o.split(':')[2] != '0')
    return (case['pc'], lc, case['sched'].split('/')[0], busy[:12], faults)


def load_replay(path):
    with open(path) as f:
        return json.load(f)


# ---------------------------------------------------------------------------------------------
# one evaluated case: real run, model run, oracle, correspondence
# ---------------------------------------------------------------------------------------------

class Tally:
    def __init__(self, rep, max_violations=4):
        self.rep = rep
        self.max_violations = max_violations
        self.failing = 0
        self.corr = []          # (case, diffs): model and real host disagree, property holds

    def stop(self):
        return self.failing >= self.max_violations


def evaluate(sess, tally, case, oracle, group):
    rep = tally.rep
    real = sess.run_real(case)
    model = sess.run_model(case)
    fails = oracle(case, real)
    diffs = correspondence(real, model)
    rep.evaluations += 1
    rep.count(group)
    rep.count('pc={}'.format(case['pc']))
    rep.count('pages={}'.format(min(pages_of(case['length']), case['pc'] + 1)) if case['length'] <= 4 * PAGE else 'pages>4')
    if real['trace']:
        rep.nontrivial(shape(case))
    if not diffs:
        rep.cov['traces_validated_against_impl'] = rep.cov.get('traces_validated_against_impl', 0) + 1
    if rep.counters.get(group, 0) <= 2:     # two samples per group of cases
        rep.sample('{} pc={} len={} sched={} -> exit={} {} done={} events={} mon={}'.format(
            group, case['pc'], case['length'], case['sched'][:70], real['exit'], real['kind'], real['done'],
            len(real['trace']), real['report']['mon']), cap=24)
    if fails:
        tally.failing += 1
        if tally.failing <= tally.max_violations:
            rep.violation('{}: {}'.format(group, '; '.join(fails)),
                          dict(case=case, oracle=oracle.__name__, failures=fails,
                               observed=dict(exit=real['exit'], exit_class=real['kind'], message=real['text'][:200],
                                             done=real['done'], events=len(real['trace']), trace_head=real['trace'][:12],
                                             device=dict((k, v if k != 'flash' else sorted(v)) for k, v in real['report'].items())),
                               model_disagreements=diffs))
    elif diffs:
        tally.corr.append((case, diffs, oracle.__name__))
    return fails, diffs


ORACLES = {}


def replay(prop, path, tier):
    data = load_replay(path)
    rep = common.Report(prop, tier)
    if 'case' not in data:
        # the replay names proof obligations, not an input: re-check exactly those
        ob = common.check_obligations(prop, data.get('theorems', []))
        if ob['failed']:
            print('VIOLATION property={} replay={} no-failing-input-found'.format(prop, path))
            print('  proof obligation(s) still not discharged: {}'.format(', '.join(n for n, _ in ob['failed'])))
            return 1
        print('{} replay: obligations {} are discharged now'.format(prop, data.get('theorems', [])))
        return 0
    sess = Session()
    try:
        tally = Tally(rep)
        oracle = ORACLES[data['oracle']]
        fails, diffs = evaluate(sess, tally, data['case'], oracle, 'replay')
        if not fails and diffs and data.get('no_failing_input_found'):
            rep.violation('replay: model and implementation still disagree: ' + '; '.join(diffs),
                          dict(case=data['case'], oracle=data['oracle'], model_disagreements=diffs), no_input=True)
    finally:
        sess.close()
    for what, p, no_input in rep.violations:
        print('VIOLATION property={} replay={}{}'.format(prop, path, ' no-failing-input-found' if no_input else ''))
        print('  ' + what)
    print('{} replay: {}'.format(prop, 'reproduced' if rep.violations else 'not reproduced (property holds on this input now)'))
    return 1 if rep.violations else 0


def conclude(rep, tally, ob, theorems):
    """turn correspondence disagreements / undischarged obligations without a failing input into the
    no-failing-input-found report of DESIGN.md section 4"""
    if tally.failing == 0:
        if tally.corr:
            case, diffs, oname = tally.corr[0]
            rep.violation('Lean host model and bronzebeard/dfu.py disagree on {} input(s) while the property held on all of them; first: {}'.format(
                len(tally.corr), '; '.join(diffs)),
                dict(case=case, oracle=oname, model_disagreements=diffs,
                     obligation='correspondence BB.Dfu.Host.next ~ bronzebeard.dfu.cli_main'), no_input=True)
        if ob['failed']:
            rep.violation('proof obligation(s) not discharged: {}'.format(', '.join(n for n, _ in ob['failed'])),
                          dict(obligation=[list(x) for x in ob['failed']], theorems=theorems), no_input=True)
    rep.cov['model_impl_disagreements'] = len(tally.corr)
    rep.cov['failing_inputs'] = tally.failing
    rep.assumptions = list(ASSUMPTIONS)


ORACLES.update({f.__name__: f for f in (oracle_c18, oracle_c19_oversize, oracle_c19_fault)})
