"""Semantics-level program checks: C04 (compression preserves meaning), C05 (pseudo-instruction
effects), C12 (success preserved by -c), C20 (eligible instructions compressed, nothing grows).

Every program is assembled without and with -c by the REAL assembler; each instruction line's
machine code from both builds is executed by the Lean specification (`run` in bbdrv = BB.Spec.exec on
decode32/decode16+expand16) from deterministic register files, and the effects are compared with each
other (C04) and with the documented effect computed here from the same initial registers (C05).
"""
import json
import multiprocessing as mp
import os

from harness import common, known, oracle, progs, obligations

M32 = 1 << 32
SEEDS = [0, 1, 2, 3, 11, 12, 13, 14]
EXEC_KINDS = ('instr', 'branch', 'jal', 'pbranch1', 'pbranch2', 'pjump', 'li', 'unary', 'pjr', 'p0', 'lilabel')

_regs_cache = {}


def initial_regs(seed):
    if seed not in _regs_cache:
        r, = common.drv(['regs %d' % seed])
        _regs_cache[seed] = [int(x) for x in r.split()]
    return _regs_cache[seed]


def s32(v):
    v &= M32 - 1
    return v - M32 if v >> 31 else v


def parse_run(reply):
    t = reply.split()
    why, n, pc = t[0], int(t[1]), int(t[2])
    regs = [int(x) for x in t[3:35]]
    stores = t[35] if len(t) > 35 else '-'
    return why, n, pc, regs, stores


def documented_effect(ln, regs, off, length, label_off):
    """(expected regs, expected pc, allowed-scratch set) of a pseudo-instruction line, from
    docs/instruction_reference.rst; None if the line is not a pseudo-instruction"""
    r = list(regs)
    nxt = (off + length) % M32
    pc = nxt
    scratch = set()

    def setr(d, v):
        if d != 0:
            r[d] = v % M32

    k = ln.kind
    if k == 'li':
        setr(ln.ops[0], ln.extra)
    elif k == 'unary':
        rd, rs = ln.ops
        a = regs[rs]
        v = {'mv': a, 'not': ~a, 'neg': -a, 'seqz': int(a == 0), 'snez': int(a != 0),
             'sltz': int(s32(a) < 0), 'sgtz': int(s32(a) > 0)}[ln.name]
        setr(rd, v)
    elif k == 'pbranch1':
        a = s32(regs[ln.ops[0]])
        taken = {'beqz': a == 0, 'bnez': a != 0, 'blez': a <= 0, 'bgez': a >= 0, 'bltz': a < 0, 'bgtz': a > 0}[ln.name]
        if taken:
            pc = label_off[ln.label]
    elif k == 'pbranch2':
        a, b = regs[ln.ops[0]], regs[ln.ops[1]]
        taken = {'bgt': s32(a) > s32(b), 'ble': s32(a) <= s32(b), 'bgtu': a > b, 'bleu': a <= b}[ln.name]
        if taken:
            pc = label_off[ln.label]
    elif k == 'pjump':
        pc = label_off[ln.label]
        if ln.name in ('jal', 'call'):
            setr(1, nxt)
        if ln.name == 'tail':
            scratch.add(6)          # the far form may clobber its documented scratch register
    elif k == 'pjr':
        pc = regs[ln.ops[0]] & ~1 & (M32 - 1)
        if ln.name == 'jalr':
            setr(1, nxt)
    elif k == 'p0':
        if ln.name == 'ret':
            pc = regs[1] & ~1 & (M32 - 1)
    else:
        return None
    return r, pc % M32, scratch


def label_case(args):
    """programs whose immediates depend on labels (incl. label arithmetic): C04 / C12 / C20 views of
    what label_check computes"""
    from harness import label_check
    seedv, idx, tier = args
    os.environ['VERIF_SEED'] = str(seedv)
    asm = progs.get_asm()
    rnd = common.rng('semlabel:%d' % idx)
    lines = label_check.gen_label_program(rnd, arith=(idx % 2 == 0))
    r = label_check.evaluate(asm, lines, idx)
    out = dict(idx=idx, src=r['src'], lines=r['lines'], problems=[], status=r['status'], n_exec=r['n_refs'],
               n_compressed=0, n_eligible=0, kinds=r['kinds'], label_stream=True)
    txt = [l.text for l in lines]
    if r['status'][False] == 'ok' and r['status'][True] != 'ok':
        el = r['err_line'][True]
        out['problems'].append(('C12', 'assembles without -c but with -c fails ({} at line {}: {!r})'.format(
            r['status'][True], el, txt[el - 1].strip() if el and el <= len(txt) else None), txt[el - 1] if el and el <= len(txt) else None))
    if r['status'][False] == 'ok' and r['status'][True] == 'ok':
        if r['size'][True] > r['size'][False]:
            out['problems'].append(('C20', 'binary grows with -c: {} -> {} bytes'.format(r['size'][False], r['size'][True]), None))
        for name, v in r['labels'][False].items():
            if r['labels'][True].get(name, v) > v:
                out['problems'].append(('C20', 'label {} moves up with -c: {} -> {}'.format(name, v, r['labels'][True][name]), None))
        bad_nc = set(t for p, c, m, t in r['problems'] if not c)
        for p, c, m, t in r['problems']:
            if c and t not in bad_nc:
                out['problems'].append(('C04', 'correct without -c, wrong with -c: ' + m, t))
    return out


def sweep_case(args):
    """one program of the systematic RVC-boundary sweep (harness/elig_sweep.py)"""
    idx, jl = args
    asm = progs.get_asm()
    lines = [progs.Ln.from_json(j) for j in jl]
    r = evaluate(asm, lines, idx, seeds=[SEEDS[0], SEEDS[3], SEEDS[4]])      # one degenerate file, two generic ones
    r['kinds'] = ['sweep']
    if r['status'][False] == 'ok' and r['status'][True] != 'ok':
        # the -c build of the whole program was refused: find every eligible line that is not
        # emitted in 16 bits by assembling the lines one at a time
        batch = oracle.Batch()
        pend = []
        for ln in lines:
            a = progs.assemble_chunks(asm, ln.text + '\n', False)
            if a.status != 'ok' or len(a.bytes) != 4:
                continue
            b = progs.assemble_chunks(asm, ln.text + '\n', True)
            if b.status == 'ok' and len(b.bytes) == 2:
                continue
            pend.append((ln, a.bytes, b, batch.ask('eligible %d' % int.from_bytes(a.bytes, 'little'))))
        batch.run()
        for ln, ab, b, q in pend:
            if batch.get(q) == 'yes':
                r['problems'].append(('C20', 'line {!r} ({}) is the expansion of a legal RV32C instruction but with -c it is {}'.format(
                    ln.text.strip(), ab.hex(), 'refused' if b.status != 'ok' else 'emitted as ' + b.bytes.hex()), ln.text))
    return r


def reach_program(rnd):
    """a backward (or forward) branch / jump whose distance sits on the edge of the COMPRESSED form's reach
    (c.beqz / c.bnez +-256, c.j / c.jal +-2 KiB) with a run of compressible instructions around the label, so that the
    distance the compression pass sees keeps changing while it walks: every decision must be taken on current values"""
    L = progs.Ln
    nop = lambda: L('    addi x0 x0 0', 'instr', 'addi', [('r', 0), ('r', 0), ('i', 0)])           # compressible (c.nop)
    wide = lambda: L('    lui x5, 0x12345', 'instr', 'lui', [('r', 5), ('i', 0x12345)])              # stays 4 bytes
    kind = rnd.choice(['bnez', 'beqz', 'beq0', 'j', 'jal1'])
    reach = 256 if kind in ('bnez', 'beqz', 'beq0') else 2048
    k = rnd.randrange(1, 40)                       # compressible instructions between label and transfer
    extra = rnd.randrange(0, 2 * k + 6)            # bytes past the reach as seen before those instructions shrink
    total = reach - 4 + extra                      # distance in the finished -c layout (all k nops at 2 bytes)
    nwide = max(0, (total - 2 * k) // 4)
    r = 8 + rnd.randrange(8)
    if kind == 'j':
        t = L('    j T', 'pjump', 'j', [], 'T')
    elif kind == 'jal1':
        t = L('    jal x1, T', 'jal', 'jal', [1], 'T')
    elif kind == 'beq0':
        t = L('    beq x%d, x0, T' % r, 'branch', 'beq', [r, 0], 'T')
    else:
        t = L('    %s x%d, T' % (kind, r), 'pbranch1', kind, [r], 'T')
    pre = [nop() for _ in range(rnd.randrange(0, 12))]          # shrinking code in front of everything
    mid = [nop() for _ in range(k)] + [wide() for _ in range(nwide)]
    rnd.shuffle(mid)
    if rnd.random() < 0.7:
        return pre + [L('T:', 'label', 'T')] + mid + [t, nop()]
    return pre + [t] + mid + [L('T:', 'label', 'T'), nop()]


def reach_align_program(rnd):
    """a backward transfer whose span holds odd-length strings each re-aligned by `align 4` and whose final distance sits
    on, or just past, the reach of the compressed form: the compression decision is taken while the aligns still count
    their full size, so it must hold in the final layout (nothing the assembler itself compressed may fail to reach)"""
    L = progs.Ln
    nop = lambda: L('    addi x0 x0 0', 'instr', 'addi', [('r', 0), ('r', 0), ('i', 0)])
    wide = lambda: L('    lui x5, 0x12345', 'instr', 'lui', [('r', 5), ('i', 0x12345)])
    kind = rnd.choice(['bnez', 'beqz', 'beq0', 'j', 'jal1'])
    reach = 256 if kind in ('bnez', 'beqz', 'beq0') else 2048
    npairs = rnd.randrange(1, 5)
    pairs, psize = [], 0
    for _ in range(npairs):
        n = rnd.choice([1, 1, 3, 5, 7, 1])
        pairs += [L('    string ' + 'z' * n, 'string', 'string', ['z' * n]), L('    align 4', 'align', 'align', [4])]
        psize += (n + 3) // 4 * 4
    k = 2 * rnd.randrange(0, 6)                      # compressible instructions (2 bytes each in the end), an even number
    D = reach + rnd.choice([-4, -2, 0, 2, 4, 6, 8])  # final distance label -> transfer
    nwide = max(0, (D - psize - 2 * k) // 4)
    k += (D - psize - 2 * k - 4 * nwide) // 2        # make the sum exact
    r = 8 + rnd.randrange(8)
    if kind == 'j':
        t = L('    j T', 'pjump', 'j', [], 'T')
    elif kind == 'jal1':
        t = L('    jal x1, T', 'jal', 'jal', [1], 'T')
    elif kind == 'beq0':
        t = L('    beq x%d, x0, T' % r, 'branch', 'beq', [r, 0], 'T')
    else:
        t = L('    %s x%d, T' % (kind, r), 'pbranch1', kind, [r], 'T')
    body = [wide() for _ in range(nwide)]
    rnd.shuffle(body)
    return [L('    align 4', 'align', 'align', [4]), L('T:', 'label', 'T')] + pairs + body + [nop() for _ in range(k)] + [t, nop()]


def odd_code_program(rnd):
    """odd-sized data directly in front of straight-line code, no align: accepted without -c (nothing requires code to be
    aligned until something jumps to it), so it is accepted with -c, and every line means the same"""
    L = progs.Ln
    lines = []
    for _ in range(rnd.randrange(1, 4)):
        k = rnd.choice(['db', 'string', 'bytes'])
        if k == 'db':
            lines.append(L('    db %d' % rnd.randrange(256), 'short', 'db', [rnd.randrange(1)]))
            lines[-1].ops = [int(lines[-1].text.split()[1])]
        elif k == 'string':
            t = 'x' * rnd.choice([1, 3, 5])
            lines.append(L('    string ' + t, 'string', 'string', [t]))
        else:
            lines.append(L('    bytes 1 2 3', 'seq', 'bytes', [1, 2, 3]))
        for _ in range(rnd.randrange(1, 6)):
            name, ops = progs.gen_instr(rnd)
            lines.append(L(progs.line_text(rnd, name, ops), 'instr', name, ops))
    return lines


def one_case(args):
    seedv, idx, tier = args
    os.environ['VERIF_SEED'] = str(seedv)
    asm = progs.get_asm()
    rnd = common.rng('sem:%d' % idx)
    if idx % 10 == 9:
        from harness import layout_check
        lines = layout_check.far_program(rnd)
    elif idx % 20 == 14:
        lines = reach_align_program(rnd)
    elif idx % 20 == 7:
        lines = odd_code_program(rnd)
    elif idx % 10 == 4:
        lines = reach_program(rnd)
    else:
        lines = progs.gen_program(rnd, size=rnd.randrange(6, 28), fillers=(idx % 3 == 0))
    return evaluate(asm, lines, idx)


def evaluate(asm, lines, idx=0, seeds=None):
    seeds = seeds or SEEDS
    src = progs.source(lines)
    out = dict(idx=idx, src=src, lines=[l.to_json() for l in lines], problems=[], status={}, n_exec=0,
               n_compressed=0, n_eligible=0, kinds=sorted(set(l.kind for l in lines)))
    res = {c: progs.assemble_chunks(asm, src, c) for c in (False, True)}
    for c in (False, True):
        out['status'][c] = res[c].status + ('' if res[c].status == 'ok' else ':' + str(res[c].exc))
    if res[False].status == 'ok' and res[True].status != 'ok':
        el = res[True].err_line
        lt = lines[el - 1].text if el and el <= len(lines) else None
        out['problems'].append(('C12', 'assembles without -c but with -c fails ({} at line {}: {!r})'.format(
            res[True].exc, el, lt.strip() if lt else None), lt))
    if res[False].status != 'ok':
        # the program is refused even without -c: a pseudo-instruction with literal operands (li with any value, mv, not,
        # ..., nop, ret) is never a reason - every one of them must assemble on its own
        consts = ''.join(l.text + '\n' for l in lines if l.kind == 'const')
        if consts and progs.assemble_chunks(asm, consts, False).status != 'ok':
            consts = None          # the constant definitions themselves are what is refused: not a pseudo-instruction's business
        for i, ln in enumerate(lines, 1):
            if consts is None:
                break
            if ln.kind in ('li', 'unary', 'p0', 'pjr'):
                # (with the program's constant definitions in front: operands may be constants or register aliases)
                one = progs.assemble_chunks(asm, consts + ln.text + '\n', False)
                if one.status != 'ok':
                    out['problems'].append(('C05', 'line {} {!r} is refused ({}: {}) although every operand of it is documented'.format(
                        i, ln.text.strip(), one.status, str(one.exc)[:120]), ln.text))
                    break
    if res[False].status != 'ok' or res[True].status != 'ok':
        return out
    lay = {c: oracle.Layout(lines, res[c]) for c in (False, True)}
    # C20: nothing grows
    if len(res[True].bytes) > len(res[False].bytes):
        out['problems'].append(('C20', 'binary grows with -c: {} -> {} bytes'.format(len(res[False].bytes), len(res[True].bytes))))
    for name, v in res[False].labels.items():
        if res[True].labels.get(name, v) > v:
            out['problems'].append(('C20', 'label {} moves up with -c: {} -> {}'.format(name, v, res[True].labels.get(name))))
    batch = oracle.Batch()
    plan = []
    for i, ln in enumerate(lines, 1):
        bn, bc = lay[False].line_bytes(i), lay[True].line_bytes(i)
        if ln.kind not in EXEC_KINDS:
            if bn != bc and ln.kind != 'align':
                out['problems'].append(('C04', 'line {} {!r}: data bytes differ with -c: {} vs {}'.format(i, ln.text.strip(), bn.hex(), bc.hex())))
            if ln.kind == 'align' and bc.strip(b'\0') and not bn.strip(b'\0'):
                # the amount of padding may differ between the modes, what it consists of may not (it is the zero
                # terminator behind a string, the gap in a table)
                out['problems'].append(('C04', 'line {} {!r}: padding is {} without -c and {} with -c'.format(i, ln.text.strip(), bn.hex() or '(none)', bc.hex())))
            continue
        nn, ncn = len(lay[False].by_line.get(i, [])), len(lay[True].by_line.get(i, []))
        elig = None
        if ln.kind == 'instr' and len(bn) == 4:
            elig = batch.ask('eligible %d' % int.from_bytes(bn, 'little'))
        elif ln.kind in ('li', 'unary', 'pjr', 'p0') and ln.label is None:
            # a pseudo-instruction with literal operands: every word of its expansion is a literal instruction too
            cn, cc = lay[False].by_line.get(i, []), lay[True].by_line.get(i, [])
            if len(cn) == len(cc) and cn and all(len(d) == 4 for _, d in cn):
                elig = [(batch.ask('eligible %d' % int.from_bytes(d, 'little')), d, dc) for (_, d), (_, dc) in zip(cn, cc)]
        runs = []
        for sd in seeds:
            a = batch.ask('run %s %d %d %d %d' % (bn.hex() or '00', lay[False].start[i], lay[False].start[i], sd, nn))
            b = batch.ask('run %s %d %d %d %d' % (bc.hex() or '00', lay[True].start[i], lay[True].start[i], sd, ncn))
            runs.append((sd, a, b))
        plan.append((i, ln, bn, bc, elig, runs))
    batch.run()
    for i, ln, bn, bc, elig, runs in plan:
        offn, offc = lay[False].start[i], lay[True].start[i]
        if len(bc) < len(bn):
            out['n_compressed'] += 1
        if isinstance(elig, list):
            for q, d, dc in elig:
                if batch.get(q) == 'yes':
                    out['n_eligible'] += 1
                    if len(dc) != 2:
                        out['problems'].append(('C20', 'line {} {!r}: the word {} of its expansion is the expansion of a legal RV32C instruction but -c emitted {} bytes {}'.format(
                            i, ln.text.strip(), d.hex(), len(dc), dc.hex())))
        elif elig is not None:
            e = batch.get(elig)
            if e == 'yes':
                out['n_eligible'] += 1
                if len(bc) != 2:
                    out['problems'].append(('C20', 'line {} {!r} ({}) is the expansion of a legal RV32C instruction but -c emitted {} bytes {}'.format(
                        i, ln.text.strip(), bn.hex(), len(bc), bc.hex())))
        for sd, a, b in runs:
            out['n_exec'] += 1
            ra, rb = batch.get(a), batch.get(b)
            if ra.startswith('illegal') or rb.startswith('illegal'):
                out['problems'].append(('C04', 'line {} {!r}: emitted code is not a legal encoding (nc {} / c {}): {} {}'.format(
                    i, ln.text.strip(), bn.hex(), bc.hex(), ra[:20], rb[:20])))
                break
            wa, na, pca, rga, sta = parse_run(ra)
            wb, nb, pcb, rgb, stb = parse_run(rb)
            regs0 = initial_regs(sd)
            # ---- C05: documented effect, both builds
            for tag, off, blen, pc, rg, st, lab in (('without -c', offn, len(bn), pca, rga, sta, lay[False].label_off),
                                                    ('with -c', offc, len(bc), pcb, rgb, stb, lay[True].label_off)):
                doc = documented_effect(ln, regs0, off, blen, lab)
                if doc is None:
                    continue
                er, epc, scratch = doc
                diff = [r for r in range(32) if rg[r] != er[r] and r not in scratch]
                if diff or pc != epc or st != '-':
                    out['problems'].append(('C05', 'line {} {!r} {} = {}: from register seed {} the documented effect is pc={} {} but the code gives pc={} {} stores={}'.format(
                        i, ln.text.strip(), tag, (bn if tag == 'without -c' else bc).hex(), sd, epc,
                        {r: er[r] for r in diff}, pc, {r: rg[r] for r in diff}, st)))
                    break
            # ---- C04: the two builds have the same effect
            msg = compare_effects(ln, offn, len(bn), pca, rga, sta, offc, len(bc), pcb, rgb, stb, lay)
            if msg:
                out['problems'].append(('C04', 'line {} {!r}: without -c {} / with -c {}: from register seed {}: {}'.format(
                    i, ln.text.strip(), bn.hex(), bc.hex(), sd, msg)))
                break
    return out


def compare_effects(ln, offn, lenn, pca, rga, sta, offc, lenc, pcb, rgb, stb, lay):
    if sta != stb:
        return 'memory stores differ: {} vs {}'.format(sta, stb)
    for r in range(1, 32):
        va, vb = rga[r], rgb[r]
        if va == vb:
            continue
        if ln.kind == 'pjump' and ln.name == 'tail' and r == 6:
            continue            # far tail's documented scratch register holds a layout-dependent intermediate
        if va == (offn + lenn) % M32 and vb == (offc + lenc) % M32:
            continue            # link register: address of the next instruction in each layout
        if (va - offn) % M32 == (vb - offc) % M32:
            continue            # pc-relative value (auipc)
        return 'x{} = {} vs {}'.format(r, va, vb)
    fa = pca == (offn + lenn) % M32
    fb = pcb == (offc + lenc) % M32
    if fa and fb:
        return None
    if pca == pcb:
        return None             # the same absolute (register-supplied) target
    if (pca - offn) % M32 == (pcb - offc) % M32:
        return None             # the same pc-relative displacement (offset written as a number)
    for name, v in lay[False].label_off.items():
        if v == pca and lay[True].label_off.get(name) == pcb:
            return None         # the same label in both layouts
    if fa != fb:
        return 'one falls through, the other transfers (pc {} vs {})'.format(pca, pcb)
    return 'control transfers to different places: {} vs {}'.format(pca, pcb)


OWN = {'C04': ('C04',), 'C05': ('C05',), 'C12': ('C12',), 'C20': ('C20',)}


def run_sem(prop, tier, replay):
    if replay:
        return replay_case(prop, replay)
    rep = common.Report(prop, tier, level=obligations.LEVEL.get(prop, 'exploration'))
    ob = common.check_obligations(prop, obligations.THEOREMS.get(prop, []))
    n = 700 if tier == 'quick' else 12000
    args = [(common.seed(), i, tier) for i in range(n)]
    for sd in SEEDS:
        initial_regs(sd)
    ctx = mp.get_context('fork')
    with ctx.Pool(min(16, os.cpu_count() or 4)) as pool:
        results = pool.map(one_case, args, chunksize=4)
        if prop in ('C04', 'C12', 'C20'):
            results += pool.map(label_case, [(common.seed(), i, tier) for i in range(n // 2)], chunksize=4)
            from harness import elig_sweep
            sw = [(i, [l.to_json() for l in pl]) for i, pl in enumerate(elig_sweep.programs(tier))]
            results += pool.map(sweep_case, sw, chunksize=1)
            rep.count('sweep_programs', len(sw))
    kf = known.Known(prop)
    for r in results:
        rep.evaluations += 1
        rep.count('executions', r['n_exec'])
        rep.count('lines_compressed', r['n_compressed'])
        rep.count('lines_eligible', r['n_eligible'])
        rep.nontrivial((tuple(r['kinds']), tuple(sorted(r['status'].items())), r['n_compressed'] > 0))
        for c, st in r['status'].items():
            rep.count('assemble_%s_%s' % ('c' if c else 'nc', st))
        for pr in r['problems']:
            p, msg = pr[0], pr[1]
            ltxt = pr[2] if len(pr) > 2 else None
            if p not in OWN[prop]:
                rep.count('other_property_problem_' + p)
                continue
            case = dict(program=r['src'], lines=r['lines'], problem=msg, property=p, line=ltxt, compress=True)
            if kf.matches(case):
                continue
            rep.violation('{}: {}'.format(p, msg), dict(case=case))
        if len(rep.samples) < 3 and r['n_compressed']:
            rep.sample(dict(program=r['src'][:500], compressed_lines=r['n_compressed'], executions=r['n_exec']))
    kf.report(rep)
    if prop == 'C20':
        # the specification's `eligible` and `expand16` themselves, against LLVM's compressor
        from harness import llvmx
        rep.count('eligible_vs_llvm_compared', llvmx.compress_check(rep, tier))
    rep.cov['programs'] = len(results)
    rep.cov['rule'] = ('seeded programs (literal instructions biased to every RVC operand-set edge, all 27 pseudo-instructions with '
                       'all register choices incl. rd=rs/x0/sp, li values on the 12/32-bit edges, branches/jumps to labels) assembled '
                       'without and with -c; every instruction line executed by the Lean exec specification from 8 register files '
                       '(4 degenerate: all-zero / all-equal / all-ones / small). non-trivial = distinct (line-kind set, outcome pair, '
                       'whether anything was compressed).')
    rep.assumptions += ['the execution semantics is the hand-written BB.Spec.exec (RV32IM + RVC expansion); memory is a pseudo-random byte function']
    if not rep.violations and ob['failed']:
        rep.violation('proof obligation no longer checks: {} ({})'.format(ob['failed'][0][0], ob['failed'][0][1][:300]),
                      dict(theorem=ob['failed'][0][0], detail=ob['failed'][0][1]), no_input=True)
    return rep.finish(obligations=ob if ob['obligations'] else None)


def replay_case(prop, path):
    d = json.load(open(path))
    c = d.get('case') or {}
    if 'lines' not in c:
        print('replay file names no program:', d.get('what'))
        print('VIOLATION property={} replay={} no-failing-input-found'.format(prop, path))
        return 1
    asm = progs.get_asm()
    lines = [progs.Ln.from_json(j) for j in c['lines']]
    r = evaluate(asm, lines)
    mine = [(pr[0], pr[1]) for pr in r['problems'] if pr[0] in OWN[prop]]
    print('status:', r['status'])
    for p, m in mine:
        print(' ', p, m)
    if mine:
        print('VIOLATION property={} replay={}'.format(prop, path))
        return 1
    print('replayed program no longer violates', prop)
    return 0
