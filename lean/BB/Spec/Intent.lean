/-
  BB.Spec.Intent — what a source line *names*: the instruction denoted by a mnemonic together
  with register numbers and immediate values, following docs/instruction_reference.rst
  (operand order of each mnemonic) and the RISC-V manual.  Independent of the encoders.
-/
import BB.Spec.Decode16
namespace BB.Spec

/-- a resolved operand: register number, or an integer (immediate, fence set, aq/rl, uimm) -/
inductive Opnd where
  | reg (n : Nat)
  | imm (v : Int)
  deriving Repr, DecidableEq

def rOpOf : String → Option ROp
  | "add" => some .add | "sub" => some .sub | "sll" => some .sll | "slt" => some .slt
  | "sltu" => some .sltu | "xor" => some .xor | "srl" => some .srl | "sra" => some .sra
  | "or" => some .or | "and" => some .and | "mul" => some .mul | "mulh" => some .mulh
  | "mulhsu" => some .mulhsu | "mulhu" => some .mulhu | "div" => some .div | "divu" => some .divu
  | "rem" => some .rem | "remu" => some .remu | _ => none
def iOpOf : String → Option IOp
  | "addi" => some .addi | "slti" => some .slti | "sltiu" => some .sltiu | "xori" => some .xori
  | "ori" => some .ori | "andi" => some .andi | _ => none
def shOpOf : String → Option ShOp
  | "slli" => some .slli | "srli" => some .srli | "srai" => some .srai | _ => none
def ldOpOf : String → Option LdOp
  | "lb" => some .lb | "lh" => some .lh | "lw" => some .lw | "lbu" => some .lbu | "lhu" => some .lhu
  | _ => none
def stOpOf : String → Option StOp
  | "sb" => some .sb | "sh" => some .sh | "sw" => some .sw | _ => none
def brOpOf : String → Option BrOp
  | "beq" => some .beq | "bne" => some .bne | "blt" => some .blt | "bge" => some .bge
  | "bltu" => some .bltu | "bgeu" => some .bgeu | _ => none
def csrOpOf : String → Option CsrOp
  | "csrrw" => some .csrrw | "csrrs" => some .csrrs | "csrrc" => some .csrrc
  | "csrrwi" => some .csrrwi | "csrrsi" => some .csrrsi | "csrrci" => some .csrrci | _ => none
def amoOpOf : String → Option AmoOp
  | "amoswap.w" => some .swap | "amoadd.w" => some .add | "amoxor.w" => some .xor
  | "amoand.w" => some .and | "amoor.w" => some .or | "amomin.w" => some .min
  | "amomax.w" => some .max | "amominu.w" => some .minu | "amomaxu.w" => some .maxu | _ => none

/-- The 32-bit instruction that `name operands…` denotes.
    * `lui/auipc rd, imm`: the 20-bit field is `imm mod 2^20` (both the signed and the unsigned
      spelling of the upper immediate are documented, issue #8 / test_assemble_lui_signedness).
    * `fence succ, pred` (bronzebeard's operand order, docs/instruction_reference.rst).
    * CSR instructions: `csr = imm mod 4096`; for the `…i` forms the second operand is the uimm. -/
def intent32 (name : String) (ops : List Opnd) : Option Instr32 :=
  match ops with
  | [.reg rd, .reg rs1, .reg x] =>
    match rOpOf name with
    | some op => some (.r op rd rs1 x)
    | none => (shOpOf name).map (fun op => .sh op rd rs1 x)
  | [.reg a, .reg b, .imm v] =>
    match iOpOf name with
    | some op => some (.i op a b v)
    | none =>
    match ldOpOf name with
    | some op => some (.load op a b v)
    | none =>
    match stOpOf name with
    | some op => some (.store op a b v)
    | none =>
    match brOpOf name with
    | some op => some (.branch op a b v)
    | none =>
    match csrOpOf name with
    | some op => some (.csr op a b (v % 4096).toNat)
    | none => if name = "jalr" then some (.jalr a b v) else none
  | [.reg rd, .imm v] =>
    if name = "lui" then some (.lui rd (v % 1048576).toNat)
    else if name = "auipc" then some (.auipc rd (v % 1048576).toNat)
    else if name = "jal" then some (.jal rd v)
    else none
  | [.imm succ, .imm pred] =>
    if name = "fence" then some (.fence 0 pred.toNat succ.toNat 0 0) else none
  | [] =>
    if name = "ecall" then some .ecall
    else if name = "ebreak" then some .ebreak
    else if name = "fence.i" then some .fenceI
    else none
  | [.reg rd, .reg rs1, .reg rs2, .imm aq, .imm rl] =>
    if name = "sc.w" then some (.sc (aq = 1) (rl = 1) rd rs1 rs2)
    else (amoOpOf name).map (fun op => .amo op (aq = 1) (rl = 1) rd rs1 rs2)
  | [.reg rd, .reg rs1, .imm aq, .imm rl] =>
    if name = "lr.w" then some (.lr (aq = 1) (rl = 1) rd rs1) else none
  | _ => none

/-- The RVC instruction that `c.xxx operands…` denotes (docs/instruction_reference.rst). -/
def intent16 (name : String) (ops : List Opnd) : Option CInstr :=
  match name, ops with
  | "c.addi4spn", [.reg rd, .imm v] => some (.addi4spn rd v.toNat)
  | "c.lw", [.reg rd, .reg rs1, .imm v] => some (.lw rd rs1 v.toNat)
  | "c.sw", [.reg rs1, .reg rs2, .imm v] => some (.sw rs1 rs2 v.toNat)
  | "c.nop", [] => some .nop
  | "c.addi", [.reg rd, .imm v] => some (.addi rd v)
  | "c.jal", [.imm v] => some (.jal v)
  | "c.li", [.reg rd, .imm v] => some (.li rd v)
  | "c.addi16sp", [.imm v] => some (.addi16sp v)
  | "c.lui", [.reg rd, .imm v] =>
      -- both the signed spelling (-32..31) and the 20-bit unsigned one (0xfffe0..0xfffff)
      some (.lui rd (if v ≥ 0xfffe0 then v - 1048576 else v))
  | "c.srli", [.reg rd, .imm v] => some (.srli rd v.toNat)
  | "c.srai", [.reg rd, .imm v] => some (.srai rd v.toNat)
  | "c.andi", [.reg rd, .imm v] => some (.andi rd v)
  | "c.sub", [.reg rd, .reg rs2] => some (.sub rd rs2)
  | "c.xor", [.reg rd, .reg rs2] => some (.xor rd rs2)
  | "c.or", [.reg rd, .reg rs2] => some (.or rd rs2)
  | "c.and", [.reg rd, .reg rs2] => some (.and rd rs2)
  | "c.j", [.imm v] => some (.j v)
  | "c.beqz", [.reg rs1, .imm v] => some (.beqz rs1 v)
  | "c.bnez", [.reg rs1, .imm v] => some (.bnez rs1 v)
  | "c.slli", [.reg rd, .imm v] => some (.slli rd v.toNat)
  | "c.lwsp", [.reg rd, .imm v] => some (.lwsp rd v.toNat)
  | "c.jr", [.reg rs1] => some (.jr rs1)
  | "c.mv", [.reg rd, .reg rs2] => some (.mv rd rs2)
  | "c.ebreak", [] => some .ebreak
  | "c.jalr", [.reg rs1] => some (.jalr rs1)
  | "c.add", [.reg rd, .reg rs2] => some (.add rd rs2)
  | "c.swsp", [.reg rs2, .imm v] => some (.swsp rs2 v.toNat)
  | _, _ => none

/-- canonical source text of an RVC instruction: mnemonic and operands -/
def CInstr.text : CInstr → String × List Opnd
  | .addi4spn rd v => ("c.addi4spn", [.reg rd, .imm v])
  | .lw rd rs1 v => ("c.lw", [.reg rd, .reg rs1, .imm v])
  | .sw rs1 rs2 v => ("c.sw", [.reg rs1, .reg rs2, .imm v])
  | .nop => ("c.nop", [])
  | .addi rd v => ("c.addi", [.reg rd, .imm v])
  | .jal v => ("c.jal", [.imm v])
  | .li rd v => ("c.li", [.reg rd, .imm v])
  | .addi16sp v => ("c.addi16sp", [.imm v])
  | .lui rd v => ("c.lui", [.reg rd, .imm v])
  | .srli rd v => ("c.srli", [.reg rd, .imm v])
  | .srai rd v => ("c.srai", [.reg rd, .imm v])
  | .andi rd v => ("c.andi", [.reg rd, .imm v])
  | .sub rd rs2 => ("c.sub", [.reg rd, .reg rs2])
  | .xor rd rs2 => ("c.xor", [.reg rd, .reg rs2])
  | .or rd rs2 => ("c.or", [.reg rd, .reg rs2])
  | .and rd rs2 => ("c.and", [.reg rd, .reg rs2])
  | .j v => ("c.j", [.imm v])
  | .beqz rs1 v => ("c.beqz", [.reg rs1, .imm v])
  | .bnez rs1 v => ("c.bnez", [.reg rs1, .imm v])
  | .slli rd v => ("c.slli", [.reg rd, .imm v])
  | .lwsp rd v => ("c.lwsp", [.reg rd, .imm v])
  | .jr rs1 => ("c.jr", [.reg rs1])
  | .mv rd rs2 => ("c.mv", [.reg rd, .reg rs2])
  | .ebreak => ("c.ebreak", [])
  | .jalr rs1 => ("c.jalr", [.reg rs1])
  | .add rd rs2 => ("c.add", [.reg rd, .reg rs2])
  | .swsp rs2 v => ("c.swsp", [.reg rs2, .imm v])

end BB.Spec
