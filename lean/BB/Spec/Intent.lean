/-
  BB.Spec.Intent — what a source line *names*: the instruction denoted by a mnemonic together
  with register numbers and immediate values, following docs/instruction_reference.rst
  (operand order of each mnemonic) and the RISC-V manual.  Independent of the encoders.
-/
import BB.Spec.Decode16
namespace BB.Spec

/-- a resolved operand: register number, or an integer (immediate, fence set, aq/rl, uimm) -/
inductive Opnd where
  | reg (n : Nat)
  | imm (v : Int)
  deriving Repr, DecidableEq

def rOpOf : String → Option ROp
  | "add" => some .add | "sub" => some .sub | "sll" => some .sll | "slt" => some .slt
  | "sltu" => some .sltu | "xor" => some .xor | "srl" => some .srl | "sra" => some .sra
  | "or" => some .or | "and" => some .and | "mul" => some .mul | "mulh" => some .mulh
  | "mulhsu" => some .mulhsu | "mulhu" => some .mulhu | "div" => some .div | "divu" => some .divu
  | "rem" => some .rem | "remu" => some .remu | _ => none
def iOpOf : String → Option IOp
  | "addi" => some .addi | "slti" => some .slti | "sltiu" => some .sltiu | "xori" => some .xori
  | "ori" => some .ori | "andi" => some .andi | _ => none
def shOpOf : String → Option ShOp
  | "slli" => some .slli | "srli" => some .srli | "srai" => some .srai | _ => none
def ldOpOf : String → Option LdOp
  | "lb" => some .lb | "lh" => some .lh | "lw" => some .lw | "lbu" => some .lbu | "lhu" => some .lhu
  | _ => none
def stOpOf : String → Option StOp
  | "sb" => some .sb | "sh" => some .sh | "sw" => some .sw | _ => none
def brOpOf : String → Option BrOp
  | "beq" => some .beq | "bne" => some .bne | "blt" => some .blt | "bge" => some .bge
  | "bltu" => some .bltu | "bgeu" => some .bgeu | _ => none
def csrOpOf : String → Option CsrOp
  | "csrrw" => some .csrrw | "csrrs" => some .csrrs | "csrrc" => some .csrrc
  | "csrrwi" => some .csrrwi | "csrrsi" => some .csrrsi | "csrrci" => some .csrrci | _ => none
def amoOpOf : String → Option AmoOp
  | "amoswap.w" => some .swap | "amoadd.w" => some .add | "amoxor.w" => some .xor
  | "amoand.w" => some .and | "amoor.w" => some .or | "amomin.w" => some .min
  | "amomax.w" => some .max | "amominu.w" => some .minu | "amomaxu.w" => some .maxu | _ => none

/-- the operation a 32-bit mnemonic names -/
inductive Mn32 where
  | r (o : ROp) | sh (o : ShOp) | i (o : IOp) | ld (o : LdOp) | st (o : StOp) | br (o : BrOp)
  | csr (o : CsrOp) | jalr | lui | auipc | jal | fence | ecall | ebreak | fenceI | sc
  | amo (o : AmoOp) | lr
  deriving Repr, DecidableEq

def classOf (name : String) : Option Mn32 :=
  match rOpOf name with
  | some o => some (.r o)
  | none =>
  match shOpOf name with
  | some o => some (.sh o)
  | none =>
  match iOpOf name with
  | some o => some (.i o)
  | none =>
  match ldOpOf name with
  | some o => some (.ld o)
  | none =>
  match stOpOf name with
  | some o => some (.st o)
  | none =>
  match brOpOf name with
  | some o => some (.br o)
  | none =>
  match csrOpOf name with
  | some o => some (.csr o)
  | none =>
  match amoOpOf name with
  | some o => some (.amo o)
  | none =>
  if name = "jalr" then some .jalr else if name = "lui" then some .lui
  else if name = "auipc" then some .auipc else if name = "jal" then some .jal
  else if name = "fence" then some .fence else if name = "ecall" then some .ecall
  else if name = "ebreak" then some .ebreak else if name = "fence.i" then some .fenceI
  else if name = "sc.w" then some .sc else if name = "lr.w" then some .lr else none

/-- The 32-bit instruction that an operation with resolved operands denotes.
    * `lui/auipc rd, imm`: the 20-bit field is `imm mod 2^20` (both the signed and the unsigned
      spelling of the upper immediate are documented, issue #8 / test_assemble_lui_signedness).
    * `fence succ, pred` (bronzebeard's operand order, docs/instruction_reference.rst).
    * CSR instructions: `csr = imm mod 4096`; for the `…i` forms the second operand is the uimm. -/
def intentOf (c : Mn32) (ops : List Opnd) : Option Instr32 :=
  match c, ops with
  | .r o, [.reg rd, .reg rs1, .reg rs2] => some (.r o rd rs1 rs2)
  | .sh o, [.reg rd, .reg rs1, .reg sh] => some (.sh o rd rs1 sh)
  | .i o, [.reg rd, .reg rs1, .imm v] => some (.i o rd rs1 v)
  | .ld o, [.reg rd, .reg rs1, .imm v] => some (.load o rd rs1 v)
  | .st o, [.reg rs1, .reg rs2, .imm v] => some (.store o rs1 rs2 v)
  | .br o, [.reg rs1, .reg rs2, .imm v] => some (.branch o rs1 rs2 v)
  | .csr o, [.reg rd, .reg src, .imm v] => some (.csr o rd src (v % 4096).toNat)
  | .jalr, [.reg rd, .reg rs1, .imm v] => some (.jalr rd rs1 v)
  | .lui, [.reg rd, .imm v] => some (.lui rd (v % 1048576).toNat)
  | .auipc, [.reg rd, .imm v] => some (.auipc rd (v % 1048576).toNat)
  | .jal, [.reg rd, .imm v] => some (.jal rd v)
  | .fence, [.imm succ, .imm pred] => some (.fence 0 pred.toNat succ.toNat 0 0)
  | .ecall, [] => some .ecall
  | .ebreak, [] => some .ebreak
  | .fenceI, [] => some .fenceI
  | .sc, [.reg rd, .reg rs1, .reg rs2, .imm aq, .imm rl] => some (.sc (aq = 1) (rl = 1) rd rs1 rs2)
  | .amo o, [.reg rd, .reg rs1, .reg rs2, .imm aq, .imm rl] => some (.amo o (aq = 1) (rl = 1) rd rs1 rs2)
  | .lr, [.reg rd, .reg rs1, .imm aq, .imm rl] => some (.lr (aq = 1) (rl = 1) rd rs1)
  | _, _ => none

/-- The 32-bit instruction that the source line `name operands…` denotes. -/
def intent32 (name : String) (ops : List Opnd) : Option Instr32 :=
  match classOf name with
  | some c => intentOf c ops
  | none => none

/-- the 27 RV32C mnemonics -/
inductive CMn where
  | addi4spn | lw | sw | nop | addi | jal | li | addi16sp | lui | srli | srai | andi | sub | xor | or
  | and | j | beqz | bnez | slli | lwsp | jr | mv | ebreak | jalr | add | swsp
  deriving Repr, DecidableEq

def CMn.all : List CMn := [.addi4spn, .lw, .sw, .nop, .addi, .jal, .li, .addi16sp, .lui, .srli, .srai,
  .andi, .sub, .xor, .or, .and, .j, .beqz, .bnez, .slli, .lwsp, .jr, .mv, .ebreak, .jalr, .add, .swsp]

def CMn.name : CMn → String
  | .addi4spn => "c.addi4spn"
  | .lw => "c.lw"
  | .sw => "c.sw"
  | .nop => "c.nop"
  | .addi => "c.addi"
  | .jal => "c.jal"
  | .li => "c.li"
  | .addi16sp => "c.addi16sp"
  | .lui => "c.lui"
  | .srli => "c.srli"
  | .srai => "c.srai"
  | .andi => "c.andi"
  | .sub => "c.sub"
  | .xor => "c.xor"
  | .or => "c.or"
  | .and => "c.and"
  | .j => "c.j"
  | .beqz => "c.beqz"
  | .bnez => "c.bnez"
  | .slli => "c.slli"
  | .lwsp => "c.lwsp"
  | .jr => "c.jr"
  | .mv => "c.mv"
  | .ebreak => "c.ebreak"
  | .jalr => "c.jalr"
  | .add => "c.add"
  | .swsp => "c.swsp"

def classOf16 (name : String) : Option CMn := CMn.all.find? (fun c => c.name == name)

/-- The RVC instruction that an RVC mnemonic with resolved operands denotes
    (docs/instruction_reference.rst). -/
def intentOf16 (c : CMn) (ops : List Opnd) : Option CInstr :=
  match c, ops with
  | .addi4spn, [.reg rd, .imm v] => some (.addi4spn rd v.toNat)
  | .lw, [.reg rd, .reg rs1, .imm v] => some (.lw rd rs1 v.toNat)
  | .sw, [.reg rs1, .reg rs2, .imm v] => some (.sw rs1 rs2 v.toNat)
  | .nop, [] => some .nop
  | .addi, [.reg rd, .imm v] => some (.addi rd v)
  | .jal, [.imm v] => some (.jal v)
  | .li, [.reg rd, .imm v] => some (.li rd v)
  | .addi16sp, [.imm v] => some (.addi16sp v)
  | .lui, [.reg rd, .imm v] =>
      -- both the signed spelling (-32..31) and the 20-bit unsigned one (0xfffe0..0xfffff)
      some (.lui rd (if v ≥ 0xfffe0 then v - 1048576 else v))
  | .srli, [.reg rd, .imm v] => some (.srli rd v.toNat)
  | .srai, [.reg rd, .imm v] => some (.srai rd v.toNat)
  | .andi, [.reg rd, .imm v] => some (.andi rd v)
  | .sub, [.reg rd, .reg rs2] => some (.sub rd rs2)
  | .xor, [.reg rd, .reg rs2] => some (.xor rd rs2)
  | .or, [.reg rd, .reg rs2] => some (.or rd rs2)
  | .and, [.reg rd, .reg rs2] => some (.and rd rs2)
  | .j, [.imm v] => some (.j v)
  | .beqz, [.reg rs1, .imm v] => some (.beqz rs1 v)
  | .bnez, [.reg rs1, .imm v] => some (.bnez rs1 v)
  | .slli, [.reg rd, .imm v] => some (.slli rd v.toNat)
  | .lwsp, [.reg rd, .imm v] => some (.lwsp rd v.toNat)
  | .jr, [.reg rs1] => some (.jr rs1)
  | .mv, [.reg rd, .reg rs2] => some (.mv rd rs2)
  | .ebreak, [] => some .ebreak
  | .jalr, [.reg rs1] => some (.jalr rs1)
  | .add, [.reg rd, .reg rs2] => some (.add rd rs2)
  | .swsp, [.reg rs2, .imm v] => some (.swsp rs2 v.toNat)
  | _, _ => none

/-- The RVC instruction that the source line `c.xxx operands…` denotes. -/
def intent16 (name : String) (ops : List Opnd) : Option CInstr :=
  match classOf16 name with
  | some c => intentOf16 c ops
  | none => none

/-- canonical source text of an RVC instruction: mnemonic and operands -/
def CInstr.text : CInstr → String × List Opnd
  | .addi4spn rd v => ("c.addi4spn", [.reg rd, .imm v])
  | .lw rd rs1 v => ("c.lw", [.reg rd, .reg rs1, .imm v])
  | .sw rs1 rs2 v => ("c.sw", [.reg rs1, .reg rs2, .imm v])
  | .nop => ("c.nop", [])
  | .addi rd v => ("c.addi", [.reg rd, .imm v])
  | .jal v => ("c.jal", [.imm v])
  | .li rd v => ("c.li", [.reg rd, .imm v])
  | .addi16sp v => ("c.addi16sp", [.imm v])
  | .lui rd v => ("c.lui", [.reg rd, .imm v])
  | .srli rd v => ("c.srli", [.reg rd, .imm v])
  | .srai rd v => ("c.srai", [.reg rd, .imm v])
  | .andi rd v => ("c.andi", [.reg rd, .imm v])
  | .sub rd rs2 => ("c.sub", [.reg rd, .reg rs2])
  | .xor rd rs2 => ("c.xor", [.reg rd, .reg rs2])
  | .or rd rs2 => ("c.or", [.reg rd, .reg rs2])
  | .and rd rs2 => ("c.and", [.reg rd, .reg rs2])
  | .j v => ("c.j", [.imm v])
  | .beqz rs1 v => ("c.beqz", [.reg rs1, .imm v])
  | .bnez rs1 v => ("c.bnez", [.reg rs1, .imm v])
  | .slli rd v => ("c.slli", [.reg rd, .imm v])
  | .lwsp rd v => ("c.lwsp", [.reg rd, .imm v])
  | .jr rs1 => ("c.jr", [.reg rs1])
  | .mv rd rs2 => ("c.mv", [.reg rd, .reg rs2])
  | .ebreak => ("c.ebreak", [])
  | .jalr rs1 => ("c.jalr", [.reg rs1])
  | .add rd rs2 => ("c.add", [.reg rd, .reg rs2])
  | .swsp rs2 v => ("c.swsp", [.reg rs2, .imm v])

end BB.Spec
