/-
  BB.Spec.Decode16 — the RV32C instruction set, written from the "C" Standard Extension chapter
  of the RISC-V unprivileged manual (tables "Instruction listing for RVC, Quadrant 0/1/2"),
  NOT from bronzebeard's source.

  `decode16 h = some ci` exactly when the halfword `h` is a legal RV32C *integer* instruction that
  is neither reserved, nor a HINT, nor an RV64/RV128-only or floating-point (F/D) encoding.
-/
import BB.Spec.Decode32
namespace BB.Spec

/-- Operands are architectural: full register numbers (x8..x15 for the 3-bit fields) and the
    decoded, scaled, sign- or zero-extended immediate. -/
inductive CInstr where
  | addi4spn (rd : Nat) (nzuimm : Nat)
  | lw (rd rs1 : Nat) (uimm : Nat)
  | sw (rs1 rs2 : Nat) (uimm : Nat)
  | nop
  | addi (rd : Nat) (nzimm : Int)
  | jal (imm : Int)
  | li (rd : Nat) (imm : Int)
  | addi16sp (nzimm : Int)
  | lui (rd : Nat) (nzimm : Int)            -- the signed 6-bit value nzimm[17:12]
  | srli (rd : Nat) (shamt : Nat)
  | srai (rd : Nat) (shamt : Nat)
  | andi (rd : Nat) (imm : Int)
  | sub (rd rs2 : Nat)
  | xor (rd rs2 : Nat)
  | or (rd rs2 : Nat)
  | and (rd rs2 : Nat)
  | j (imm : Int)
  | beqz (rs1 : Nat) (imm : Int)
  | bnez (rs1 : Nat) (imm : Int)
  | slli (rd : Nat) (shamt : Nat)
  | lwsp (rd : Nat) (uimm : Nat)
  | jr (rs1 : Nat)
  | mv (rd rs2 : Nat)
  | ebreak
  | jalr (rs1 : Nat)
  | add (rd rs2 : Nat)
  | swsp (rs2 : Nat) (uimm : Nat)
  deriving Repr, DecidableEq

/-- bit `i` of `h` -/
def bit (h i : Nat) : Nat := (h / 2 ^ i) % 2

def decode16 (h : Nat) : Option CInstr :=
  if h ≥ 2 ^ 16 then none else
  let op := bits h 0 2
  let f3 := bits h 13 3
  let rdFull := bits h 7 5          -- rd / rs1 (5-bit)
  let rs2Full := bits h 2 5
  let rdP := 8 + bits h 2 3         -- rd' / rs2'  (inst[4:2])
  let rs1P := 8 + bits h 7 3        -- rs1' / rd'  (inst[9:7])
  let imm6 : Int := sext 6 (bit h 12 * 32 + bits h 2 5)     -- imm[5] = inst[12], imm[4:0] = inst[6:2]
  let shamt := bit h 12 * 32 + bits h 2 5
  match op, f3 with
  -- Quadrant 0
  | 0, 0 =>
    -- nzuimm[5:4|9:6|2|3] = inst[12:5]
    let nzuimm := bits h 11 2 * 16 + bits h 7 4 * 64 + bit h 6 * 4 + bit h 5 * 8
    if nzuimm = 0 then none else some (.addi4spn rdP nzuimm)
  | 0, 2 =>
    -- uimm[5:3] = inst[12:10], uimm[2|6] = inst[6:5]
    some (.lw rdP rs1P (bits h 10 3 * 8 + bit h 6 * 4 + bit h 5 * 64))
  | 0, 6 => some (.sw rs1P rdP (bits h 10 3 * 8 + bit h 6 * 4 + bit h 5 * 64))
  -- Quadrant 1
  | 1, 0 =>
    if rdFull = 0 then (if imm6 = 0 then some .nop else none)      -- nzimm ≠ 0 with rd = 0: HINT
    else (if imm6 = 0 then none else some (.addi rdFull imm6))      -- nzimm = 0 with rd ≠ 0: HINT
  | 1, 1 =>
    -- imm[11|4|9:8|10|6|7|3:1|5] = inst[12:2]
    some (.jal (sext 12 (bit h 12 * 2048 + bit h 11 * 16 + bits h 9 2 * 256 + bit h 8 * 1024
      + bit h 7 * 64 + bit h 6 * 128 + bits h 3 3 * 2 + bit h 2 * 32)))
  | 1, 2 => if rdFull = 0 then none else some (.li rdFull imm6)      -- rd = 0: HINT
  | 1, 3 =>
    if rdFull = 2 then
      -- nzimm[9] = inst[12], nzimm[4|6|8:7|5] = inst[6:2]
      let nz : Int := sext 10 (bit h 12 * 512 + bit h 6 * 16 + bit h 5 * 64 + bits h 3 2 * 128 + bit h 2 * 32)
      if nz = 0 then none else some (.addi16sp nz)
    else if rdFull = 0 then none                                     -- HINT
    else (if imm6 = 0 then none else some (.lui rdFull imm6))        -- nzimm = 0: reserved
  | 1, 4 =>
    match bits h 10 2 with
    | 0 => if bit h 12 = 1 then none             -- shamt[5] = 1: reserved for custom on RV32
           else if shamt = 0 then none           -- HINT
           else some (.srli rs1P shamt)
    | 1 => if bit h 12 = 1 then none
           else if shamt = 0 then none
           else some (.srai rs1P shamt)
    | 2 => some (.andi rs1P imm6)
    | _ =>
      if bit h 12 = 1 then none                  -- c.subw / c.addw (RV64/128) and reserved
      else match bits h 5 2 with
        | 0 => some (.sub rs1P rdP)
        | 1 => some (.xor rs1P rdP)
        | 2 => some (.or rs1P rdP)
        | _ => some (.and rs1P rdP)
  | 1, 5 =>
    some (.j (sext 12 (bit h 12 * 2048 + bit h 11 * 16 + bits h 9 2 * 256 + bit h 8 * 1024
      + bit h 7 * 64 + bit h 6 * 128 + bits h 3 3 * 2 + bit h 2 * 32)))
  | 1, 6 =>
    -- offset[8|4:3] = inst[12:10], offset[7:6|2:1|5] = inst[6:2]
    some (.beqz rs1P (sext 9 (bit h 12 * 256 + bits h 10 2 * 8 + bits h 5 2 * 64 + bits h 3 2 * 2 + bit h 2 * 32)))
  | 1, 7 =>
    some (.bnez rs1P (sext 9 (bit h 12 * 256 + bits h 10 2 * 8 + bits h 5 2 * 64 + bits h 3 2 * 2 + bit h 2 * 32)))
  -- Quadrant 2
  | 2, 0 =>
    if rdFull = 0 then none                      -- HINT
    else if bit h 12 = 1 then none               -- shamt[5] = 1: reserved for custom on RV32
    else if shamt = 0 then none                  -- HINT
    else some (.slli rdFull shamt)
  | 2, 2 =>
    -- uimm[5] = inst[12], uimm[4:2|7:6] = inst[6:2]
    if rdFull = 0 then none                      -- reserved
    else some (.lwsp rdFull (bit h 12 * 32 + bits h 4 3 * 4 + bits h 2 2 * 64))
  | 2, 4 =>
    if bit h 12 = 0 then
      if rs2Full = 0 then (if rdFull = 0 then none else some (.jr rdFull))       -- rs1 = 0: reserved
      else (if rdFull = 0 then none else some (.mv rdFull rs2Full))              -- rd = 0: HINT
    else
      if rs2Full = 0 then (if rdFull = 0 then some .ebreak else some (.jalr rdFull))
      else (if rdFull = 0 then none else some (.add rdFull rs2Full))             -- rd = 0: HINT
  | 2, 6 =>
    -- uimm[5:2|7:6] = inst[12:7]
    some (.swsp rs2Full (bits h 9 4 * 4 + bits h 7 2 * 64))
  | _, _ => none     -- op = 3 (32-bit), floating-point loads/stores, reserved

end BB.Spec
