/-
  BB.Spec.Hex — an Intel HEX *decoder*, written from the format description (Intel Hexadecimal
  Object File Format Specification, rev. A, 1988), not from `intelhex` and not from bronzebeard.

  A file is a sequence of records, one per line (lines end in "\n" or "\r\n"):

      ':' LL AAAA TT DD…DD CC        (all fields two / four hexadecimal digits, either case)

    LL    number of data bytes DD
    AAAA  16-bit load offset of the first data byte
    TT    record type: 00 data, 01 end of file, 02 extended segment address (data = 16-bit USBA,
          base = USBA·16), 03 start segment address, 04 extended linear address (data = upper 16
          bits, base = ULBA·65536), 05 start linear address
    CC    checksum: the two's complement of the sum of all preceding bytes of the record,
          i.e. the sum of ALL bytes of the record including CC is 0 modulo 256

  Addresses of the data bytes of a type-00 record: with a linear base, (base + AAAA + i) mod 2^32;
  with a segment base, base + ((AAAA + i) mod 65536).  The file must end with the (single) EOF
  record.  Start-address records (03, 05) carry no data for the image and are only validated.

  `decode` returns the (address, byte) pairs in file order, `none` for a malformed file.
  `normal` turns such a list into (start address, contiguous bytes) or `none`.
-/
namespace BB.Hex

def hexDigit? (c : Char) : Option Nat :=
  if '0' ≤ c ∧ c ≤ '9' then some (c.toNat - '0'.toNat)
  else if 'a' ≤ c ∧ c ≤ 'f' then some (c.toNat - 'a'.toNat + 10)
  else if 'A' ≤ c ∧ c ≤ 'F' then some (c.toNat - 'A'.toNat + 10)
  else none

/-- pairs of hex digits → bytes; `none` on an odd count or a non-hex character -/
def hexPairs : List Char → Option (List Nat)
  | [] => some []
  | [_] => none
  | a :: b :: rest =>
    match hexDigit? a, hexDigit? b, hexPairs rest with
    | some x, some y, some r => some ((x * 16 + y) :: r)
    | _, _, _ => none

/-- split at "\n"; a "\r" directly before the "\n" (or at the very end) belongs to the line end -/
def splitLinesAux : List Char → List Char → List (List Char)
  | [], cur => [cur.reverse]
  | '\n' :: rest, cur => cur.reverse :: splitLinesAux rest []
  | c :: rest, cur => splitLinesAux rest (c :: cur)

def stripCR (l : List Char) : List Char :=
  match l.reverse with
  | '\r' :: r => r.reverse
  | _ => l

def lines (s : List Char) : List (List Char) := (splitLinesAux s []).map stripCR

/-- one parsed record -/
structure Record where
  offset : Nat          -- AAAA
  type : Nat            -- TT
  data : List Nat
  deriving Repr, DecidableEq

/-- ':' LL AAAA TT data CC with LL = |data| and the byte sum ≡ 0 (mod 256) -/
def parseRecord (l : List Char) : Option Record :=
  match l with
  | ':' :: body =>
    match hexPairs body with
    | some (ll :: ah :: al :: tt :: rest) =>
      -- rest = data ++ [cc]
      if rest.length = ll + 1 ∧ (ll + ah + al + tt + rest.sum) % 256 = 0 then
        some { offset := ah * 256 + al, type := tt, data := rest.dropLast }
      else none
    | _ => none
  | _ => none

/-- how addresses are formed: no base record seen yet / linear (type 04) / segment (type 02) -/
inductive Base where
  | linear (b : Nat)
  | segment (b : Nat)
  deriving Repr, DecidableEq

def Base.addr (b : Base) (offset i : Nat) : Nat :=
  match b with
  | .linear base => (base + offset + i) % 4294967296
  | .segment base => base + (offset + i) % 65536

def dataPairs (b : Base) (offset : Nat) (data : List Nat) : List (Nat × Nat) :=
  data.zipIdx.map (fun (byte, i) => (b.addr offset i, byte))

/-- the records after line splitting: the last one must be EOF, nothing may follow it except the
    empty remainder after the final line break -/
def decodeRecords : List (List Char) → Base → Option (List (Nat × Nat))
  | [], _ => none                                  -- no EOF record
  | l :: rest, base =>
    match parseRecord l with
    | none => none
    | some r =>
      if r.type = 0 then
        match decodeRecords rest base with
        | some more => some (dataPairs base r.offset r.data ++ more)
        | none => none
      else if r.type = 1 then
        if r.data = [] ∧ (rest = [] ∨ rest = [[]]) then some [] else none
      else if r.type = 2 then
        match r.data with
        | [h, lo] => if r.offset = 0 then decodeRecords rest (.segment ((h * 256 + lo) * 16)) else none
        | _ => none
      else if r.type = 4 then
        match r.data with
        | [h, lo] => if r.offset = 0 then decodeRecords rest (.linear ((h * 256 + lo) * 65536)) else none
        | _ => none
      else if r.type = 3 ∨ r.type = 5 then
        if r.data.length = 4 ∧ r.offset = 0 then decodeRecords rest base else none
      else none

/-- Intel HEX text → (address, byte) pairs in file order -/
def decode (s : List Char) : Option (List (Nat × Nat)) := decodeRecords (lines s) (.linear 0)

/-- are the pairs one contiguous ascending run starting at `a`? -/
def contiguousFrom : Nat → List (Nat × Nat) → Bool
  | _, [] => true
  | a, (a', _) :: rest => a' = a && contiguousFrom (a + 1) rest

/-- normal form: (start address, bytes) of a non-empty contiguous image; an image without data is
    `(0, [])` -/
def normal (ps : List (Nat × Nat)) : Option (Nat × List Nat) :=
  match ps with
  | [] => some (0, [])
  | (a, _) :: _ => if contiguousFrom a ps then some (a, ps.map (·.2)) else none

/-- the image the command line is to produce: `bytes` placed at `offset` -/
def image (offset : Nat) (bytes : List Nat) : List (Nat × Nat) :=
  bytes.zipIdx.map (fun (b, i) => (offset + i, b))

end BB.Hex
