/-
  BB.Spec.Compressible — which 32-bit instructions are the expansion of a legal, non-hint,
  non-reserved RV32C instruction (written from the RVC chapter; independent of bronzebeard's
  `criteria` table).  Used by C20 ("every eligible instruction is compressed") and C04.
-/
import BB.Spec.Exec
import BB.Spec.Legal
namespace BB.Spec

/-- every RVC instruction that could possibly expand to `i`, built from `i`'s own fields -/
def candidates : Instr32 → List CInstr
  | .i .addi rd rs1 imm => [.addi4spn rd imm.toNat, .nop, .addi rd imm, .li rd imm, .addi16sp imm] |>.filter
      (fun c => match c with
        | .addi4spn _ _ => rs1 = 2 ∧ 0 ≤ imm
        | .nop => rd = 0 ∧ rs1 = 0 ∧ imm = 0
        | .addi _ _ => rd = rs1
        | .li _ _ => rs1 = 0
        | .addi16sp _ => rd = 2 ∧ rs1 = 2
        | _ => false)
  | .i .andi rd rs1 imm => if rd = rs1 then [.andi rd imm] else []
  | .load .lw rd rs1 imm => if 0 ≤ imm then [.lw rd rs1 imm.toNat] ++ (if rs1 = 2 then [.lwsp rd imm.toNat] else []) else []
  | .store .sw base src imm =>
      if 0 ≤ imm then [.sw base src imm.toNat] ++ (if base = 2 then [.swsp src imm.toNat] else []) else []
  | .jal rd imm => if rd = 1 then [.jal imm] else if rd = 0 then [.j imm] else []
  | .lui rd f => [.lui rd (if f < 524288 then (f : Int) else (f : Int) - 1048576)]
  | .sh .srli rd rs1 sh => if rd = rs1 then [.srli rd sh] else []
  | .sh .srai rd rs1 sh => if rd = rs1 then [.srai rd sh] else []
  | .sh .slli rd rs1 sh => if rd = rs1 then [.slli rd sh] else []
  | .r .sub rd rs1 rs2 => if rd = rs1 then [.sub rd rs2] else []
  | .r .xor rd rs1 rs2 => if rd = rs1 then [.xor rd rs2] else []
  | .r .or rd rs1 rs2 => if rd = rs1 then [.or rd rs2] else []
  | .r .and rd rs1 rs2 => if rd = rs1 then [.and rd rs2] else []
  | .r .add rd rs1 rs2 => (if rs1 = 0 then [.mv rd rs2] else []) ++ (if rd = rs1 then [.add rd rs2] else [])
  | .branch .beq rs1 rs2 imm => if rs2 = 0 then [.beqz rs1 imm] else []
  | .branch .bne rs1 rs2 imm => if rs2 = 0 then [.bnez rs1 imm] else []
  | .jalr rd rs1 imm => if imm = 0 then (if rd = 0 then [.jr rs1] else if rd = 1 then [.jalr rs1] else []) else []
  | .ebreak => [.ebreak]
  | _ => []

/-- legality of an RVC instruction value, through its canonical text -/
def CInstr.legal (c : CInstr) : Bool := legal16 c.text.1 c.text.2

/-- `i` is the expansion of a legal non-hint RV32C instruction -/
def eligible (i : Instr32) : Bool := (candidates i).any (fun c => c.legal && expand16 c == i)

end BB.Spec
