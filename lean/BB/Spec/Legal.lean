/-
  BB.Spec.Legal — which operand tuples an instruction can represent, written from the ISA manual
  (field widths, scaling, register classes, reserved zeros) and docs/instruction_reference.rst.
  Independent of the encoders; `accept_iff_legal` (Props/C06) ties the two.

  Interpretation notes (DESIGN.md §5 C06):
  * CSR instructions: the reference gives no range; the 12-bit field is taken as the same signed
    12-bit immediate every other I-type instruction has (csr numbers ≥ 0x800 are written negative).
  * jalr: the reference documents the offset as "12-bit MO2" (multiple of 2).
  * lui / auipc: both the signed 20-bit and the unsigned 20-bit spelling are documented
    (test_assemble_lui_signedness), so −0x80000 … 0xfffff.  c.lui likewise: −32…31 \ {0} and
    0xfffe0…0xfffff.
-/
import BB.Spec.Intent
namespace BB.Spec

def isReg (n : Nat) : Bool := n < 32
def isRegC (n : Nat) : Bool := 8 ≤ n ∧ n ≤ 15

def simm (bits : Nat) (v : Int) : Bool := -(2 ^ (bits - 1) : Int) ≤ v ∧ v < (2 ^ (bits - 1) : Int)
def uimm (bits : Nat) (v : Int) : Bool := 0 ≤ v ∧ v < (2 ^ bits : Int)
def multOf (k : Int) (v : Int) : Bool := v % k = 0

def legalOf (c : Mn32) (ops : List Opnd) : Bool :=
  match c, ops with
  | .r _, [.reg rd, .reg rs1, .reg rs2] => isReg rd && isReg rs1 && isReg rs2
  | .sh _, [.reg rd, .reg rs1, .reg sh] => isReg rd && isReg rs1 && decide (sh < 32)
  | .i _, [.reg rd, .reg rs1, .imm v] => isReg rd && isReg rs1 && simm 12 v
  | .ld _, [.reg rd, .reg rs1, .imm v] => isReg rd && isReg rs1 && simm 12 v
  | .st _, [.reg rs1, .reg rs2, .imm v] => isReg rs1 && isReg rs2 && simm 12 v
  | .csr _, [.reg rd, .reg src, .imm v] => isReg rd && decide (src < 32) && simm 12 v
  | .jalr, [.reg rd, .reg rs1, .imm v] => isReg rd && isReg rs1 && simm 12 v && multOf 2 v
  | .br _, [.reg rs1, .reg rs2, .imm v] => isReg rs1 && isReg rs2 && simm 13 v && multOf 2 v
  | .lui, [.reg rd, .imm v] => isReg rd && (decide (-0x80000 ≤ v) && decide (v ≤ 0xfffff))
  | .auipc, [.reg rd, .imm v] => isReg rd && (decide (-0x80000 ≤ v) && decide (v ≤ 0xfffff))
  | .jal, [.reg rd, .imm v] => isReg rd && simm 21 v && multOf 2 v
  | .fence, [.imm succ, .imm pred] => uimm 4 succ && uimm 4 pred
  | .ecall, [] => true
  | .ebreak, [] => true
  | .fenceI, [] => true
  | .sc, [.reg rd, .reg rs1, .reg rs2, .imm aq, .imm rl] =>
      isReg rd && isReg rs1 && isReg rs2 && uimm 1 aq && uimm 1 rl
  | .amo _, [.reg rd, .reg rs1, .reg rs2, .imm aq, .imm rl] =>
      isReg rd && isReg rs1 && isReg rs2 && uimm 1 aq && uimm 1 rl
  | .lr, [.reg rd, .reg rs1, .imm aq, .imm rl] => isReg rd && isReg rs1 && uimm 1 aq && uimm 1 rl
  | _, _ => false

def legal32 (name : String) (ops : List Opnd) : Bool :=
  match classOf name with
  | some c => legalOf c ops
  | none => false

def legalOf16 (c : CMn) (ops : List Opnd) : Bool :=
  match c, ops with
  | .addi4spn, [.reg rd, .imm v] => isRegC rd && uimm 10 v && multOf 4 v && v ≠ 0
  | .lw, [.reg rd, .reg rs1, .imm v] => isRegC rd && isRegC rs1 && uimm 7 v && multOf 4 v
  | .sw, [.reg rs1, .reg rs2, .imm v] => isRegC rs1 && isRegC rs2 && uimm 7 v && multOf 4 v
  | .nop, [] => true
  | .addi, [.reg rd, .imm v] => isReg rd && rd ≠ 0 && simm 6 v && v ≠ 0
  | .jal, [.imm v] => simm 12 v && multOf 2 v
  | .li, [.reg rd, .imm v] => isReg rd && rd ≠ 0 && simm 6 v
  | .addi16sp, [.imm v] => simm 10 v && multOf 16 v && v ≠ 0
  | .lui, [.reg rd, .imm v] =>
      isReg rd && rd ≠ 0 && rd ≠ 2 && ((simm 6 v && v ≠ 0) || (decide (0xfffe0 ≤ v) && decide (v ≤ 0xfffff)))
  | .srli, [.reg rd, .imm v] => isRegC rd && uimm 5 v && v ≠ 0
  | .srai, [.reg rd, .imm v] => isRegC rd && uimm 5 v && v ≠ 0
  | .andi, [.reg rd, .imm v] => isRegC rd && simm 6 v
  | .sub, [.reg rd, .reg rs2] => isRegC rd && isRegC rs2
  | .xor, [.reg rd, .reg rs2] => isRegC rd && isRegC rs2
  | .or, [.reg rd, .reg rs2] => isRegC rd && isRegC rs2
  | .and, [.reg rd, .reg rs2] => isRegC rd && isRegC rs2
  | .j, [.imm v] => simm 12 v && multOf 2 v
  | .beqz, [.reg rs1, .imm v] => isRegC rs1 && simm 9 v && multOf 2 v
  | .bnez, [.reg rs1, .imm v] => isRegC rs1 && simm 9 v && multOf 2 v
  | .slli, [.reg rd, .imm v] => isReg rd && rd ≠ 0 && uimm 5 v && v ≠ 0
  | .lwsp, [.reg rd, .imm v] => isReg rd && rd ≠ 0 && uimm 8 v && multOf 4 v
  | .jr, [.reg rs1] => isReg rs1 && rs1 ≠ 0
  | .mv, [.reg rd, .reg rs2] => isReg rd && isReg rs2 && rd ≠ 0 && rs2 ≠ 0
  | .ebreak, [] => true
  | .jalr, [.reg rs1] => isReg rs1 && rs1 ≠ 0
  | .add, [.reg rd, .reg rs2] => isReg rd && isReg rs2 && rd ≠ 0 && rs2 ≠ 0
  | .swsp, [.reg rs2, .imm v] => isReg rs2 && uimm 8 v && multOf 4 v
  | _, _ => false

def legal16 (name : String) (ops : List Opnd) : Bool :=
  match classOf16 name with
  | some c => legalOf16 c ops
  | none => false

end BB.Spec
