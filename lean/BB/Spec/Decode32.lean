/-
  BB.Spec.Decode32 — the RV32I / M / A / Zicsr / Zifencei instruction formats, written from
  "The RISC-V Instruction Set Manual, Volume I: Unprivileged ISA" (chapter 2 base formats and
  immediate encoding variants; chapter 24/34 "RV32/64G Instruction Set Listings"), NOT from
  bronzebeard's source.  `decode32 w` returns the instruction a 32-bit word denotes, or `none`
  when the word is not a valid encoding of one of these extensions.
-/
namespace BB.Spec

inductive ROp | add | sub | sll | slt | sltu | xor | srl | sra | or | and
              | mul | mulh | mulhsu | mulhu | div | divu | rem | remu
  deriving Repr, DecidableEq
inductive IOp | addi | slti | sltiu | xori | ori | andi
  deriving Repr, DecidableEq
inductive ShOp | slli | srli | srai
  deriving Repr, DecidableEq
inductive LdOp | lb | lh | lw | lbu | lhu
  deriving Repr, DecidableEq
inductive StOp | sb | sh | sw
  deriving Repr, DecidableEq
inductive BrOp | beq | bne | blt | bge | bltu | bgeu
  deriving Repr, DecidableEq
inductive CsrOp | csrrw | csrrs | csrrc | csrrwi | csrrsi | csrrci
  deriving Repr, DecidableEq
inductive AmoOp | swap | add | xor | and | or | min | max | minu | maxu
  deriving Repr, DecidableEq

/-- A decoded instruction.  Register fields are numbers 0..31, `imm` the sign-extended
    immediate (byte offset for branches/jumps), `imm20` the raw upper-immediate field. -/
inductive Instr32 where
  | r (op : ROp) (rd rs1 rs2 : Nat)
  | i (op : IOp) (rd rs1 : Nat) (imm : Int)
  | sh (op : ShOp) (rd rs1 shamt : Nat)
  | load (op : LdOp) (rd rs1 : Nat) (imm : Int)
  | store (op : StOp) (base src : Nat) (imm : Int)
  | branch (op : BrOp) (rs1 rs2 : Nat) (imm : Int)
  | lui (rd : Nat) (imm20 : Nat)
  | auipc (rd : Nat) (imm20 : Nat)
  | jal (rd : Nat) (imm : Int)
  | jalr (rd rs1 : Nat) (imm : Int)
  | fence (fm pred succ rd rs1 : Nat)
  | fenceI
  | ecall
  | ebreak
  | csr (op : CsrOp) (rd src csr : Nat)          -- src = rs1 or the 5-bit uimm
  | lr (aq rl : Bool) (rd rs1 : Nat)
  | sc (aq rl : Bool) (rd rs1 rs2 : Nat)
  | amo (op : AmoOp) (aq rl : Bool) (rd rs1 rs2 : Nat)
  deriving Repr, DecidableEq

/-- bits [lo+len-1 : lo] of `w` -/
def bits (w lo len : Nat) : Nat := (w / 2 ^ lo) % 2 ^ len

/-- interpret the low `n` bits of `x` as a two's-complement number -/
def sext (n : Nat) (x : Nat) : Int :=
  if x % 2 ^ n < 2 ^ (n - 1) then Int.ofNat (x % 2 ^ n) else Int.ofNat (x % 2 ^ n) - Int.ofNat (2 ^ n)

/-- I-immediate: inst[31:20] -/
def immI (w : Nat) : Int := sext 12 (bits w 20 12)
/-- S-immediate: inst[31:25] ‖ inst[11:7] -/
def immS (w : Nat) : Int := sext 12 (bits w 25 7 * 32 + bits w 7 5)
/-- B-immediate: inst[31] ‖ inst[7] ‖ inst[30:25] ‖ inst[11:8] ‖ 0 -/
def immB (w : Nat) : Int :=
  sext 13 (bits w 31 1 * 4096 + bits w 7 1 * 2048 + bits w 25 6 * 32 + bits w 8 4 * 2)
/-- J-immediate: inst[31] ‖ inst[19:12] ‖ inst[20] ‖ inst[30:21] ‖ 0 -/
def immJ (w : Nat) : Int :=
  sext 21 (bits w 31 1 * 1048576 + bits w 12 8 * 4096 + bits w 20 1 * 2048 + bits w 21 10 * 2)

def decodeOP (f3 f7 : Nat) : Option ROp :=
  match f7, f3 with
  | 0b0000000, 0b000 => some .add  | 0b0100000, 0b000 => some .sub
  | 0b0000000, 0b001 => some .sll  | 0b0000000, 0b010 => some .slt
  | 0b0000000, 0b011 => some .sltu | 0b0000000, 0b100 => some .xor
  | 0b0000000, 0b101 => some .srl  | 0b0100000, 0b101 => some .sra
  | 0b0000000, 0b110 => some .or   | 0b0000000, 0b111 => some .and
  | 0b0000001, 0b000 => some .mul  | 0b0000001, 0b001 => some .mulh
  | 0b0000001, 0b010 => some .mulhsu | 0b0000001, 0b011 => some .mulhu
  | 0b0000001, 0b100 => some .div  | 0b0000001, 0b101 => some .divu
  | 0b0000001, 0b110 => some .rem  | 0b0000001, 0b111 => some .remu
  | _, _ => none

def decodeAmo (f5 : Nat) : Option AmoOp :=
  match f5 with
  | 0b00001 => some .swap | 0b00000 => some .add | 0b00100 => some .xor | 0b01100 => some .and
  | 0b01000 => some .or | 0b10000 => some .min | 0b10100 => some .max | 0b11000 => some .minu
  | 0b11100 => some .maxu | _ => none

/-- decode from the six fixed fields (the whole word `w` is consulted only for immediates and the
    odd-shaped fields of FENCE / SYSTEM / AMO) -/
def decodeFields (opcode rd f3 rs1 rs2 f7 w : Nat) : Option Instr32 :=
  match opcode with
  | 0b0110111 => some (.lui rd (bits w 12 20))
  | 0b0010111 => some (.auipc rd (bits w 12 20))
  | 0b1101111 => some (.jal rd (immJ w))
  | 0b1100111 => if f3 = 0 then some (.jalr rd rs1 (immI w)) else none
  | 0b1100011 =>
    match f3 with
    | 0b000 => some (.branch .beq rs1 rs2 (immB w)) | 0b001 => some (.branch .bne rs1 rs2 (immB w))
    | 0b100 => some (.branch .blt rs1 rs2 (immB w)) | 0b101 => some (.branch .bge rs1 rs2 (immB w))
    | 0b110 => some (.branch .bltu rs1 rs2 (immB w)) | 0b111 => some (.branch .bgeu rs1 rs2 (immB w))
    | _ => none
  | 0b0000011 =>
    match f3 with
    | 0b000 => some (.load .lb rd rs1 (immI w)) | 0b001 => some (.load .lh rd rs1 (immI w))
    | 0b010 => some (.load .lw rd rs1 (immI w)) | 0b100 => some (.load .lbu rd rs1 (immI w))
    | 0b101 => some (.load .lhu rd rs1 (immI w)) | _ => none
  | 0b0100011 =>
    match f3 with
    | 0b000 => some (.store .sb rs1 rs2 (immS w)) | 0b001 => some (.store .sh rs1 rs2 (immS w))
    | 0b010 => some (.store .sw rs1 rs2 (immS w)) | _ => none
  | 0b0010011 =>
    match f3 with
    | 0b000 => some (.i .addi rd rs1 (immI w)) | 0b010 => some (.i .slti rd rs1 (immI w))
    | 0b011 => some (.i .sltiu rd rs1 (immI w)) | 0b100 => some (.i .xori rd rs1 (immI w))
    | 0b110 => some (.i .ori rd rs1 (immI w)) | 0b111 => some (.i .andi rd rs1 (immI w))
    | 0b001 => if f7 = 0 then some (.sh .slli rd rs1 rs2) else none
    | 0b101 => if f7 = 0 then some (.sh .srli rd rs1 rs2)
               else if f7 = 0b0100000 then some (.sh .srai rd rs1 rs2) else none
    | _ => none
  | 0b0110011 => (decodeOP f3 f7).map (fun op => .r op rd rs1 rs2)
  | 0b0001111 =>
    match f3 with
    | 0b000 => some (.fence (bits w 28 4) (bits w 24 4) (bits w 20 4) rd rs1)
    | 0b001 => if bits w 20 12 = 0 ∧ rd = 0 ∧ rs1 = 0 then some .fenceI else none
    | _ => none
  | 0b1110011 =>
    match f3 with
    | 0b000 => if rd = 0 ∧ rs1 = 0 then
                 (if bits w 20 12 = 0 then some .ecall
                  else if bits w 20 12 = 1 then some .ebreak else none)
               else none
    | 0b001 => some (.csr .csrrw rd rs1 (bits w 20 12)) | 0b010 => some (.csr .csrrs rd rs1 (bits w 20 12))
    | 0b011 => some (.csr .csrrc rd rs1 (bits w 20 12)) | 0b101 => some (.csr .csrrwi rd rs1 (bits w 20 12))
    | 0b110 => some (.csr .csrrsi rd rs1 (bits w 20 12)) | 0b111 => some (.csr .csrrci rd rs1 (bits w 20 12))
    | _ => none
  | 0b0101111 =>
    if f3 ≠ 0b010 then none else
    let aq := bits w 26 1 = 1
    let rl := bits w 25 1 = 1
    let f5 := bits w 27 5
    if f5 = 0b00010 then (if rs2 = 0 then some (.lr aq rl rd rs1) else none)
    else if f5 = 0b00011 then some (.sc aq rl rd rs1 rs2)
    else (decodeAmo f5).map (fun op => .amo op aq rl rd rs1 rs2)
  | _ => none

/-- the instruction a 32-bit word denotes: opcode = inst[6:0], rd = inst[11:7], funct3 =
    inst[14:12], rs1 = inst[19:15], rs2 = inst[24:20], funct7 = inst[31:25] -/
def decode32 (w : Nat) : Option Instr32 :=
  if w ≥ 2 ^ 32 then none else
  decodeFields (bits w 0 7) (bits w 7 5) (bits w 12 3) (bits w 15 5) (bits w 20 5) (bits w 25 7) w

end BB.Spec
