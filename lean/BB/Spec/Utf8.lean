/-
  BB.Spec.Utf8 — a UTF-8 *decoder*, written from the definition of the encoding form
  (Unicode Standard §3.9, table 3-7 "Well-Formed UTF-8 Byte Sequences"; RFC 3629), not from any
  encoder:

      code points            1st byte   2nd byte   3rd byte   4th byte
      U+0000  .. U+007F      00..7F
      U+0080  .. U+07FF      C2..DF     80..BF
      U+0800  .. U+0FFF      E0         A0..BF     80..BF
      U+1000  .. U+CFFF      E1..EC     80..BF     80..BF
      U+D000  .. U+D7FF      ED         80..9F     80..BF
      U+E000  .. U+FFFF      EE..EF     80..BF     80..BF
      U+10000 .. U+3FFFF     F0         90..BF     80..BF     80..BF
      U+40000 .. U+FFFFF     F1..F3     80..BF     80..BF     80..BF
      U+100000.. U+10FFFF    F4         80..8F     80..BF     80..BF

  Anything else — a continuation byte in first position, C0/C1, F5..FF, an over-long form, an
  encoded surrogate (ED A0..BF), a value above U+10FFFF, a truncated sequence — is ill-formed:
  `decode` returns `none`.  Bytes are `Nat`s; a "byte" ≥ 256 is ill-formed.  No imports.
-/
namespace BB.Utf8

def inR (lo hi b : Nat) : Bool := decide (lo ≤ b) && decide (b ≤ hi)

/-- is `b` a continuation byte 80..BF -/
def isCont (b : Nat) : Bool := inR 0x80 0xBF b

/-- one well-formed sequence at the head: (code point, rest) -/
def decodeOne : List Nat → Option (Nat × List Nat)
  | [] => none
  | b0 :: r =>
    if b0 ≤ 0x7F then some (b0, r)
    else if inR 0xC2 0xDF b0 then
      match r with
      | b1 :: r => if isCont b1 then some ((b0 - 0xC0) * 64 + (b1 - 0x80), r) else none
      | _ => none
    else if inR 0xE0 0xEF b0 then
      match r with
      | b1 :: b2 :: r =>
        let ok1 := if b0 = 0xE0 then inR 0xA0 0xBF b1 else if b0 = 0xED then inR 0x80 0x9F b1 else isCont b1
        if ok1 && isCont b2 then some (((b0 - 0xE0) * 64 + (b1 - 0x80)) * 64 + (b2 - 0x80), r) else none
      | _ => none
    else if inR 0xF0 0xF4 b0 then
      match r with
      | b1 :: b2 :: b3 :: r =>
        let ok1 := if b0 = 0xF0 then inR 0x90 0xBF b1 else if b0 = 0xF4 then inR 0x80 0x8F b1 else isCont b1
        if ok1 && isCont b2 && isCont b3 then
          some ((((b0 - 0xF0) * 64 + (b1 - 0x80)) * 64 + (b2 - 0x80)) * 64 + (b3 - 0x80), r)
        else none
      | _ => none
    else none

/-- the code points of a well-formed UTF-8 byte string; `fuel` ≥ number of bytes -/
def decodeAux : Nat → List Nat → Option (List Nat)
  | _, [] => some []
  | 0, _ :: _ => none
  | fuel + 1, bs =>
    match decodeOne bs with
    | some (cp, rest) => (decodeAux fuel rest).map (cp :: ·)
    | none => none

/-- UTF-8 bytes → Unicode scalar values (`none` = ill-formed) -/
def decode (bs : List Nat) : Option (List Nat) := decodeAux bs.length bs

/-- a Unicode scalar value: a code point that is not a surrogate -/
def isScalar (n : Nat) : Bool := n < 0xD800 || (0xE000 ≤ n && n < 0x110000)

end BB.Utf8
