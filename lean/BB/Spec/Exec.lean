/-
  BB.Spec.Exec — single-step semantics of the RV32 integer instructions (I and M) and of the RVC
  instructions through their expansion, written from the ISA manual (chapter 2 "RV32I", chapter
  "M", and the "expands to" column of the RVC chapter).  Independent of bronzebeard.

  A/Zicsr/Zifencei/ecall/ebreak/fence instructions only advance the pc here (their effect is outside
  the register/memory state); they are never involved in a compression or pseudo-instruction rule
  except `fence`/`ebreak`, which change no register.
-/
import BB.Spec.Decode16
namespace BB.Spec

abbrev W := BitVec 32

structure St where
  reg : Nat → W          -- x0 is hard-wired: reads go through `St.get`
  pc : W
  mem : W → BitVec 8     -- byte-addressed memory

def St.get (s : St) (r : Nat) : W := if r = 0 then 0 else s.reg r

def St.set (s : St) (r : Nat) (v : W) : St :=
  if r = 0 then s else { s with reg := fun k => if k = r then v else s.reg k }

def St.load8 (s : St) (a : W) : BitVec 8 := s.mem a
def St.load16 (s : St) (a : W) : BitVec 16 := (s.mem (a + 1)) ++ (s.mem a)
def St.load32 (s : St) (a : W) : W := (s.mem (a + 3)) ++ (s.mem (a + 2)) ++ (s.mem (a + 1)) ++ (s.mem a)

def St.store8 (s : St) (a : W) (v : BitVec 8) : St :=
  { s with mem := fun k => if k = a then v else s.mem k }
def St.store16 (s : St) (a : W) (v : BitVec 16) : St :=
  (s.store8 a (v.extractLsb' 0 8)).store8 (a + 1) (v.extractLsb' 8 8)
def St.store32 (s : St) (a : W) (v : W) : St :=
  (((s.store8 a (v.extractLsb' 0 8)).store8 (a + 1) (v.extractLsb' 8 8)).store8 (a + 2)
    (v.extractLsb' 16 8)).store8 (a + 3) (v.extractLsb' 24 8)

def imm32 (i : Int) : W := BitVec.ofInt 32 i

def b2w (b : Bool) : W := if b then 1 else 0

/-- signed division / remainder with the RISC-V conventions for /0 and overflow -/
def divS (a b : W) : W :=
  if b = 0 then BitVec.ofInt 32 (-1)
  else if a = BitVec.ofInt 32 (-2147483648) ∧ b = BitVec.ofInt 32 (-1) then a
  else BitVec.ofInt 32 (Int.tdiv a.toInt b.toInt)
def remS (a b : W) : W :=
  if b = 0 then a
  else if a = BitVec.ofInt 32 (-2147483648) ∧ b = BitVec.ofInt 32 (-1) then 0
  else BitVec.ofInt 32 (Int.tmod a.toInt b.toInt)
def divU (a b : W) : W := if b = 0 then BitVec.ofInt 32 (-1) else BitVec.ofNat 32 (a.toNat / b.toNat)
def remU (a b : W) : W := if b = 0 then a else BitVec.ofNat 32 (a.toNat % b.toNat)

def aluR (op : ROp) (a b : W) : W :=
  match op with
  | .add => a + b
  | .sub => a - b
  | .sll => a <<< (b.toNat % 32)
  | .slt => b2w (a.slt b)
  | .sltu => b2w (a.ult b)
  | .xor => a ^^^ b
  | .srl => a >>> (b.toNat % 32)
  | .sra => a.sshiftRight (b.toNat % 32)
  | .or => a ||| b
  | .and => a &&& b
  | .mul => a * b
  | .mulh => BitVec.ofInt 32 ((a.toInt * b.toInt) / 4294967296)
  | .mulhsu => BitVec.ofInt 32 ((a.toInt * (b.toNat : Int)) / 4294967296)
  | .mulhu => BitVec.ofNat 32 ((a.toNat * b.toNat) / 4294967296)
  | .div => divS a b
  | .divu => divU a b
  | .rem => remS a b
  | .remu => remU a b

def aluI (op : IOp) (a : W) (imm : Int) : W :=
  match op with
  | .addi => a + imm32 imm
  | .slti => b2w (a.slt (imm32 imm))
  | .sltiu => b2w (a.ult (imm32 imm))
  | .xori => a ^^^ imm32 imm
  | .ori => a ||| imm32 imm
  | .andi => a &&& imm32 imm

def brTaken (op : BrOp) (a b : W) : Bool :=
  match op with
  | .beq => a = b
  | .bne => a ≠ b
  | .blt => a.slt b
  | .bge => !(a.slt b)
  | .bltu => a.ult b
  | .bgeu => !(a.ult b)

/-- one step; `len` is the instruction's length in bytes (4, or 2 for an expanded RVC instruction) -/
def exec (i : Instr32) (len : Nat) (s : St) : St :=
  let next := s.pc + BitVec.ofNat 32 len
  match i with
  | .r op rd rs1 rs2 => { (s.set rd (aluR op (s.get rs1) (s.get rs2))) with pc := next }
  | .i op rd rs1 imm => { (s.set rd (aluI op (s.get rs1) imm)) with pc := next }
  | .sh op rd rs1 sh =>
    let a := s.get rs1
    let v := match op with
      | .slli => a <<< sh
      | .srli => a >>> sh
      | .srai => a.sshiftRight sh
    { (s.set rd v) with pc := next }
  | .load op rd rs1 imm =>
    let a := s.get rs1 + imm32 imm
    let v : W := match op with
      | .lb => (s.load8 a).signExtend 32
      | .lh => (s.load16 a).signExtend 32
      | .lw => s.load32 a
      | .lbu => (s.load8 a).zeroExtend 32
      | .lhu => (s.load16 a).zeroExtend 32
    { (s.set rd v) with pc := next }
  | .store op base src imm =>
    let a := s.get base + imm32 imm
    let v := s.get src
    let s' := match op with
      | .sb => s.store8 a (v.extractLsb' 0 8)
      | .sh => s.store16 a (v.extractLsb' 0 16)
      | .sw => s.store32 a v
    { s' with pc := next }
  | .branch op rs1 rs2 imm =>
    if brTaken op (s.get rs1) (s.get rs2) then { s with pc := s.pc + imm32 imm } else { s with pc := next }
  | .lui rd f => { (s.set rd (BitVec.ofNat 32 (f * 4096))) with pc := next }
  | .auipc rd f => { (s.set rd (s.pc + BitVec.ofNat 32 (f * 4096))) with pc := next }
  | .jal rd imm => { (s.set rd next) with pc := s.pc + imm32 imm }
  | .jalr rd rs1 imm =>
    let t := (s.get rs1 + imm32 imm) &&& BitVec.ofInt 32 (-2)
    { (s.set rd next) with pc := t }
  | _ => { s with pc := next }

/-- the base instruction an RVC instruction expands to (RVC chapter, per-instruction text) -/
def expand16 : CInstr → Instr32
  | .addi4spn rd nz => .i .addi rd 2 nz
  | .lw rd rs1 u => .load .lw rd rs1 u
  | .sw rs1 rs2 u => .store .sw rs1 rs2 u
  | .nop => .i .addi 0 0 0
  | .addi rd nz => .i .addi rd rd nz
  | .jal imm => .jal 1 imm
  | .li rd imm => .i .addi rd 0 imm
  | .addi16sp nz => .i .addi 2 2 nz
  | .lui rd nz => .lui rd (nz % 1048576).toNat
  | .srli rd sh => .sh .srli rd rd sh
  | .srai rd sh => .sh .srai rd rd sh
  | .andi rd imm => .i .andi rd rd imm
  | .sub rd rs2 => .r .sub rd rd rs2
  | .xor rd rs2 => .r .xor rd rd rs2
  | .or rd rs2 => .r .or rd rd rs2
  | .and rd rs2 => .r .and rd rd rs2
  | .j imm => .jal 0 imm
  | .beqz rs1 imm => .branch .beq rs1 0 imm
  | .bnez rs1 imm => .branch .bne rs1 0 imm
  | .slli rd sh => .sh .slli rd rd sh
  | .lwsp rd u => .load .lw rd 2 u
  | .jr rs1 => .jalr 0 rs1 0
  | .mv rd rs2 => .r .add rd 0 rs2
  | .ebreak => .ebreak
  | .jalr rs1 => .jalr 1 rs1 0
  | .add rd rs2 => .r .add rd rd rs2
  | .swsp rs2 u => .store .sw 2 rs2 u

def execC (c : CInstr) (s : St) : St := exec (expand16 c) 2 s

end BB.Spec
