/-
  BB.Dict — Python `dict` with str keys and int values, as an insertion-ordered association list
  (the `labels` and `constants` dictionaries of assemble(); the `-l` file prints them in this order).
-/
namespace BB

abbrev Dict := List (String × Int)

/-- `d.get(k)` / `k in d` -/
def Dict.get (d : Dict) (k : String) : Option Int := List.lookup k d

/-- `d[k] = v`: overwrite in place if present (position kept), else append -/
def Dict.set : Dict → String → Int → Dict
  | [], k, v => [(k, v)]
  | (k', v') :: rest, k, v => if k' = k then (k', v) :: rest else (k', v') :: Dict.set rest k v

/-- `d.update({k: v - n for k, v in d.items() if v > position})` — every value above `position`
    moves down by `n` (keys and order unchanged) -/
def Dict.shiftAbove (d : Dict) (position n : Int) : Dict :=
  d.map (fun (k, v) => if v > position then (k, v - n) else (k, v))

/-- `ChainMap(a, b)[k]` -/
def chainGet (a b : Dict) (k : String) : Option Int :=
  match a.get k with
  | some v => some v
  | none => b.get k

end BB
