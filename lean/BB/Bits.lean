/-
  BB.Bits — Python-integer helpers used by the model of bronzebeard/asm.py.

  Everything here mirrors an operation the Python code performs on `int`:
  `ctypes.c_uint32(x).value`, `ctypes.c_int32(x).value`, `>>`, `&`, `|`, `^`, `~`,
  `sign_extend`, `relocate_hi`, `relocate_lo` (asm.py:112-124).
  No Mathlib; core only, so that the driver links natively.
-/
namespace BB

/-- `ctypes.c_uint32(x).value` -/
def cU32 (x : Int) : Nat := (x % 4294967296).toNat

/-- `ctypes.c_int32(x).value` -/
def cI32 (x : Int) : Int :=
  let u := x % 4294967296
  if u ≥ 2147483648 then u - 4294967296 else u

/-- Python `a & b` on arbitrary ints (two's complement, infinite sign extension). -/
def pyAnd : Int → Int → Int
  | .ofNat m, .ofNat n => Int.ofNat (m &&& n)
  | .ofNat m, .negSucc n => Int.ofNat (m - (m &&& n))
  | .negSucc m, .ofNat n => Int.ofNat (n - (n &&& m))
  | .negSucc m, .negSucc n => Int.negSucc (m ||| n)

/-- Python `a | b`. -/
def pyOr : Int → Int → Int
  | .ofNat m, .ofNat n => Int.ofNat (m ||| n)
  | .ofNat m, .negSucc n => Int.negSucc (n - (n &&& m))
  | .negSucc m, .ofNat n => Int.negSucc (m - (m &&& n))
  | .negSucc m, .negSucc n => Int.negSucc (m &&& n)

/-- Python `a ^ b`. -/
def pyXor : Int → Int → Int
  | .ofNat m, .ofNat n => Int.ofNat (m ^^^ n)
  | .ofNat m, .negSucc n => Int.negSucc (m ^^^ n)
  | .negSucc m, .ofNat n => Int.negSucc (m ^^^ n)
  | .negSucc m, .negSucc n => Int.ofNat (m ^^^ n)

/-- Python `~a`. -/
def pyNot (a : Int) : Int := -a - 1

/-- Python `a >> n` for `n ≥ 0` (floor). -/
def pyShr (a : Int) (n : Nat) : Int := a / (2 ^ n : Int)

/-- Python `a << n` for `n ≥ 0`. -/
def pyShl (a : Int) (n : Nat) : Int := a * (2 ^ n : Int)

/-- Python floor division and modulo (sign of the divisor); `b ≠ 0` is the caller's duty. -/
def pyFloorDiv (a b : Int) : Int := Int.fdiv a b
def pyMod (a b : Int) : Int := Int.fmod a b

/-- `sign_extend(value, bits)` (asm.py:112-114), bits ≥ 1. -/
def signExtend (value : Int) (bits : Nat) : Int :=
  let signBit : Int := 2 ^ (bits - 1)
  pyAnd value (signBit - 1) - pyAnd value signBit

/-- `relocate_hi(imm)` (asm.py:117-120). -/
def relocateHi (imm : Int) : Int :=
  let imm := if pyAnd imm 0x800 ≠ 0 then imm + 4096 else imm
  signExtend (pyAnd (pyShr imm 12) 0x000fffff) 20

/-- `relocate_lo(imm)` (asm.py:123-124). -/
def relocateLo (imm : Int) : Int :=
  signExtend (pyAnd imm 0x00000fff) 12

/-- little-endian bytes of the low `8*n` bits of `w` (`struct.pack('<I'|'<H', code)`). -/
def leBytes : Nat → Nat → List Nat
  | 0, _ => []
  | n+1, w => (w % 256) :: leBytes n (w / 256)

def beBytes (n : Nat) (w : Nat) : List Nat := (leBytes n w).reverse

/-- value of a little-endian byte list -/
def fromLE : List Nat → Nat
  | [] => 0
  | b :: bs => b + 256 * fromLE bs

end BB
