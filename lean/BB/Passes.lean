/-
  BB.Passes — the passes of assemble() (asm.py:2482-3309 at the current commit, i.e. with the
  fix commits F1-F7), one Lean function per Python function, same order of checks.

  What the passes need from the text front end and from the outside world comes in through `Hooks`
  (so that the layout theorems do not depend on expression syntax):
    * `arith`    : `Arithmetic(expr).eval(position, env, line)` without the line
    * `parseImm` : `parse_immediate(tokens, line)`
    * `readFile` : the bytes `open(path,'rb').read()` returns in resolve_include_bytes
-/
import BB.Item
import BB.Dict
namespace BB

/-- failure of an arithmetic evaluation, before the line is attached -/
inductive ExprErr where
  | error                         -- becomes AssemblerError(…, line)
  | internal (py : String)        -- escapes raw (e.g. UnicodeDecodeError from a char literal)
  | unsupported (why : String)
  deriving Repr, DecidableEq, Inhabited

structure Hooks where
  arith : String → (String → Option Int) → Except ExprErr Int
  parseImm : List String → Line → Except Err Imm
  readFile : String → Option (List Nat)

def liftExpr (line : Line) : Except ExprErr Int → Except Err Int
  | .ok v => .ok v
  | .error .error => .error (.asm line)
  | .error (.internal py) => .error (.internal py)
  | .error (.unsupported w) => .error (.unsupported w)

/-- `imm.eval(position, env, line)` for the Expr classes (asm.py:1129-1262).  `position = none`
    is Python's `None` (constants): `dest - None` raises TypeError, but constants are restricted to
    Arithmetic, which ignores the position. -/
def Imm.eval (H : Hooks) (env : String → Option Int) (line : Line) : Imm → Int → Except Err Int
  | .arith e, _ => liftExpr line (H.arith e env)
  | .position ref e, _ =>
    match env ref with
    | none => .error (.asm line)
    | some dest => do
      let base ← liftExpr line (H.arith e env)
      pure (base + dest)
  | .offset ref, pos =>
    match env ref with
    | none => .error (.asm line)
    | some dest => .ok (dest - pos)
  | .hi e, pos => do let v ← Imm.eval H env line e pos; pure (relocateHi v)
  | .lo e, pos => do let v ← Imm.eval H env line e pos; pure (relocateLo v)
  | .value _, _ => .error (.internal "AttributeError")   -- an int has no .eval

/-- `item.size()` or the exception it raises (struct.error for an unknown pack format, KeyError for
    an unknown shorthand name) -/
def Item.sizeE (it : Item) : Except Err Int :=
  match it.size? with
  | some n => .ok n
  | none =>
    match it with
    | .pack .. => .error (.unsupported "pack format outside the documented table")
    | _ => .error (.internal "KeyError")


/-- `item.size()` with 0 for the (never laid out) items whose size() raises -/
def Item.sizeD (it : Item) : Int := it.size?.getD 0

def sizeSum (l : List Item) : Int := (l.map Item.sizeD).sum

/-- The loop shape shared by transform_compressible, transform_pseudo_instructions and
    resolve_aligns:

        position = 0; new_items = []
        for item in items:
            (replacement items, n) = body(item, position, labels)
            labels.update({k: v - n for k, v in labels.items() if v > position})
            position += sum of the sizes of the replacement items
            new_items.extend(replacement items)

    `.label` items do not occur in the lists the real passes see (resolve_labels removed them);
    `walk` passes them through untouched so that the same function can be run on the *ghost* list
    that keeps the labels in place (Lemmas/Layout.lean). -/
def walk (f : Item → Int → Dict → Except Err (List Item × Int)) :
    List Item → Int → Dict → Except Err (List Item × Dict)
  | [], _, labels => .ok ([], labels)
  | .label line name :: rest, position, labels => do
    let (out, l) ← walk f rest position labels
    pure (.label line name :: out, l)
  | it :: rest, position, labels => do
    let (repl, n) ← f it position labels
    let (out, l) ← walk f rest (position + sizeSum repl) (labels.shiftAbove position n)
    pure (repl ++ out, l)

/-- loop body for an item a pass leaves alone: `position += item.size(); new_items.append(item)` -/
def keepItem (it : Item) : Except Err (List Item × Int) := do
  let _ ← it.sizeE
  pure ([it], 0)

/-! ### resolve_constants (asm.py:2482-2510) -/

def registersEnv (k : String) : Option Int := (registersStrKeys.lookup k).map Int.ofNat

def resolveConstants (H : Hooks) : List Item → Dict → Except Err (List Item × Dict)
  | [], constants => .ok ([], constants)
  | .constant line name expr :: rest, constants =>
    match expr with
    | .arith e =>
      if (registersStrKeys.lookup name).isSome then .error (.asm line)
      else if isInt name.toList then .error (.asm line)
      else do
        let v ← liftExpr line (H.arith e (fun k => match constants.get k with
                                                   | some v => some v
                                                   | none => registersEnv k))
        resolveConstants H rest (constants.set name v)
    | _ => .error (.asm line)
  | it :: rest, constants => do
    let (out, c) ← resolveConstants H rest constants
    pure (it :: out, c)

/-! ### resolve_labels (asm.py:2513-2530, with the duplicate check of fix F6) -/

def resolveLabelsAux : List Item → Int → Dict → List String → Except Err (List Item × Dict)
  | [], _, labels, _ => .ok ([], labels)
  | .label line name :: rest, position, labels, defined =>
    if defined.contains name then .error (.asm line)
    else resolveLabelsAux rest position (labels.set name position) (name :: defined)
  | it :: rest, position, labels, defined => do
    let sz ← it.sizeE
    let (out, l) ← resolveLabelsAux rest (position + sz) labels defined
    pure (it :: out, l)

def resolveLabels (items : List Item) (labels : Dict) : Except Err (List Item × Dict) :=
  resolveLabelsAux items 0 labels []

/-! ### resolve_register_aliases (asm.py:2533-2572) -/

def aliasReg (constants : Dict) : RegOp → RegOp
  | .str s => match constants.get s with | some v => .int v | none => .str s
  | .int i => .int i

/-- the fields named rd / rs1 / rs2 / rd_rs1 of each class -/
def Instr.mapRegs (f : RegOp → RegOp) : Instr → Instr
  | .r n rd rs1 rs2 => .r n (f rd) (f rs1) (f rs2)
  | .i n rd rs1 imm aj => .i n (f rd) (f rs1) imm aj
  | .ie n => .ie n
  | .s n rs1 rs2 imm => .s n (f rs1) (f rs2) imm
  | .b n rs1 rs2 imm => .b n (f rs1) (f rs2) imm
  | .u n rd imm => .u n (f rd) imm
  | .j n rd imm => .j n (f rd) imm
  | .fence n sc pr => .fence n sc pr
  | .a n rd rs1 rs2 aq rl => .a n (f rd) (f rs1) (f rs2) aq rl
  | .al n rd rs1 aq rl => .al n (f rd) (f rs1) aq rl
  | .cr n rdRs1 rs2 => .cr n (f rdRs1) (f rs2)
  | .crj n rdRs1 aj => .crj n (f rdRs1) aj
  | .cre n => .cre n
  | .ci n rg imm => .ci n (f rg) imm
  | .cia n imm => .cia n imm
  | .cin n => .cin n
  | .css n rs2 imm => .css n (f rs2) imm
  | .ciw n rd imm => .ciw n (f rd) imm
  | .cl n rd rs1 imm => .cl n (f rd) (f rs1) imm
  | .cs n rs1 rs2 imm => .cs n (f rs1) (f rs2) imm
  | .ca n rdRs1 rs2 => .ca n (f rdRs1) (f rs2)
  | .cb n rs1 imm => .cb n (f rs1) imm
  | .cj n imm => .cj n imm

def resolveRegisterAliases (items : List Item) (constants : Dict) : List Item :=
  items.map (fun it => match it with
    | .instr line ins => .instr line (ins.mapRegs (aliasReg constants))
    | other => other)

/-! ### transform_compressible (asm.py:2575-2950, with fixes F3, F4, F5) -/

inductive Fld where | rd | rs1 | rs2
  deriving Repr, DecidableEq

/-- `getattr(i, name)`; `none` = AttributeError (never reached: NameEquals comes first) -/
def Instr.fld : Instr → Fld → Option RegOp
  | .r _ rd _ _, .rd => some rd | .r _ _ rs1 _, .rs1 => some rs1 | .r _ _ _ rs2, .rs2 => some rs2
  | .i _ rd _ _ _, .rd => some rd | .i _ _ rs1 _ _, .rs1 => some rs1
  | .s _ rs1 _ _, .rs1 => some rs1 | .s _ _ rs2 _, .rs2 => some rs2
  | .b _ rs1 _ _, .rs1 => some rs1 | .b _ _ rs2 _, .rs2 => some rs2
  | .u _ rd _, .rd => some rd
  | .j _ rd _, .rd => some rd
  | .a _ rd _ _ _ _, .rd => some rd | .a _ _ rs1 _ _ _, .rs1 => some rs1 | .a _ _ _ rs2 _ _, .rs2 => some rs2
  | .al _ rd _ _ _, .rd => some rd | .al _ _ rs1 _ _, .rs1 => some rs1
  | .css _ rs2 _, .rs2 => some rs2
  | .ciw _ rd _, .rd => some rd
  | .cl _ rd _ _, .rd => some rd | .cl _ _ rs1 _, .rs1 => some rs1
  | .cs _ rs1 _ _, .rs1 => some rs1 | .cs _ _ rs2 _, .rs2 => some rs2
  | .cr _ _ rs2, .rs2 => some rs2
  | .ca _ _ rs2, .rs2 => some rs2
  | .cb _ rs1 _, .rs1 => some rs1
  | _, _ => none

/-- the predicate constructors of transform_compressible -/
inductive Pred where
  | nameEq (s : String)
  | regEq (f : Fld) (v : Nat)
  | regNe (f : Fld) (v : Nat)
  | regBetween (f : Fld) (lo hi : Nat)
  | regsMatch (a b : Fld)
  | immEq (v : Int)
  | immNe (v : Int)
  | immDiv (v : Int)
  | immBetween (lo hi : Int)
  deriving Repr, DecidableEq

/-- the `criteria` dict, in insertion order -/
def criteria : List (String × List Pred) := [
  ("c.addi16sp", [.nameEq "addi", .regEq .rd 2, .regEq .rs1 2, .immNe 0, .immDiv 16, .immBetween (-512) 511]),
  ("c.addi4spn", [.nameEq "addi", .regBetween .rd 8 15, .regEq .rs1 2, .immNe 0, .immDiv 4, .immBetween 0 1023]),
  ("c.lw", [.nameEq "lw", .regBetween .rd 8 15, .regBetween .rs1 8 15, .immDiv 4, .immBetween 0 127]),
  ("c.sw", [.nameEq "sw", .regBetween .rs1 8 15, .regBetween .rs2 8 15, .immDiv 4, .immBetween 0 127]),
  ("c.nop", [.nameEq "addi", .regEq .rd 0, .regEq .rs1 0, .immEq 0]),
  ("c.addi", [.nameEq "addi", .regNe .rd 0, .regNe .rs1 0, .regsMatch .rd .rs1, .immNe 0, .immBetween (-32) 31]),
  ("c.jal", [.nameEq "jal", .regEq .rd 1, .immDiv 2, .immBetween (-2048) 2047]),
  ("c.li", [.nameEq "addi", .regNe .rd 0, .regEq .rs1 0, .immBetween (-32) 31]),
  ("c.lui", [.nameEq "lui", .regNe .rd 0, .regNe .rd 2, .immNe 0, .immBetween (-32) 31]),
  ("c.lui_alt", [.nameEq "lui", .regNe .rd 0, .regNe .rd 2, .immNe 0, .immBetween 0xfffe0 0xfffff]),
  ("c.srli", [.nameEq "srli", .regBetween .rd 8 15, .regBetween .rs1 8 15, .regsMatch .rd .rs1, .regNe .rs2 0, .regBetween .rs2 0 31]),
  ("c.srai", [.nameEq "srai", .regBetween .rd 8 15, .regBetween .rs1 8 15, .regsMatch .rd .rs1, .regNe .rs2 0, .regBetween .rs2 0 31]),
  ("c.andi", [.nameEq "andi", .regBetween .rd 8 15, .regBetween .rs1 8 15, .regsMatch .rd .rs1, .immBetween (-32) 31]),
  ("c.sub", [.nameEq "sub", .regBetween .rd 8 15, .regBetween .rs1 8 15, .regsMatch .rd .rs1, .regBetween .rs2 8 15]),
  ("c.xor", [.nameEq "xor", .regBetween .rd 8 15, .regBetween .rs1 8 15, .regsMatch .rd .rs1, .regBetween .rs2 8 15]),
  ("c.or", [.nameEq "or", .regBetween .rd 8 15, .regBetween .rs1 8 15, .regsMatch .rd .rs1, .regBetween .rs2 8 15]),
  ("c.and", [.nameEq "and", .regBetween .rd 8 15, .regBetween .rs1 8 15, .regsMatch .rd .rs1, .regBetween .rs2 8 15]),
  ("c.j", [.nameEq "jal", .regEq .rd 0, .immDiv 2, .immBetween (-2048) 2047]),
  ("c.beqz", [.nameEq "beq", .regBetween .rs1 8 15, .regEq .rs2 0, .immDiv 2, .immBetween (-256) 255]),
  ("c.bnez", [.nameEq "bne", .regBetween .rs1 8 15, .regEq .rs2 0, .immDiv 2, .immBetween (-256) 255]),
  ("c.slli", [.nameEq "slli", .regNe .rd 0, .regNe .rs1 0, .regsMatch .rd .rs1, .regNe .rs2 0, .regBetween .rs2 0 31]),
  ("c.lwsp", [.nameEq "lw", .regNe .rd 0, .regEq .rs1 2, .immDiv 4, .immBetween 0 255]),
  ("c.jr", [.nameEq "jalr", .regEq .rd 0, .regNe .rs1 0, .immEq 0]),
  ("c.mv", [.nameEq "add", .regNe .rd 0, .regEq .rs1 0, .regNe .rs2 0]),
  ("c.mv_alt", [.nameEq "addi", .regNe .rd 0, .regNe .rs1 0, .immEq 0]),
  ("c.ebreak", [.nameEq "ebreak"]),
  ("c.add", [.nameEq "add", .regNe .rd 0, .regNe .rs1 0, .regsMatch .rd .rs1, .regNe .rs2 0]),
  ("c.jalr", [.nameEq "jalr", .regEq .rd 1, .regNe .rs1 0, .immEq 0]),
  ("c.swsp", [.nameEq "sw", .regEq .rs1 2, .immDiv 4, .immBetween 0 255])
]

def regOf (line : Line) (ins : Instr) (f : Fld) : Except Err Nat :=
  match ins.fld f with
  | none => .error (.internal "AttributeError")
  | some r =>
    match lookupRegister r with
    | some n => .ok n
    | none => .error (.asm line)          -- ValueError → AssemblerError (fix F5)

def immOf (H : Hooks) (env : String → Option Int) (line : Line) (ins : Instr) (p : Int) : Except Err Int :=
  match ins.imm? with
  | none => .error (.internal "AttributeError")
  | some imm => imm.eval H env line p

def Pred.eval (H : Hooks) (env : String → Option Int) (line : Line) (ins : Instr) (p : Int) :
    Pred → Except Err Bool
  | .nameEq s => .ok (ins.name = s)
  | .regEq f v => do let r ← regOf line ins f; pure (r = v)
  | .regNe f v => do let r ← regOf line ins f; pure (r ≠ v)
  | .regBetween f lo hi => do let r ← regOf line ins f; pure (r ≥ lo ∧ r ≤ hi)
  | .regsMatch a b => do let ra ← regOf line ins a; let rb ← regOf line ins b; pure (ra = rb)
  | .immEq v => do let i ← immOf H env line ins p; pure (i = v)
  | .immNe v => do let i ← immOf H env line ins p; pure (i ≠ v)
  | .immDiv v => do let i ← immOf H env line ins p; pure (i % v = 0)
  | .immBetween lo hi => do let i ← immOf H env line ins p; pure (i ≥ lo ∧ i ≤ hi)

/-- `all(pred(item, position, env) for pred in preds)` (short-circuit, left to right) -/
def allPreds (H : Hooks) (env : String → Option Int) (line : Line) (ins : Instr) (p : Int) :
    List Pred → Except Err Bool
  | [] => .ok true
  | pr :: rest => do
    let b ← pr.eval H env line ins p
    if b then allPreds H env line ins p rest else pure false

/-- first criterion whose predicates all hold -/
def firstMatch (H : Hooks) (env : String → Option Int) (line : Line) (ins : Instr) (p : Int) :
    List (String × List Pred) → Except Err (Option String)
  | [] => .ok none
  | (name, preds) :: rest => do
    let b ← allPreds H env line ins p preds
    if b then pure (some name) else firstMatch H env line ins p rest

/-- `Arithmetic(str(lookup_register(item.rs2)))` (fix F4); the predicates already looked rs2 up -/
def shamtImm (rs2 : RegOp) : Imm :=
  match lookupRegister rs2 with
  | some n => .arith (toString n)
  | none => .arith "?"

/-- the replacement instruction for a matched criterion (asm.py:2866-2926); `none` = the Python
    would raise AttributeError (the criterion matched an instruction class it was not written for) -/
def compressedForm (c : String) (ins : Instr) : Option Instr :=
  match ins with
  | .i _ rd rs1 imm _ =>
    if c = "c.addi4spn" then some (.ciw c rd imm)
    else if c = "c.lw" then some (.cl c rd rs1 imm)
    else if c = "c.nop" then some (.cin c)
    else if c = "c.addi" then some (.ci c rd imm)
    else if c = "c.li" then some (.ci c rd imm)
    else if c = "c.addi16sp" then some (.cia c imm)
    else if c = "c.andi" then some (.cb c rd imm)
    else if c = "c.lwsp" then some (.ci c rd imm)
    else if c = "c.jr" then some (.crj c rs1 false)
    else if c = "c.mv_alt" then some (.cr "c.mv" rd rs1)
    else if c = "c.jalr" then some (.crj c rs1 false)
    else none
  | .s _ rs1 rs2 imm =>
    if c = "c.sw" then some (.cs c rs1 rs2 imm)
    else if c = "c.swsp" then some (.css c rs2 imm)
    else none
  | .j _ _ imm => if c = "c.jal" ∨ c = "c.j" then some (.cj c imm) else none
  | .u _ rd imm => if c = "c.lui" ∨ c = "c.lui_alt" then some (.ci "c.lui" rd imm) else none
  | .r _ rd _ rs2 =>
    if c = "c.srli" ∨ c = "c.srai" then some (.cb c rd (shamtImm rs2))
    else if c = "c.slli" then some (.ci c rd (shamtImm rs2))
    else if c = "c.sub" ∨ c = "c.xor" ∨ c = "c.or" ∨ c = "c.and" then some (.ca c rd rs2)
    else if c = "c.mv" ∨ c = "c.add" then some (.cr c rd rs2)
    else none
  | .b _ rs1 _ imm => if c = "c.beqz" ∨ c = "c.bnez" then some (.cb c rs1 imm) else none
  | .ie _ => if c = "c.ebreak" then some (.cre c) else none
  | _ => none

/-- loop body of transform_compressible -/
def compressBody (H : Hooks) (constants : Dict) (it : Item) (position : Int) (labels : Dict) :
    Except Err (List Item × Int) :=
  match it with
  | .instr line ins =>
    if ins.isAuipcJump then
      -- the JALR of an AUIPC pair keeps its immediate field (fix F3)
      keepItem it
    else
      match firstMatch H (chainGet constants labels) line ins position criteria with
      -- `except ValueError` around the predicates (fix F5) also catches UnicodeDecodeError, a subclass
      | .error (.internal "UnicodeDecodeError") => .error (.asm line)
      | .error e => .error e
      | .ok none => keepItem it
      | .ok (some c) =>
        match compressedForm c ins with
        | none => .error (.internal "AttributeError")
        | some ci => pure ([.instr line ci], 2)      -- shrink all subsequent labels by 2
  | _ => keepItem it

def transformCompressible (H : Hooks) (items : List Item) (constants labels : Dict) :
    Except Err (List Item × Dict) :=
  walk (compressBody H constants) items 0 labels

/-! ### transform_pseudo_instructions (asm.py:2953-3100, with fix F1) -/

/-- the `elif item.name == …` chain of transform_pseudo_instructions -/
inductive PKind where
  | nop | li | mv | not | neg | seqz | snez | sltz | sgtz
  | brz (real : String)        -- beqz bnez bgez bltz : real rs, x0
  | brz2 (real : String)       -- blez bgtz           : real x0, rs
  | br2 (real : String)        -- bgt ble bgtu bleu   : real rt, rs
  | j | jal | jr | jalr | ret | call | tail | fence
  deriving Repr, DecidableEq

def pseudoKind (name : String) : Option PKind :=
  if name = "nop" then some .nop else if name = "li" then some .li
  else if name = "mv" then some .mv else if name = "not" then some .not
  else if name = "neg" then some .neg else if name = "seqz" then some .seqz
  else if name = "snez" then some .snez else if name = "sltz" then some .sltz
  else if name = "sgtz" then some .sgtz
  else if name = "beqz" then some (.brz "beq") else if name = "bnez" then some (.brz "bne")
  else if name = "bgez" then some (.brz "bge") else if name = "bltz" then some (.brz "blt")
  else if name = "blez" then some (.brz2 "bge") else if name = "bgtz" then some (.brz2 "blt")
  else if name = "bgt" then some (.br2 "blt") else if name = "ble" then some (.br2 "bge")
  else if name = "bgtu" then some (.br2 "bltu") else if name = "bleu" then some (.br2 "bgeu")
  else if name = "j" then some .j else if name = "jal" then some .jal
  else if name = "jr" then some .jr else if name = "jalr" then some .jalr
  else if name = "ret" then some .ret else if name = "call" then some .call
  else if name = "tail" then some .tail else if name = "fence" then some .fence
  else none

/-- `PseudoInstruction.size()`'s pessimistic 8 applies to exactly these -/
def PKind.isBig : PKind → Bool
  | .li | .call | .tail => true
  | _ => false

/-- the expansion of one pseudo-instruction at `position`: the instructions that replace it and,
    when the short form of li / call / tail was chosen, `true` (labels above move down by 4).
    A wrong number of arguments is a raw ValueError from tuple unpacking. -/
def expandKind (H : Hooks) (env : String → Option Int) (line : Line) (k : PKind)
    (args : List String) (position : Int) : Except Err (List Instr × Bool) :=
  let x0 := RegOp.str "x0"
  let x1 := RegOp.str "x1"
  let x6 := RegOp.str "x6"
  let s := RegOp.str
  let arityErr : Except Err (List Instr × Bool) := .error (.internal "ValueError")
  match k with
  | .nop => .ok ([.i "addi" x0 x0 (.arith "0") false], false)
  | .li =>
    match args with
    | rd :: immToks => do
      let imm ← H.parseImm immToks line
      let value ← imm.eval H env line position
      let value := cI32 value
      if value ≥ -2048 ∧ value ≤ 2047 then
        pure ([.i "addi" (s rd) x0 (.lo imm) false], true)
      else
        pure ([.u "lui" (s rd) (.hi imm), .i "addi" (s rd) (s rd) (.lo imm) false], false)
    | [] => arityErr
  | .mv => match args with | [rd, rs] => .ok ([.i "addi" (s rd) (s rs) (.arith "0") false], false) | _ => arityErr
  | .not => match args with | [rd, rs] => .ok ([.i "xori" (s rd) (s rs) (.arith "-1") false], false) | _ => arityErr
  | .neg => match args with | [rd, rs] => .ok ([.r "sub" (s rd) x0 (s rs)], false) | _ => arityErr
  | .seqz => match args with | [rd, rs] => .ok ([.i "sltiu" (s rd) (s rs) (.arith "1") false], false) | _ => arityErr
  | .snez => match args with | [rd, rs] => .ok ([.r "sltu" (s rd) x0 (s rs)], false) | _ => arityErr
  | .sltz => match args with | [rd, rs] => .ok ([.r "slt" (s rd) (s rs) x0], false) | _ => arityErr
  | .sgtz => match args with | [rd, rs] => .ok ([.r "slt" (s rd) x0 (s rs)], false) | _ => arityErr
  | .brz real =>
    match args with
    | [rs, reference] => do
      let imm ← H.parseImm ["%offset", reference] line
      pure ([.b real (s rs) x0 imm], false)
    | _ => arityErr
  | .brz2 real =>
    match args with
    | [rs, reference] => do
      let imm ← H.parseImm ["%offset", reference] line
      pure ([.b real x0 (s rs) imm], false)
    | _ => arityErr
  | .br2 real =>
    match args with
    | [rs, rt, reference] => do
      let imm ← H.parseImm ["%offset", reference] line
      pure ([.b real (s rt) (s rs) imm], false)
    | _ => arityErr
  | .j =>
    match args with
    | [reference] => do
      let imm ← H.parseImm ["%offset", reference] line
      pure ([.j "jal" x0 imm], false)
    | _ => arityErr
  | .jal =>
    match args with
    | [reference] => do
      let imm ← H.parseImm ["%offset", reference] line
      pure ([.j "jal" x1 imm], false)
    | _ => arityErr
  | .jr => match args with | [rs] => .ok ([.i "jalr" x0 (s rs) (.arith "0") false], false) | _ => arityErr
  | .jalr => match args with | [rs] => .ok ([.i "jalr" x1 (s rs) (.arith "0") false], false) | _ => arityErr
  | .ret => .ok ([.i "jalr" x0 x1 (.arith "0") false], false)
  | .call =>
    match args with
    | [reference] => do
      let imm ← H.parseImm ["%offset", reference] line
      let value ← imm.eval H env line position
      let value := cI32 value
      if value ≥ -1048576 ∧ value ≤ 1048575 then
        pure ([.j "jal" x1 imm], true)
      else
        pure ([.u "auipc" x1 (.hi imm), .i "jalr" x1 x1 (.lo imm) true], false)
    | _ => arityErr
  | .tail =>
    match args with
    | [reference] => do
      let imm ← H.parseImm ["%offset", reference] line
      let value ← imm.eval H env line position
      let value := cI32 value
      if value ≥ -1048576 ∧ value ≤ 1048575 then
        pure ([.j "jal" x0 imm], true)
      else
        pure ([.u "auipc" x6 (.hi imm), .i "jalr" x0 x6 (.lo imm) true], false)
    | _ => arityErr
  | .fence => .ok ([.fence "fence" (.int 15) (.int 15)], false)

def expandPseudo (H : Hooks) (env : String → Option Int) (line : Line) (name : String)
    (args : List String) (position : Int) : Except Err (List Instr × Bool) :=
  match pseudoKind name with
  | some k => expandKind H env line k args position
  | none => .error (.asm line)      -- 'no translation for pseudo-instruction'

/-- loop body of transform_pseudo_instructions -/
def pseudoBody (H : Hooks) (constants : Dict) (it : Item) (position : Int) (labels : Dict) :
    Except Err (List Item × Int) :=
  match it with
  | .pseudo line name args => do
    let (instrs, short) ← expandPseudo H (chainGet constants labels) line name args position
    -- the short form of li / call / tail: shrink all subsequent labels by 4
    pure (instrs.map (Item.instr line), if short then 4 else 0)
  | _ => keepItem it

def transformPseudo (H : Hooks) (items : List Item) (constants labels : Dict) :
    Except Err (List Item × Dict) :=
  walk (pseudoBody H constants) items 0 labels

/-! ### resolve_aligns (asm.py:3103-3130) -/

/-- `Align.resolution_size(position)`; `none` = ZeroDivisionError (alignment 0) -/
def alignPadding (alignment position : Int) : Option Int :=
  if alignment = 0 then none else
  let padding := alignment - pyMod position alignment
  if padding = alignment then some 0 else some padding

/-- loop body of resolve_aligns -/
def alignBody (it : Item) (position : Int) (_labels : Dict) : Except Err (List Item × Int) :=
  match it with
  | .align line alignment =>
    match alignPadding alignment position with
    | none => .error (.internal "ZeroDivisionError")
    | some padding =>
      let shrink := alignment - padding
      if padding = 0 then pure ([], shrink)
      else if padding < 0 then .error (.unsupported "negative alignment")
      else pure ([.blob line (List.replicate padding.toNat 0)], shrink)   -- b'\x00' * padding
  | _ => keepItem it

def resolveAligns (items : List Item) (labels : Dict) : Except Err (List Item × Dict) :=
  walk alignBody items 0 labels

/-! ### resolve_immediates (asm.py:3133-3169, with fix F3) -/

/-- loop body of resolve_immediates: items with an `imm` attribute get it evaluated at the current
    position (the JALR of an AUIPC pair at the AUIPC's position, fix F3); sizes do not change and no
    label moves (n = 0) -/
def immBody (H : Hooks) (constants : Dict) (it : Item) (position : Int) (labels : Dict) :
    Except Err (List Item × Int) :=
  let env := chainGet constants labels
  match it with
  | .instr line ins =>
    match ins.imm? with
    | none => keepItem it
    | some imm => do
      let p := if ins.isAuipcJump then position - 4 else position
      let v ← imm.eval H env line p
      pure ([.instr line (ins.setImm (.value v))], 0)
  | .pack line fmt imm => do
    let v ← imm.eval H env line position
    let it' := Item.pack line fmt (.value v)
    let _ ← it'.sizeE
    pure ([it'], 0)
  | .shorthandPack line name imm => do
    let v ← imm.eval H env line position
    let it' := Item.shorthandPack line name (.value v)
    let _ ← it'.sizeE
    pure ([it'], 0)
  | _ => keepItem it

def resolveImmediates (H : Hooks) (items : List Item) (constants labels : Dict) : Except Err (List Item) := do
  let (out, _) ← walk (immBody H constants) items 0 labels
  pure out

/-! ### resolve_instructions (asm.py:3172-3204) -/

def encodeInstr (line : Line) (ins : Instr) : Except Err (List Nat) :=
  match ins.args with
  | none => .error (.internal "TypeError")       -- an unresolved immediate reached the encoder
  | some args =>
    match encode ins.name args with
    | .ok w => .ok (leBytes (if ins.isCompressed then 2 else 4) w)
    | .error .value => .error (.asm line)
    | .error .type => .error (.internal "TypeError")
    | .error .key => .error (.internal "KeyError")

def instrStep : Item → Except Err Item
  | .instr line ins => do
    let bytes ← encodeInstr line ins
    pure (.blob line bytes)
  | .pseudo _ _ _ => .error (.internal "KeyError")   -- never reached: pseudo-instructions are gone
  | it => pure it

def resolveInstructions (items : List Item) : Except Err (List Item) := items.mapM instrStep

/-! ### resolve_strings / resolve_sequences / transform_shorthand_packs / resolve_packs /
      resolve_include_bytes / resolve_blobs (asm.py:3207-3330, with fix F7) -/

def utf8Bytes (s : String) : List Nat := s.toUTF8.data.toList.map (·.toNat)

def resolveStrings (items : List Item) : List Item :=
  items.map (fun it => match it with
    | .string line v => .blob line (utf8Bytes v)
    | other => other)

/-- `struct.pack(endianness + code, value)` for an integer code of `n` bytes: two's complement
    bytes if the value fits the signed (`signed = true`) or unsigned range, else struct.error -/
def packIntFits (signed : Bool) (n : Nat) (v : Int) : Bool :=
  if signed then decide (-(2 ^ (8 * n - 1) : Int) ≤ v) && decide (v < (2 ^ (8 * n - 1) : Int))
  else decide (0 ≤ v) && decide (v < (2 ^ (8 * n) : Int))

def packInt (big : Bool) (signed : Bool) (n : Nat) (v : Int) : Option (List Nat) :=
  if packIntFits signed n v then
    let u := (v % (2 ^ (8 * n) : Int)).toNat
    some (if big then beBytes n u else leBytes n u)
  else none

def seqBytes (line : Line) (n : Nat) : List String → Except Err (List Int)
  | [] => .ok []
  | t :: rest =>
    match pyInt0 t.toList with
    | none => .error (.asm line)                 -- ValueError → AssemblerError (fix F7)
    | some v => do let r ← seqBytes line n rest; pure (v :: r)

def packSeq (line : Line) (n : Nat) : List Int → Except Err (List Nat)
  | [] => .ok []
  | v :: rest =>
    -- lower-case (signed) format when the value is negative
    match packInt false (v < 0) n v with
    | none => .error (.asm line)                 -- struct.error → AssemblerError (fix F7)
    | some bs => do let r ← packSeq line n rest; pure (bs ++ r)

def seqStep : Item → Except Err Item
  | .sequence line name values =>
    match sequenceElemSize name with
    | none => .error (.internal "KeyError")
    | some n => do
      let vs ← seqBytes line n values
      let bs ← packSeq line n vs
      pure (.blob line bs)
  | it => pure it

def resolveSequences (items : List Item) : Except Err (List Item) := items.mapM seqStep

/-- `'<' + {db: B, dh: H, dw: I, dd: Q}[name]`, lower-cased when the value is negative -/
def shorthandFmt (name : String) (v : Int) : Option String :=
  let c := if name = "db" then some 'B' else if name = "dh" then some 'H'
           else if name = "dw" then some 'I' else if name = "dd" then some 'Q' else none
  c.map (fun c => String.ofList ['<', if v < 0 then c.toLower else c])

def shorthandStep : Item → Except Err Item
  | .shorthandPack line name imm =>
    match imm with
    | .value v =>
      match shorthandFmt name v with
      | none => .error (.internal "KeyError")
      | some fmt => pure (.pack line fmt (.value v))
    | _ => .error (.internal "TypeError")
  | it => pure it

def transformShorthandPacks (items : List Item) : Except Err (List Item) := items.mapM shorthandStep

/-- `struct.pack(fmt, imm)` for the documented two-character formats -/
def packFmt (fmt : String) (v : Int) : Except Err (Option (List Nat)) :=
  match fmt.toList with
  | [e, c] =>
    if e = '<' ∨ e = '>' then
      let big := e = '>'
      if c = 'b' then .ok (packInt big true 1 v) else if c = 'B' then .ok (packInt big false 1 v)
      else if c = 'h' then .ok (packInt big true 2 v) else if c = 'H' then .ok (packInt big false 2 v)
      else if c = 'i' ∨ c = 'l' then .ok (packInt big true 4 v)
      else if c = 'I' ∨ c = 'L' then .ok (packInt big false 4 v)
      else if c = 'q' then .ok (packInt big true 8 v) else if c = 'Q' then .ok (packInt big false 8 v)
      else .error (.unsupported "pack format")
    else .error (.unsupported "pack format")
  | _ => .error (.unsupported "pack format")

def packStep : Item → Except Err Item
  | .pack line fmt imm =>
    match imm with
    | .value v => do
      match ← packFmt fmt v with
      | none => .error (.asm line)               -- struct.error → AssemblerError (fix F7)
      | some bs => pure (.blob line bs)
    | _ => .error (.internal "TypeError")
  | it => pure it

def resolvePacks (items : List Item) : Except Err (List Item) := items.mapM packStep

def includeBytesStep (H : Hooks) : Item → Except Err Item
  | .includeBytes line path fsize =>
    match H.readFile path with
    | none => .error (.internal "FileNotFoundError")
    | some data =>
      if (data.length : Int) ≠ fsize then .error (.internal "AssertionError")
      else pure (.blob line data)
  | it => pure it

def resolveIncludeBytes (H : Hooks) (items : List Item) : Except Err (List Item) :=
  items.mapM (includeBytesStep H)

def resolveBlobs : List Item → Except Err (List Nat)
  | [] => .ok []
  | .blob _ data :: rest => do
    let out ← resolveBlobs rest
    pure (data ++ out)
  | _ :: _ => .error (.internal "ValueError")

/-! ### assemble (asm.py:3352-3394), from the parsed item list on -/

structure AsmResult where
  bytes : List Nat
  labels : Dict
  constants : Dict
  deriving Repr, DecidableEq

/-- `if compress: items = transform_compressible(items, constants, labels)` -/
def maybeCompress (H : Hooks) (compress : Bool) (items : List Item) (constants labels : Dict) :
    Except Err (List Item × Dict) :=
  if compress then transformCompressible H items constants labels else pure (items, labels)

def assembleItems (H : Hooks) (compress : Bool) (items : List Item) (constants labels : Dict) :
    Except Err AsmResult := do
  let (items, constants) ← resolveConstants H items constants
  let (items, labels) ← resolveLabels items labels
  let items := resolveRegisterAliases items constants
  let (items, labels) ← maybeCompress H compress items constants labels
  let (items, labels) ← transformPseudo H items constants labels
  let items := resolveRegisterAliases items constants
  let (items, labels) ← maybeCompress H compress items constants labels
  let (items, labels) ← resolveAligns items labels
  let items ← resolveImmediates H items constants labels
  let items ← resolveInstructions items
  let items := resolveStrings items
  let items ← resolveSequences items
  let items ← transformShorthandPacks items
  let items ← resolvePacks items
  let items ← resolveIncludeBytes H items
  let bytes ← resolveBlobs items
  pure { bytes := bytes, labels := labels, constants := constants }

end BB
