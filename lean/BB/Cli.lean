/-
  BB.Cli — `cli_main` (asm.py, def cli_main) after argparse, over the filesystem model of BB.Read,
  steps in the code's order AS IT IS NOW (fix cdc5c80 moved the `--hex-offset` parse before
  assembling; fix 9cf2d5e added the range check 4b):

    1. input file missing                      → SystemExit(message)      exit 1
    2. an -i directory that is no directory    → SystemExit(message)      exit 1
       (each is made absolute; --include-definitions appends <package>/definitions)
    3. --hex-offset given (non-empty string) and int(s, 0) fails → SystemExit   exit 1
    4. assemble(abspath(input), …) raises AssemblerError → SystemExit(e)  exit 1
       any other exception escapes as a traceback                          exit 1
    4b. --hex-offset given and not 0 <= offset <= 2^32 - len(binary) → SystemExit   exit 1  (fix 9cf2d5e)
    5. -l FILE (non-empty): one line `name 0x%08x\n` per label, dict order
    6. -o FILE (default bb.out): the binary
    7. --hex-offset: bin2hex(output, output + '.hex', offset)

  `intelhex.bin2hex` is third-party code and is NOT modelled: it is the parameter `hexEncode`.
  `.ok file` = it wrote `file`; `.error partial` = it raised after writing `partial` (observed for
  offsets with offset + size > 2^32: OverflowError after the output files were written).

  Writes the operating system refuses (`FS.canWrite` false: missing parent directory, a directory in
  the way) are modelled IN THE ORDER OF THE CODE, `ExitStatus.osError`: the `open(…, 'w')` of step 5 or
  6 raises an OSError that nothing catches (traceback, exit status 1) and WHAT WAS WRITTEN BEFORE STAYS
  WRITTEN - `-l l.txt -o /nodir/out.bin` ends with status 1 and l.txt overwritten.  In step 7 it is
  `bin2hex` that opens the .hex file; it catches the IOError, prints `ERROR: Could not write to
  file`, returns 1, and cli_main ignores that value: exit status 0, labels file and binary written,
  no .hex file (`osError 0`).  These runs are failures of the operating system, not of the
  assembler; C17's failure clause is stated for the others.

  Outside the model (`ExitStatus.unsupported`, never compared): paths that are not in normal form,
  negative label values (`0x-0000001`), non-ASCII option strings.
-/
import BB.Read
import BB.Spec.Hex
namespace BB.Cli

inductive ExitStatus where
  | code (n : Nat)
  /-- the operating system refused to open `what` for writing; the process ended with exit status
      `n`; the files written before that point stay written -/
  | osError (n : Nat) (what : String)
  | unsupported (why : String)
  deriving Repr, DecidableEq, Inhabited

/-- the run ended with a non-zero exit status -/
def ExitStatus.failed : ExitStatus → Prop
  | .code n => n ≠ 0
  | .osError n _ => n ≠ 0
  | .unsupported _ => False

/-- the run ended because the operating system refused a write (not a failure of the assembler) -/
def ExitStatus.osFailure : ExitStatus → Prop
  | .osError _ _ => True
  | _ => False

instance (e : ExitStatus) : Decidable e.osFailure := by
  cases e <;> simp only [ExitStatus.osFailure] <;> infer_instance

/-- model of `intelhex.bin2hex(fin, fout, offset)`: the bytes of the file it writes, or, when it
    raises, what it left in the file -/
abbrev HexEnc := Int → List Nat → Except (List Nat) (List Nat)

/-- argparse's namespace (the fields cli_main reads) -/
structure Args where
  input : String                     -- input_asm
  compress : Bool := false           -- -c
  includeDirs : List String := []    -- -i DIR (repeatable), in order
  output : String := "bb.out"        -- -o FILE
  labels : Option String := none     -- -l FILE
  hexOffset : Option String := none  -- --hex-offset OFFSET, the raw string
  definitionsDir : Option String := none
    -- --include-definitions: the absolute path of <package>/definitions (none = flag absent)
  deriving Repr

/-- `os.path.abspath(p)` for a path in normal form -/
def absPath (cwd p : String) : Option String :=
  if normAbs p then some p else if normRel p then some (pathJoin cwd p) else none

/-- `open(p, 'w')` succeeds: the parent directory exists and `p` is no directory -/
def FS.canWrite (fs : FS) (p : String) : Bool := fs.isDir (pathDirname p) && !fs.isDir p

/-- `open(p, 'wb').write(bs)`: create or replace -/
def FS.write (fs : FS) (p : String) (bs : List Nat) : FS :=
  { fs with files := (p, bs) :: fs.files.filter (fun e => e.1 != p) }

/-- `format(v, '08x')` for v ≥ 0 -/
def fmt08x (v : Nat) : List Char :=
  let d := Nat.toDigits 16 v
  List.replicate (8 - d.length) '0' ++ d

/-- `'{} 0x{:08x}\n'.format(k, v)` -/
def labelLine (k : String) (v : Nat) : List Char := k.toList ++ " 0x".toList ++ fmt08x v ++ ['\n']

/-- the text of the -l file; `none` = a negative value (outside the model) -/
def labelText : Dict → Option (List Char)
  | [] => some []
  | (k, v) :: rest =>
    if v < 0 then none else
    match labelText rest with
    | some t => some (labelLine k v.toNat ++ t)
    | none => none

def textBytes (t : List Char) : List Nat := (String.ofList t).toUTF8.toList.map (·.toNat)

/-- step 2: every -i directory must exist as a directory; each is made absolute -/
def absDirs (fs : FS) (cwd : String) : List String → Except ExitStatus (List String)
  | [] => .ok []
  | d :: rest =>
    match absPath cwd d with
    | none => .error (.unsupported "include dir form")
    | some a =>
      if !fs.isDir a then .error (.code 1) else
      match absDirs fs cwd rest with
      | .ok r => .ok (a :: r)
      | .error e => .error e

/-- step 3: `if args.hex_offset: offset = int(args.hex_offset, base=0)`;
    `.ok none` = no hex file requested (option absent or the empty string) -/
def parseOffset : Option String → Except ExitStatus (Option Int)
  | none => .ok none
  | some s =>
    if s = "" then .ok none
    else if !s.toList.all (fun c => c.toNat < 128) then .error (.unsupported "non-ASCII offset")
    else match pyInt0 s.toList with
      | some v => .ok (some v)
      | none => .error (.code 1)

/-- steps 5-7, in the order of the code: labels file, binary, Intel HEX; each write is final -/
def writeOutputs (hexEncode : HexEnc) (fs : FS) (cwd : String) (a : Args) (offset : Option Int)
    (r : AsmResult) : ExitStatus × FS :=
  -- 5. labels
  let step5 : Except ExitStatus FS :=
    match a.labels with
    | none => .ok fs
    | some l =>
      if l = "" then .ok fs else
      match absPath cwd l, labelText r.labels with
      | some lp, some t => if FS.canWrite fs lp then .ok (FS.write fs lp (textBytes t)) else .error (.osError 1 "labels file")
      | none, _ => .error (.unsupported "labels path form")
      | _, none => .error (.unsupported "negative label value")
  match step5 with
  | .error e => (e, fs)
  | .ok fs1 =>
    -- 6. binary
    match absPath cwd a.output with
    | none => (.unsupported "output path form", fs)
    | some op =>
      -- the labels file (if any) has been written by now and stays written
      if !FS.canWrite fs1 op then (.osError 1 "output file", fs1) else
      let fs2 := FS.write fs1 op r.bytes
      -- 7. Intel HEX
      match offset with
      | none => (.code 0, fs2)
      | some off =>
        -- bin2hex catches the IOError and returns 1, which cli_main ignores: exit status 0
        if !FS.canWrite fs2 (op ++ ".hex") then (.osError 0 "hex file", fs2) else
        match hexEncode off r.bytes with
        | .ok h => (.code 0, FS.write fs2 (op ++ ".hex") h)
        | .error part => (.code 1, FS.write fs2 (op ++ ".hex") part)

/-- `0 <= offset and offset + len(binary) <= 2**32` when a hex file is requested -/
def offsetFits (offset : Option Int) (n : Nat) : Bool :=
  match offset with
  | none => true
  | some off => decide (0 ≤ off) && decide (off + (n : Int) ≤ 4294967296)

/-- steps 1-4: everything that happens before the first file is opened for writing.
    `.error status` = the run ends there; `.ok (offset, r)` = the parsed hex offset (if requested)
    and the assembled program -/
def plan (fs : FS) (cwd : String) (a : Args) : Except ExitStatus (Option Int × AsmResult) :=
  if !normAbs cwd then .error (.unsupported "cwd form") else
  match absPath cwd a.input with
  | none => .error (.unsupported "input path form")
  | some inp =>
    -- 1. missing input file
    if !fs.exists inp then .error (.code 1) else
    -- 2. include dirs
    match absDirs fs cwd a.includeDirs with
    | .error e => .error e
    | .ok dirs =>
      let dirs := dirs ++ a.definitionsDir.toList
      -- 3. hex offset
      match parseOffset a.hexOffset with
      | .error e => .error e
      | .ok offset =>
        -- 4. assemble
        if fs.isDir inp then .error (.code 1) else      -- IsADirectoryError escapes
        match assembleText fs cwd dirs a.compress (.path inp) with
        | .error (.unsupported w) => .error (.unsupported w)
        | .error _ => .error (.code 1)
        | .ok r =>
          -- 4b. the image must fit the 32-bit address space of Intel HEX (fix 9cf2d5e)
          if !offsetFits offset r.bytes.length then .error (.code 1) else .ok (offset, r)

/-- `cli_main()` after `parser.parse_args()` -/
def run (hexEncode : HexEnc) (fs : FS) (cwd : String) (a : Args) : ExitStatus × FS :=
  match plan fs cwd a with
  | .error e => (e, fs)
  | .ok (offset, r) => writeOutputs hexEncode fs cwd a offset r

end BB.Cli
