/-
  BB.Dfu.Device — SPECIFICATION side: a DFU 1.1 download-capable device with ST's DfuSe
  extension (AN3156), written from the protocol documents, not from bronzebeard/dfu.py.

  * DFU 1.1 state machine (appendix A.2) for the states a download visits:
      dfuIDLE / dfuDNLOAD_IDLE --DNLOAD(wLength>0)--> dfuDNLOAD_SYNC
      dfuDNLOAD_SYNC --GETSTATUS--> dfuDNBUSY (operation in progress; reply carries bwPollTimeout)
      dfuDNBUSY --bwPollTimeout elapsed--> dfuDNLOAD_SYNC
      dfuDNLOAD_SYNC --GETSTATUS, operation complete--> dfuDNLOAD_IDLE, or dfuERROR with a status
      dfuERROR --CLRSTATUS--> dfuIDLE;   anything unexpected: stall, dfuERROR (errSTALLEDPKT)
    GETSTATUS reports the state the device enters by answering.
  * DfuSe: DNLOAD with wValue = 0 carries a command (0x41 + 4 address bytes: erase the page
    containing the address; 0x41 alone: mass erase; 0x21 + 4 bytes: set the address pointer);
    DNLOAD with wValue ≥ 2 writes the data at pointer + (wValue − 2)·wTransferSize.
  * Flash is a map page → cell, a cell being `orig` (never touched: still holds whatever was
    there), `erased`, or `data bs`.  Page size 1024, base 0x08000000, `pageCount` pages.
  * A `Schedule` is the device's freedom: for the i-th accepted operation how many GETSTATUS
    polls answer dfuDNBUSY and with which bwPollTimeout each (a list: any length, any values),
    the bwPollTimeout of the completing reply, and an error status with which the operation
    fails (0 = it succeeds), in one of two flavours; the bwPollTimeout of every GETSTATUS answered
    outside an operation; and the error status the device starts with (0 = it starts in dfuIDLE).
  * The two fault flavours.  DFU 1.1 (A.2.5) sends a failing operation to dfuERROR, where the
    status stays until DFU_CLRSTATUS: that is the default flavour (`Device.fail`).  Bootloaders
    exist that report the failure in bStatus only: the GETSTATUS that completes the operation
    carries bStatus = the error, while bState goes where a successful operation would have gone
    (dfuDNLOAD_IDLE); the operation did not happen (flash and address pointer unchanged) and the
    status is not latched — "bStatus: the status resulting from the execution of the most recent
    request" (DFU 1.1 §6.1.2), so the next request starts from OK.  That is the `statusOnly`
    flavour (`Device.failSoft`).  A host that looks at bState instead of bStatus cannot see it.
  * Monitors (sticky flags) record what a correct host must never do.
  * A clock, advanced only by the host's sleeps; every GETSTATUS reply sets the earliest time the
    next request may arrive (`readyAt`).

  The device is total: every request in every state has a defined effect.
  Core only (the bbdrv driver links this file).
-/
import BB.Dfu.Wire
namespace BB.Dfu

inductive DState
  | idle | dnloadSync | dnBusy | dnloadIdle | manifestSync | error
deriving Repr, DecidableEq, Inhabited

/-- bState as reported on the wire (DFU 1.1 page 22) -/
def DState.code : DState → Nat
  | .idle => 2 | .dnloadSync => 3 | .dnBusy => 4 | .dnloadIdle => 5 | .manifestSync => 6 | .error => 10

inductive Cell
  | orig                    -- untouched since the run began
  | erased
  | data (bs : List Nat)    -- programmed with exactly these bytes
deriving Repr, DecidableEq, Inhabited

/-- an accepted DfuSe operation waiting for / undergoing execution -/
inductive Op
  | erase (addr : Nat)
  | massErase
  | setAddr (addr : Nat)
  | write (addr : Nat) (data : List Nat)
deriving Repr, DecidableEq, Inhabited

/-- the device's timing and failure choices for one operation -/
structure OpSched where
  busy : List Nat := []        -- bwPollTimeout of each successive dfuDNBUSY reply (length = number of busy polls)
  doneTimeout : Nat := 0       -- bwPollTimeout of the reply that reports completion
  fault : Nat := 0             -- bStatus the operation ends with (taken mod 256; 0 = success)
  statusOnly : Bool := false   -- the failure shows in bStatus only: bState as after a success (dfuDNLOAD_IDLE)
deriving Repr, DecidableEq, Inhabited

structure Schedule where
  startErr : Nat               -- bStatus at start (mod 256); non-zero: the device starts in dfuERROR
  idleTimeout : Nat → Nat      -- bwPollTimeout of the n-th GETSTATUS answered outside an operation
  op : Nat → OpSched           -- choices for the n-th accepted operation

structure Monitors where
  writeUnerased : Bool := false   -- a page was programmed that was not in the erased state
  busyRequest : Bool := false     -- a request other than GETSTATUS arrived while an operation was pending / busy
  earlyRequest : Bool := false    -- a request arrived before the last bwPollTimeout had elapsed
  addrRange : Bool := false       -- an address outside [0x08000000, 0x08000000 + 1024·pageCount)
  misaligned : Bool := false      -- a write not page-aligned, empty or longer than a page (outside the flash abstraction)
deriving Repr, DecidableEq, Inhabited

def Monitors.clean : Monitors := {}

structure Device where
  pageCount : Nat
  sched : Schedule
  state : DState
  status : Nat
  flash : Nat → Cell
  ptr : Nat                   -- DfuSe address pointer
  pending : Option Op         -- operation accepted by a DNLOAD and not yet complete
  busyLeft : List Nat         -- remaining dfuDNBUSY replies of the pending operation
  doneTimeout : Nat
  fault : Nat
  soft : Bool                 -- the pending operation's fault is of the status-only flavour
  opIdx : Nat                 -- operations accepted so far
  idleIdx : Nat               -- GETSTATUS answered outside an operation so far
  clock : Nat                 -- milliseconds
  readyAt : Nat               -- no request is due before this time
  mon : Monitors
  erasedLog : List Nat        -- pages erased, in order
  writtenLog : List Nat       -- pages programmed, in order
  nreq : Nat
  stalls : Nat

/-- wTransferSize of the DFU functional descriptor (GD32: 2048) -/
abbrev transferSize : Nat := 2048

/-- the 6-byte GETSTATUS payload: bStatus, bwPollTimeout (3 bytes LE), bState, iString -/
def statusReply (status timeout state : Nat) : List Nat :=
  [status % 256, timeout % 256, timeout / 256 % 256, timeout / 65536 % 256, state, 0]

def Device.init (pageCount : Nat) (sched : Schedule) (flash : Nat → Cell) : Device :=
  { pageCount, sched, flash,
    state := if sched.startErr % 256 = 0 then .idle else .error,
    status := sched.startErr % 256,
    ptr := flashBase, pending := none, busyLeft := [], doneTimeout := 0, fault := 0, soft := false,
    opIdx := 0, idleIdx := 0, clock := 0, readyAt := 0, mon := {},
    erasedLog := [], writtenLog := [], nreq := 0, stalls := 0 }

/-- the host waited `ms` milliseconds -/
def Device.tick (d : Device) (ms : Nat) : Device := { d with clock := d.clock + ms }

/-- do the `len` bytes at `addr` lie inside the flash of a `pageCount`-page part? -/
def inRange (pageCount addr len : Nat) : Bool :=
  flashBase ≤ addr && addr + len ≤ flashBase + pageSize * pageCount

def setCell (f : Nat → Cell) (p : Nat) (c : Cell) : Nat → Cell := fun q => if q = p then c else f q

/-- the operation fails: dfuERROR with the given status, flash unchanged -/
def Device.fail (d : Device) (status : Nat) : Device :=
  { d with state := .error, status := status, pending := none, busyLeft := [] }

/-- the operation fails the status-only way: it did not happen (flash, pointer unchanged), the
    device is in dfuDNLOAD_IDLE as after a success; the error travels in the completing reply only -/
def Device.failSoft (d : Device) : Device :=
  { d with state := .dnloadIdle, pending := none, busyLeft := [] }

/-- effect of a successful operation -/
def Device.apply (d : Device) : Op → Device
  | .erase a =>
    if inRange d.pageCount a 1 then
      let p := (a - flashBase) / pageSize
      { d with state := .dnloadIdle, pending := none, flash := setCell d.flash p .erased,
               erasedLog := d.erasedLog ++ [p] }
    else d.fail errADDRESS
  | .massErase =>
    { d with state := .dnloadIdle, pending := none,
             flash := fun p => if p < d.pageCount then .erased else d.flash p,
             erasedLog := d.erasedLog ++ List.range d.pageCount }
  | .setAddr a =>
    if inRange d.pageCount a 1 then { d with state := .dnloadIdle, pending := none, ptr := a }
    else d.fail errADDRESS
  | .write a bs =>
    if inRange d.pageCount a bs.length then
      let p := (a - flashBase) / pageSize
      let aligned := (a - flashBase) % pageSize = 0 ∧ 0 < bs.length ∧ bs.length ≤ pageSize
      { d with state := .dnloadIdle, pending := none, flash := setCell d.flash p (.data bs),
               writtenLog := d.writtenLog ++ [p],
               mon := { d.mon with
                 writeUnerased := d.mon.writeUnerased || (d.flash p != .erased),
                 misaligned := d.mon.misaligned || !(decide aligned) } }
    else d.fail errADDRESS

/-- what every request does before it is looked at: count it, check it is not early -/
def Device.observe (d : Device) : Device :=
  { d with nreq := d.nreq + 1,
           mon := { d.mon with earlyRequest := d.mon.earlyRequest || decide (d.clock < d.readyAt) } }

/-- an unexpected request: stall; dfuERROR (the status of an existing error is kept) -/
def Device.stallErr (d : Device) : Device × Response :=
  ({ d with state := .error,
            status := if d.state = .error then d.status else errSTALLEDPKT,
            pending := none, busyLeft := [], stalls := d.stalls + 1,
            mon := { d.mon with busyRequest := d.mon.busyRequest || d.pending.isSome } }, .stall)

/-- DFU_GETSTATUS -/
def Device.getStatus (d : Device) (wLength : Nat) : Device × Response :=
  match d.pending with
  | some op =>
    match d.busyLeft with
    | t :: rest =>
      -- still executing: dfuDNBUSY, come back after t ms (the wire carries 24 bits)
      ({ d with state := .dnBusy, busyLeft := rest, readyAt := d.clock + t % 16777216 },
       .bytes ((statusReply d.status t DState.dnBusy.code).take wLength))
    | [] =>
      let d' := if d.fault % 256 = 0 then d.apply op
                else if d.soft then d.failSoft else d.fail (d.fault % 256)
      let st := if d.fault % 256 ≠ 0 ∧ d.soft = true then d.fault % 256 else d'.status
      ({ d' with readyAt := d.clock + d.doneTimeout % 16777216 },
       .bytes ((statusReply st d.doneTimeout d'.state.code).take wLength))
  | none =>
    let t := d.sched.idleTimeout d.idleIdx
    let st := if d.state = .manifestSync then DState.idle else d.state
    ({ d with state := st, idleIdx := d.idleIdx + 1, readyAt := d.clock + t % 16777216 },
     .bytes ((statusReply d.status t st.code).take wLength))

/-- DFU_CLRSTATUS -/
def Device.clrStatus (d : Device) : Device × Response :=
  if d.state = .error then ({ d with state := .idle, status := 0 }, .count 0) else d.stallErr

/-- DFU_ABORT -/
def Device.abort (d : Device) : Device × Response :=
  if d.pending.isNone ∧ (d.state = .idle ∨ d.state = .dnloadIdle) then ({ d with state := .idle }, .count 0)
  else d.stallErr

/-- DFU_GETSTATE -/
def Device.getState (d : Device) (wLength : Nat) : Device × Response :=
  if d.pending.isNone then (d, .bytes ([d.state.code].take wLength)) else d.stallErr

/-- DfuSe interpretation of a DNLOAD -/
def decodeOp (ptr wValue : Nat) (data : List Nat) : Option Op :=
  if wValue = 0 then
    match data with
    | [c] => if c = cmdErase then some .massErase else none
    | [c, a0, a1, a2, a3] =>
      if c = cmdErase then some (.erase (fromLE [a0, a1, a2, a3]))
      else if c = cmdSetAddress then some (.setAddr (fromLE [a0, a1, a2, a3]))
      else none
    | _ => none
  else if wValue = 1 then none
  else if data.length ≤ transferSize then some (.write (ptr + (wValue - 2) * transferSize) data)
  else none

/-- does the operation name an address outside the flash? -/
def opOutside (pageCount : Nat) : Op → Bool
  | .erase a => !inRange pageCount a 1
  | .massErase => false
  | .setAddr a => !inRange pageCount a 1
  | .write a bs => !inRange pageCount a bs.length

/-- DFU_DNLOAD -/
def Device.dnload (d : Device) (wValue : Nat) (data : List Nat) : Device × Response :=
  if d.pending.isSome then d.stallErr
  else if d.state = .idle ∨ d.state = .dnloadIdle then
    if data = [] then
      if d.state = .dnloadIdle then ({ d with state := .manifestSync }, .count 0) else d.stallErr
    else
      match decodeOp d.ptr wValue data with
      | none => d.stallErr
      | some op =>
        let o := d.sched.op d.opIdx
        ({ d with state := .dnloadSync, pending := some op, busyLeft := o.busy,
                  doneTimeout := o.doneTimeout, fault := o.fault, soft := o.statusOnly, opIdx := d.opIdx + 1,
                  mon := { d.mon with addrRange := d.mon.addrRange || opOutside d.pageCount op } },
         .count data.length)
  else d.stallErr

/-- one control transfer -/
def Device.handle (d : Device) (r : Request) : Device × Response :=
  let d := d.observe
  match r.payload with
  | .inn n =>
    if r.bmRequestType = rtIn ∧ r.bRequest = reqGETSTATUS then d.getStatus n
    else if r.bmRequestType = rtIn ∧ r.bRequest = 5 then d.getState n
    else d.stallErr
  | .out data =>
    if r.bmRequestType = rtOut ∧ r.bRequest = reqDNLOAD then d.dnload r.wValue data
    else if r.bmRequestType = rtOut ∧ r.bRequest = reqCLRSTATUS ∧ data = [] then d.clrStatus
    else if r.bmRequestType = rtOut ∧ r.bRequest = 6 ∧ data = [] then d.abort
    else d.stallErr

end BB.Dfu
