/-
  BB.Dfu.Wire — what travels between a DFU host and a DFU device: USB control requests on the
  default pipe, their replies, and the numeric constants of DFU 1.1 (Table 3.2, pages 21-22)
  and of ST's DfuSe extension (AN3156).  Shared by the host model (BB.Dfu.Host, a transcription of
  bronzebeard/dfu.py) and by the device specification (BB.Dfu.Device, written from the protocol).
  Core only (the bbdrv driver links this file).
-/
import BB.Bits
namespace BB.Dfu

/-- data stage of a control transfer: OUT carries bytes, IN asks for `wLength` bytes -/
inductive Payload
  | out (data : List Nat)
  | inn (wLength : Nat)
deriving Repr, DecidableEq, Inhabited

/-- `ctrl_transfer(bmRequestType, bRequest, wValue, wIndex = 0, data_or_wLength)` -/
structure Request where
  bmRequestType : Nat
  bRequest : Nat
  wValue : Nat
  payload : Payload
deriving Repr, DecidableEq, Inhabited

/-- what the environment hands back to the host program after an action -/
inductive Response
  | unit                      -- after `sleep`, `print`, an internal step, and at program start
  | bytes (bs : List Nat)     -- IN transfer: the bytes read
  | count (n : Nat)           -- OUT transfer: number of bytes written
  | stall                     -- the device stalled the request (pyusb raises USBError)
deriving Repr, DecidableEq, Inhabited

/-! request codes (DFU 1.1 Table 3.2) -/
abbrev reqDNLOAD : Nat := 1
abbrev reqGETSTATUS : Nat := 3
abbrev reqCLRSTATUS : Nat := 4

/-- bmRequestType: class request to an interface, host-to-device / device-to-host -/
abbrev rtOut : Nat := 0x21
abbrev rtIn : Nat := 0xA1

/-! DfuSe commands, sent as the first byte of a DNLOAD with wValue = 0 -/
abbrev cmdSetAddress : Nat := 0x21
abbrev cmdErase : Nat := 0x41

/-! state codes (DFU 1.1 page 22) -/
abbrev stIDLE : Nat := 2
abbrev stDNLOAD_SYNC : Nat := 3
abbrev stDNBUSY : Nat := 4
abbrev stDNLOAD_IDLE : Nat := 5
abbrev stERROR : Nat := 10

/-! status codes used by the device (DFU 1.1 page 21) -/
abbrev errADDRESS : Nat := 8
abbrev errSTALLEDPKT : Nat := 15

/-! geometry of the GD32 parts bronzebeard-dfu supports -/
abbrev pageSize : Nat := 1024
abbrev flashBase : Nat := 0x08000000
def pageAddr (p : Nat) : Nat := flashBase + p * pageSize

end BB.Dfu
