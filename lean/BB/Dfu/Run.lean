/-
  BB.Dfu.Run — the host program (BB.Dfu.Host) composed with the device (BB.Dfu.Device).

  `step` resumes the host once and lets the world execute its action: a request goes to the
  device and its reply comes back; a sleep advances the device's clock; `exit` freezes the
  configuration (a halted configuration is a fixpoint of `step`).
  `run` iterates `step` `fuelBound` times, where `fuelBound` is computed from the schedule (four
  steps plus two per busy poll for each of the 3·pages operations the host can start, plus a
  constant).  BB.Lemmas.DfuRun proves that this is always enough — the run has halted — and that
  any larger amount of fuel yields the same result, so no theorem mentions fuel.
  Core only (the bbdrv driver links this file).
-/
import BB.Dfu.Host
import BB.Dfu.Device
namespace BB.Dfu

inductive Event
  | req (r : Request) (reply : Response)
  | sleep (ms : Nat)
deriving Repr, DecidableEq, Inhabited

structure Config where
  pc : PC
  resp : Response                      -- what the host will be resumed with
  dev : Device
  trace : List Event                   -- most recent first
  out : List Msg                       -- most recent first
  exit : Option (Nat × ExitMsg)

def Config.init (pageCount : Nat) (sched : Schedule) (flash : Nat → Cell) : Config :=
  { pc := .start, resp := .unit, dev := Device.init pageCount sched flash, trace := [], out := [], exit := none }

def step (h : HostCfg) (c : Config) : Config :=
  match c.exit with
  | some _ => c
  | none =>
    match next h c.pc c.resp with
    | (pc, .request r) =>
      let (d, reply) := c.dev.handle r
      { c with pc := pc, resp := reply, dev := d, trace := .req r reply :: c.trace }
    | (pc, .sleep ms) =>
      { c with pc := pc, resp := .unit, dev := c.dev.tick ms, trace := .sleep ms :: c.trace }
    | (pc, .print m) => { c with pc := pc, resp := .unit, out := m :: c.out }
    | (pc, .tau) => { c with pc := pc, resp := .unit }
    | (pc, .exit code msg) => { c with pc := pc, resp := .unit, exit := some (code, msg) }

def steps (h : HostCfg) : Nat → Config → Config
  | 0, c => c
  | n + 1, c => steps h n (step h c)

/-- steps one operation can take: DNLOAD, first GETSTATUS, (sleep, GETSTATUS) per busy poll, final sleep, loop step -/
def opCost (o : OpSched) : Nat := 2 * o.busy.length + 4

/-- total cost of the `n` operations starting with the `i`-th -/
def costFrom (s : Schedule) (i : Nat) : Nat → Nat
  | 0 => 0
  | n + 1 => opCost (s.op i) + costFrom s (i + 1) n

/-- enough steps for any run of this firmware against this schedule -/
def fuelBound (h : HostCfg) (s : Schedule) : Nat := 12 + costFrom s 0 (3 * h.pages)

structure Result where
  halted : Bool                 -- the host process ended (always true, `run_halted`)
  exitCode : Nat
  exitMsg : ExitMsg
  done : Bool                   -- 'done!' was printed
  trace : List Event            -- requests with their replies, and sleeps, in order
  flash : Nat → Cell
  mon : Monitors
  erased : List Nat
  written : List Nat
  dev : Device

def Config.result (c : Config) : Result :=
  { halted := c.exit.isSome,
    exitCode := match c.exit with | some (n, _) => n | none => 0,
    exitMsg := match c.exit with | some (_, m) => m | none => .internal,
    done := c.out.contains .done,
    trace := c.trace.reverse,
    flash := c.dev.flash, mon := c.dev.mon,
    erased := c.dev.erasedLog, written := c.dev.writtenLog, dev := c.dev }

/-- run with an explicit amount of fuel -/
def runFuel (n : Nat) (fw : List Nat) (pageCount : Nat) (sched : Schedule) (flash : Nat → Cell) : Result :=
  (steps ⟨fw, pageCount⟩ n (Config.init pageCount sched flash)).result

/-- bronzebeard-dfu on firmware `fw`, against a `pageCount`-page device following `sched`,
    whose flash initially is `flash` -/
def run (fw : List Nat) (pageCount : Nat) (sched : Schedule) (flash : Nat → Cell) : Result :=
  runFuel (fuelBound ⟨fw, pageCount⟩ sched) fw pageCount sched flash

/-- is this event a request that erases, sets the address or downloads (any DNLOAD)? -/
def Event.isDnload : Event → Bool
  | .req r _ => r.bRequest = reqDNLOAD
  | .sleep _ => false

end BB.Dfu
