/-
  BB.Dfu.Host — bronzebeard/dfu.py `cli_main`, after argument parsing and device lookup, as a
  resumable program:  `next : HostCfg → PC → Response → PC × Action`.

  The environment (BB.Dfu.Run, or the real world) executes each `Action` and resumes the program
  with the `Response`.  The transcription is literal: one program counter value per place where
  the Python waits for the outside world (a `ctrl_transfer`, a `time.sleep`, the final `print`),
  the same tests in the same order.  Line numbers refer to bronzebeard/dfu.py.

  Not modelled: the progress `print`s other than the final `done!` (nothing in C18/C19 speaks of
  them), argparse, the pyusb backend lookup, the serial-number quirk that yields `page_count`
  (the harness drives the real code through it; here `pageCount` is a parameter).
  Core only (the bbdrv driver links this file).
-/
import BB.Dfu.Wire
namespace BB.Dfu

/-- the three places where cli_main starts a device operation and polls for its completion -/
inductive Kind
  | erase     -- dfuse_erase_page, dfu.py:252-261
  | addr      -- dfuse_set_address, dfu.py:275-284
  | data      -- dfuse_download, dfu.py:287-296
deriving Repr, DecidableEq, Inhabited

/-- why the process ended (the argument of SystemExit / the uncaught exception), structured -/
inductive ExitMsg
  | ok                                  -- cli_main returned (exit status 0)
  | tooLarge                            -- SystemExit('Firmware file is too large for device')
  | eraseFailed (addr status : Nat)     -- SystemExit('error erasing page 0x{addr}: {status}')
  | addrFailed (addr status : Nat)      -- SystemExit('error setting address 0x{addr}: {status}')
  | writeFailed (addr status : Nat)     -- SystemExit('error writing page 0x{addr}: {status}')
  | assertion                           -- an `assert` on a transfer length failed (traceback, status 1)
  | usbError                            -- ctrl_transfer raised usb.core.USBError (traceback, status 1)
  | keyError                            -- STATE_DESCRIPTION[state] for a state outside 0..10 (dfu.py:243)
  | internal                            -- resumed with a response of the wrong kind (never happens in `run`)
deriving Repr, DecidableEq, Inhabited

inductive Msg
  | done                                -- print('done!'), dfu.py:299
deriving Repr, DecidableEq, Inhabited

inductive Action
  | request (r : Request)               -- device.ctrl_transfer(...)
  | sleep (ms : Nat)                    -- time.sleep(ms / 1000)
  | print (m : Msg)
  | tau                                 -- internal step (loop head), no effect on the world
  | exit (code : Nat) (msg : ExitMsg)
deriving Repr, DecidableEq, Inhabited

/-- program counter of cli_main: where it is waiting, plus the live local variables -/
inductive PC
  | start
  | initStatus                          -- dfu.py:238 waiting for the GETSTATUS reply
  | initSlept (state : Nat)             -- dfu.py:238 inside time.sleep
  | clrSent                             -- dfu.py:241 waiting for CLRSTATUS to be accepted
  | init2Status                         -- dfu.py:242
  | init2Slept (state : Nat)
  | loopErase (page : Nat)              -- dfu.py:246 head of `for page in range(pages)`
  | loopWrite (page : Nat)              -- dfu.py:266 head of `for page in range(pages)`
  | sent (k : Kind) (page : Nat)        -- waiting for the DNLOAD of this operation to be accepted
  | status (k : Kind) (page : Nat)      -- waiting for a GETSTATUS reply while polling this operation
  | slept (k : Kind) (page : Nat) (status state : Nat)   -- inside time.sleep of dfu_get_status
  | finishing                           -- 'done!' printed, about to return
  | halted
deriving Repr, DecidableEq, Inhabited

structure HostCfg where
  fw : List Nat            -- contents of the firmware file
  pageCount : Nat          -- 16 / 32 / 64 / 128 (from the serial number)
deriving Repr

/-- `pages` after dfu.py:227-229 -/
def HostCfg.pages (c : HostCfg) : Nat :=
  let pages := c.fw.length / pageSize
  let rem := c.fw.length % pageSize
  if rem ≠ 0 then pages + 1 else pages

/-- `firmware` after dfu.py:227-231 -/
def HostCfg.padded (c : HostCfg) : List Nat :=
  let rem := c.fw.length % pageSize
  if rem ≠ 0 then c.fw ++ List.replicate (pageSize - rem) 0 else c.fw

/-- `firmware[code_start:code_end]`, dfu.py:269-271 -/
def HostCfg.chunk (c : HostCfg) (page : Nat) : List Nat :=
  (c.padded.drop (page * pageSize)).take pageSize

/-- dfu_get_status's transfer, dfu.py:111-115 -/
def getStatusReq : Request := ⟨rtIn, reqGETSTATUS, 0, .inn 6⟩
/-- dfu_clear_status's transfer, dfu.py:127-131 -/
def clrStatusReq : Request := ⟨rtOut, reqCLRSTATUS, 0, .out []⟩
/-- the DNLOAD transfers, dfu.py:137-141, 147-151, 156-161 -/
def dnloadReq (wValue : Nat) (data : List Nat) : Request := ⟨rtOut, reqDNLOAD, wValue, .out data⟩
/-- `struct.pack('<BI', DFUSE_CMD_ERASE_PAGE, address)` -/
def eraseCmd (addr : Nat) : List Nat := cmdErase :: leBytes 4 addr
/-- `struct.pack('<BI', DFUSE_CMD_SET_ADDRESS, address)` -/
def setAddrCmd (addr : Nat) : List Nat := cmdSetAddress :: leBytes 4 addr

/-- dfu.py:116-119: `assert len(response) == 6`, unpack, rebuild the timeout (milliseconds) -/
def parseStatus : List Nat → Option (Nat × Nat × Nat)
  | [status, pt0, pt1, pt2, state, _desc] => some (status, pt2 <<< 16 ||| pt1 <<< 8 ||| pt0, state)
  | _ => none

/-- the tail of dfu_get_status: on a 6-byte reply continue with (status, poll_timeout, state) -/
def onStatus (r : Response) (k : Nat → Nat → Nat → PC × Action) : PC × Action :=
  match r with
  | .bytes bs =>
    match parseStatus bs with
    | some (s, t, st) => k s t st
    | none => (.halted, .exit 1 .assertion)
  | .stall => (.halted, .exit 1 .usbError)
  | _ => (.halted, .exit 1 .internal)

/-- `count = device.ctrl_transfer(...); assert count == expected` -/
def onCount (r : Response) (expected : Nat) (k : PC × Action) : PC × Action :=
  match r with
  | .count n => if n = expected then k else (.halted, .exit 1 .assertion)
  | .stall => (.halted, .exit 1 .usbError)
  | _ => (.halted, .exit 1 .internal)

/-- one resumption of cli_main -/
def next (c : HostCfg) : PC → Response → PC × Action
  | .start, _ =>
    -- dfu.py:221 ensure firmware will fit
    if c.fw.length > pageSize * c.pageCount then (.halted, .exit 1 .tooLarge)
    else (.initStatus, .request getStatusReq)                         -- :238
  | .initStatus, r => onStatus r fun _ t st => (.initSlept st, .sleep t)
  | .initSlept st, _ =>
    if st = stERROR then (.clrSent, .request clrStatusReq)            -- :239-241
    else (.loopErase 0, .tau)
  | .clrSent, r => onCount r 0 (.init2Status, .request getStatusReq)  -- :132, :242
  | .init2Status, r => onStatus r fun _ t st => (.init2Slept st, .sleep t)
  | .init2Slept st, _ =>
    if st ≤ 10 then (.loopErase 0, .tau)                              -- :243 STATE_DESCRIPTION[state]
    else (.halted, .exit 1 .keyError)
  | .loopErase p, _ =>
    if p < c.pages then (.sent .erase p, .request (dnloadReq 0 (eraseCmd (pageAddr p))))     -- :246-252
    else (.loopWrite 0, .tau)
  | .loopWrite p, _ =>
    if p < c.pages then (.sent .addr p, .request (dnloadReq 0 (setAddrCmd (pageAddr p))))    -- :266-275
    else (.finishing, .print .done)                                   -- :299
  | .sent k p, r =>
    onCount r (match k with | .data => (c.chunk p).length | _ => 5)   -- :142, :152, :162
      (.status k p, .request getStatusReq)                            -- :255, :278, :290
  | .status k p, r => onStatus r fun s t st => (.slept k p s st, .sleep t)
  | .slept .erase p s st, _ =>
    if st = stDNBUSY then (.status .erase p, .request getStatusReq)   -- :256-257
    else if s ≠ 0 then (.halted, .exit 1 (.eraseFailed (pageAddr p) s))   -- :259-261
    else (.loopErase (p + 1), .tau)
  | .slept .addr p s st, _ =>
    if st = stDNBUSY then (.status .addr p, .request getStatusReq)    -- :279-280
    else if s ≠ 0 then (.halted, .exit 1 (.addrFailed (pageAddr p) s))    -- :282-284
    else (.sent .data p, .request (dnloadReq 2 (c.chunk p)))          -- :287
  | .slept .data p s st, _ =>
    if st ≠ stDNLOAD_IDLE ∧ st ≠ stERROR then (.status .data p, .request getStatusReq)   -- :291-292
    else if s ≠ 0 then (.halted, .exit 1 (.writeFailed (pageAddr p) s))   -- :294-296
    else (.loopWrite (p + 1), .tau)
  | .finishing, _ => (.halted, .exit 0 .ok)
  | .halted, _ => (.halted, .exit 1 .internal)

end BB.Dfu
