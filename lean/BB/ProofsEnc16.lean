/-
  BB.ProofsEnc16 — root of the RVC (C02) and acceptance ⇔ legality (C06) proofs.
-/
import BB.Lemmas.Enc16
import BB.Lemmas.Dec16
import BB.Lemmas.Inv16
import BB.Props.C02Onto.All
import BB.Props.C02
import BB.Props.C06
