/-
  BB.Enc16 — the 16-bit encoders of asm.py:332-726 (after the F2 fix), Python-shaped.
  Registers arrive looked up: full numbers (< 32) for CR/CI/CSS, 3-bit numbers (< 8,
  i.e. after `compressed=True`) for CIW/CL/CS/CA/CB.  `none` = ValueError.
-/
import BB.Bits
namespace BB

/-- the constraint closures of asm.py:127-148 -/
inductive Constraint where
  | rdNotZero | rs1NotZero | rs2NotZero | rdRs1NotZero | rdRs1NotTwo | immNotZero | shamtBit5Zero
  deriving Repr, DecidableEq

/-- the keyword arguments a constraint may look at; absent ones are never consulted by the
    constraint lists of the instruction table (checked by `InstrTable`). -/
structure CArgs where
  rd : Nat := 0
  rs1 : Nat := 0
  rs2 : Nat := 0
  rdRs1 : Nat := 0
  imm : Int := 0

/-- `true` = the constraint raises ValueError -/
def Constraint.fails (c : Constraint) (a : CArgs) : Bool :=
  match c with
  | .rdNotZero => a.rd = 0
  | .rs1NotZero => a.rs1 = 0
  | .rs2NotZero => a.rs2 = 0
  | .rdRs1NotZero => a.rdRs1 = 0
  | .rdRs1NotTwo => a.rdRs1 = 2
  | .immNotZero => a.imm = 0
  | .shamtBit5Zero => pyAnd a.imm (pyShl 1 5) ≠ 0

def csOk (cs : List Constraint) (a : CArgs) : Bool := cs.all (fun c => !c.fails a)

/-- cr_type (asm.py:333-347) -/
def crTypeN (rdRs1 rs2 : Nat) (opcode funct4 : Nat) (cs : List Constraint) : Option Nat :=
  if !csOk cs { rdRs1 := rdRs1, rs2 := rs2 } then none else
  some (0 ||| opcode ||| (rs2 <<< 2) ||| (rdRs1 <<< 7) ||| (funct4 <<< 12))

/-- ci_type (asm.py:351-373) -/
def ciTypeN (rdRs1 : Nat) (imm : Int) (opcode funct3 : Nat) (cs : List Constraint) : Option Nat :=
  if imm < -32 ∨ imm > 31 then none else
  if !csOk cs { rdRs1 := rdRs1, imm := imm } then none else
  let imm := cU32 imm &&& 0b111111
  let imm_5 := (imm >>> 5) &&& 0b1
  let imm_4_0 := imm &&& 0b11111
  some (0 ||| opcode ||| (imm_4_0 <<< 2) ||| (rdRs1 <<< 7) ||| (imm_5 <<< 12) ||| (funct3 <<< 13))

/-- cia_type, c.addi16sp (asm.py:378-407) -/
def ciaTypeN (imm : Int) (opcode funct3 : Nat) (cs : List Constraint) : Option Nat :=
  if imm < -512 ∨ imm > 511 then none else
  if imm % 16 ≠ 0 then none else
  if !csOk cs { imm := imm } then none else
  let imm := pyShr imm 4
  let imm := cU32 imm &&& 0b111111
  let imm_9 := (imm >>> 5) &&& 0b1
  let imm_8_7 := (imm >>> 3) &&& 0b11
  let imm_6 := (imm >>> 2) &&& 0b1
  let imm_5 := (imm >>> 1) &&& 0b1
  let imm_4 := imm &&& 0b1
  some (0 ||| opcode ||| (imm_5 <<< 2) ||| (imm_8_7 <<< 3) ||| (imm_6 <<< 5) ||| (imm_4 <<< 6)
        ||| (0b00010 <<< 7) ||| (imm_9 <<< 12) ||| (funct3 <<< 13))

/-- ciu_type, c.lui (asm.py:412-438) -/
def ciuTypeN (rdRs1 : Nat) (imm : Int) (opcode funct3 : Nat) (cs : List Constraint) : Option Nat :=
  let imm := if imm ≥ 0xfffe0 ∧ imm ≤ 0xfffff then imm - 1048576 else imm
  if imm < -32 ∨ imm > 31 then none else
  if !csOk cs { rdRs1 := rdRs1, imm := imm } then none else
  let imm := cU32 imm &&& 0b111111
  let imm_5 := (imm >>> 5) &&& 0b1
  let imm_4_0 := imm &&& 0b11111
  some (0 ||| opcode ||| (imm_4_0 <<< 2) ||| (rdRs1 <<< 7) ||| (imm_5 <<< 12) ||| (funct3 <<< 13))

/-- cil_type, c.lwsp (asm.py:443-470) -/
def cilTypeN (rdRs1 : Nat) (imm : Int) (opcode funct3 : Nat) (cs : List Constraint) : Option Nat :=
  if imm < 0 ∨ imm > 255 then none else
  if imm % 4 ≠ 0 then none else
  if !csOk cs { rdRs1 := rdRs1, imm := imm } then none else
  let imm := pyShr imm 2
  let imm := cU32 imm &&& 0b111111
  let imm_7_6 := (imm >>> 4) &&& 0b11
  let imm_5 := (imm >>> 3) &&& 0b1
  let imm_4_2 := imm &&& 0b111
  some (0 ||| opcode ||| (imm_7_6 <<< 2) ||| (imm_4_2 <<< 4) ||| (rdRs1 <<< 7) ||| (imm_5 <<< 12)
        ||| (funct3 <<< 13))

/-- css_type, c.swsp (asm.py:474-499) -/
def cssTypeN (rs2 : Nat) (imm : Int) (opcode funct3 : Nat) (cs : List Constraint) : Option Nat :=
  if imm < 0 ∨ imm > 255 then none else
  if imm % 4 ≠ 0 then none else
  if !csOk cs { rs2 := rs2, imm := imm } then none else
  let imm := pyShr imm 2
  let imm := cU32 imm &&& 0b111111
  let imm_7_6 := (imm >>> 4) &&& 0b11
  let imm_5_2 := imm &&& 0b1111
  some (0 ||| opcode ||| (rs2 <<< 2) ||| (imm_7_6 <<< 7) ||| (imm_5_2 <<< 9) ||| (funct3 <<< 13))

/-- ciw_type, c.addi4spn (asm.py:503-532); `rd` is the 3-bit number -/
def ciwTypeN (rd : Nat) (imm : Int) (opcode funct3 : Nat) (cs : List Constraint) : Option Nat :=
  if imm < 0 ∨ imm > 1023 then none else
  if imm % 4 ≠ 0 then none else
  if !csOk cs { rd := rd, imm := imm } then none else
  let imm := pyShr imm 2
  let imm := cU32 imm &&& 0b11111111
  let imm_9_6 := (imm >>> 4) &&& 0b1111
  let imm_5_4 := (imm >>> 2) &&& 0b11
  let imm_3 := (imm >>> 1) &&& 0b1
  let imm_2 := imm &&& 0b1
  some (0 ||| opcode ||| (rd <<< 2) ||| (imm_3 <<< 5) ||| (imm_2 <<< 6) ||| (imm_9_6 <<< 7)
        ||| (imm_5_4 <<< 11) ||| (funct3 <<< 13))

/-- cl_type, c.lw (asm.py:536-565); 3-bit registers -/
def clTypeN (rd rs1 : Nat) (imm : Int) (opcode funct3 : Nat) (cs : List Constraint) : Option Nat :=
  if imm < 0 ∨ imm > 127 then none else
  if imm % 4 ≠ 0 then none else
  if !csOk cs { rd := rd, rs1 := rs1, imm := imm } then none else
  let imm := pyShr imm 2
  let imm := cU32 imm &&& 0b11111
  let imm_6 := (imm >>> 4) &&& 0b1
  let imm_5_3 := (imm >>> 1) &&& 0b111
  let imm_2 := imm &&& 0b1
  some (0 ||| opcode ||| (rd <<< 2) ||| (imm_6 <<< 5) ||| (imm_2 <<< 6) ||| (rs1 <<< 7)
        ||| (imm_5_3 <<< 10) ||| (funct3 <<< 13))

/-- cs_type, c.sw (asm.py:569-598); 3-bit registers -/
def csTypeN (rs1 rs2 : Nat) (imm : Int) (opcode funct3 : Nat) (cs : List Constraint) : Option Nat :=
  if imm < 0 ∨ imm > 127 then none else
  if imm % 4 ≠ 0 then none else
  if !csOk cs { rs1 := rs1, rs2 := rs2, imm := imm } then none else
  let imm := pyShr imm 2
  let imm := cU32 imm &&& 0b11111
  let imm_6 := (imm >>> 4) &&& 0b1
  let imm_5_3 := (imm >>> 1) &&& 0b111
  let imm_2 := imm &&& 0b1
  some (0 ||| opcode ||| (rs2 <<< 2) ||| (imm_6 <<< 5) ||| (imm_2 <<< 6) ||| (rs1 <<< 7)
        ||| (imm_5_3 <<< 10) ||| (funct3 <<< 13))

/-- ca_type (asm.py:602-617); 3-bit registers -/
def caTypeN (rdRs1 rs2 : Nat) (opcode funct2 funct6 : Nat) (cs : List Constraint) : Option Nat :=
  if !csOk cs { rdRs1 := rdRs1, rs2 := rs2 } then none else
  some (0 ||| opcode ||| (rs2 <<< 2) ||| (funct2 <<< 5) ||| (rdRs1 <<< 7) ||| (funct6 <<< 10))

/-- cb_type, c.beqz / c.bnez (asm.py:621-652, with the range check of the F2 fix); 3-bit rs1 -/
def cbTypeN (rs1 : Nat) (imm : Int) (opcode funct3 : Nat) (cs : List Constraint) : Option Nat :=
  if imm < -256 ∨ imm > 255 then none else
  if imm % 2 ≠ 0 then none else
  if !csOk cs { rs1 := rs1, imm := imm } then none else
  let imm := pyShr imm 1
  let imm := cU32 imm &&& 0b11111111
  let imm_8 := (imm >>> 7) &&& 0b1
  let imm_7_6 := (imm >>> 5) &&& 0b11
  let imm_5 := (imm >>> 4) &&& 0b1
  let imm_4_3 := (imm >>> 2) &&& 0b11
  let imm_2_1 := imm &&& 0b11
  some (0 ||| opcode ||| (imm_5 <<< 2) ||| (imm_2_1 <<< 3) ||| (imm_7_6 <<< 5) ||| (rs1 <<< 7)
        ||| (imm_4_3 <<< 10) ||| (imm_8 <<< 12) ||| (funct3 <<< 13))

/-- cbi_type, c.srli / c.srai / c.andi (asm.py:657-680, with the F2 range check); 3-bit reg -/
def cbiTypeN (rdRs1 : Nat) (imm : Int) (opcode funct2 funct3 : Nat) (cs : List Constraint) :
    Option Nat :=
  if imm < -32 ∨ imm > 31 then none else
  if !csOk cs { rdRs1 := rdRs1, imm := imm } then none else
  let imm := cU32 imm &&& 0b111111
  let imm_5 := (imm >>> 5) &&& 0b1
  let imm_4_0 := imm &&& 0b11111
  some (0 ||| opcode ||| (imm_4_0 <<< 2) ||| (rdRs1 <<< 7) ||| (funct2 <<< 10) ||| (imm_5 <<< 12)
        ||| (funct3 <<< 13))

/-- cj_type (asm.py:684-718) -/
def cjTypeN (imm : Int) (opcode funct3 : Nat) (cs : List Constraint) : Option Nat :=
  if imm < -2048 ∨ imm > 2047 then none else
  if imm % 2 ≠ 0 then none else
  if !csOk cs { imm := imm } then none else
  let imm := pyShr imm 1
  let imm := cU32 imm &&& 0b11111111111
  let imm_11 := (imm >>> 10) &&& 0b1
  let imm_10 := (imm >>> 9) &&& 0b1
  let imm_9_8 := (imm >>> 7) &&& 0b11
  let imm_7 := (imm >>> 6) &&& 0b1
  let imm_6 := (imm >>> 5) &&& 0b1
  let imm_5 := (imm >>> 4) &&& 0b1
  let imm_4 := (imm >>> 3) &&& 0b1
  let imm_3_1 := imm &&& 0b111
  some (0 ||| opcode ||| (imm_5 <<< 2) ||| (imm_3_1 <<< 3) ||| (imm_7 <<< 6) ||| (imm_6 <<< 7)
        ||| (imm_10 <<< 8) ||| (imm_9_8 <<< 9) ||| (imm_4 <<< 11) ||| (imm_11 <<< 12)
        ||| (funct3 <<< 13))

end BB
