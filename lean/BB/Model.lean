/- Model + specification modules (no proofs, no Mathlib): what the bbdrv driver links. -/
import BB.Bits
import BB.PyInt
import BB.Reg
import BB.Enc32
import BB.Enc16
import BB.InstrTable
import BB.Spec.Decode32
import BB.Spec.Decode16
import BB.Spec.Intent
import BB.Spec.Legal
import BB.Spec.Exec
import BB.Spec.Compressible
import BB.Item
import BB.Dict
import BB.Passes
