/-
  BB.Enc32 — the 32-bit encoders of asm.py:151-329, in the Python's shape:
  same checks in the same order, same shifts and masks.  Registers arrive here already
  looked up (numbers < 32); `BB.InstrTable` does the lookups.
  `none` = the Python raises ValueError.
-/
import BB.Bits
namespace BB

/-- r_type (asm.py:151-164) -/
def rTypeN (rd rs1 rs2 opcode funct3 funct7 : Nat) : Nat :=
  0 ||| opcode ||| (rd <<< 7) ||| (funct3 <<< 12) ||| (rs1 <<< 15) ||| (rs2 <<< 20) ||| (funct7 <<< 25)

/-- i_type (asm.py:167-183) -/
def iTypeN (rd rs1 : Nat) (imm : Int) (opcode funct3 : Nat) : Option Nat :=
  if imm < -0x800 ∨ imm > 0x7ff then none else
  let imm := cU32 imm &&& 0b111111111111
  some (0 ||| opcode ||| (rd <<< 7) ||| (funct3 <<< 12) ||| (rs1 <<< 15) ||| (imm <<< 20))

/-- ij_type (asm.py:187-205) -/
def ijTypeN (rd rs1 : Nat) (imm : Int) (opcode funct3 : Nat) : Option Nat :=
  if imm < -0x800 ∨ imm > 0x7ff then none else
  if imm % 2 ≠ 0 then none else
  let imm := cU32 imm &&& 0b111111111111
  some (0 ||| opcode ||| (rd <<< 7) ||| (funct3 <<< 12) ||| (rs1 <<< 15) ||| (imm <<< 20))

/-- s_type (asm.py:208-228) -/
def sTypeN (rs1 rs2 : Nat) (imm : Int) (opcode funct3 : Nat) : Option Nat :=
  if imm < -0x800 ∨ imm > 0x7ff then none else
  let imm := cU32 imm &&& 0b111111111111
  let imm_11_5 := (imm >>> 5) &&& 0b1111111
  let imm_4_0 := imm &&& 0b11111
  some (0 ||| opcode ||| (imm_4_0 <<< 7) ||| (funct3 <<< 12) ||| (rs1 <<< 15) ||| (rs2 <<< 20)
        ||| (imm_11_5 <<< 25))

/-- b_type (asm.py:231-258) -/
def bTypeN (rs1 rs2 : Nat) (imm : Int) (opcode funct3 : Nat) : Option Nat :=
  if imm < -0x1000 ∨ imm > 0x0fff then none else
  if imm % 2 ≠ 0 then none else
  let imm := pyShr imm 1
  let imm := cU32 imm &&& 0b111111111111
  let imm_12 := (imm >>> 11) &&& 0b1
  let imm_11 := (imm >>> 10) &&& 0b1
  let imm_10_5 := (imm >>> 4) &&& 0b111111
  let imm_4_1 := imm &&& 0b1111
  some (0 ||| opcode ||| (imm_11 <<< 7) ||| (imm_4_1 <<< 8) ||| (funct3 <<< 12) ||| (rs1 <<< 15)
        ||| (rs2 <<< 20) ||| (imm_10_5 <<< 25) ||| (imm_12 <<< 31))

/-- u_type (asm.py:261-277) -/
def uTypeN (rd : Nat) (imm : Int) (opcode : Nat) : Option Nat :=
  let imm := if imm ≥ 0x80000 ∧ imm ≤ 0xfffff then imm - 1048576 else imm
  if imm < -0x80000 ∨ imm > 0x7ffff then none else
  let imm := cU32 imm &&& 0b11111111111111111111
  some (0 ||| opcode ||| (rd <<< 7) ||| (imm <<< 12))

/-- j_type (asm.py:280-304) -/
def jTypeN (rd : Nat) (imm : Int) (opcode : Nat) : Option Nat :=
  if imm < -0x100000 ∨ imm > 0x0fffff then none else
  if imm % 2 ≠ 0 then none else
  let imm := pyShr imm 1
  let imm := cU32 imm &&& 0b11111111111111111111
  let imm_20 := (imm >>> 19) &&& 0b1
  let imm_19_12 := (imm >>> 11) &&& 0b11111111
  let imm_11 := (imm >>> 10) &&& 0b1
  let imm_10_1 := imm &&& 0b1111111111
  some (0 ||| opcode ||| (rd <<< 7) ||| (imm_19_12 <<< 12) ||| (imm_11 <<< 20) ||| (imm_10_1 <<< 21)
        ||| (imm_20 <<< 31))

/-- fence (asm.py:307-316), after `int(succ, 0)` / `int(pred, 0)` -/
def fenceN (succ pred : Int) (opcode funct3 rd rs1 fm : Nat) : Option Nat :=
  if succ < 0 ∨ succ > 0b1111 then none else
  if pred < 0 ∨ pred > 0b1111 then none else
  let imm : Nat := (fm <<< 8) ||| (pred.toNat <<< 4) ||| succ.toNat
  iTypeN rd rs1 (Int.ofNat imm) opcode funct3

/-- a_type (asm.py:319-329), after `int(aq, 0)` / `int(rl, 0)` -/
def aTypeN (rd rs1 rs2 : Nat) (opcode funct3 funct5 : Nat) (aq rl : Int) : Option Nat :=
  if ¬ (aq = 0 ∨ aq = 1) then none else
  if ¬ (rl = 0 ∨ rl = 1) then none else
  let funct7 := (funct5 <<< 2) ||| (aq.toNat <<< 1) ||| rl.toNat
  some (rTypeN rd rs1 rs2 opcode funct3 funct7)

end BB
