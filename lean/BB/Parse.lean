/-
  BB.Parse — `parse_immediate` and `parse_item` (asm.py), branch by branch in the Python's order,
  including what tuple unpacking and indexing do on token lists of the wrong length
  (`Err.internal "ValueError"` / `"IndexError"` where the Python leaks the raw exception,
  `Err.asm line` where it raises AssemblerError).
-/
import BB.Lex
namespace BB

/-! ## name tables (proved equal to the live module's in BB.Props.TablesFront) -/

/-- the format dictionaries in the order `parse_item` consults them -/
def formatDicts : List (String × List String) := [
  ("R_TYPE_INSTRUCTIONS", ["slli", "srli", "srai", "add", "sub", "sll", "slt", "sltu", "xor", "srl",
     "sra", "or", "and", "mul", "mulh", "mulhsu", "mulhu", "div", "divu", "rem", "remu"]),
  ("I_TYPE_INSTRUCTIONS", ["jalr", "lb", "lh", "lw", "lbu", "lhu", "addi", "slti", "sltiu", "xori",
     "ori", "andi", "csrrw", "csrrs", "csrrc", "csrrwi", "csrrsi", "csrrci"]),
  ("IE_TYPE_INSTRUCTIONS", ["fence.i", "ecall", "ebreak"]),
  ("S_TYPE_INSTRUCTIONS", ["sb", "sh", "sw"]),
  ("B_TYPE_INSTRUCTIONS", ["beq", "bne", "blt", "bge", "bltu", "bgeu"]),
  ("U_TYPE_INSTRUCTIONS", ["lui", "auipc"]),
  ("J_TYPE_INSTRUCTIONS", ["jal"]),
  ("FENCE_INSTRUCTIONS", ["fence"]),
  ("A_TYPE_INSTRUCTIONS", ["sc.w", "amoswap.w", "amoadd.w", "amoxor.w", "amoand.w", "amoor.w",
     "amomin.w", "amomax.w", "amominu.w", "amomaxu.w"]),
  ("AL_TYPE_INSTRUCTIONS", ["lr.w"]),
  ("CR_TYPE_INSTRUCTIONS", ["c.mv", "c.add"]),
  ("CRJ_TYPE_INSTRUCTIONS", ["c.jr", "c.jalr"]),
  ("CRE_TYPE_INSTRUCTIONS", ["c.ebreak"]),
  ("CI_TYPE_INSTRUCTIONS", ["c.lwsp", "c.li", "c.lui", "c.addi", "c.slli"]),
  ("CIA_TYPE_INSTRUCTIONS", ["c.addi16sp"]),
  ("CIN_TYPE_INSTRUCTIONS", ["c.nop"]),
  ("CSS_TYPE_INSTRUCTIONS", ["c.swsp"]),
  ("CIW_TYPE_INSTRUCTIONS", ["c.addi4spn"]),
  ("CL_TYPE_INSTRUCTIONS", ["c.lw"]),
  ("CS_TYPE_INSTRUCTIONS", ["c.sw"]),
  ("CA_TYPE_INSTRUCTIONS", ["c.sub", "c.xor", "c.or", "c.and"]),
  ("CB_TYPE_INSTRUCTIONS", ["c.beqz", "c.bnez", "c.srli", "c.srai", "c.andi"]),
  ("CJ_TYPE_INSTRUCTIONS", ["c.jal", "c.j"])]

/-- mnemonic ↦ name of the (first) format dictionary containing it -/
def formatOfModel : List (String × String) :=
  formatDicts.flatMap (fun d => d.2.map (fun m => (m, d.1)))

def pseudoInstructionNames : List String := [
  "nop", "li", "mv", "not", "neg", "seqz", "snez", "sltz", "sgtz", "beqz", "bnez", "blez", "bgez",
  "bltz", "bgtz", "bgt", "ble", "bgtu", "bleu", "j", "jal", "jr", "jalr", "ret", "call", "tail",
  "fence"]

def baseOffsetNames : List String :=
  ["jalr", "lb", "lh", "lw", "lbu", "lhu", "sb", "sh", "sw", "c.lw", "c.sw"]

def numericSequenceNamesM : List String := ["bytes", "shorts", "ints", "longs", "longlongs"]
def shorthandPackNamesM : List String := ["db", "dh", "dw", "dd"]

/-- `head in <DICT>` -/
def inDict (dict : String) (head : String) : Bool :=
  match formatDicts.lookup dict with
  | some names => names.contains head
  | none => false

/-! ## string helpers -/

/-- `str.lower()` on ASCII text -/
def lowerS (s : String) : String := String.ofList (s.toList.map Char.toLower)

def isAsciiS (s : String) : Bool := s.toList.all isAsciiC

/-- `' '.join(tokens)` -/
def joinSp (l : List String) : String := " ".intercalate l

/-- `s.rstrip(':')` -/
def rstripColon (l : List Char) : List Char := (l.reverse.dropWhile (· = ':')).reverse

def errValue : Err := .internal "ValueError"
def errIndex : Err := .internal "IndexError"

/-! ## parse_immediate -/

def parseImmAux (line : Line) : Nat → List String → Except Err Imm
  | 0, _ => .error (.unsupported "fuel")
  | f+1, imm =>
    match imm with
    | [] => .error (.asm line)                        -- 'empty immediate value'
    | h :: t =>
      if ¬ isAsciiS h then .error (.unsupported "non-ascii") else
      let head := lowerS h
      if head = "%position" then
        match t with
        | [] => .error errIndex                       -- imm[1]
        | x :: t' =>
          if x = "(" then
            -- _, _, reference, *imm, _ = imm
            match t' with
            | ref :: more => if more = [] then .error errValue
                             else .ok (.position ref (joinSp more.dropLast))
            | [] => .error errValue
          else
            -- _, reference, *imm = imm
            .ok (.position x (joinSp t'))
      else if head = "%offset" then
        match t with
        | [] => .error errIndex
        | x :: t' =>
          if x = "(" then
            -- _, _, reference, _ = imm
            match t' with
            | [ref, _] => .ok (.offset ref)
            | _ => .error errValue
          else
            -- _, reference = imm
            match t' with
            | [] => .ok (.offset x)
            | _ => .error errValue
      else if head = "%hi" then
        match t with
        | [] => .error errIndex
        | x :: t' =>
          if x = "(" then
            -- _, _, *imm, _ = imm
            match t' with
            | [] => .error errValue
            | _ => Imm.hi <$> parseImmAux line f t'.dropLast
          else Imm.hi <$> parseImmAux line f t
      else if head = "%lo" then
        match t with
        | [] => .error errIndex
        | x :: t' =>
          if x = "(" then
            match t' with
            | [] => .error errValue
            | _ => Imm.lo <$> parseImmAux line f t'.dropLast
          else Imm.lo <$> parseImmAux line f t
      else .ok (.arith (joinSp imm))

/-- `parse_immediate(imm, line)` -/
def parseImmediate (imm : List String) (line : Line) : Except Err Imm :=
  parseImmAux line (imm.length + 1) imm

/-! ## parse_item -/

/-- `imm = parse_immediate(imm, line)` followed by building an instruction -/
def withImm (line : Line) (imm : List String) (k : Imm → Instr) : Except Err Item :=
  match parseImmediate imm line with
  | .ok i => .ok (.instr line (k i))
  | .error e => .error e

/-- branch or jump target: an integer literal stays, anything else becomes `%offset name` -/
def refImm (reference : String) : List String :=
  if isInt reference.toList then [reference] else ["%offset", reference]

/-- `name, rd, rs1, rs2, *ordering = tokens` etc.: the aq/rl pair -/
def ordering (line : Line) (ord : List String) : Except Err (RegOp × RegOp) :=
  match ord with
  | [] => .ok (.int 0, .int 0)
  | [aq, rl] => .ok (.str aq, .str rl)
  | _ => .error (.asm line)

/-- the load/store shapes `name, a, offset, _, b, _ = tokens` (when `tokens[3] == '('`)
    and `name, a, b, *imm = tokens`; returns (a, b, imm tokens) with a/b in *source* order
    and `paren` telling which shape it was -/
def baseOffset (tokens : List String) : Except Err (Bool × String × String × List String) :=
  match tokens with
  | _ :: a :: b :: x :: rest =>
    if x = "(" then
      match rest with
      | [c, _] => .ok (true, a, c, [b])             -- name, a, offset(=b), '(', c, ')'
      | _ => .error errValue
    else .ok (false, a, b, x :: rest)
  | _ => .error errIndex                            -- tokens[3]

/-- the branches of `parse_item` after the label and constant rules; `head = tokens[0].lower()` -/
def parseItemHead (line : Line) (head : String) (tokens : List String) : Except Err Item :=
  -- errors
  if head = "error" then
    match tokens with
    | [_, _] => .error (.asm line)
    | _ => .error errValue
  -- include_bytes
  else if head = "include_bytes" then
    match tokens with
    | [_, path, size] =>
      match pyInt0 size.toList with
      | some v => .ok (.includeBytes line path v)
      | none => .error errValue                       -- int(size, base=0), not caught
    | _ => .error (.asm line)
  -- strings
  else if head = "string" then
    match tokens with
    | [_, value] => .ok (.string line value)
    | _ => .error errValue
  -- sequences
  else if numericSequenceNamesM.contains head then
    .ok (.sequence line head (tokens.drop 1))
  -- packs
  else if head = "pack" then
    match tokens with
    | _ :: fmt :: imm =>
      match parseImmediate imm line with
      | .ok i => .ok (.pack line fmt i)
      | .error e => .error e
    | _ => .error errValue
  -- shorthand packs (the name is NOT lower-cased)
  else if shorthandPackNamesM.contains head then
    match tokens with
    | name :: imm =>
      match parseImmediate imm line with
      | .ok i => .ok (.shorthandPack line name i)
      | .error e => .error e
    | [] => .error errIndex
  -- aligns
  else if head = "align" then
    match tokens with
    | [_, alignment] =>
      match pyInt0 alignment.toList with
      | some v => .ok (.align line v)
      | none => .error (.asm line)
    | _ => .error errValue
  -- r-type
  else if inDict "R_TYPE_INSTRUCTIONS" head then
    match tokens with
    | [_, rd, rs1, rs2] => .ok (.instr line (.r head (.str rd) (.str rs1) (.str rs2)))
    | _ => .error (.asm line)
  -- i-type
  else if inDict "I_TYPE_INSTRUCTIONS" head then
    match tokens with
    | [_, a] => .ok (.pseudo line head [a])         -- jalr rs
    | _ =>
      if baseOffsetNames.contains head then
        match baseOffset tokens with
        | .ok (true, rd, rs1, imm) => withImm line imm (fun i => .i head (.str rd) (.str rs1) i false)
        | .ok (false, rd, rs1, imm) => withImm line imm (fun i => .i head (.str rd) (.str rs1) i false)
        | .error e => .error e
      else
        match tokens with
        | _ :: rd :: rs1 :: imm => withImm line imm (fun i => .i head (.str rd) (.str rs1) i false)
        | _ => .error errValue
  -- ie-type
  else if inDict "IE_TYPE_INSTRUCTIONS" head then
    match tokens with
    | [_] => .ok (.instr line (.ie head))
    | _ => .error errValue
  -- s-type
  else if inDict "S_TYPE_INSTRUCTIONS" head then
    match baseOffset tokens with
    | .ok (true, rs2, rs1, imm) => withImm line imm (fun i => .s head (.str rs1) (.str rs2) i)
    | .ok (false, rs1, rs2, imm) => withImm line imm (fun i => .s head (.str rs1) (.str rs2) i)
    | .error e => .error e
  -- b-type
  else if inDict "B_TYPE_INSTRUCTIONS" head then
    match tokens with
    | [_, rs1, rs2, reference] =>
      withImm line (refImm reference) (fun i => .b head (.str rs1) (.str rs2) i)
    | _ => .error (.asm line)
  -- u-type
  else if inDict "U_TYPE_INSTRUCTIONS" head then
    match tokens with
    | _ :: rd :: imm => withImm line imm (fun i => .u head (.str rd) i)
    | _ => .error errValue
  -- j-type
  else if inDict "J_TYPE_INSTRUCTIONS" head then
    match tokens with
    | [_, a] => .ok (.pseudo line head [a])         -- jal label
    | [_, rd, reference] => withImm line (refImm reference) (fun i => .j head (.str rd) i)
    | _ => .error (.asm line)
  -- fence
  else if inDict "FENCE_INSTRUCTIONS" head then
    match tokens with
    | [_] => .ok (.pseudo line head [])
    | [_, succ, pred] => .ok (.instr line (.fence head (.str succ) (.str pred)))
    | _ => .error (.asm line)
  -- a-type
  else if inDict "A_TYPE_INSTRUCTIONS" head then
    match tokens with
    | _ :: rd :: rs1 :: rs2 :: ord =>
      match ordering line ord with
      | .ok (aq, rl) => .ok (.instr line (.a head (.str rd) (.str rs1) (.str rs2) aq rl))
      | .error e => .error e
    | _ => .error errValue
  -- al-type
  else if inDict "AL_TYPE_INSTRUCTIONS" head then
    match tokens with
    | _ :: rd :: rs1 :: ord =>
      match ordering line ord with
      | .ok (aq, rl) => .ok (.instr line (.al head (.str rd) (.str rs1) aq rl))
      | .error e => .error e
    | _ => .error errValue
  -- cr-type
  else if inDict "CR_TYPE_INSTRUCTIONS" head then
    match tokens with
    | [_, rdRs1, rs2] => .ok (.instr line (.cr head (.str rdRs1) (.str rs2)))
    | _ => .error (.asm line)
  -- crj-type
  else if inDict "CRJ_TYPE_INSTRUCTIONS" head then
    match tokens with
    | [_, rdRs1] => .ok (.instr line (.crj head (.str rdRs1) false))
    | _ => .error (.asm line)
  -- cre-type
  else if inDict "CRE_TYPE_INSTRUCTIONS" head then
    match tokens with
    | [_] => .ok (.instr line (.cre head))
    | _ => .error (.asm line)
  -- ci-type
  else if inDict "CI_TYPE_INSTRUCTIONS" head then
    match tokens with
    | _ :: rdRs1 :: imm => withImm line imm (fun i => .ci head (.str rdRs1) i)
    | _ => .error errValue
  -- cia-type
  else if inDict "CIA_TYPE_INSTRUCTIONS" head then
    withImm line (tokens.drop 1) (fun i => .cia head i)
  -- cin-type
  else if inDict "CIN_TYPE_INSTRUCTIONS" head then
    match tokens with
    | [_] => .ok (.instr line (.cin head))
    | _ => .error (.asm line)
  -- css-type
  else if inDict "CSS_TYPE_INSTRUCTIONS" head then
    match tokens with
    | _ :: rs2 :: imm => withImm line imm (fun i => .css head (.str rs2) i)
    | _ => .error errValue
  -- ciw-type
  else if inDict "CIW_TYPE_INSTRUCTIONS" head then
    match tokens with
    | _ :: rd :: imm => withImm line imm (fun i => .ciw head (.str rd) i)
    | _ => .error errValue
  -- cl-type
  else if inDict "CL_TYPE_INSTRUCTIONS" head then
    match baseOffset tokens with
    | .ok (_, rd, rs1, imm) => withImm line imm (fun i => .cl head (.str rd) (.str rs1) i)
    | .error e => .error e
  -- cs-type
  else if inDict "CS_TYPE_INSTRUCTIONS" head then
    match baseOffset tokens with
    | .ok (true, rs2, rs1, imm) => withImm line imm (fun i => .cs head (.str rs1) (.str rs2) i)
    | .ok (false, rs1, rs2, imm) => withImm line imm (fun i => .cs head (.str rs1) (.str rs2) i)
    | .error e => .error e
  -- ca-type
  else if inDict "CA_TYPE_INSTRUCTIONS" head then
    match tokens with
    | [_, rdRs1, rs2] => .ok (.instr line (.ca head (.str rdRs1) (.str rs2)))
    | _ => .error (.asm line)
  -- cb-type
  else if inDict "CB_TYPE_INSTRUCTIONS" head then
    match tokens with
    | _ :: rs1 :: imm => withImm line imm (fun i => .cb head (.str rs1) i)
    | _ => .error errValue
  -- cj-type
  else if inDict "CJ_TYPE_INSTRUCTIONS" head then
    withImm line (tokens.drop 1) (fun i => .cj head i)
  -- pseudo instructions
  else if pseudoInstructionNames.contains head then
    .ok (.pseudo line head (tokens.drop 1))
  else .error (.asm line)

/-- `parse_item(LineTokens(line, tokens))` -/
def parseItem (line : Line) (tokens : List String) : Except Err Item :=
  match tokens with
  | [] => .error errIndex                              -- tokens[0]
  | t0 :: rest =>
    if ¬ isAsciiS t0 then .error (.unsupported "non-ascii")
    else
      -- labels
      if rest = [] ∧ t0.toList.getLast? = some ':' then
        .ok (.label line (String.ofList (rstripColon t0.toList)))
      else
        -- constants
        match rest with
        | eq :: imm@(_ :: _) =>
          if eq = "=" then
            match parseImmediate imm line with
            | .ok i => .ok (.constant line t0 i)
            | .error e => .error e
          else parseItemHead line (lowerS t0) tokens
        | _ => parseItemHead line (lowerS t0) tokens

/-- lexing and parsing of one source line the way `assemble` chains them:
    lines without tokens yield no item -/
def lexParseLine (line : Line) : Except Err (Option Item) :=
  match lexTokens line.contents.toList with
  | .error e => .error e
  | .ok [] => .ok none
  | .ok toks => some <$> parseItem line toks

end BB
