/-
  BB.Props.C12TwoRun — C12 at program level: what is true, what is false.

  FALSE as planned (`Tame ∧ EvenAligns`, DESIGN §5 C12): `align_grows_distance` below is a program with
  no label arithmetic, only even aligns, one plain conditional branch — it assembles without `-c` and
  is REFUSED with `-c` (confirmed on the real assembler).  Reason: with `-c` every POSITION is at most
  what it is without (`nothing_grows`, Props/C20TwoRun), but the DISTANCE between two positions that an
  `align` separates can grow by up to N − 1, because the padding is not monotone (an align that pads 0
  bytes without `-c` may pad N − 2 with it).  Distances that no align separates only shrink (`Dom`,
  Lemmas/TwoRunRel: the stretches between markers and aligns are not longer with `-c`).

  `compress_preserves_success_statement2` is the statement with the hypothesis this forces (STATEMENT
  ONLY).  What is proved towards it: `nothing_grows` and `two_run_corr` (two runs), and per decision
  `compressed_never_refused` (Props/C04Transfers).
-/
import BB.Props.C04TwoRun
import BB.Props.C12
namespace BB.Props.C12
open BB BB.Spec BB.Lemmas
open BB.Props.C20 (Hx lnx GrowHyps)

/-- `addi x0,x0,0` ×3 ; `beq x1, x2, L` ; 4088 bytes of data ; `align 8` ; `L:` -/
def progAlignGrow : List Item :=
  [.instr (lnx 1) (.i "addi" (.str "x0") (.str "x0") (.arith "0") false),
   .instr (lnx 2) (.i "addi" (.str "x0") (.str "x0") (.arith "0") false),
   .instr (lnx 3) (.i "addi" (.str "x0") (.str "x0") (.arith "0") false),
   .instr (lnx 4) (.b "beq" (.str "x1") (.str "x2") (.offset "L")),
   .blob (lnx 5) (List.replicate 4088 0),
   .align (lnx 6) 8,
   .label (lnx 7) "L"]

/-- **counterexample to C12 under `Tame ∧ EvenAligns`.**  Without `-c`: 4104 bytes, L = 4104, the branch at
    12 jumps 4092 bytes.  With `-c`: the three nops take 6 bytes, the branch (not compressible) sits at 6,
    the data ends at 4098, `align 8` now pads 6 bytes, L is still 4104 — the branch would have to jump
    4098 bytes, out of range: refused at line 4. -/
theorem align_grows_distance :
    (assembleItems Hx false progAlignGrow [] []).map (fun r => (r.bytes.length, r.labels)) = .ok (4104, [("L", 4104)]) ∧
    assembleItems Hx true progAlignGrow [] [] = .error (.asm (lnx 4)) := by decide +kernel

/-- the program is `EvenAligns`, and has no label arithmetic at all -/
example : EvenAligns progAlignGrow := by
  intro line a hm
  simp only [progAlignGrow, List.mem_cons, List.mem_nil_iff, reduceCtorEq, Item.align.injEq, false_or, or_false] at hm
  omega

/-- an item that names `n` as the target of a pc-relative transfer -/
def Item.targets (x : Item) (n : String) : Prop :=
  (∃ line ins, x = .instr line ins ∧ ins.imm? = some (.offset n)) ∨
  (∃ line name args, x = .pseudo line name args ∧ args.getLast? = some n ∧
    ∃ k, pseudoKind name = some k ∧ k ≠ .li ∧ k ≠ .mv ∧ k ≠ .not ∧ k ≠ .neg ∧ k ≠ .seqz ∧ k ≠ .snez ∧
      k ≠ .sltz ∧ k ≠ .sgtz ∧ k ≠ .jr ∧ k ≠ .jalr)

/-- no `align` lies strictly between a transfer and the label it names -/
def AlignFreeTransfers (items : List Item) : Prop :=
  ∀ (A B C : List Item) (x : Item) (line : Line) (n : String), Item.targets x n →
    (items = A ++ x :: B ++ .label line n :: C ∨ items = A ++ .label line n :: B ++ x :: C) →
    ∀ l a, Item.align l a ∉ B

/-- **C12, program level, with the hypotheses the counterexamples force (STATEMENT ONLY — not proved).** -/
def compress_preserves_success_statement2 : Prop :=
  ∀ (H : Hooks) (items : List Item) (r₀ : AsmResult),
    (∀ line p env, LitOK (evalAt H env line p)) →
    GrowHyps H items → Tame H items → EvenAligns items → AlignFreeTransfers items →
    (∀ line ins, Item.instr line ins ∈ items → ins.wellKinded = true) →
    assembleItems H false items [] [] = .ok r₀ → ∃ r₁, assembleItems H true items [] [] = .ok r₁

end BB.Props.C12
