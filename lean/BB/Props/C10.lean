/-
  BB.Props.C10 — data directives emit exactly the documented bytes; misfitting values are refused.

  `packInt big signed n v` is the model of `struct.pack` for an n-byte integer code (used by
  bytes/shorts/ints/longs/longlongs, db/dh/dw/dd and pack).  For every width, every integer:
  it succeeds exactly when the value fits the signed / unsigned range of the width, and then the
  bytes are the little- (big-) endian base-256 digits of the value modulo 2^(8n), i.e. its
  two's-complement representation.
-/
import BB.Lemmas.Final
namespace BB.Props.C10
open BB BB.Lemmas

/-- little-endian digits read back give the value modulo 256^n -/
theorem fromLE_leBytes (n w : Nat) : fromLE (leBytes n w) = w % 256 ^ n := by
  induction n generalizing w with
  | zero => simp [leBytes, fromLE, Nat.mod_one]
  | succ k ih =>
    simp only [leBytes, fromLE, ih]
    rw [Nat.pow_succ, Nat.mul_comm (256 ^ k) 256, Nat.mod_mul]

theorem leBytes_lt (n w : Nat) : ∀ b ∈ leBytes n w, b < 256 := by
  induction n generalizing w with
  | zero => intro b hb; simp [leBytes] at hb
  | succ k ih =>
    intro b hb
    simp only [leBytes, List.mem_cons] at hb
    rcases hb with rfl | hb
    · omega
    · exact ih _ b hb

/-- acceptance = the value fits the range of the width -/
theorem packInt_accept_iff (big signed : Bool) (n : Nat) (v : Int) :
    (∃ bs, packInt big signed n v = some bs) ↔
      (if signed then (-(2 ^ (8 * n - 1) : Int) ≤ v ∧ v < (2 ^ (8 * n - 1) : Int))
       else (0 ≤ v ∧ v < (2 ^ (8 * n) : Int))) := by
  unfold packInt packIntFits
  cases signed <;> simp <;> constructor <;> intro h <;> simp_all

/-- little-endian: the bytes are the base-256 digits of v mod 2^(8n) -/
theorem packInt_le_value (signed : Bool) (n : Nat) (v : Int) (bs : List Nat)
    (h : packInt false signed n v = some bs) :
    bs.length = n ∧ (∀ b ∈ bs, b < 256) ∧ (fromLE bs : Int) = v % ((2 ^ (8 * n) : Nat) : Int) := by
  have hl := packInt_length h
  unfold packInt at h
  split at h
  · simp only [Bool.false_eq_true, if_false, Option.some.injEq] at h
    subst h
    refine ⟨hl, leBytes_lt _ _, ?_⟩
    rw [fromLE_leBytes]
    have h256 : (256 : Nat) ^ n = 2 ^ (8 * n) := by
      rw [show (256 : Nat) = 2 ^ 8 by rfl, ← Nat.pow_mul]
    rw [h256]
    have hp : (0 : Int) < ((2 ^ (8 * n) : Nat) : Int) := by
      have : 0 < 2 ^ (8 * n) := Nat.two_pow_pos _
      exact_mod_cast this
    have hcast : ((2 : Int) ^ (8 * n)) = ((2 ^ (8 * n) : Nat) : Int) := by push_cast; rfl
    rw [hcast]
    generalize ((2 ^ (8 * n) : Nat)) = m at hp ⊢
    have hpos : (0 : Int) ≤ v % (m : Int) := Int.emod_nonneg _ (by omega)
    have hlt : v % (m : Int) < (m : Int) := Int.emod_lt_of_pos _ hp
    have e : ((v % (m : Int)).toNat : Int) = v % (m : Int) := Int.toNat_of_nonneg hpos
    have hlt' : (v % (m : Int)).toNat < m := by omega
    rw [Nat.mod_eq_of_lt hlt']
    exact e
  · simp at h

/-- big-endian is the reverse -/
theorem packInt_be_reverse (signed : Bool) (n : Nat) (v : Int) :
    packInt true signed n v = (packInt false signed n v).map List.reverse := by
  unfold packInt
  split <;> simp [beBytes]

/-- a sequence element is packed with the signed code exactly when it is negative, so every value
    from the signed minimum to the unsigned maximum of the width is accepted and nothing else -/
theorem seq_elem_accept_iff (n : Nat) (hn : 0 < n) (v : Int) :
    (∃ bs, packInt false (decide (v < 0)) n v = some bs) ↔
      (-(2 ^ (8 * n - 1) : Int) ≤ v ∧ v < (2 ^ (8 * n) : Int)) := by
  rw [packInt_accept_iff]
  have h2 : (2 : Int) ^ (8 * n) = 2 * 2 ^ (8 * n - 1) := by
    have : 8 * n = (8 * n - 1) + 1 := by omega
    rw [this, Int.pow_succ]; simp; omega
  have hp : (0 : Int) < 2 ^ (8 * n - 1) := Int.pow_pos (by omega)
  generalize (2 : Int) ^ (8 * n - 1) = a at h2 hp ⊢
  generalize (2 : Int) ^ (8 * n) = b at h2 ⊢
  by_cases hv : v < 0
  · simp only [hv, decide_true, if_true]; constructor <;> intro h <;> constructor <;> omega
  · simp only [hv, decide_false, Bool.false_eq_true, if_false]; constructor <;> intro h <;> constructor <;> omega

/-- non-vacuity -/
example : packInt false true 1 (-1) = some [255] := by decide
example : packInt false false 1 255 = some [255] := by decide
example : packInt false false 1 256 = none := by decide
example : packInt true false 2 0x1234 = some [0x12, 0x34] := by decide
example : packInt false true 2 (-32769) = none := by decide

end BB.Props.C10
