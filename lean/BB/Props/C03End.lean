/-
  BB.Props.C03End — end to end: in a successful assembly every pc-relative transfer is emitted at the
  byte offset of its item and lands on the value the returned label table gives for its target.

  `assemble_land`: with `lay` the layout `C04.layoutOf` computes from the inputs (so `lay.aligned` IS the
  item list the assembler holds after resolve_aligns, all sizes final - not an existentially chosen one)
  there is the list `out` of final blobs with `r.bytes = blobBytes out` such that `Land … 0 lay.aligned out`:
  item by item, at its own byte offset p (the number of bytes of the blobs before it), the item is
  resolved by resolve_immediates against the RETURNED label table `r.labels` and constants
  `r.constants`, then finished by the one-to-one passes into a blob of exactly its size.
  `Land.branch` / `Land.jal` / `Land.cj` / `Land.cb` read off: a transfer item at offset p becomes the
  bytes of a word that the specification decodes to that transfer with p + offset = value of the
  target.  Together with `assemble_layout` (r.labels[ℓ] = number of bytes before the marker of ℓ) this
  is "lands on its label".
-/
import BB.Props.C03Transfers
import BB.Props.C09
import BB.Props.C04
import BB.Read
namespace BB.Props.C03
open BB BB.Spec BB.Lemmas

/-- pointwise relation between two lists of equal length -/
inductive Pw (R : Item → Item → Prop) : List Item → List Item → Prop
  | nil : Pw R [] []
  | cons {a b : Item} {l l' : List Item} : R a b → Pw R l l' → Pw R (a :: l) (b :: l')

theorem mapM_pw {g : Item → Except Err Item} (l : List Item) : ∀ out, l.mapM g = .ok out →
    Pw (fun a b => g a = .ok b) l out := by
  induction l with
  | nil =>
    intro out h
    simp only [List.mapM_nil, pure, Except.pure, Except.ok.injEq] at h
    rw [← h]; exact .nil
  | cons a t ih =>
    intro out h
    obtain ⟨b, out', h1, h2, rfl⟩ := mapM_cons_ok h
    exact .cons h1 (ih out' h2)

theorem map_pw (g : Item → Item) (l : List Item) : Pw (fun a b => b = g a) l (l.map g) := by
  induction l with
  | nil => exact .nil
  | cons a t ih => exact .cons rfl ih

theorem Pw.comp {R S : Item → Item → Prop} {a b c : List Item} (h1 : Pw R a b) : Pw S b c →
    Pw (fun x z => ∃ y, R x y ∧ S y z) a c := by
  induction h1 generalizing c with
  | nil => intro h2; cases h2; exact .nil
  | cons r _ ih =>
    intro h2
    cases h2 with
    | cons s t => exact .cons ⟨_, r, s⟩ (ih t)

/-- resolve_strings on one item -/
def stringStep (it : Item) : Item :=
  match it with
  | .string line v => .blob line (utf8Bytes v)
  | other => other

/-- what the passes after resolve_immediates do to one item -/
def Finish (H : Hooks) (a z : Item) : Prop :=
  ∃ b d e f, instrStep a = .ok b ∧ seqStep (stringStep b) = .ok d ∧ shorthandStep d = .ok e ∧
    packStep e = .ok f ∧ includeBytesStep H f = .ok z

/-- a blob is left alone by every later pass -/
theorem finish_of_blob {H : Hooks} {a z : Item} {line : Line} {bs : List Nat}
    (h : Finish H a z) (hb : instrStep a = .ok (.blob line bs)) : z = .blob line bs := by
  obtain ⟨b, d, e, f, h1, h2, h3, h4, h5⟩ := h
  rw [hb] at h1
  cases h1
  simp only [stringStep, seqStep, pure, Except.pure, Except.ok.injEq] at h2
  subst h2
  simp only [shorthandStep, pure, Except.pure, Except.ok.injEq] at h3
  subst h3
  simp only [packStep, pure, Except.pure, Except.ok.injEq] at h4
  subst h4
  simp only [includeBytesStep, pure, Except.pure, Except.ok.injEq] at h5
  exact h5.symm

theorem finish_size {H : Hooks} {a z : Item} (hnl : ∀ l n, a ≠ .label l n) (h : Finish H a z) :
    (∀ l n, z ≠ .label l n) ∧ z.sizeD = a.sizeD := by
  obtain ⟨b, d, e, f, h1, h2, h3, h4, h5⟩ := h
  obtain ⟨n1, s1⟩ := instrStep_ok.keep a b hnl h1
  have n2 : ∀ l n, stringStep b ≠ .label l n := by
    intro l n hh
    cases b with
    | label l' n' => exact n1 l' n' rfl
    | _ => simp [stringStep] at hh
  have s2 : (stringStep b).sizeD = b.sizeD := stringStep_sizeD b
  obtain ⟨n3, s3⟩ := seqStep_ok.keep _ d n2 h2
  obtain ⟨n4, s4⟩ := shorthandStep_ok.keep _ e n3 h3
  obtain ⟨n5, s5⟩ := packStep_ok.keep _ f n4 h4
  obtain ⟨n6, s6⟩ := (includeBytesStep_ok H).keep _ z n5 h5
  exact ⟨n6, by rw [s6, s5, s4, s3, s2, s1]⟩

theorem immBody_not_label (H : Hooks) (constants : Dict) (it it' : Item) (p : Int) (L : Dict) (n : Int)
    (hnl : ∀ line nm, it ≠ .label line nm) (h : immBody H constants it p L = .ok ([it'], n)) :
    ∀ line nm, it' ≠ .label line nm := by
  intro l0 n0 e
  subst e
  cases it with
  | instr line ins =>
    simp only [immBody] at h
    cases himm : ins.imm? with
    | none =>
      simp only [himm] at h
      have := (keepItem_ok h).1
      simp at this
    | some imm =>
      simp only [himm, bind, Except.bind] at h
      split at h
      · simp at h
      · simp [pure, Except.pure] at h
  | pack line fmt imm =>
    simp only [immBody, bind, Except.bind] at h
    split at h
    · simp at h
    · split at h
      · simp at h
      · simp [pure, Except.pure] at h
  | shorthandPack line name imm =>
    simp only [immBody, bind, Except.bind] at h
    split at h
    · simp at h
    · split at h
      · simp at h
      · simp [pure, Except.pure] at h
  | label l nm => exact absurd rfl (hnl l nm)
  | _ =>
    have := (keepItem_ok (by simpa [immBody] using h)).1
    simp at this

/-- item by item: resolved at its own byte offset against (constants, L), finished into a blob of its size -/
inductive Land (H : Hooks) (constants L : Dict) : Int → List Item → List Item → Prop
  | nil (p : Int) : Land H constants L p [] []
  | step (p : Int) {it it' : Item} {line : Line} {d : List Nat} {rest out : List Item} :
      immBody H constants it p L = .ok ([it'], 0) → Finish H it' (.blob line d) →
      (d.length : Int) = it.sizeD →
      Land H constants L (p + d.length) rest out →
      Land H constants L p (it :: rest) (.blob line d :: out)

theorem land_of {H : Hooks} {constants L : Dict} {p : Int} {G G8 out : List Item}
    (h1 : C08.ImmRel (immBody H constants) L p G G8) (h2 : Pw (Finish H) G8 out)
    (hb : ∀ x ∈ out, ∃ line d, x = .blob line d) : Land H constants L p G out := by
  induction h1 generalizing out with
  | nil p => cases h2; exact .nil p
  | label p line n _ ih =>
    cases h2 with
    | @cons a b l l' r t =>
      -- a label stays a label through every pass: impossible, the output has blobs only
      exfalso
      obtain ⟨b1, d, e, f, g1, g2, g3, g4, g5⟩ := r
      simp only [instrStep, pure, Except.pure, Except.ok.injEq] at g1
      subst g1
      simp only [stringStep, seqStep, pure, Except.pure, Except.ok.injEq] at g2
      subst g2
      simp only [shorthandStep, pure, Except.pure, Except.ok.injEq] at g3
      subst g3
      simp only [packStep, pure, Except.pure, Except.ok.injEq] at g4
      subst g4
      simp only [includeBytesStep, pure, Except.pure, Except.ok.injEq] at g5
      subst g5
      obtain ⟨l0, d0, hh⟩ := hb _ List.mem_cons_self
      cases hh
  | step p it it' hnl hbody hsz _ ih =>
    cases h2 with
    | @cons a b l l' r t =>
      obtain ⟨line, d, rfl⟩ := hb _ List.mem_cons_self
      have hnl' : ∀ l n, it' ≠ .label l n := immBody_not_label H constants it it' p L 0 hnl hbody
      obtain ⟨_, hs⟩ := finish_size hnl' r
      have hlen : (d.length : Int) = it.sizeD := by
        rw [← hsz, ← hs]; simp [Item.sizeD, Item.size?]
      refine .step p hbody r hlen ?_
      rw [hlen]
      exact ih t (fun x hx => hb x (List.mem_cons_of_mem _ hx))

theorem Pw.mono {R S : Item → Item → Prop} (hRS : ∀ a b, R a b → S a b) {l l' : List Item} (h : Pw R l l') :
    Pw S l l' := by
  induction h with
  | nil => exact .nil
  | cons r _ ih => exact .cons (hRS _ _ r) ih

/-- the anchored frame of every end-to-end statement: `lay` is THE layout `layoutOf` computes for the
    inputs (`lay.decided` = the item list before resolve_aligns, `lay.aligned` = the list after it; a
    function of `H`, `compress`, `items` - nothing is left to choose), its tables are the returned ones,
    `out` is the list of blobs the items of `lay.aligned` are resolved and finished into, one by one
    (`Land`), and the output is their concatenation -/
structure Frame (H : Hooks) (compress : Bool) (items : List Item) (r : AsmResult) (lay : BB.Props.C04.Layout)
    (out : List Item) : Prop where
  layout : BB.Props.C04.layoutOf H compress items = .ok lay
  labels : lay.labels = r.labels
  constants : lay.constants = r.constants
  expands : Expands items lay.aligned
  land : Land H r.constants r.labels 0 lay.aligned out
  bytes : r.bytes = blobBytes out

/-- **End to end.**  In every successful assembly the list held after resolve_aligns - `lay.aligned`
    of the layout the inputs determine - is resolved item by item at the byte offset of each item
    against the returned tables and finished into the blobs whose concatenation is the output. -/
theorem assemble_land (H : Hooks) (compress : Bool) (items : List Item) (r : AsmResult)
    (h : assembleItems H compress items [] [] = .ok r) :
    ∃ lay out, Frame H compress items r lay out := by
  unfold assembleItems at h
  simp only [bind, Except.bind] at h
  cases h1 : resolveConstants H items [] with
  | error e => simp [h1] at h
  | ok r1 =>
  obtain ⟨items1, constants⟩ := r1
  simp only [h1] at h
  have e1 := resolveConstants_expands H items [] items1 constants h1
  cases h2 : resolveLabels items1 [] with
  | error e => simp [h2] at h
  | ok r2 =>
  obtain ⟨items2, labels2⟩ := r2
  simp only [h2] at h
  have e2 := e1.trans (resolveLabelsAux_expands items1 0 [] [] items2 labels2 h2)
  have e2a := e2.trans (aliases_expands items2 constants)
  cases h3 : maybeCompress H compress (resolveRegisterAliases items2 constants) constants labels2 with
  | error e => simp [h3] at h
  | ok r3 =>
  obtain ⟨items3, labels3⟩ := r3
  simp only [h3] at h
  have e3 := e2a.trans (C09.maybeCompress_expands H compress _ constants labels2 items3 labels3 h3)
  cases h4 : transformPseudo H items3 constants labels3 with
  | error e => simp [h4] at h
  | ok r4 =>
  obtain ⟨items4, labels4⟩ := r4
  simp only [h4] at h
  have e4 := e3.trans (walk_expands (pseudoBody_img H constants) items3 0 labels3 items4 labels4 h4)
  have e5 := e4.trans (aliases_expands items4 constants)
  cases h6 : maybeCompress H compress (resolveRegisterAliases items4 constants) constants labels4 with
  | error e => simp [h6] at h
  | ok r6 =>
  obtain ⟨items6, labels6⟩ := r6
  simp only [h6] at h
  have e6 := e5.trans (C09.maybeCompress_expands H compress _ constants labels4 items6 labels6 h6)
  cases h7 : resolveAligns items6 labels6 with
  | error e => simp [h7] at h
  | ok r7 =>
  obtain ⟨items7, labels7⟩ := r7
  simp only [h7] at h
  have e7 := e6.trans (walk_expands alignBody_img items6 0 labels6 items7 labels7 h7)
  cases h8 : resolveImmediates H items7 constants labels7 with
  | error e => simp [h8] at h
  | ok items8 =>
  simp only [h8] at h
  unfold resolveImmediates at h8
  simp only [bind, Except.bind] at h8
  cases h8w : walk (immBody H constants) items7 0 labels7 with
  | error e => simp [h8w] at h8
  | ok r8 =>
  obtain ⟨o8, l8⟩ := r8
  simp only [h8w, pure, Except.pure, Except.ok.injEq] at h8
  subst h8
  obtain ⟨_, hrel⟩ := C08.imm_walk_positions H constants items7 0 labels7 o8 l8 h8w
  cases h9 : resolveInstructions o8 with
  | error e => simp [h9] at h
  | ok items9 =>
  simp only [h9] at h
  cases h11 : resolveSequences (resolveStrings items9) with
  | error e => simp [h11] at h
  | ok items11 =>
  simp only [h11] at h
  cases h12 : transformShorthandPacks items11 with
  | error e => simp [h12] at h
  | ok items12 =>
  simp only [h12] at h
  cases h13 : resolvePacks items12 with
  | error e => simp [h13] at h
  | ok items13 =>
  simp only [h13] at h
  cases h14 : resolveIncludeBytes H items13 with
  | error e => simp [h14] at h
  | ok items14 =>
  simp only [h14] at h
  cases h15 : resolveBlobs items14 with
  | error e => simp [h15] at h
  | ok bytes =>
  simp only [h15, pure, Except.pure, Except.ok.injEq] at h
  obtain ⟨hb1, hb2⟩ := C09.resolveBlobs_bytes items14 bytes h15
  have p9 := mapM_pw o8 items9 h9
  have p10 : Pw (fun a b => b = stringStep a) items9 (resolveStrings items9) := map_pw stringStep items9
  have p11 := mapM_pw _ items11 h11
  have p12 := mapM_pw _ items12 h12
  have p13 := mapM_pw _ items13 h13
  have p14 := mapM_pw _ items14 h14
  have pall := ((((p9.comp p10).comp p11).comp p12).comp p13).comp p14
  have pfin : Pw (Finish H) o8 items14 := by
    refine Pw.mono ?_ pall
    rintro a z ⟨f, ⟨e, ⟨d, ⟨c, ⟨b, hb, hc⟩, hd⟩, he⟩, hf⟩, hz⟩
    subst hc
    exact ⟨b, d, e, f, hb, hd, he, hf, hz⟩
  have hlay : BB.Props.C04.layoutOf H compress items
      = .ok ⟨items6, items7, constants, labels7⟩ := by
    simp only [BB.Props.C04.layoutOf, bind, Except.bind, h1, h2, h3, h4, h6, h7, pure, Except.pure]
  refine ⟨⟨items6, items7, constants, labels7⟩, items14, hlay, by rw [← h], by rw [← h], e7, ?_, by rw [← h]; exact hb2⟩
  rw [← h]
  exact land_of hrel pfin hb1

/-! ### reading the relation -/

theorem drop_len_add (d R : List Nat) (n : Nat) : (d ++ R).drop (d.length + n) = R.drop n := by
  induction d with
  | nil => simp
  | cons a t ih =>
    have e : (a :: t).length + n = (t.length + n) + 1 := by simp only [List.length_cons]; omega
    rw [e, List.cons_append, List.drop_succ_cons, ih]

/-- item i sits at byte offset `off` = number of bytes of the blobs before it; its blob is the slice of
    the output at `off` -/
theorem Land.at {H : Hooks} {constants L : Dict} {p : Int} {items out : List Item}
    (h : Land H constants L p items out) : ∀ (i : Nat) (hi : i < items.length),
    ∃ it' line d, out[i]? = some (.blob line d) ∧
      immBody H constants items[i] (p + ((blobBytes (out.take i)).length : Int)) L = .ok ([it'], 0) ∧
      Finish H it' (.blob line d) ∧
      ((blobBytes out).drop (blobBytes (out.take i)).length).take d.length = d := by
  induction h with
  | nil p => intro i hi; simp at hi
  | @step p it it' line d rest out hbody hfin hlen _ ih =>
    intro i hi
    cases i with
    | zero =>
      refine ⟨it', line, d, rfl, ?_, hfin, ?_⟩
      · simpa [blobBytes] using hbody
      · simp [blobBytes]
    | succ j =>
      obtain ⟨it2, line2, d2, g1, g2, g3, g4⟩ := ih j (by simpa using hi)
      refine ⟨it2, line2, d2, by simpa using g1, ?_, g3, ?_⟩
      · have e : p + ((blobBytes ((Item.blob line d :: out).take (j + 1))).length : Int)
            = p + (d.length : Int) + ((blobBytes (out.take j)).length : Int) := by
          simp only [List.take_succ_cons, blobBytes_cons_blob, List.length_append]
          push_cast; omega
        rw [e]; simpa using g2
      · simp only [List.take_succ_cons, blobBytes_cons_blob, List.length_append]
        rw [drop_len_add]
        exact g4

/-- the blob of item i has exactly the size the item has in the list -/
theorem Land.size_at {H : Hooks} {constants L : Dict} {p : Int} {items out : List Item}
    (h : Land H constants L p items out) : ∀ (i : Nat) (hi : i < items.length) line d,
    out[i]? = some (.blob line d) → (d.length : Int) = (items[i]).sizeD := by
  induction h with
  | nil p => intro i hi; simp at hi
  | @step p it it' line d rest out hbody hfin hlen _ ih =>
    intro i hi line2 d2 ho
    cases i with
    | zero =>
      simp only [List.getElem?_cons_zero, Option.some.injEq, Item.blob.injEq] at ho
      obtain ⟨_, rfl⟩ := ho
      simpa using hlen
    | succ j =>
      simp only [List.getElem?_cons_succ] at ho
      simpa using ih j (by simpa using hi) line2 d2 ho

/-- the two lists have the same length -/
theorem Land.length_eq {H : Hooks} {constants L : Dict} {p : Int} {items out : List Item}
    (h : Land H constants L p items out) : out.length = items.length := by
  induction h with
  | nil p => rfl
  | step p _ _ _ _ ih => simp [ih]

/-- the byte offset of item i in the output is the sum of the sizes of the items in front of it -/
theorem Land.offset {H : Hooks} {constants L : Dict} {p : Int} {items out : List Item}
    (h : Land H constants L p items out) : ∀ (i : Nat),
    ((blobBytes (out.take i)).length : Int) = sizeSum (items.take i) := by
  induction h with
  | nil p => intro i; simp [blobBytes, sizeSum]
  | @step p it it' line d rest out hbody hfin hlen _ ih =>
    intro i
    cases i with
    | zero => simp [blobBytes, sizeSum]
    | succ j =>
      simp only [List.take_succ_cons, blobBytes_cons_blob, List.length_append, sizeSum_cons]
      push_cast
      rw [ih j, hlen]

theorem step_branch {H : Hooks} {constants L : Dict} {p : Int} {line line' : Line} {name : String}
    {rs1 rs2 : RegOp} {ref : String} {it' : Item} {bs : List Nat} {o : BrOp} {op f3 : Nat}
    (hbody : immBody H constants (.instr line (.b name rs1 rs2 (.offset ref))) p L = .ok ([it'], 0))
    (hfin : Finish H it' (.blob line' bs))
    (hrow : instrTable.lookup name = some (.b op f3)) (hc : classOf name = some (.br o)) :
    ∃ w r1 r2 v d, bs = leBytes 4 w ∧ decode32 w = some (.branch o r1 r2 v) ∧
      lookupRegister rs1 = some r1 ∧ lookupRegister rs2 = some r2 ∧
      chainGet constants L ref = some d ∧ p + v = d := by
  obtain ⟨b, d0, e0, f0, h1, _⟩ := id hfin
  obtain ⟨w, r1, r2, v, d, hb, hdec, hr1, hr2, hd, hpv⟩ :=
    branch_lands H constants L line name rs1 rs2 ref p o op f3 hrow hc it' b hbody h1
  have := finish_of_blob hfin (by rw [h1, hb])
  simp only [Item.blob.injEq] at this
  exact ⟨w, r1, r2, v, d, this.2, hdec, hr1, hr2, hd, hpv⟩

theorem step_jal {H : Hooks} {constants L : Dict} {p : Int} {line line' : Line} {name : String}
    {rd : RegOp} {ref : String} {it' : Item} {bs : List Nat} {op : Nat}
    (hbody : immBody H constants (.instr line (.j name rd (.offset ref))) p L = .ok ([it'], 0))
    (hfin : Finish H it' (.blob line' bs))
    (hrow : instrTable.lookup name = some (.j op)) (hc : classOf name = some .jal) :
    ∃ w r v d, bs = leBytes 4 w ∧ decode32 w = some (.jal r v) ∧ lookupRegister rd = some r ∧
      chainGet constants L ref = some d ∧ p + v = d := by
  obtain ⟨b, d0, e0, f0, h1, _⟩ := id hfin
  obtain ⟨w, r, v, d, hb, hdec, hr, hd, hpv⟩ :=
    jal_lands H constants L line name rd ref p op hrow hc it' b hbody h1
  have := finish_of_blob hfin (by rw [h1, hb])
  simp only [Item.blob.injEq] at this
  exact ⟨w, r, v, d, this.2, hdec, hr, hd, hpv⟩

theorem step_cj {H : Hooks} {constants L : Dict} {p : Int} {line line' : Line} {name : String}
    {c : CMn} {ref : String} {it' : Item} {bs : List Nat}
    (hbody : immBody H constants (.instr line (.cj name (.offset ref))) p L = .ok ([it'], 0))
    (hfin : Finish H it' (.blob line' bs))
    (hc : classOf16 name = some c) (hcj : c = .j ∨ c = .jal) :
    ∃ w v d, bs = leBytes 2 w ∧ decode16 w = some (if c = .j then CInstr.j v else CInstr.jal v) ∧
      chainGet constants L ref = some d ∧ p + v = d := by
  obtain ⟨b, d0, e0, f0, h1, _⟩ := id hfin
  obtain ⟨w, v, d, hb, hdec, hd, hpv⟩ := cj_lands H constants L line name c ref p hc hcj it' b hbody h1
  have := finish_of_blob hfin (by rw [h1, hb])
  simp only [Item.blob.injEq] at this
  exact ⟨w, v, d, this.2, hdec, hd, hpv⟩

theorem step_cb {H : Hooks} {constants L : Dict} {p : Int} {line line' : Line} {name : String}
    {c : CMn} {rs1 : RegOp} {ref : String} {it' : Item} {bs : List Nat}
    (hbody : immBody H constants (.instr line (.cb name rs1 (.offset ref))) p L = .ok ([it'], 0))
    (hfin : Finish H it' (.blob line' bs))
    (hc : classOf16 name = some c) (hcb : c = .beqz ∨ c = .bnez) :
    ∃ w r v d, bs = leBytes 2 w ∧
      decode16 w = some (if c = .beqz then CInstr.beqz r v else CInstr.bnez r v) ∧
      lookupRegister rs1 = some r ∧ chainGet constants L ref = some d ∧ p + v = d := by
  obtain ⟨b, d0, e0, f0, h1, _⟩ := id hfin
  obtain ⟨w, r, v, d, hb, hdec, hr, hd, hpv⟩ :=
    cb_lands H constants L line name c rs1 ref p hc hcb it' b hbody h1
  have := finish_of_blob hfin (by rw [h1, hb])
  simp only [Item.blob.injEq] at this
  exact ⟨w, r, v, d, this.2, hdec, hr, hd, hpv⟩

/-- **Every conditional branch of a successful assembly lands.**  If, after resolve_aligns, item i is
    `b<cond> rs1, rs2, ref`, then the four output bytes at the item's byte offset `off` are the word of a
    branch (as decoded by the specification) whose target `off + v` is the value of `ref` in the
    returned tables. -/
theorem assemble_branch_lands (H : Hooks) (compress : Bool) (items : List Item) (r : AsmResult)
    (h : assembleItems H compress items [] [] = .ok r) :
    ∃ lay out, Frame H compress items r lay out ∧
      ∀ (i : Nat) (hi : i < lay.aligned.length) line name rs1 rs2 ref o op f3,
        lay.aligned[i] = .instr line (.b name rs1 rs2 (.offset ref)) →
        instrTable.lookup name = some (.b op f3) → classOf name = some (.br o) →
        ∃ w r1 r2 v d, (r.bytes.drop (blobBytes (out.take i)).length).take 4 = leBytes 4 w ∧
          decode32 w = some (.branch o r1 r2 v) ∧
          lookupRegister rs1 = some r1 ∧ lookupRegister rs2 = some r2 ∧
          chainGet r.constants r.labels ref = some d ∧
          ((blobBytes (out.take i)).length : Int) + v = d := by
  obtain ⟨lay, out, hF⟩ := assemble_land H compress items r h
  have hland := hF.land
  have hbytes := hF.bytes
  refine ⟨lay, out, hF, ?_⟩
  intro i hi line name rs1 rs2 ref o op f3 hit hrow hc
  obtain ⟨it', line', d, _, hbody, hfin, hslice⟩ := hland.at i hi
  rw [hit] at hbody
  obtain ⟨w, r1, r2, v, dd, hb, hdec, hr1, hr2, hd, hpv⟩ := step_branch hbody hfin hrow hc
  refine ⟨w, r1, r2, v, dd, ?_, hdec, hr1, hr2, hd, by simpa using hpv⟩
  rw [hbytes]
  have hl : d.length = 4 := by rw [hb, leBytes_length]
  rw [hl] at hslice
  rw [hslice]; exact hb

/-- same for `jal rd, ref` (and `j`, `jal ref`, near `call` / `tail`, which expand to it) -/
theorem assemble_jal_lands (H : Hooks) (compress : Bool) (items : List Item) (r : AsmResult)
    (h : assembleItems H compress items [] [] = .ok r) :
    ∃ lay out, Frame H compress items r lay out ∧
      ∀ (i : Nat) (hi : i < lay.aligned.length) line name rd ref op,
        lay.aligned[i] = .instr line (.j name rd (.offset ref)) →
        instrTable.lookup name = some (.j op) → classOf name = some .jal →
        ∃ w rr v d, (r.bytes.drop (blobBytes (out.take i)).length).take 4 = leBytes 4 w ∧
          decode32 w = some (.jal rr v) ∧ lookupRegister rd = some rr ∧
          chainGet r.constants r.labels ref = some d ∧
          ((blobBytes (out.take i)).length : Int) + v = d := by
  obtain ⟨lay, out, hF⟩ := assemble_land H compress items r h
  have hland := hF.land
  have hbytes := hF.bytes
  refine ⟨lay, out, hF, ?_⟩
  intro i hi line name rd ref op hit hrow hc
  obtain ⟨it', line', d, _, hbody, hfin, hslice⟩ := hland.at i hi
  rw [hit] at hbody
  obtain ⟨w, rr, v, dd, hb, hdec, hr, hd, hpv⟩ := step_jal hbody hfin hrow hc
  refine ⟨w, rr, v, dd, ?_, hdec, hr, hd, by simpa using hpv⟩
  rw [hbytes]
  have hl : d.length = 4 := by rw [hb, leBytes_length]
  rw [hl] at hslice
  rw [hslice]; exact hb

/-- same for the compressed jumps and branches chosen by -c -/
theorem assemble_compressed_lands (H : Hooks) (compress : Bool) (items : List Item) (r : AsmResult)
    (h : assembleItems H compress items [] [] = .ok r) :
    ∃ lay out, Frame H compress items r lay out ∧
      (∀ (i : Nat) (hi : i < lay.aligned.length) line name ref c,
        lay.aligned[i] = .instr line (.cj name (.offset ref)) → classOf16 name = some c → (c = .j ∨ c = .jal) →
        ∃ w v d, (r.bytes.drop (blobBytes (out.take i)).length).take 2 = leBytes 2 w ∧
          decode16 w = some (if c = .j then CInstr.j v else CInstr.jal v) ∧
          chainGet r.constants r.labels ref = some d ∧
          ((blobBytes (out.take i)).length : Int) + v = d) ∧
      (∀ (i : Nat) (hi : i < lay.aligned.length) line name rs1 ref c,
        lay.aligned[i] = .instr line (.cb name rs1 (.offset ref)) → classOf16 name = some c →
        (c = .beqz ∨ c = .bnez) →
        ∃ w rr v d, (r.bytes.drop (blobBytes (out.take i)).length).take 2 = leBytes 2 w ∧
          decode16 w = some (if c = .beqz then CInstr.beqz rr v else CInstr.bnez rr v) ∧
          lookupRegister rs1 = some rr ∧ chainGet r.constants r.labels ref = some d ∧
          ((blobBytes (out.take i)).length : Int) + v = d) := by
  obtain ⟨lay, out, hF⟩ := assemble_land H compress items r h
  have hland := hF.land
  have hbytes := hF.bytes
  refine ⟨lay, out, hF, ?_, ?_⟩
  · intro i hi line name ref c hit hc hcj
    obtain ⟨it', line', d, _, hbody, hfin, hslice⟩ := hland.at i hi
    rw [hit] at hbody
    obtain ⟨w, v, dd, hb, hdec, hd, hpv⟩ := step_cj hbody hfin hc hcj
    refine ⟨w, v, dd, ?_, hdec, hd, by simpa using hpv⟩
    rw [hbytes]
    have hl : d.length = 2 := by rw [hb, leBytes_length]
    rw [hl] at hslice
    rw [hslice]; exact hb
  · intro i hi line name rs1 ref c hit hc hcb
    obtain ⟨it', line', d, _, hbody, hfin, hslice⟩ := hland.at i hi
    rw [hit] at hbody
    obtain ⟨w, rr, v, dd, hb, hdec, hr, hd, hpv⟩ := step_cb hbody hfin hc hcb
    refine ⟨w, rr, v, dd, ?_, hdec, hr, hd, by simpa using hpv⟩
    rw [hbytes]
    have hl : d.length = 2 := by rw [hb, leBytes_length]
    rw [hl] at hslice
    rw [hslice]; exact hb

/-! ### far call / tail: the auipc + jalr pair -/

theorem step_auipc {H : Hooks} {constants L : Dict} {p : Int} {line line' : Line} {rd : RegOp}
    {ref : String} {it' : Item} {bs : List Nat}
    (hbody : immBody H constants (.instr line (.u "auipc" rd (.hi (.offset ref)))) p L = .ok ([it'], 0))
    (hfin : Finish H it' (.blob line' bs)) :
    ∃ w ra d, bs = leBytes 4 w ∧
      decode32 w = some (.auipc ra (relocateHi (d - p) % 1048576).toNat) ∧
      lookupRegister rd = some ra ∧ chainGet constants L ref = some d := by
  obtain ⟨v, hv, rfl⟩ := C08.instr_item_value H constants L line _ (.hi (.offset ref)) p it' rfl hbody
  simp only [Instr.isAuipcJump, Bool.false_eq_true, if_false] at hv
  obtain ⟨x, hx, rfl⟩ := C08.hi_value H _ line _ p v hv
  obtain ⟨d, hd, rfl⟩ := C08.offset_value H _ line ref p x hx
  obtain ⟨b, d0, e0, f0, h1, _⟩ := id hfin
  obtain ⟨args, w, hargs, henc, hout⟩ := instrStep_bytes h1
  simp only [Instr.setImm, Instr.args, Option.some.injEq] at hargs
  subst hargs
  simp only [Instr.setImm, Instr.name] at henc
  obtain ⟨ops, hden, hleg, hlt, hsome, hdec⟩ :=
    C01.encode32_sound "auipc" (.u 0b0010111) (by decide) rfl _ w henc
  simp only [C01.denote32, C01.denoteReg, bind, Option.bind] at hden
  cases hr : lookupRegister rd with
  | none => simp [hr] at hden
  | some ra =>
    simp only [hr, Option.map_some, pure, Option.some.injEq] at hden
    subst hden
    have hcl : classOf "auipc" = some .auipc := by decide
    simp only [intent32, hcl, intentOf] at hdec
    have hz := finish_of_blob hfin (by rw [h1, hout])
    simp only [Item.blob.injEq] at hz
    refine ⟨w, ra, d, ?_, hdec, rfl, hd⟩
    simpa [Instr.setImm, Instr.isCompressed] using hz.2

theorem step_jalr_pair {H : Hooks} {constants L : Dict} {p : Int} {line line' : Line} {rd rs : RegOp}
    {ref : String} {it' : Item} {bs : List Nat}
    (hbody : immBody H constants (.instr line (.i "jalr" rd rs (.lo (.offset ref)) true)) p L = .ok ([it'], 0))
    (hfin : Finish H it' (.blob line' bs)) :
    ∃ w r1 r2 d, bs = leBytes 4 w ∧ decode32 w = some (.jalr r1 r2 (relocateLo (d - (p - 4)))) ∧
      lookupRegister rd = some r1 ∧ lookupRegister rs = some r2 ∧ chainGet constants L ref = some d ∧
      (d - (p - 4)) % 2 = 0 := by
  obtain ⟨v, hv, rfl⟩ := C08.instr_item_value H constants L line _ (.lo (.offset ref)) p it' rfl hbody
  simp only [Instr.isAuipcJump, if_true] at hv
  obtain ⟨x, hx, rfl⟩ := C08.lo_value H _ line _ (p - 4) v hv
  obtain ⟨d, hd, rfl⟩ := C08.offset_value H _ line ref (p - 4) x hx
  obtain ⟨b, d0, e0, f0, h1, _⟩ := id hfin
  obtain ⟨args, w, hargs, henc, hout⟩ := instrStep_bytes h1
  simp only [Instr.setImm, Instr.args, Option.some.injEq] at hargs
  subst hargs
  simp only [Instr.setImm, Instr.name] at henc
  obtain ⟨ops, hden, hleg, hlt, hsome, hdec⟩ :=
    C01.encode32_sound "jalr" (.ij 0b1100111 0b000) (by decide) rfl _ w henc
  simp only [C01.denote32, C01.denoteReg, bind, Option.bind] at hden
  cases hr1 : lookupRegister rd with
  | none => simp [hr1] at hden
  | some r1 =>
    cases hr2 : lookupRegister rs with
    | none => simp [hr1, hr2] at hden
    | some r2 =>
      simp only [hr1, hr2, Option.map_some, pure, Option.some.injEq] at hden
      subst hden
      have hcl : classOf "jalr" = some .jalr := by decide
      simp only [intent32, hcl, intentOf] at hdec
      have hz := finish_of_blob hfin (by rw [h1, hout])
      simp only [Item.blob.injEq] at hz
      -- the encoder accepts a jalr immediate only if it is even (reference: "12-bit MO2")
      have hev : relocateLo (d - (p - 4)) % 2 = 0 := by
        simp only [legal32, hcl, legalOf, multOf, Bool.and_eq_true, decide_eq_true_eq] at hleg
        exact hleg.2
      have hev' : (d - (p - 4)) % 2 = 0 := by
        rw [BB.Lemmas.relocateLo_eq] at hev
        omega
      refine ⟨w, r1, r2, d, ?_, hdec, rfl, rfl, hd, hev'⟩
      simpa [Instr.setImm, Instr.isCompressed] using hz.2

/-- **A far call / tail lands.**  If, after resolve_aligns, items i and i + 1 are the `auipc` and the
    marked `jalr` of one far call / tail to `ref`, the eight output bytes at the auipc's byte offset
    `off` decode to `auipc ra, f` and `jalr r1, lo(r2)` with `off + (f << 12) + lo ≡ value of ref`
    modulo 2³² — what the machine computes for the jump target when r2 = ra; the distance
    `value of ref - off` is EVEN (the encoder refuses an odd jalr immediate, so bit 0, which jalr clears,
    is 0 and nothing is lost); and `r2 = ra` whenever the pair names the same register operand
    (`rsJ = rdA`), which is what `transform_pseudo_instructions` generates for every far `call` (x1) and
    `tail` (x6).  (For a hand-made item pair with DIFFERENT operands the jalr is relative to another
    register and nothing about the jump target follows; the statement does not claim it.) -/
theorem assemble_far_pair_lands (H : Hooks) (compress : Bool) (items : List Item) (r : AsmResult)
    (h : assembleItems H compress items [] [] = .ok r) :
    ∃ lay out, Frame H compress items r lay out ∧
      ∀ (i : Nat) (hi : i + 1 < lay.aligned.length) lineA lineJ rdA rdJ rsJ ref,
        lay.aligned[i] = .instr lineA (.u "auipc" rdA (.hi (.offset ref))) →
        lay.aligned[i + 1] = .instr lineJ (.i "jalr" rdJ rsJ (.lo (.offset ref)) true) →
        ∃ wa wj ra r1 r2 f lo d,
          (r.bytes.drop (blobBytes (out.take i)).length).take 4 = leBytes 4 wa ∧
          (r.bytes.drop ((blobBytes (out.take i)).length + 4)).take 4 = leBytes 4 wj ∧
          decode32 wa = some (.auipc ra f) ∧ decode32 wj = some (.jalr r1 r2 lo) ∧
          lookupRegister rdA = some ra ∧ lookupRegister rdJ = some r1 ∧ lookupRegister rsJ = some r2 ∧
          chainGet r.constants r.labels ref = some d ∧
          ((((blobBytes (out.take i)).length : Int) + (((f : Int) * 4096) % 4294967296 + lo)) % 4294967296
            = d % 4294967296) ∧
          (d - ((blobBytes (out.take i)).length : Int)) % 2 = 0 ∧
          (rsJ = rdA → r2 = ra) := by
  obtain ⟨lay, out, hF⟩ := assemble_land H compress items r h
  have hland := hF.land
  have hbytes := hF.bytes
  refine ⟨lay, out, hF, ?_⟩
  intro i hi lineA lineJ rdA rdJ rsJ ref hA hJ
  obtain ⟨itA, lA, dA, hoA, hbodyA, hfinA, hsliceA⟩ := hland.at i (by omega)
  obtain ⟨itJ, lJ, dJ, hoJ, hbodyJ, hfinJ, hsliceJ⟩ := hland.at (i + 1) hi
  rw [hA] at hbodyA
  rw [hJ] at hbodyJ
  obtain ⟨wa, ra, d, hbA, hdecA, hrA, hdA⟩ := step_auipc hbodyA hfinA
  obtain ⟨wj, r1, r2, d', hbJ, hdecJ, hr1, hr2, hdJ, hevJ⟩ := step_jalr_pair hbodyJ hfinJ
  rw [hdA] at hdJ
  have hdd : d' = d := (Option.some.inj hdJ).symm
  subst hdd
  -- the jalr sits 4 bytes after the auipc
  have hlA : dA.length = 4 := by rw [hbA, leBytes_length]
  have hlJ : dJ.length = 4 := by rw [hbJ, leBytes_length]
  have htake : blobBytes (out.take (i + 1)) = blobBytes (out.take i) ++ dA := by
    have hi' : i < out.length := by
      rcases Nat.lt_or_ge i out.length with hlt | hge
      · exact hlt
      · rw [List.getElem?_eq_none hge] at hoA; cases hoA
    rw [List.take_succ, blobBytes_append, hoA]
    simp [blobBytes]
  have hoff : (blobBytes (out.take (i + 1))).length = (blobBytes (out.take i)).length + 4 := by
    rw [htake, List.length_append, hlA]
  rw [hoff] at hsliceJ hbodyJ
  have e1 : (0 : Int) + ((blobBytes (out.take i)).length : Int) = ((blobBytes (out.take i)).length : Int) := by omega
  have e2 : (0 : Int) + (((blobBytes (out.take i)).length + 4 : Nat) : Int) - 4
      = ((blobBytes (out.take i)).length : Int) := by push_cast; omega
  rw [e1] at hdecA
  rw [hoff] at hdecJ hevJ
  rw [e2] at hdecJ hevJ
  refine ⟨wa, wj, ra, r1, r2, (relocateHi (d' - ((blobBytes (out.take i)).length : Int)) % 1048576).toNat,
    relocateLo (d' - ((blobBytes (out.take i)).length : Int)), d', ?_, ?_, hdecA, hdecJ, hrA, hr1, hr2, hdA, ?_,
    hevJ, ?_⟩
  · rw [hbytes]; rw [hlA] at hsliceA; rw [hsliceA]; exact hbA
  · rw [hbytes]; rw [hlJ] at hsliceJ; rw [hsliceJ]; exact hbJ
  · have hnn : 0 ≤ relocateHi (d' - ((blobBytes (out.take i)).length : Int)) % 1048576 :=
      Int.emod_nonneg _ (by omega)
    have hf : ((relocateHi (d' - ((blobBytes (out.take i)).length : Int)) % 1048576).toNat : Int)
        = relocateHi (d' - ((blobBytes (out.take i)).length : Int)) % 1048576 := Int.toNat_of_nonneg hnn
    have hp := C07.pair_rebuilds (d' - ((blobBytes (out.take i)).length : Int))
    rw [hf]
    omega
  · intro e
    rw [e, hrA] at hr2
    exact (Option.some.inj hr2).symm

/-! ### The statements are not vacuous

A little program with two labels, a branch, a near call, a backward jump, a branch on zero, data, an
alignment and a `ret`.  It assembles in both modes, and the layout `layoutOf` computes for it holds the
patterns the theorems above speak about (so their ∀ has instances): without -c a `beq` at index 0 and a
`jal` at 1 and 2; with -c additionally `c.j` at 2 and `c.beqz` at 3. -/

def sampleLine (n : Nat) (s : String) : Line := ⟨"m.asm", n, s⟩

def sample : List Item :=
  [.label (sampleLine 1 "start:") "start",
   .instr (sampleLine 2 "beq x1, x2, end") (.b "beq" (.str "x1") (.str "x2") (.offset "end")),
   .pseudo (sampleLine 3 "call end") "call" ["end"],
   .pseudo (sampleLine 4 "j start") "j" ["start"],
   .pseudo (sampleLine 5 "beqz x8, start") "beqz" ["x8", "start"],
   .shorthandPack (sampleLine 6 "db 1") "db" (.arith "1"),
   .align (sampleLine 7 "align 4") 4,
   .shorthandPack (sampleLine 8 "dw end") "dw" (.arith "end"),
   .string (sampleLine 9 "string hi") "hi",
   .label (sampleLine 10 "end:") "end",
   .pseudo (sampleLine 11 "ret") "ret" []]

example : (assembleItems (textHooks ⟨[], []⟩) false sample [] []).toOption.map
      (fun r => (r.bytes.length, r.labels)) = some (30, [("start", 0), ("end", 26)]) := by decide +kernel

example : (assembleItems (textHooks ⟨[], []⟩) true sample [] []).toOption.map
      (fun r => (r.bytes.length, r.labels)) = some (24, [("start", 0), ("end", 22)]) := by decide +kernel

example : (BB.Props.C04.layoutOf (textHooks ⟨[], []⟩) false sample).toOption.map
      (fun l => (l.aligned[0]?, l.aligned[1]?, l.aligned[2]?)) = some
      (some (.instr (sampleLine 2 "beq x1, x2, end") (.b "beq" (.str "x1") (.str "x2") (.offset "end"))),
       some (.instr (sampleLine 3 "call end") (.j "jal" (.str "x1") (.offset "end"))),
       some (.instr (sampleLine 4 "j start") (.j "jal" (.str "x0") (.offset "start")))) := by decide +kernel

example : (BB.Props.C04.layoutOf (textHooks ⟨[], []⟩) true sample).toOption.map
      (fun l => (l.aligned[0]?, l.aligned[2]?, l.aligned[3]?)) = some
      (some (.instr (sampleLine 2 "beq x1, x2, end") (.b "beq" (.str "x1") (.str "x2") (.offset "end"))),
       some (.instr (sampleLine 4 "j start") (.cj "c.j" (.offset "start"))),
       some (.instr (sampleLine 5 "beqz x8, start") (.cb "c.beqz" (.str "x8") (.offset "start")))) := by decide +kernel

/-- the hypothesis `NonNeg items` of `assemble_layout` holds for it -/
example : NonNeg sample := by
  unfold NonNeg
  decide +kernel

end BB.Props.C03
