/-
  BB.Props.C08 — label arithmetic uses final addresses.

  `resolve_immediates` is the single place where immediates are evaluated.  `imm_walk_positions` shows
  that in that walk every item is evaluated at its own position in the layout (the number of bytes
  of the items before it — all sizes are final by then, `assemble_layout`) and against ONE label
  table, the one the walk started with and ended with (no label moves: n = 0), which
  `assemble_layout` proves to be the table of final byte offsets.  `offset_value`, `position_value`,
  `hi_value` / `lo_value` then read off the modifiers.  A BARE label `L` is no modifier: it is the
  arithmetic text `L`, handed to `H.arith`; that its value is `env L` is `C11.eval_name` at the level
  of syntax trees, and holds for the text evaluator on each concrete name by evaluation (e.g.
  `C11.k16`); there is no general theorem `evalArith L env = env L` for every identifier `L` here.
-/
import BB.Lemmas.Final
namespace BB.Props.C08
open BB BB.Lemmas

/-- `ImmRel f L p G G'`: G' is G with every non-marker item `it` replaced by the single item that the
    loop body produces for it AT ITS OWN LAYOUT POSITION (start p, sizes as in G) with labels L -/
inductive ImmRel (f : Item → Int → Dict → Except Err (List Item × Int)) (L : Dict) :
    Int → List Item → List Item → Prop where
  | nil (p : Int) : ImmRel f L p [] []
  | label (p : Int) (line : Line) (n : String) {G G' : List Item} :
      ImmRel f L p G G' → ImmRel f L p (.label line n :: G) (.label line n :: G')
  | step (p : Int) (it it' : Item) {G G' : List Item} :
      (∀ line n, it ≠ .label line n) → f it p L = .ok ([it'], 0) → it'.sizeD = it.sizeD →
      ImmRel f L (p + it.sizeD) G G' → ImmRel f L p (it :: G) (it' :: G')

theorem immBody_single (H : Hooks) (constants : Dict) (it : Item) (p : Int) (L : Dict)
    (repl : List Item) (n : Int) (hnl : ∀ line nm, it ≠ .label line nm)
    (h : immBody H constants it p L = .ok (repl, n)) :
    ∃ it', repl = [it'] ∧ n = 0 ∧ it'.sizeD = it.sizeD := by
  cases it with
  | instr line ins =>
    simp only [immBody] at h
    cases himm : ins.imm? with
    | none =>
      simp only [himm] at h
      obtain ⟨rfl, rfl⟩ := keepItem_ok h
      exact ⟨_, rfl, rfl, rfl⟩
    | some imm =>
      simp only [himm, bind, Except.bind] at h
      split at h
      · simp at h
      · simp only [pure, Except.pure, Except.ok.injEq, Prod.mk.injEq] at h
        obtain ⟨rfl, rfl⟩ := h
        refine ⟨_, rfl, rfl, ?_⟩
        simp [Item.sizeD, Item.size?, Instr.size, setImm_isCompressed]
  | pack line fmt imm =>
    simp only [immBody, bind, Except.bind] at h
    split at h
    · simp at h
    · split at h
      · simp at h
      · simp only [pure, Except.pure, Except.ok.injEq, Prod.mk.injEq] at h
        obtain ⟨rfl, rfl⟩ := h
        exact ⟨_, rfl, rfl, by simp [Item.sizeD, Item.size?]⟩
  | shorthandPack line name imm =>
    simp only [immBody, bind, Except.bind] at h
    split at h
    · simp at h
    · split at h
      · simp at h
      · simp only [pure, Except.pure, Except.ok.injEq, Prod.mk.injEq] at h
        obtain ⟨rfl, rfl⟩ := h
        exact ⟨_, rfl, rfl, by simp [Item.sizeD, Item.size?]⟩
  | label l nm => exact absurd rfl (hnl l nm)
  | _ =>
    obtain ⟨rfl, rfl⟩ := keepItem_ok (by simpa [immBody] using h)
    exact ⟨_, rfl, rfl, rfl⟩

/-- every item is evaluated at its own layout position, against the one (final) label table -/
theorem imm_walk_positions (H : Hooks) (constants : Dict) (G : List Item) (p : Int) (L : Dict)
    (G' : List Item) (L' : Dict)
    (h : walk (immBody H constants) G p L = .ok (G', L')) :
    L' = L ∧ ImmRel (immBody H constants) L p G G' := by
  have hL := walk_zero_labels (immBody_zero H constants) G p L G' L' h
  refine ⟨hL, ?_⟩
  clear hL
  induction G generalizing p G' L' with
  | nil =>
    simp only [walk, Except.ok.injEq, Prod.mk.injEq] at h
    obtain ⟨rfl, _⟩ := h
    exact .nil p
  | cons it rest ih =>
    by_cases hlab : ∃ line nm, it = .label line nm
    · obtain ⟨line, nm, rfl⟩ := hlab
      simp only [walk, bind, Except.bind] at h
      cases hr : walk (immBody H constants) rest p L with
      | error e => simp [hr] at h
      | ok res =>
        obtain ⟨o, l⟩ := res
        simp only [hr, pure, Except.pure, Except.ok.injEq, Prod.mk.injEq] at h
        obtain ⟨rfl, _⟩ := h
        exact .label p line nm (ih p o l hr)
    · have hnl : ∀ line nm, it ≠ .label line nm := fun line nm hh => hlab ⟨line, nm, hh⟩
      have hwalk : walk (immBody H constants) (it :: rest) p L = (do
          let (repl, n) ← immBody H constants it p L
          let (o, l) ← walk (immBody H constants) rest (p + sizeSum repl) (L.shiftAbove p n)
          pure (repl ++ o, l)) := by
        cases it <;> first | rfl | exact absurd rfl (hnl _ _)
      rw [hwalk] at h
      simp only [bind, Except.bind] at h
      cases hfb : immBody H constants it p L with
      | error e => simp [hfb] at h
      | ok fb =>
        obtain ⟨repl, n⟩ := fb
        obtain ⟨it', rfl, rfl, hsz⟩ := immBody_single H constants it p L repl n hnl hfb
        simp only [hfb, shiftAbove_zero] at h
        cases hr : walk (immBody H constants) rest (p + sizeSum [it']) L with
        | error e => simp [hr] at h
        | ok res =>
          obtain ⟨o, l⟩ := res
          simp only [hr, pure, Except.pure, Except.ok.injEq, Prod.mk.injEq] at h
          obtain ⟨rfl, _⟩ := h
          have hs : sizeSum [it'] = it.sizeD := by simp [sizeSum, hsz]
          rw [hs] at hr
          exact .step p it it' hnl hfb hsz (ih _ o l hr)

/-! ### the three modifiers, read against the label table `L` (and the constants in front of it) -/

/-- `%offset(L)` = value of L − position of the referring item -/
theorem offset_value (H : Hooks) (env : String → Option Int) (line : Line) (ref : String) (p v : Int)
    (h : Imm.eval H env line (.offset ref) p = .ok v) : ∃ d, env ref = some d ∧ v = d - p := by
  simp only [Imm.eval] at h
  cases hd : env ref with
  | none => simp [hd] at h
  | some d => simp only [hd, Except.ok.injEq] at h; exact ⟨d, rfl, h.symm⟩

/-- `%position(L, base)` = base + value of L -/
theorem position_value (H : Hooks) (env : String → Option Int) (line : Line) (ref e : String) (p v : Int)
    (h : Imm.eval H env line (.position ref e) p = .ok v) :
    ∃ d b, env ref = some d ∧ liftExpr line (H.arith e env) = .ok b ∧ v = b + d := by
  simp only [Imm.eval] at h
  cases hd : env ref with
  | none => simp [hd] at h
  | some d =>
    simp only [hd, bind, Except.bind] at h
    cases hb : liftExpr line (H.arith e env) with
    | error er => simp [hb] at h
    | ok b =>
      simp only [hb, pure, Except.pure, Except.ok.injEq] at h
      exact ⟨d, b, rfl, rfl, h.symm⟩

/-- `%hi` / `%lo` of any sub-expression are `relocate_hi` / `relocate_lo` of its value, to any nesting -/
theorem hi_value (H : Hooks) (env : String → Option Int) (line : Line) (e : Imm) (p v : Int)
    (h : Imm.eval H env line (.hi e) p = .ok v) : ∃ x, Imm.eval H env line e p = .ok x ∧ v = relocateHi x := by
  simp only [Imm.eval, bind, Except.bind] at h
  cases hx : Imm.eval H env line e p with
  | error er => simp [hx] at h
  | ok x => simp only [hx, pure, Except.pure, Except.ok.injEq] at h; exact ⟨x, rfl, h.symm⟩

theorem lo_value (H : Hooks) (env : String → Option Int) (line : Line) (e : Imm) (p v : Int)
    (h : Imm.eval H env line (.lo e) p = .ok v) : ∃ x, Imm.eval H env line e p = .ok x ∧ v = relocateLo x := by
  simp only [Imm.eval, bind, Except.bind] at h
  cases hx : Imm.eval H env line e p with
  | error er => simp [hx] at h
  | ok x => simp only [hx, pure, Except.pure, Except.ok.injEq] at h; exact ⟨x, rfl, h.symm⟩

/-- a data item `dw expr` / `pack fmt expr` stores the value of `expr` evaluated at the item's own
    position (instructions: `immBody` on `.instr`, same shape) -/
theorem data_item_value (H : Hooks) (constants L : Dict) (line : Line) (fmt : String) (imm : Imm) (p : Int)
    (it' : Item) (h : immBody H constants (.pack line fmt imm) p L = .ok ([it'], 0)) :
    ∃ v, Imm.eval H (chainGet constants L) line imm p = .ok v ∧ it' = .pack line fmt (.value v) := by
  simp only [immBody, bind, Except.bind] at h
  cases hv : Imm.eval H (chainGet constants L) line imm p with
  | error e => simp [hv] at h
  | ok v =>
    simp only [hv] at h
    split at h
    · simp at h
    · simp only [pure, Except.pure, Except.ok.injEq, Prod.mk.injEq, List.cons.injEq, and_true] at h
      exact ⟨v, rfl, h.symm⟩

/-- an instruction's immediate is evaluated at the instruction's own position — except the jalr of
    an auipc pair, which uses the position of its auipc (4 bytes before), so that %hi and %lo split
    the SAME offset (fix F3) -/
theorem instr_item_value (H : Hooks) (constants L : Dict) (line : Line) (ins : Instr) (imm : Imm) (p : Int)
    (it' : Item) (himm : ins.imm? = some imm)
    (h : immBody H constants (.instr line ins) p L = .ok ([it'], 0)) :
    ∃ v, Imm.eval H (chainGet constants L) line imm (if ins.isAuipcJump then p - 4 else p) = .ok v ∧
      it' = .instr line (ins.setImm (.value v)) := by
  simp only [immBody, himm, bind, Except.bind] at h
  cases hv : Imm.eval H (chainGet constants L) line imm (if ins.isAuipcJump then p - 4 else p) with
  | error e => simp [hv] at h
  | ok v =>
    simp only [hv, pure, Except.pure, Except.ok.injEq, Prod.mk.injEq, List.cons.injEq, and_true] at h
    exact ⟨v, rfl, h.symm⟩

/-- non-vacuity: a branch 8 bytes before its label evaluates %offset to 8 -/
example : Imm.eval ⟨fun _ _ => .ok 0, fun _ _ => .ok (.value 0), fun _ => none⟩
    (chainGet [] [("L", 12)]) ⟨"f", 1, ""⟩ (.offset "L") 4 = .ok 8 := by decide

end BB.Props.C08
