/-
  BB.Props.C08End — end to end for data: in a successful assembly a `db/dh/dw/dd <expr>` item emits, at
  its own byte offset, the little-endian two's-complement bytes of the value of `<expr>` evaluated AT
  THAT OFFSET against the RETURNED label and constant tables (so `dw L` holds the final address of L,
  `dw %offset(L)` the final distance, `dw %position(L, b)` b + the final address).
-/
import BB.Props.C03End
import BB.Props.C10
namespace BB.Props.C08
open BB BB.Spec BB.Lemmas BB.Props.C03

theorem shorthand_item_value (H : Hooks) (constants L : Dict) (line : Line) (name : String) (imm : Imm)
    (p : Int) (it' : Item) (h : immBody H constants (.shorthandPack line name imm) p L = .ok ([it'], 0)) :
    ∃ v, Imm.eval H (chainGet constants L) line imm p = .ok v ∧
      it' = .shorthandPack line name (.value v) := by
  simp only [immBody, bind, Except.bind] at h
  cases hv : Imm.eval H (chainGet constants L) line imm p with
  | error e => simp [hv] at h
  | ok v =>
    simp only [hv] at h
    split at h
    · simp at h
    · simp only [pure, Except.pure, Except.ok.injEq, Prod.mk.injEq, List.cons.injEq, and_true] at h
      exact ⟨v, rfl, h.symm⟩

/-- the format chosen for a shorthand directive packs little-endian, signed exactly when negative -/
theorem shorthand_pack (name : String) (n : Nat) (v : Int) (fmt : String)
    (hn : shorthandSize name = some n) (hf : shorthandFmt name v = some fmt) :
    packFmt fmt v = .ok (packInt false (decide (v < 0)) n v) := by
  unfold shorthandSize at hn
  unfold shorthandFmt at hf
  by_cases h1 : name = "db"
  · subst h1
    simp only [if_true, Option.some.injEq] at hn
    subst hn
    by_cases hv : v < 0
    · simp [hv] at hf; subst hf; simp [packFmt, hv]
    · simp [hv] at hf; subst hf; simp [packFmt, hv]
  by_cases h2 : name = "dh"
  · subst h2
    simp only [if_true, Option.some.injEq] at hn
    simp at hn
    subst hn
    by_cases hv : v < 0
    · simp [hv] at hf; subst hf; simp [packFmt, hv]
    · simp [hv] at hf; subst hf; simp [packFmt, hv]
  by_cases h3 : name = "dw"
  · subst h3
    simp at hn
    subst hn
    by_cases hv : v < 0
    · simp [hv] at hf; subst hf; simp [packFmt, hv]
    · simp [hv] at hf; subst hf; simp [packFmt, hv]
  by_cases h4 : name = "dd"
  · subst h4
    simp at hn
    subst hn
    by_cases hv : v < 0
    · simp [hv] at hf; subst hf; simp [packFmt, hv]
    · simp [hv] at hf; subst hf; simp [packFmt, hv]
  · simp [h1, h2, h3, h4] at hn

theorem step_shorthand {H : Hooks} {constants L : Dict} {p : Int} {line line' : Line} {name : String}
    {imm : Imm} {it' : Item} {bs : List Nat} {n : Nat}
    (hbody : immBody H constants (.shorthandPack line name imm) p L = .ok ([it'], 0))
    (hfin : Finish H it' (.blob line' bs)) (hn : shorthandSize name = some n) :
    ∃ v, Imm.eval H (chainGet constants L) line imm p = .ok v ∧ bs.length = n ∧
      (∀ b ∈ bs, b < 256) ∧ (fromLE bs : Int) = v % ((2 ^ (8 * n) : Nat) : Int) := by
  obtain ⟨v, hv, rfl⟩ := shorthand_item_value H constants L line name imm p it' hbody
  obtain ⟨b, d, e, f, h1, h2, h3, h4, h5⟩ := hfin
  simp only [instrStep, pure, Except.pure, Except.ok.injEq] at h1
  subst h1
  simp only [stringStep, seqStep, pure, Except.pure, Except.ok.injEq] at h2
  subst h2
  simp only [shorthandStep] at h3
  cases hf : shorthandFmt name v with
  | none => simp [hf] at h3
  | some fmt =>
    simp only [hf, pure, Except.pure, Except.ok.injEq] at h3
    subst h3
    have hp := shorthand_pack name n v fmt hn hf
    simp only [packStep, hp, bind, Except.bind] at h4
    cases hpk : packInt false (decide (v < 0)) n v with
    | none => simp [hpk] at h4
    | some bs' =>
      simp only [hpk, pure, Except.pure, Except.ok.injEq] at h4
      subst h4
      simp only [includeBytesStep, pure, Except.pure, Except.ok.injEq, Item.blob.injEq] at h5
      obtain ⟨_, rfl⟩ := h5
      obtain ⟨g1, g2, g3⟩ := C10.packInt_le_value _ n v bs' hpk
      exact ⟨v, hv, g1, g2, g3⟩

/-- **Data that refers to labels holds final addresses.**  `lay` is the layout the inputs determine
    (`C03.Frame`).  If item `i` of `lay.aligned` - the list the pipeline holds after resolve_aligns - is
    `db / dh / dw / dd imm` of width `n`, then `imm` evaluates, at the item's byte offset against the
    RETURNED tables, to some `v`, and the `n` output bytes at that offset are `v mod 2^(8n)` little-endian. -/
theorem assemble_data_value (H : Hooks) (compress : Bool) (items : List Item) (r : AsmResult)
    (h : assembleItems H compress items [] [] = .ok r) :
    ∃ lay out, Frame H compress items r lay out ∧
      ∀ (i : Nat) (hi : i < lay.aligned.length) line name imm n,
        lay.aligned[i] = .shorthandPack line name imm → shorthandSize name = some n →
        ∃ v, Imm.eval H (chainGet r.constants r.labels) line imm ((blobBytes (out.take i)).length : Int) = .ok v ∧
          (fromLE ((r.bytes.drop (blobBytes (out.take i)).length).take n) : Int)
            = v % ((2 ^ (8 * n) : Nat) : Int) := by
  obtain ⟨lay, out, hF⟩ := assemble_land H compress items r h
  have hland := hF.land
  have hbytes := hF.bytes
  refine ⟨lay, out, hF, ?_⟩
  intro i hi line name imm n hit hn
  obtain ⟨it', line', d, _, hbody, hfin, hslice⟩ := hland.at i hi
  rw [hit] at hbody
  obtain ⟨v, hv, hl, _, hval⟩ := step_shorthand hbody hfin hn
  refine ⟨v, by simpa using hv, ?_⟩
  rw [hbytes, ← hl, hslice]
  rw [hl]; exact hval

/-- the hypothesis has instances: the layout computed for `C03.sample` holds `db 1` at index 4 and
    `dw end` (a label reference) at index 6, in both modes -/
example : ∀ c : Bool,
    (BB.Props.C04.layoutOf (textHooks ⟨[], []⟩) c sample).toOption.map
      (fun l => (l.aligned[4]?, l.aligned[6]?)) = some
      (some (.shorthandPack (sampleLine 6 "db 1") "db" (.arith "1")),
       some (.shorthandPack (sampleLine 8 "dw end") "dw" (.arith "end"))) := by
  decide +kernel

/-- and there the four bytes of `dw end` are the final value of `end`: 26 without -c (offset 20), 22 with
    -c (offset 16) -/
example : (assembleItems (textHooks ⟨[], []⟩) false sample [] []).toOption.map
      (fun r => ((r.bytes.drop 20).take 4, r.labels.get "end")) = some ([26, 0, 0, 0], some 26) ∧
    (assembleItems (textHooks ⟨[], []⟩) true sample [] []).toOption.map
      (fun r => ((r.bytes.drop 16).take 4, r.labels.get "end")) = some ([22, 0, 0, 0], some 22) := by
  decide +kernel

end BB.Props.C08
