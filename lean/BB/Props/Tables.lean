/-
  BB.Props.Tables — the model's tables equal the tables dumped from the live module
  (lean/BB/Generated/Tables.lean is rewritten from /repo on every run).
-/
import BB.Generated.Tables
namespace BB.Props.Tables
open BB

/-- every INSTRUCTIONS entry of the live module (encoder function, bound opcode / funct fields,
    bound fixed operands, constraint list) is the model's entry, and there are no others -/
theorem instrTable_matches :
    Generated.instrTable.length = instrTable.length ∧
    ∀ e ∈ Generated.instrTable, instrTable.lookup e.1 = some e.2 := by decide

/-- the string keys of REGISTERS are the model's, with the same numbers -/
theorem registers_str_match :
    Generated.registersStr.length = registersStrKeys.length ∧
    ∀ e ∈ Generated.registersStr, registersStrKeys.lookup e.1 = some e.2 := by decide

/-- the int keys of REGISTERS are 0..31 mapped to themselves -/
theorem registers_int_match :
    Generated.registersInt.length = 32 ∧
    ∀ e ∈ Generated.registersInt, regByInt e.1 = some e.2 := by decide

end BB.Props.Tables
