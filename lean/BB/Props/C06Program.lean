/-
  BB.Props.C06Program — C06 at program level, both directions.

  * `unrepresentable_refused_program` (32-bit) / `unrepresentable_refused_program16` (hand-written `c.*`):
    a literal instruction whose resolved operands are NOT `Legal` per the specification - they denote
    nothing (unknown register, …) or lie outside the documented sets - placed anywhere among good items,
    makes `assembleItems` fail with `.error (.asm line)` for that line, with and without compression:
    no output at all, nothing truncated.
  * `legal_instr_good`: a well-kinded literal instruction whose resolved operands ARE `Legal` is
    `GoodInstr H c` for both `c` - also in the form `-c` rewrites it to (C12's local theorem).
  * `good_program_assembles`: a program ALL of whose items are `GoodItem H c`, with pairwise different
    label names, assembles.  (No further hypothesis is needed: `GoodItem` has no transfer to a label - a
    `GoodInstr` resolves and encodes in EVERY context - so nothing can end up out of reach.  Programs with
    branches / jumps to labels: `C12.compress_preserves_success_program` and the landing theorems of C03End.)

  The statements speak about `legal32` / `legal16` (BB/Spec/Legal.lean, written from the ISA manual), not
  about the encoder; the bridge is `C06.accept32_iff_legal` / `accept16_iff_legal'`.
-/
import BB.Lemmas.ErrSuccess
import BB.Props.C15Program
import BB.Props.C12
import BB.Lemmas.PseudoExec
namespace BB.Props.C06
open BB BB.Spec BB.Lemmas
open BB.Props.C15 (GoodItem CompressKeepsFault encoder_fault_reported)
open BB.Props.C01 (denote32)

/-! ## the encoder's failures on well-shaped calls are ValueErrors -/

/-- fails, if at all, with a ValueError -/
def ValErr {α : Type} (r : Except EncErr α) : Prop := ∀ e, r = .error e → e = .value

theorem ValErr.ok {α : Type} {a : α} : ValErr (Except.ok a : Except EncErr α) := fun e h => by cases h
theorem ValErr.pure {α : Type} {a : α} : ValErr (Pure.pure a : Except EncErr α) := fun e h => by cases h
theorem ValErr.value {α : Type} : ValErr (Except.error .value : Except EncErr α) := fun e h => by cases h; rfl
theorem ValErr.throw {α : Type} : ValErr (throw EncErr.value : Except EncErr α) := fun e h => by cases h; rfl
theorem ValErr.bind {α β : Type} {r : Except EncErr α} {k : α → Except EncErr β} (h1 : ValErr r)
    (h2 : ∀ a, ValErr (k a)) : ValErr (r >>= k) := by
  intro e h
  cases r with
  | error e' =>
    simp only [Bind.bind, Except.bind, Except.error.injEq] at h
    subst h; exact h1 _ rfl
  | ok a => exact h2 a e h
theorem ValErr.lookR (x : RegOp) : ValErr (lookR x) := by
  unfold BB.lookR; split <;> first | exact ValErr.ok | exact ValErr.value
theorem ValErr.lookRC (x : RegOp) : ValErr (lookRC x) := by
  unfold BB.lookRC; split <;> first | exact ValErr.ok | exact ValErr.value
theorem ValErr.ofOpt (o : Option Nat) : ValErr (ofOpt o) := by
  unfold BB.ofOpt; split <;> first | exact ValErr.ok | exact ValErr.value
theorem ValErr.intOrParse (x : RegOp) : ValErr (intOrParse x) := by
  unfold BB.intOrParse
  split
  · exact ValErr.ok
  · split <;> first | exact ValErr.ok | exact ValErr.value
theorem ValErr.ite {α : Type} {c : Prop} [Decidable c] {a b : Except EncErr α} (ha : ValErr a) (hb : ValErr b) :
    ValErr (if c then a else b) := by split <;> assumption

macro "valerr" : tactic =>
  `(tactic| repeat (first
      | exact ValErr.ok | exact ValErr.pure | exact ValErr.value | exact ValErr.throw
      | exact ValErr.lookR _ | exact ValErr.lookRC _ | exact ValErr.ofOpt _ | exact ValErr.intOrParse _
      | (refine ValErr.bind ?_ (fun _ => ?_)) | (refine ValErr.ite ?_ ?_)))

/-- 32-bit rows: on the arguments of an item of the row's own class the encoder raises nothing but
    ValueError (a TypeError needs a wrong argument shape, a KeyError an unknown mnemonic) -/
theorem encodeKind_wk {k : EncKind} {rins : Instr} {args : List Arg} {e : EncErr}
    (hkm : kindMatches k rins = true) (ha : rins.args = some args) (h : encodeKind k args = .error e) :
    e = .value := by
  revert e
  show ValErr (encodeKind k args)
  cases k <;> cases rins <;> simp only [kindMatches, Bool.false_eq_true] at hkm
  all_goals (
    first
      | (simp only [Instr.args, Option.some.injEq] at ha; subst ha)
      | (rename_i imm _; cases imm <;> simp only [Instr.args, Option.some.injEq] at ha <;> try (cases ha; done)
         all_goals subst ha)
      | (rename_i imm; cases imm <;> simp only [Instr.args, Option.some.injEq] at ha <;> try (cases ha; done)
         all_goals subst ha))
  all_goals (
    simp only [encodeKind, encR, encI, encIj, encIe, encS, encB, encU, encJ, encFence, encA, encAl]
    valerr)

/-- the item class the parser builds for an RVC row of this kind -/
def kindMatches16 : EncKind → Instr → Bool
  | .cr .., .cr .. => true
  | .crj .., .crj .. => true
  | .cre .., .cre .. => true
  | .ci .., .ci .. => true
  | .ciu .., .ci .. => true
  | .cil .., .ci .. => true
  | .cia .., .cia .. => true
  | .cin .., .cin .. => true
  | .css .., .css .. => true
  | .ciw .., .ciw .. => true
  | .cl .., .cl .. => true
  | .cs .., .cs .. => true
  | .ca .., .ca .. => true
  | .cb .., .cb .. => true
  | .cbi .., .cb .. => true
  | .cj .., .cj .. => true
  | _, _ => false

theorem encodeKind_wk16 {k : EncKind} {rins : Instr} {args : List Arg} {e : EncErr}
    (hkm : kindMatches16 k rins = true) (ha : rins.args = some args) (h : encodeKind k args = .error e) :
    e = .value := by
  revert e
  show ValErr (encodeKind k args)
  cases k <;> cases rins <;> simp only [kindMatches16, Bool.false_eq_true] at hkm
  all_goals (
    first
      | (simp only [Instr.args, Option.some.injEq] at ha; subst ha)
      | (rename_i imm _; cases imm <;> simp only [Instr.args, Option.some.injEq] at ha <;> try (cases ha; done)
         all_goals subst ha)
      | (rename_i imm; cases imm <;> simp only [Instr.args, Option.some.injEq] at ha <;> try (cases ha; done)
         all_goals subst ha))
  all_goals (
    simp only [encodeKind, encCr, encCrj, encCre, encCi, encCia, encCin, encCiu, encCil, encCss, encCiw, encCl, encCs,
      encCa, encCb, encCbi, encCj]
    valerr)

/-! ## resolved instructions -/

/-- `rins` is `ins` with its literal immediate (if any) replaced by its value -/
def LitResolved (H : Hooks) (ins rins : Instr) : Prop :=
  (ins.imm? = none ∧ rins = ins) ∨ ∃ imm v, ins.imm? = some imm ∧ LitImm H imm v ∧ rins = ins.setImm (.value v)

theorem LitResolved.keeps {H : Hooks} {ins rins : Instr} (h : LitResolved H ins rins) :
    rins.name = ins.name ∧ rins.isCompressed = ins.isCompressed ∧ rins.isAuipcJump = ins.isAuipcJump ∧
    (∀ k, kindMatches k rins = kindMatches k ins) ∧ (∀ k, kindMatches16 k rins = kindMatches16 k ins) := by
  rcases h with ⟨_, rfl⟩ | ⟨imm, v, _, _, rfl⟩
  · exact ⟨rfl, rfl, rfl, fun _ => rfl, fun _ => rfl⟩
  · refine ⟨by cases ins <;> rfl, by cases ins <;> rfl, by cases ins <;> rfl, ?_, ?_⟩
    · intro k; cases ins <;> cases k <;> rfl
    · intro k; cases ins <;> cases k <;> rfl

theorem LitResolved.lit {H : Hooks} {ins rins : Instr} (h : LitResolved H ins rins) :
    ins.imm? = none ∨ ∃ imm v, ins.imm? = some imm ∧ LitImm H imm v := by
  rcases h with ⟨h, _⟩ | ⟨imm, v, h, hv, _⟩
  · exact Or.inl h
  · exact Or.inr ⟨imm, v, h, hv⟩

/-- resolve_immediates yields `rins` in every context -/
theorem LitResolved.immBody {H : Hooks} {ins rins : Instr} (h : LitResolved H ins rins) (haj : ins.isAuipcJump = false)
    (line : Line) (p : Int) (l : Dict) : immBody H [] (.instr line ins) p l = .ok ([.instr line rins], 0) := by
  rcases h with ⟨h, rfl⟩ | ⟨imm, v, h, hv, rfl⟩
  · exact immBody_instr_noimm h p l
  · rw [immBody_instr_imm h haj, hv]

/-- refused by the encoder: the resolved operands denote nothing legal -/
theorem encodeInstr_refused {line : Line} {rins : Instr} {k : EncKind} {args : List Arg}
    (hk : instrTable.lookup rins.name = some k) (hargs : rins.args = some args)
    (hval : ∀ e, encodeKind k args = .error e → e = .value)
    (hno : ¬ ∃ w, encodeKind k args = .ok w) : encodeInstr line rins = .error (.asm line) := by
  unfold encodeInstr
  simp only [hargs, encode, hk]
  cases he : encodeKind k args with
  | ok w => exact absurd ⟨w, he⟩ hno
  | error e => rw [hval e he]

/-! ## unrepresentable operands are refused, anywhere in a program, both modes -/

/-- **32-bit.**  `ins` is a well-kinded instruction with a literal (or no) immediate, `rins` its resolved
    form; its arguments denote no operands that the specification calls legal for the mnemonic.  Among
    good items the program is refused with this line's error.  (`hcmp`: what `-c` decides for it, computed
    once - it refuses it too, leaves it alone, or rewrites it to a form that is refused; see the examples
    of C15Program.  For instructions no rule names, `compressKeepsFault_other`.) -/
theorem unrepresentable_refused_program {H : Hooks} {c : Bool} (pre post : List Item) (line : Line)
    (ins rins : Instr) (k : EncKind)
    (hpre : ∀ y ∈ pre, GoodItem H c y) (hpost : ∀ y ∈ post, GoodItem H c y)
    (hnd : (labelNames (pre ++ .instr line ins :: post)).Nodup)
    (hwk : ins.wellKinded = true) (haj : ins.isAuipcJump = false) (hres : LitResolved H ins rins)
    (hk : instrTable.lookup ins.name = some k)
    (hill : ∀ args, rins.args = some args → ¬ ∃ ops, denote32 k args = some ops ∧ legal32 ins.name ops = true)
    (hcmp : c = true → CompressKeepsFault H (fun _ => True) line ins) :
    assembleItems H c (pre ++ .instr line ins :: post) [] [] = .error (.asm line) := by
  obtain ⟨hn, _, _, hkm, _⟩ := hres.keeps
  obtain ⟨k', hk', hs, _⟩ := wellKinded_row hwk
  rw [hk] at hk'
  cases hk'
  have hkmi : kindMatches k ins = true := by
    unfold Instr.wellKinded at hwk; rw [hk] at hwk; exact hwk
  have hargs : ∃ args, rins.args = some args := by
    rcases hres with ⟨h, he⟩ | ⟨imm, v, h, _, he⟩
    · rw [he]; cases ins <;> simp [Instr.imm?] at h <;> exact ⟨_, rfl⟩
    · rw [he]; cases ins <;> simp [Instr.imm?] at h <;> exact ⟨_, rfl⟩
  obtain ⟨args, ha⟩ := hargs
  have henc : encodeInstr line rins = .error (.asm line) := by
    refine encodeInstr_refused (by rw [hn]; exact hk) ha (fun e he => encodeKind_wk (by rw [hkm]; exact hkmi) ha he) ?_
    intro hw
    exact hill args ha ((accept32_iff_legal (ins.name, k) (lookup_mem hk) hs args).mp hw)
  refine encoder_fault_reported pre post line ins hpre hpost hnd haj ?_ hcmp
  rcases hres with ⟨h, rfl⟩ | ⟨imm, v, h, hv, rfl⟩
  · exact Or.inl ⟨h, henc⟩
  · exact Or.inr ⟨imm, v, h, hv, henc⟩

/-- for a mnemonic no compression rule names, `-c` leaves the instruction alone -/
theorem compressKeepsFault_other {H : Hooks} {Q : Dict → Prop} {line : Line} {ins : Instr}
    (hn : ins.name ∉ baseNames) : CompressKeepsFault H Q line ins :=
  Or.inr (Or.inl (firstMatch_other_none hn))

theorem classOf16_criteria {name : String} {c : CMn} (h : classOf16 name = some c) :
    name ∈ criteria.map Prod.fst := by
  have := BB.Props.C02.classOf16_name h
  subst this
  cases c <;> decide

/-- **16-bit.**  The same for a hand-written `c.*` instruction (no rule ever looks at it, so there is
    no `-c` hypothesis). -/
theorem unrepresentable_refused_program16 {H : Hooks} {c : Bool} (pre post : List Item) (line : Line)
    (ins rins : Instr) (cm : CMn)
    (hpre : ∀ y ∈ pre, GoodItem H c y) (hpost : ∀ y ∈ post, GoodItem H c y)
    (hnd : (labelNames (pre ++ .instr line ins :: post)).Nodup)
    (hcm : classOf16 ins.name = some cm) (hkm : kindMatches16 (BB.Props.C02.rowOf cm) ins = true)
    (haj : ins.isAuipcJump = false) (hres : LitResolved H ins rins)
    (hill : ∀ args, rins.args = some args →
      ¬ ∃ ops, BB.Props.C02.denote16 (BB.Props.C02.rowOf cm) args = some ops ∧ legal16 ins.name ops = true) :
    assembleItems H c (pre ++ .instr line ins :: post) [] [] = .error (.asm line) := by
  obtain ⟨hn, _, _, _, hkm16⟩ := hres.keeps
  have hname := BB.Props.C02.classOf16_name hcm
  have hk : instrTable.lookup ins.name = some (BB.Props.C02.rowOf cm) := by
    rw [← hname]; exact BB.Props.C02.lookup_rowOf cm
  have hargs : ∃ args, rins.args = some args := by
    rcases hres with ⟨h, he⟩ | ⟨imm, v, h, _, he⟩
    · rw [he]; cases ins <;> simp [Instr.imm?] at h <;> exact ⟨_, rfl⟩
    · rw [he]; cases ins <;> simp [Instr.imm?] at h <;> exact ⟨_, rfl⟩
  obtain ⟨args, ha⟩ := hargs
  have henc : encodeInstr line rins = .error (.asm line) := by
    refine encodeInstr_refused (by rw [hn]; exact hk) ha
      (fun e he => encodeKind_wk16 (by rw [hkm16]; exact hkm) ha he) ?_
    intro hw
    have : ∃ w, encode ins.name args = .ok w := by
      obtain ⟨w, hw⟩ := hw; exact ⟨w, by simp only [encode, hk, hw]⟩
    exact hill args ha ((accept16_iff_legal' ins.name cm hcm args).mp this)
  refine encoder_fault_reported pre post line ins hpre hpost hnd haj ?_
    (fun _ => Or.inr (Or.inl (firstMatch_cname_none (classOf16_criteria hcm))))
  rcases hres with ⟨h, rfl⟩ | ⟨imm, v, h, hv, rfl⟩
  · exact Or.inl ⟨h, henc⟩
  · exact Or.inr ⟨imm, v, h, hv, henc⟩

/-! ## legal operands are accepted -/

theorem compressedForm_aj {c : String} {ins cf : Instr} (h : compressedForm c ins = some cf) :
    cf.isAuipcJump = false := by
  unfold compressedForm at h
  split at h
  all_goals (try (simp at h; done))
  all_goals (repeat' split at h)
  all_goals first
    | (simp at h; done)
    | (simp only [Option.some.injEq] at h; subst h; rfl)

theorem immBody_of_resolveWith {H : Hooks} {line : Line} {p : Int} {l : Dict} {cf rcf : Instr}
    (haj : cf.isAuipcJump = false) (h : resolveWith (evalAt H (chainGet [] l) line p) cf = some rcf) :
    immBody H [] (.instr line cf) p l = .ok ([.instr line rcf], 0) := by
  unfold resolveWith at h
  cases hi : cf.imm? with
  | none =>
    simp only [hi, Option.some.injEq] at h
    subst h
    exact immBody_instr_noimm hi p l
  | some imm =>
    simp only [hi, Option.map_eq_some_iff] at h
    obtain ⟨v, hv, rfl⟩ := h
    have hv' : imm.eval H (chainGet [] l) line p = .ok v := toOption_eq_some.mp hv
    rw [immBody_instr_imm hi haj, hv']

theorem resolveWith_lit {H : Hooks} {ins rins : Instr} (h : LitResolved H ins rins) (env : String → Option Int)
    (line : Line) (p : Int) : resolveWith (evalAt H env line p) ins = some rins := by
  unfold resolveWith
  rcases h with ⟨h, rfl⟩ | ⟨imm, v, h, hv, rfl⟩
  · simp [h]
  · simp [h, evalAt, hv env line p, Except.toOption]

theorem wk_base_not_atomic {ins : Instr} (hwk : ins.wellKinded = true) (hn : ins.name ∈ baseNames) :
    (∀ n rd rs1 rs2 aq rl, ins ≠ .a n rd rs1 rs2 aq rl) ∧ (∀ n rd rs1 aq rl, ins ≠ .al n rd rs1 aq rl) := by
  have key : ∀ k, instrTable.lookup ins.name = some k →
      (∀ op f3 f5, k ≠ .a op f3 f5) ∧ (∀ op f3 f5, k ≠ .al op f3 f5) := by
    intro k hk
    simp only [baseNames, List.mem_cons, List.mem_nil_iff, or_false] at hn
    rcases hn with hn | hn | hn | hn | hn | hn | hn | hn | hn | hn | hn | hn | hn | hn | hn | hn | hn | hn
    all_goals (
      rw [hn] at hk
      have hd := hk
      revert hd
      first
        | (rw [show instrTable.lookup "addi" = some (.i 0b0010011 0b000) from by decide])
        | (rw [show instrTable.lookup "lw" = some (.i 0b0000011 0b010) from by decide])
        | (rw [show instrTable.lookup "sw" = some (.s 0b0100011 0b010) from by decide])
        | (rw [show instrTable.lookup "jal" = some (.j 0b1101111) from by decide])
        | (rw [show instrTable.lookup "lui" = some (.u 0b0110111) from by decide])
        | (rw [show instrTable.lookup "srli" = some (.r 0b0010011 0b101 0b0000000) from by decide])
        | (rw [show instrTable.lookup "srai" = some (.r 0b0010011 0b101 0b0100000) from by decide])
        | (rw [show instrTable.lookup "andi" = some (.i 0b0010011 0b111) from by decide])
        | (rw [show instrTable.lookup "sub" = some (.r 0b0110011 0b000 0b0100000) from by decide])
        | (rw [show instrTable.lookup "xor" = some (.r 0b0110011 0b100 0b0000000) from by decide])
        | (rw [show instrTable.lookup "or" = some (.r 0b0110011 0b110 0b0000000) from by decide])
        | (rw [show instrTable.lookup "and" = some (.r 0b0110011 0b111 0b0000000) from by decide])
        | (rw [show instrTable.lookup "beq" = some (.b 0b1100011 0b000) from by decide])
        | (rw [show instrTable.lookup "bne" = some (.b 0b1100011 0b001) from by decide])
        | (rw [show instrTable.lookup "slli" = some (.r 0b0010011 0b001 0b0000000) from by decide])
        | (rw [show instrTable.lookup "jalr" = some (.ij 0b1100111 0b000) from by decide])
        | (rw [show instrTable.lookup "add" = some (.r 0b0110011 0b000 0b0000000) from by decide])
        | (rw [show instrTable.lookup "ebreak" = some (.ie 0b1110011 0b000 1) from by decide])
      intro hd
      simp only [Option.some.injEq] at hd
      subst hd
      exact ⟨fun _ _ _ h => (by cases h), fun _ _ _ h => (by cases h)⟩)
  unfold Instr.wellKinded at hwk
  cases hk : instrTable.lookup ins.name with
  | none => simp [hk] at hwk
  | some k =>
    simp only [hk] at hwk
    obtain ⟨k1, k2⟩ := key k hk
    refine ⟨?_, ?_⟩
    · intro n rd rs1 rs2 aq rl he
      subst he
      cases k <;> simp only [kindMatches, Bool.false_eq_true] at hwk
      exact k1 _ _ _ rfl
    · intro n rd rs1 aq rl he
      subst he
      cases k <;> simp only [kindMatches, Bool.false_eq_true] at hwk
      exact k2 _ _ _ rfl

/-- **Legal operands are accepted, in both modes.**  A well-kinded instruction with a literal (or no)
    immediate whose resolved arguments denote operands the specification calls legal is `GoodInstr`:
    resolve_immediates and the encoder accept it in every context, and with `-c` so is whatever the first
    matching rule rewrites it to (`C12.compress_preserves_success_local_model`).  `hLit`: the numerals
    0 … 31 evaluate to themselves (true of the real evaluator: `C04.litOK_evalArith`). -/
theorem legal_instr_good {H : Hooks} (hLit : ∀ line p env, LitOK (evalAt H env line p)) (c : Bool) (line : Line)
    (ins rins : Instr) (k : EncKind) (args : List Arg) (ops : List Opnd)
    (hwk : ins.wellKinded = true) (haj : ins.isAuipcJump = false) (hres : LitResolved H ins rins)
    (hk : instrTable.lookup ins.name = some k) (hargs : rins.args = some args)
    (hden : denote32 k args = some ops) (hleg : legal32 ins.name ops = true) :
    GoodInstr H c line ins := by
  obtain ⟨hn, hcmp0, haj', hkm, _⟩ := hres.keeps
  obtain ⟨k', hk', hs, hnc⟩ := wellKinded_row hwk
  rw [hk] at hk'
  cases hk'
  -- the encoder accepts the resolved instruction
  obtain ⟨w, hw⟩ := (accept32_iff_legal (ins.name, k) (lookup_mem hk) hs args).mpr ⟨ops, hden, hleg⟩
  have hkr : instrTable.lookup rins.name = some k := by rw [hn]; exact hk
  have henc : ∀ ln : Line, encodeInstr ln rins = .ok (leBytes 4 w) := by
    intro ln
    have hc : rins.isCompressed = false := by rw [hcmp0]; exact hnc
    simp [encodeInstr, hargs, encode, hkr, hw, hc]
  have hRes : Resolves H line ins := fun p l => ⟨rins, leBytes 4 w, hres.immBody haj line p l, henc line⟩
  refine ⟨haj, hRes, ?_⟩
  intro _ p l
  by_cases hb : ins.name ∈ baseNames
  · -- a mnemonic the rules know: every predicate evaluates
    have hwkr : rins.wellKinded = true := by
      unfold Instr.wellKinded at hwk ⊢
      rw [hn, hk]; simp only; rw [hkm]; rw [hk] at hwk; exact hwk
    obtain ⟨i32, hi32⟩ := BB.Props.C12.denotes_of_encodes hkr hs (henc line)
    obtain ⟨na, nal⟩ := wk_base_not_atomic hwkr (by rw [hn]; exact hb)
    have hregs := regs_valid_of_denote hwkr na nal hi32
    have hfld : ∀ f x, ins.fld f = some x → (lookupRegister x).isSome = true := by
      intro f x hf
      apply hregs f x
      rcases hres with ⟨_, rfl⟩ | ⟨imm, v, _, _, rfl⟩
      · exact hf
      · rw [show (ins.setImm (Imm.value v)).fld f = ins.fld f from by cases ins <;> cases f <;> rfl]; exact hf
    have hok : ∀ p' l', OperandsOK H (chainGet [] l') line p' ins := by
      intro p' l'
      refine ⟨hfld, ?_⟩
      intro imm himm
      rcases hres.lit with h | ⟨imm', v, h, hv⟩
      · rw [h] at himm; cases himm
      · rw [h] at himm; cases himm; exact ⟨v, hv _ _ _⟩
    have hfm := firstMatch_eq_N hwk (hok p l)
    cases hm : firstMatchN ins.name (regsOf ins) (immValOf H (chainGet [] l) line p ins) criteria with
    | none => rw [hm] at hfm; exact Or.inr (Or.inl hfm)
    | some cn =>
      rw [hm] at hfm
      obtain ⟨preds, hmem, hp⟩ := firstMatch_some hfm
      obtain ⟨cf, hcf⟩ := matched_has_form hmem hwk
        ((BB.Props.C04.allPreds_true_iff H _ line ins p preds).mp hp)
      refine Or.inr (Or.inr ⟨cn, cf, hfm, hcf, compressedForm_aj hcf, ?_⟩)
      -- the compressed form resolves and encodes in EVERY context
      intro p' l'
      have hfm' : firstMatch H (chainGet [] l') line ins p' criteria = .ok (some cn) := by
        rw [firstMatch_lit hres.lit p' l', ← firstMatch_lit hres.lit p l]; exact hfm
      obtain ⟨preds', hmem', hp'⟩ := firstMatch_some hfm'
      obtain ⟨rcf, bs', hr, he, _⟩ := BB.Props.C12.compress_preserves_success_local_model hmem' H
        (chainGet [] l') line p' (hLit line p' _) hp' hcf (resolveWith_lit hres _ line p') (henc line)
      exact ⟨rcf, bs', immBody_of_resolveWith (compressedForm_aj hcf) hr, he⟩
  · exact Or.inr (Or.inl (firstMatch_other_none hb))

/-- the same as a `GoodItem` -/
theorem legal_instr_good_item {H : Hooks} (hLit : ∀ line p env, LitOK (evalAt H env line p)) (c : Bool) (line : Line)
    (ins rins : Instr) (k : EncKind) (args : List Arg) (ops : List Opnd)
    (hwk : ins.wellKinded = true) (haj : ins.isAuipcJump = false) (hres : LitResolved H ins rins)
    (hk : instrTable.lookup ins.name = some k) (hargs : rins.args = some args)
    (hden : denote32 k args = some ops) (hleg : legal32 ins.name ops = true) :
    GoodItem H c (.instr line ins) :=
  .instr line ins (legal_instr_good hLit c line ins rins k args ops hwk haj hres hk hargs hden hleg)

/-! ## a program of good items assembles -/

/-- **Every program of good items assembles**, with and without compression: labels (pairwise
    different), blobs, strings, `align N` with N ≥ 1, good instructions (`legal_instr_good`), data
    directives whose literal values fit, pseudo-instructions expanding to good instructions. -/
theorem good_program_assembles {H : Hooks} {c : Bool} (items : List Item)
    (hgood : ∀ y ∈ items, GoodItem H c y) (hnd : (labelNames items).Nodup) :
    ∃ r, assembleItems H c items [] [] = .ok r := by
  apply all_pass_assembles (Q := fun _ => True) (fun _ _ _ _ => trivial) items
  · exact fun y hy => (hgood y hy).not_constant
  · exact hnd
  · exact fun y hy => (hgood y hy).sized
  · exact fun _ _ => trivial
  · intro y hy
    obtain ⟨hy1, hy2⟩ := List.mem_filter.mp hy
    refine (hgood y hy1).passes _ ?_
    intro l n h; subst h; simp [Item.isLabel] at hy2

/-! ## non-vacuity -/

abbrev exH : Hooks := textHooks ⟨[], []⟩

theorem exLit : ∀ line p env, LitOK (evalAt exH env line p) :=
  fun line p env => BB.Props.C04.litOK_evalArith exH rfl env line p

/-- `slli x9, x9, 3` is legal, hence good in both modes (with -c it becomes `c.slli x9, 3`) … -/
example (c : Bool) : GoodItem exH c (.instr ⟨"m.asm", 2, "slli x9, x9, 3"⟩ (.r "slli" (.str "x9") (.str "x9") (.str "3"))) :=
  legal_instr_good_item exLit c _ _ _ (.r 0b0010011 0b001 0b0000000) _ [.reg 9, .reg 9, .reg 3] (by decide) rfl
    (Or.inl ⟨rfl, rfl⟩) (by decide) rfl (by decide) (by decide)

/-- … `addi x5, x6, 2047` too, and a program of such items assembles -/
example (c : Bool) : ∃ r, assembleItems exH c
    [.label ⟨"m.asm", 1, "start:"⟩ "start",
     .instr ⟨"m.asm", 2, "slli x9, x9, 3"⟩ (.r "slli" (.str "x9") (.str "x9") (.str "3")),
     .instr ⟨"m.asm", 3, "addi x5, x6, 2047"⟩ (.i "addi" (.str "x5") (.str "x6") (.arith "2047") false),
     .string ⟨"m.asm", 4, "string hi"⟩ "hi"] [] [] = .ok r := by
  apply good_program_assembles
  · intro y hy
    simp only [List.mem_cons, List.not_mem_nil, or_false] at hy
    rcases hy with rfl | rfl | rfl | rfl
    · exact .label _ _
    · exact legal_instr_good_item exLit c _ _ _ (.r 0b0010011 0b001 0b0000000) _ [.reg 9, .reg 9, .reg 3] (by decide) rfl
        (Or.inl ⟨rfl, rfl⟩) (by decide) rfl (by decide) (by decide)
    · exact legal_instr_good_item exLit c _ _ (.i "addi" (.str "x5") (.str "x6") (.value 2047) false)
        (.i 0b0010011 0b000) _ [.reg 5, .reg 6, .imm 2047] (by decide) rfl
        (Or.inr ⟨_, 2047, rfl, BB.Props.C15.litImm_dec _ "2047" 2047 (by decide) (by decide), rfl⟩) (by decide) rfl
        (by decide) (by decide)
    · exact .string _ _
  · decide

/-- `addi x5, x6, 2048` (one past the range) between two good items is refused with ITS line, both modes;
    so is the hand-written `c.addi x5, 32` -/
example (c : Bool) : assembleItems exH c
    ([.instr ⟨"m.asm", 1, "slli x9, x9, 3"⟩ (.r "slli" (.str "x9") (.str "x9") (.str "3"))] ++
     .instr ⟨"m.asm", 2, "addi x5, x6, 2048"⟩ (.i "addi" (.str "x5") (.str "x6") (.arith "2048") false) ::
     [.string ⟨"m.asm", 3, "string hi"⟩ "hi"]) [] [] = .error (.asm ⟨"m.asm", 2, "addi x5, x6, 2048"⟩) := by
  refine unrepresentable_refused_program _ _ _ _ (.i "addi" (.str "x5") (.str "x6") (.value 2048) false)
    (.i 0b0010011 0b000) ?_ ?_ (by decide) (by decide) rfl
    (Or.inr ⟨_, 2048, rfl, BB.Props.C15.litImm_dec _ "2048" 2048 (by decide) (by decide), rfl⟩) (by decide) ?_
    (fun _ => Or.inr (Or.inl (by decide)))
  · intro y hy
    simp only [List.mem_singleton] at hy
    subst hy
    exact legal_instr_good_item exLit c _ _ _ (.r 0b0010011 0b001 0b0000000) _ [.reg 9, .reg 9, .reg 3] (by decide) rfl
      (Or.inl ⟨rfl, rfl⟩) (by decide) rfl (by decide) (by decide)
  · intro y hy
    simp only [List.mem_singleton] at hy
    subst hy
    exact .string _ _
  · intro args ha
    simp only [Instr.args, Option.some.injEq] at ha
    subst ha
    decide

example (c : Bool) : assembleItems exH c
    ([] ++ .instr ⟨"m.asm", 1, "c.addi x5, 32"⟩ (.ci "c.addi" (.str "x5") (.arith "32")) ::
     [.string ⟨"m.asm", 2, "string hi"⟩ "hi"]) [] [] = .error (.asm ⟨"m.asm", 1, "c.addi x5, 32"⟩) := by
  refine unrepresentable_refused_program16 _ _ _ _ (.ci "c.addi" (.str "x5") (.value 32)) .addi
    (fun _ h => by cases h) ?_ (by decide) (by decide) (by decide) rfl
    (Or.inr ⟨_, 32, rfl, BB.Props.C15.litImm_dec _ "32" 32 (by decide) (by decide), rfl⟩) ?_
  · intro y hy
    simp only [List.mem_singleton] at hy
    subst hy
    exact .string _ _
  · intro args ha
    simp only [Instr.args, Option.some.injEq] at ha
    subst ha
    decide

end BB.Props.C06
