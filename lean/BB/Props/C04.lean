/-
  BB.Props.C04 — enabling compression never changes what the program means.

  * `allPreds_true_iff` (Lemmas/CompressPreds, restated here): the predicate list of a criterion
    evaluates to `True` exactly when the numeric conditions hold of the looked-up registers and the
    evaluated immediate.
  * `rule_sound`: for EACH of the 29 entries of `criteria`: if its predicates hold, the replacement
    instruction `compressedForm c ins` resolves to an RVC instruction `ci` that is legal and executes
    exactly like the instruction the original names (`∀ s, execC ci s = exec i 2 s`).
  * `rule_in_range`: … and its operands are inside the 16-bit encoder's legal set (the encoder accepts).
  * `data_unchanged`, `compress_pass_itemwise`: transform_compressible is item-wise; non-instructions
    are untouched; every replacement comes from a criterion whose predicates held at decision time.
  * `Stable`, `compress_same_ops_statement` (statement only), and what is proved towards it:
    `compress_item_sound` (decision-time values) and `stable_item_sound` (final values, given that
    the decision re-evaluates to the same truth value there).
-/
import BB.Lemmas.CompressSound
import BB.Lemmas.CompressDecide
import BB.Lemmas.Bodies
import BB.Props.C06
import BB.Props.C11
set_option linter.unusedTactic false
set_option linter.unreachableTactic false
namespace BB.Props.C04
open BB BB.Spec BB.Lemmas
open BB.Props.C02 (denote16 rowOf)

/-- **`allPreds … = .ok true` ⇔ the conjunction of the numeric conditions** (on the looked-up
    registers and the immediate evaluated at the decision's environment and position) -/
theorem allPreds_true_iff (H : Hooks) (env : String → Option Int) (line : Line) (ins : Instr) (p : Int)
    (preds : List Pred) :
    allPreds H env line ins p preds = .ok true ↔ ∀ pr ∈ preds, pr.holds ins (evalAt H env line p) :=
  BB.Lemmas.allPreds_true_iff H env line ins p preds

/-- the 29 rule names, in table order -/
theorem criteria_names : criteria.map Prod.fst =
    ["c.addi16sp", "c.addi4spn", "c.lw", "c.sw", "c.nop", "c.addi", "c.jal", "c.li", "c.lui", "c.lui_alt",
     "c.srli", "c.srai", "c.andi", "c.sub", "c.xor", "c.or", "c.and", "c.j", "c.beqz", "c.bnez", "c.slli",
     "c.lwsp", "c.jr", "c.mv", "c.mv_alt", "c.ebreak", "c.add", "c.jalr", "c.swsp"] := by decide

/-- the common core of `rule_sound` and `rule_in_range`, for every entry of `criteria` -/
theorem rule_core {c : String} {preds : List Pred} (hmem : (c, preds) ∈ criteria)
    {ev : Imm → Option Int} (hlit : LitOK ev) {ins cf rins : Instr} {i : Instr32}
    (hp : ∀ pr ∈ preds, pr.holds ins ev) (hcf : compressedForm c ins = some cf)
    (hres : resolveWith ev ins = some rins) (hden : denote32I rins = some i) :
    Compresses ev cf i := by
  have hc := hmem
  simp only [criteria, List.mem_cons, Prod.mk.injEq, List.mem_nil_iff, or_false] at hc
  rcases hc with ⟨rfl, -⟩ | ⟨rfl, -⟩ | ⟨rfl, -⟩ | ⟨rfl, -⟩ | ⟨rfl, -⟩ | ⟨rfl, -⟩ | ⟨rfl, -⟩ | ⟨rfl, -⟩ |
    ⟨rfl, -⟩ | ⟨rfl, -⟩ | ⟨rfl, -⟩ | ⟨rfl, -⟩ | ⟨rfl, -⟩ | ⟨rfl, -⟩ | ⟨rfl, -⟩ | ⟨rfl, -⟩ | ⟨rfl, -⟩ |
    ⟨rfl, -⟩ | ⟨rfl, -⟩ | ⟨rfl, -⟩ | ⟨rfl, -⟩ | ⟨rfl, -⟩ | ⟨rfl, -⟩ | ⟨rfl, -⟩ | ⟨rfl, -⟩ | ⟨rfl, -⟩ |
    ⟨rfl, -⟩ | ⟨rfl, -⟩ | ⟨rfl, -⟩
  · exact rs_addi16sp hmem hlit hp hcf hres hden
  · exact rs_addi4spn hmem hlit hp hcf hres hden
  · exact rs_lw hmem hlit hp hcf hres hden
  · exact rs_sw hmem hlit hp hcf hres hden
  · exact rs_nop hmem hlit hp hcf hres hden
  · exact rs_addi hmem hlit hp hcf hres hden
  · exact rs_jal hmem hlit hp hcf hres hden
  · exact rs_li hmem hlit hp hcf hres hden
  · exact rs_lui hmem hlit hp hcf hres hden
  · exact rs_lui_alt hmem hlit hp hcf hres hden
  · exact rs_srli hmem hlit hp hcf hres hden
  · exact rs_srai hmem hlit hp hcf hres hden
  · exact rs_andi hmem hlit hp hcf hres hden
  · exact rs_sub hmem hlit hp hcf hres hden
  · exact rs_xor hmem hlit hp hcf hres hden
  · exact rs_or hmem hlit hp hcf hres hden
  · exact rs_and hmem hlit hp hcf hres hden
  · exact rs_j hmem hlit hp hcf hres hden
  · exact rs_beqz hmem hlit hp hcf hres hden
  · exact rs_bnez hmem hlit hp hcf hres hden
  · exact rs_slli hmem hlit hp hcf hres hden
  · exact rs_lwsp hmem hlit hp hcf hres hden
  · exact rs_jr hmem hlit hp hcf hres hden
  · exact rs_mv hmem hlit hp hcf hres hden
  · exact rs_mv_alt hmem hlit hp hcf hres hden
  · exact rs_ebreak hmem hlit hp hcf hres hden
  · exact rs_add hmem hlit hp hcf hres hden
  · exact rs_jalr hmem hlit hp hcf hres hden
  · exact rs_swsp hmem hlit hp hcf hres hden

/-- `denote16I` of a compressed form that `Compresses` -/
theorem denote16I_of {rcf : Instr} {cm : CMn} {args : List Arg} {ops : List Opnd} {ci : CInstr}
    (h1 : classOf16 rcf.name = some cm) (h2 : rcf.args = some args)
    (h3 : denote16 (rowOf cm) args = some ops) (h4 : intentOf16 cm ops = some ci) :
    denote16I rcf = some ci := by
  unfold denote16I; simp only [h1, h2, h3, h4]

/-- **C04, rule soundness.**  For every entry `(c, preds)` of `criteria`, every instruction `ins`
    (registers as the numbers `lookup_register` finds, the immediate as the integer `ev` evaluates it
    to) on which the entry's predicates hold: the replacement `compressedForm c ins` resolves — under
    the same values — to an RVC instruction `ci` that is legal (non-reserved, non-hint) and whose
    execution is that of the instruction `i` the original names, for every machine state (the pc
    advancing by 2 instead of 4).  `LitOK ev`: decimal literals evaluate to themselves (the rebuilt
    shift amount `Arithmetic(str(n))`). -/
theorem rule_sound {c : String} {preds : List Pred} (hmem : (c, preds) ∈ criteria)
    {ev : Imm → Option Int} (hlit : LitOK ev) {ins cf rins : Instr} {i : Instr32}
    (hp : ∀ pr ∈ preds, pr.holds ins ev) (hcf : compressedForm c ins = some cf)
    (hres : resolveWith ev ins = some rins) (hden : denote32I rins = some i) :
    ∃ rcf ci, resolveWith ev cf = some rcf ∧ denote16I rcf = some ci ∧ ci.legal = true ∧
      ∀ s, execC ci s = exec i 2 s := by
  obtain ⟨rcf, cm, args, ops, ci, h0, h1, h2, h3, h4, h5, h6⟩ := rule_core hmem hlit hp hcf hres hden
  exact ⟨rcf, ci, h0, denote16I_of h1 h2 h3 h5, legal_of_intent16 h4 h5, h6⟩

/-- `rule_sound` without assuming the replacement exists: on a well-kinded instruction (its item
    class is the one INSTRUCTIONS lists for its mnemonic — what the parser builds) `compressedForm`
    is defined for every matching criterion -/
theorem rule_sound_wellKinded {c : String} {preds : List Pred} (hmem : (c, preds) ∈ criteria)
    {ev : Imm → Option Int} (hlit : LitOK ev) {ins rins : Instr} {i : Instr32} (hwk : ins.wellKinded = true)
    (hp : ∀ pr ∈ preds, pr.holds ins ev)
    (hres : resolveWith ev ins = some rins) (hden : denote32I rins = some i) :
    ∃ cf rcf ci, compressedForm c ins = some cf ∧ resolveWith ev cf = some rcf ∧ denote16I rcf = some ci ∧
      ci.legal = true ∧ ∀ s, execC ci s = exec i 2 s := by
  obtain ⟨cf, hcf⟩ := matched_has_form hmem hwk hp
  obtain ⟨rcf, ci, h⟩ := rule_sound hmem hlit hp hcf hres hden
  exact ⟨cf, rcf, ci, hcf, h⟩

/-- the same with the model's own evaluation: `allPreds … = .ok true` at environment `env` and
    position `p`, immediates resolved at the same `env`, `p` ("the values consulted are final") -/
theorem rule_sound_model {c : String} {preds : List Pred} (hmem : (c, preds) ∈ criteria)
    (H : Hooks) (env : String → Option Int) (line : Line) (p : Int) (hlit : LitOK (evalAt H env line p))
    {ins cf rins : Instr} {i : Instr32}
    (hp : allPreds H env line ins p preds = .ok true) (hcf : compressedForm c ins = some cf)
    (hres : resolveWith (evalAt H env line p) ins = some rins) (hden : denote32I rins = some i) :
    ∃ rcf ci, resolveWith (evalAt H env line p) cf = some rcf ∧ denote16I rcf = some ci ∧
      ci.legal = true ∧ ∀ s, execC ci s = exec i 2 s :=
  rule_sound hmem hlit ((allPreds_true_iff H env line ins p preds).mp hp) hcf hres hden

/-- **rule_in_range.**  Under the predicates of a criterion the compressed operands are inside the
    16-bit encoder's legal set: they denote operands `legal16` accepts, and (C06,
    `accept16_iff_legal`) the encoder of the compressed mnemonic accepts the resolved arguments. -/
theorem rule_in_range {c : String} {preds : List Pred} (hmem : (c, preds) ∈ criteria)
    {ev : Imm → Option Int} (hlit : LitOK ev) {ins cf rins : Instr} {i : Instr32}
    (hp : ∀ pr ∈ preds, pr.holds ins ev) (hcf : compressedForm c ins = some cf)
    (hres : resolveWith ev ins = some rins) (hden : denote32I rins = some i) :
    ∃ rcf args ops, resolveWith ev cf = some rcf ∧ rcf.args = some args ∧
      (∃ cm, classOf16 rcf.name = some cm ∧ denote16 (rowOf cm) args = some ops) ∧
      legal16 rcf.name ops = true ∧ ∃ w, encode rcf.name args = .ok w := by
  obtain ⟨rcf, cm, args, ops, ci, h0, h1, h2, h3, h4, h5, h6⟩ := rule_core hmem hlit hp hcf hres hden
  refine ⟨rcf, args, ops, h0, h2, ⟨cm, h1, h3⟩, ?_, ?_⟩
  · simp only [legal16, h1, h4]
  · exact (BB.Props.C06.accept16_iff_legal' rcf.name cm h1 args).mpr ⟨ops, h3, by simp only [legal16, h1, h4]⟩

/-! ### the front end's evaluator satisfies `LitOK` -/

theorem toString_decStr : ∀ n : Nat, n < 32 → (toString n).toList = BB.Props.C11.decStr n := by decide

/-- with the real `Arithmetic` evaluator (Expr.evalArith, C11) the decimal numerals 0 … 31 evaluate to
    themselves at every environment and position — the `LitOK` hypothesis of `rule_sound` holds -/
theorem litOK_evalArith (H : Hooks) (hH : H.arith = evalArith) (env : String → Option Int) (line : Line)
    (p : Int) : LitOK (evalAt H env line p) := by
  intro n hn
  have h1 : evalArithL (toString n).toList env = .ok (n : Int) := by
    apply BB.Props.C11.lit_arith
    · exact Or.inl (toString_decStr n hn)
    · rw [toString_decStr n hn]
      revert n; decide
  simp only [evalAt, Imm.eval, hH, evalArith, h1, liftExpr, Except.toOption]

/-! ### non-vacuity: three rules on concrete instructions -/

/-- hooks whose arithmetic evaluates every expression to −32 -/
def Hm32 : Hooks := { arith := fun _ _ => .ok (-32), parseImm := fun _ _ => .ok (.arith "K"), readFile := fun _ => none }

/-- the hypotheses of `rule_sound_model` are satisfiable: on `addi sp, sp, K` (K = −32) the predicates
    of `c.addi16sp` all evaluate to `True`, the instruction resolves and names `addi x2, x2, −32` -/
example : allPreds Hm32 (fun _ => none) default (.i "addi" (.str "sp") (.str "sp") (.arith "K") false) 0
      [Pred.nameEq "addi", .regEq .rd 2, .regEq .rs1 2, .immNe 0, .immDiv 16, .immBetween (-512) 511] = .ok true ∧
    resolveWith (evalAt Hm32 (fun _ => none) default 0) (.i "addi" (.str "sp") (.str "sp") (.arith "K") false)
      = some (.i "addi" (.str "sp") (.str "sp") (.value (-32)) false) := by decide


/-- evaluation used in the examples: `Arithmetic` of a decimal numeral; nothing else -/
def evDec (n : Nat) : Imm → Option Int
  | .arith e => if e = toString n then some n else if e = "0" then some 0 else none
  | _ => none

/-- `addi sp, sp, -32`  →  `c.addi16sp -32` -/
example : ("c.addi16sp", [Pred.nameEq "addi", .regEq .rd 2, .regEq .rs1 2, .immNe 0, .immDiv 16, .immBetween (-512) 511]) ∈ criteria ∧
    compressedForm "c.addi16sp" (.i "addi" (.str "sp") (.str "sp") (.value (-32)) false) = some (.cia "c.addi16sp" (.value (-32))) ∧
    denote32I (.i "addi" (.str "sp") (.str "sp") (.value (-32)) false) = some (.i .addi 2 2 (-32)) ∧
    denote16I (.cia "c.addi16sp" (.value (-32))) = some (.addi16sp (-32)) ∧ (CInstr.addi16sp (-32)).legal = true ∧
    expand16 (.addi16sp (-32)) = .i .addi 2 2 (-32) := by decide
/-- `addi a0, a1, 0`  →  `c.mv a0, a1` (the semantic rule): the two instructions differ, their effect does not -/
example : compressedForm "c.mv_alt" (.i "addi" (.str "a0") (.str "a1") (.value 0) false) = some (.cr "c.mv" (.str "a0") (.str "a1")) ∧
    denote16I (.cr "c.mv" (.str "a0") (.str "a1")) = some (.mv 10 11) ∧ (CInstr.mv 10 11).legal = true ∧
    expand16 (.mv 10 11) ≠ .i .addi 10 11 0 := by decide
/-- `lui a0, 0xfffff`  →  `c.lui a0, 0xfffff` names `c.lui a0, -1` -/
example : compressedForm "c.lui_alt" (.u "lui" (.str "a0") (.value 0xfffff)) = some (.ci "c.lui" (.str "a0") (.value 0xfffff)) ∧
    denote16I (.ci "c.lui" (.str "a0") (.value 0xfffff)) = some (.lui 10 (-1)) ∧
    expand16 (.lui 10 (-1)) = .lui 10 0xfffff ∧ encode "c.lui" [.r (.str "a0"), .i 0xfffff] = .ok 0x757d := by decide

/-! ### transform_compressible is item-wise -/

/-- **data_unchanged**: `compressBody` leaves every non-instruction item untouched (and moves no label) -/
theorem data_unchanged (H : Hooks) (constants : Dict) (it : Item) (position : Int) (labels : Dict)
    (repl : List Item) (n : Int) (hni : ∀ line ins, it ≠ .instr line ins)
    (h : compressBody H constants it position labels = .ok (repl, n)) : repl = [it] ∧ n = 0 := by
  cases it with
  | instr line ins => exact absurd rfl (hni line ins)
  | _ => exact keepItem_ok (by simpa [compressBody] using h)

/-- what `compressBody` can do to an instruction: keep it, or replace it by the compressed form of
    the FIRST criterion whose predicates all evaluated to `True` at this position and label table -/
theorem compressBody_instr (H : Hooks) (constants : Dict) (line : Line) (ins : Instr) (position : Int)
    (labels : Dict) (repl : List Item) (n : Int)
    (h : compressBody H constants (.instr line ins) position labels = .ok (repl, n)) :
    (repl = [.instr line ins] ∧ n = 0) ∨
    (∃ c preds cf, ins.isAuipcJump = false ∧ (c, preds) ∈ criteria ∧
        firstMatch H (chainGet constants labels) line ins position criteria = .ok (some c) ∧
        allPreds H (chainGet constants labels) line ins position preds = .ok true ∧
        compressedForm c ins = some cf ∧ repl = [.instr line cf] ∧ n = 2) := by
  simp only [compressBody] at h
  by_cases haj : ins.isAuipcJump = true
  · rw [if_pos haj] at h; exact Or.inl (keepItem_ok h)
  · rw [if_neg haj] at h
    cases hm : firstMatch H (chainGet constants labels) line ins position criteria with
    | error e =>
      rw [hm] at h
      split at h <;> first | (simp at h; done) | (rename_i heq; cases heq; done) | (rename_i heq _; cases heq; done)
    | ok m =>
      rw [hm] at h
      cases m with
      | none => exact Or.inl (keepItem_ok h)
      | some c =>
        simp only at h
        cases hci : compressedForm c ins with
        | none => simp [hci] at h
        | some cf =>
          simp only [hci, pure, Except.pure, Except.ok.injEq, Prod.mk.injEq] at h
          obtain ⟨rfl, rfl⟩ := h
          obtain ⟨preds, hmem, hall⟩ := firstMatch_some hm
          exact Or.inr ⟨c, preds, cf, by simpa using haj, hmem, rfl, hall, hci, rfl, rfl⟩

/-- two lists are related element by element (and have the same length) -/
def Forall2 {α β : Type} (R : α → β → Prop) : List α → List β → Prop
  | [], [] => True
  | a :: as, b :: bs => R a b ∧ Forall2 R as bs
  | _, _ => False

/-- how one output item of the compression pass relates to its input item -/
inductive ItemStep (H : Hooks) (constants : Dict) : Item → Item → Prop where
  | same (it : Item) : ItemStep H constants it it
  | compressed (line : Line) (ins cf : Instr) (c : String) (preds : List Pred) (position : Int) (labels : Dict) :
      (c, preds) ∈ criteria → allPreds H (chainGet constants labels) line ins position preds = .ok true →
      compressedForm c ins = some cf → ins.isAuipcJump = false →
      ItemStep H constants (.instr line ins) (.instr line cf)

/-- **the compression pass is item-wise**: the output list has one item per input item; every item
    is either untouched or an instruction replaced by the compressed form of a criterion whose
    predicates held when the decision was made (so non-instruction items are all untouched) -/
theorem compress_pass_itemwise (H : Hooks) (constants : Dict) (items : List Item) (p : Int) (labels : Dict)
    (out : List Item) (labels' : Dict)
    (h : walk (compressBody H constants) items p labels = .ok (out, labels')) :
    Forall2 (ItemStep H constants) items out := by
  induction items generalizing p labels out labels' with
  | nil => simp only [walk, Except.ok.injEq, Prod.mk.injEq] at h; rw [← h.1]; exact trivial
  | cons it rest ih =>
    cases it with
    | label line name =>
      simp only [walk, bind, Except.bind] at h
      cases hr : walk (compressBody H constants) rest p labels with
      | error e => simp [hr] at h
      | ok r =>
        obtain ⟨o, l⟩ := r
        simp only [hr, pure, Except.pure, Except.ok.injEq, Prod.mk.injEq] at h
        rw [← h.1]
        exact ⟨.same _, ih _ _ _ _ hr⟩
    | instr line ins =>
      simp only [walk, bind, Except.bind] at h
      cases hb : compressBody H constants (.instr line ins) p labels with
      | error e => simp [hb] at h
      | ok rn =>
        obtain ⟨repl, n⟩ := rn
        simp only [hb] at h
        cases hr : walk (compressBody H constants) rest (p + sizeSum repl) (labels.shiftAbove p n) with
        | error e => simp [hr] at h
        | ok r =>
          obtain ⟨o, l⟩ := r
          simp only [hr, pure, Except.pure, Except.ok.injEq, Prod.mk.injEq] at h
          rw [← h.1]
          rcases compressBody_instr H constants line ins p labels repl n hb with ⟨rfl, _⟩ | ⟨c, preds, cf, haj, hmem, _, hall, hcf, rfl, _⟩
          · exact ⟨.same _, ih _ _ _ _ hr⟩
          · exact ⟨.compressed line ins cf c preds p labels hmem hall hcf haj, ih _ _ _ _ hr⟩
    | _ =>
      simp only [walk, bind, Except.bind] at h
      split at h
      · simp at h
      · rename_i rn hb
        obtain ⟨repl, n⟩ := rn
        obtain ⟨rfl, rfl⟩ := data_unchanged H constants _ p labels repl n (by intro l i; simp) hb
        split at h
        · simp at h
        · rename_i r hr
          obtain ⟨o, l⟩ := r
          simp only [pure, Except.pure, Except.ok.injEq, Prod.mk.injEq] at h
          rw [← h.1]
          exact ⟨.same _, ih _ _ _ _ hr⟩

/-- non-vacuity: the pass on `align 4 ; addi sp, sp, K` (K = −32) keeps the align and compresses the addi -/
example : transformCompressible Hm32 [.align default 4, .instr default (.i "addi" (.str "sp") (.str "sp") (.arith "K") false)] [] []
    = .ok ([.align default 4, .instr default (.cia "c.addi16sp" (.arith "K"))], []) := by decide

/-- **a compression decision is sound at the values it consulted**: the replacement made by the
    pass executes like the original, both read at the decision's label table and position -/
theorem compress_item_sound (H : Hooks) (constants : Dict) {it it' : Item} (hstep : ItemStep H constants it it') :
    it' = it ∨ ∃ line ins cf position labels, it = .instr line ins ∧ it' = .instr line cf ∧
      ∀ (ev : Imm → Option Int), ev = evalAt H (chainGet constants labels) line position → LitOK ev →
      ∀ rins i, resolveWith ev ins = some rins → denote32I rins = some i →
        ∃ rcf ci, resolveWith ev cf = some rcf ∧ denote16I rcf = some ci ∧ ci.legal = true ∧
          ∀ s, execC ci s = exec i 2 s := by
  cases hstep with
  | same => exact Or.inl rfl
  | compressed line ins cf c preds position labels hmem hall hcf haj =>
    refine Or.inr ⟨line, ins, cf, position, labels, rfl, rfl, ?_⟩
    intro ev hev hlit rins i hres hden
    subst hev
    exact rule_sound_model hmem H _ line position hlit hall hcf hres hden

/-- **literal decisions are stable** (item level): when the instruction's immediate is label-free,
    a compression decided at any label table / position is sound at every other one — in particular
    at the final ones: the predicates consult only register numbers and that immediate -/
theorem literal_decision_stable (H : Hooks) (constants : Dict) {line : Line} {ins cf : Instr}
    (hstep : ItemStep H constants (.instr line ins) (.instr line cf)) (hne : cf ≠ ins)
    (hfree : ∀ imm, ins.imm? = some imm → ImmLabelFree H constants imm)
    (L' : Dict) (p' : Int) (hlit : LitOK (evalAt H (chainGet constants L') line p'))
    {rins : Instr} {i : Instr32}
    (hres : resolveWith (evalAt H (chainGet constants L') line p') ins = some rins)
    (hden : denote32I rins = some i) :
    ∃ rcf ci, resolveWith (evalAt H (chainGet constants L') line p') cf = some rcf ∧
      denote16I rcf = some ci ∧ ci.legal = true ∧ ∀ s, execC ci s = exec i 2 s := by
  cases hstep with
  | same => exact absurd rfl hne
  | compressed _ _ _ c preds position labels hmem hall hcf haj =>
    have hp := (allPreds_true_iff H _ line ins position preds).mp hall
    have himm : immVal ins (evalAt H (chainGet constants L') line p')
        = immVal ins (evalAt H (chainGet constants labels) line position) := by
      unfold immVal
      cases hi : ins.imm? with
      | none => rfl
      | some imm =>
        simp only [Option.bind_some, evalAt]
        rw [hfree imm hi L' labels line p' position]
    have hp' : ∀ pr ∈ preds, pr.holds ins (evalAt H (chainGet constants L') line p') := by
      intro pr hpr
      have h := hp pr hpr
      cases pr <;> simp only [Pred.holds, himm] at h ⊢ <;> exact h
    exact rule_sound hmem hlit hp' hcf hres hden

/-! ### the program-level statement -/

/-- the stages of `assembleItems` up to and including resolve_aligns: the item list BEFORE
    resolve_aligns (pseudo-instructions expanded, compression decided), the list after it, the
    constants and the FINAL label table -/
structure Layout where
  decided : List Item
  aligned : List Item
  constants : Dict
  labels : Dict

def layoutOf (H : Hooks) (compress : Bool) (items : List Item) : Except Err Layout := do
  let (items, constants) ← resolveConstants H items []
  let (items, labels) ← resolveLabels items []
  let items := resolveRegisterAliases items constants
  let (items, labels) ← maybeCompress H compress items constants labels
  let (items, labels) ← transformPseudo H items constants labels
  let items := resolveRegisterAliases items constants
  let (decided, labels) ← maybeCompress H compress items constants labels
  let (aligned, labels) ← resolveAligns decided labels
  pure { decided := decided, aligned := aligned, constants := constants, labels := labels }

/-- final byte position of the `sub`-th item of source line `line` in an (aligned) item list -/
def finalPos : List Item → Line → Nat → Int → Int
  | [], _, _, p => p
  | it :: rest, line, sub, p =>
    if it.line = line then (match sub with | 0 => p | k + 1 => finalPos rest line k (p + it.sizeD))
    else finalPos rest line sub (p + it.sizeD)

/-- the decision passes re-run with an ORACLE: every decision (compression predicates, li width,
    call/tail form) consults the fixed label table `L` and the fixed position `pos line sub` of the
    item instead of the table and position current at that point of the real run -/
def walkO (f : Item → Int → Dict → Except Err (List Item × Int)) (pos : Line → Nat → Int) (L : Dict) :
    List Item → List Line → Except Err (List Item)
  | [], _ => .ok []
  | it :: rest, seen => do
    let sub := (seen.filter (· = it.line)).length
    let (repl, _) ← f it (pos it.line sub) L
    let out ← walkO f pos L rest (it.line :: seen)
    pure (repl ++ out)

def decidedO (H : Hooks) (compress : Bool) (items : List Item) (pos : Line → Nat → Int) (L : Dict) :
    Except Err (List Item) := do
  let (items, constants) ← resolveConstants H items []
  let (items, _) ← resolveLabels items []
  let items := resolveRegisterAliases items constants
  let items ← if compress then walkO (compressBody H constants) pos L items [] else pure items
  let items ← walkO (pseudoBody H constants) pos L items []
  let items := resolveRegisterAliases items constants
  if compress then walkO (compressBody H constants) pos L items [] else pure items

/-- **Stable**: every early decision — li width, call/tail form, each compression predicate — has
    the same outcome when re-evaluated with the FINAL label table and the item's FINAL position:
    re-running the decision passes against that oracle reproduces the decided item list -/
def Stable (H : Hooks) (compress : Bool) (items : List Item) : Prop :=
  ∀ lay, layoutOf H compress items = .ok lay →
    decidedO H compress items (fun line sub => finalPos lay.aligned line sub 0) lay.labels = .ok lay.decided

/-- evaluation of immediates in a finished layout, at the final position of an item -/
def Layout.evalFinal (H : Hooks) (lay : Layout) (line : Line) (sub : Nat) : Imm → Option Int :=
  evalAt H (chainGet lay.constants lay.labels) line (finalPos lay.aligned line sub 0)

/-- item-wise correspondence of the two decided lists, read in the compressed layout `lay₁`: data
    equal; an instruction is the same, or its compressed form, which — both resolved with the final
    values of the compressed layout, i.e. after retargeting to the same labels — executes alike -/
def CorrItem (H : Hooks) (lay₁ : Layout) (sub : Nat) (a b : Item) : Prop :=
  a = b ∨ ∃ line ins cf c, a = .instr line ins ∧ b = .instr line cf ∧ compressedForm c ins = some cf ∧
    ∀ rins i, resolveWith (lay₁.evalFinal H line sub) ins = some rins → denote32I rins = some i →
      ∃ rcf ci, resolveWith (lay₁.evalFinal H line sub) cf = some rcf ∧ denote16I rcf = some ci ∧
        ci.legal = true ∧ ∀ s, execC ci s = exec i 2 s

def CorrFrom (H : Hooks) (lay₁ : Layout) : List Line → List Item → List Item → Prop
  | _, [], [] => True
  | seen, a :: as, b :: bs =>
    CorrItem H lay₁ (seen.filter (· = b.line)).length a b ∧ CorrFrom H lay₁ (b.line :: seen) as bs
  | _, _, _ => False

/-- **C04, program level (STATEMENT ONLY — not proved here).**  If a program assembles both ways, all
    early decisions of both runs are stable, and both runs expand every pseudo-instruction to the same
    number of instructions, then the decided item sequences correspond item-wise. -/
def compress_same_ops_statement : Prop :=
  ∀ (H : Hooks) (items : List Item) (r₀ r₁ : AsmResult) (lay₀ lay₁ : Layout),
    (∀ line p env, LitOK (evalAt H env line p)) →
    assembleItems H false items [] [] = .ok r₀ → assembleItems H true items [] [] = .ok r₁ →
    layoutOf H false items = .ok lay₀ → layoutOf H true items = .ok lay₁ →
    Stable H false items → Stable H true items →
    lay₀.decided.map Item.line = lay₁.decided.map Item.line →
    CorrFrom H lay₁ [] lay₀.decided lay₁.decided

/-- **what is proved towards it**: for one decision that is stable — the predicates of the matched
    criterion, re-evaluated with the final label table at the item's final position, are again all
    `True` — the replacement corresponds to the original in the sense of `CorrItem` -/
theorem stable_item_sound (H : Hooks) (lay₁ : Layout) (sub : Nat) (line : Line) (ins cf : Instr)
    {c : String} {preds : List Pred} (hmem : (c, preds) ∈ criteria) (hcf : compressedForm c ins = some cf)
    (hlit : LitOK (lay₁.evalFinal H line sub))
    (hstable : allPreds H (chainGet lay₁.constants lay₁.labels) line ins (finalPos lay₁.aligned line sub 0) preds
      = .ok true) :
    CorrItem H lay₁ sub (.instr line ins) (.instr line cf) := by
  refine Or.inr ⟨line, ins, cf, c, rfl, rfl, hcf, ?_⟩
  intro rins i hres hden
  exact rule_sound_model hmem H _ line _ hlit hstable hcf hres hden

end BB.Props.C04
