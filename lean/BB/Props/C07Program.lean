/-
  BB.Props.C07Program — C07 end to end: in EVERY successful assembly (both modes) a pair

        lui rd, %hi(e)     …     addi / lw / sw / jalr …, %lo(e)

  both still 32-bit items of THE list the pipeline holds after resolve_aligns (`lay.aligned` of
  `C04.layoutOf`, see `C03.Frame`; so neither was rewritten by `-c`), emits two words that
  the SPECIFICATION decodes to `lui ra, hi` and the consumer with immediate `lo`, where `hi` / `lo` are
  `%hi` / `%lo` of the value of `e` evaluated at the respective item's own byte offset against the
  RETURNED tables; whenever `e` has the same value `x` at both offsets,

        ((hi <<< 12) mod 2^32 + lo) mod 2^32 = x mod 2^32

  (what `lui` followed by the consumer computes).  That hypothesis holds for labels, constants, literals
  and `%position` (their value does not depend on the position); it is FALSE for `%offset`:
  `offset_pair_not_rebuilt` is a program in which the two halves split different offsets and rebuild
  neither.

  Composition of `C08.hi_value` / `lo_value` (what %hi / %lo evaluate to), `C01.encode32_sound` (the word
  decodes to what the item names), `C07.pair_rebuilds` (the arithmetic, for ALL integers) and the
  `Land` machinery of C03End (where each item's bytes are).
-/
import BB.Props.C03End
import BB.Props.C07
namespace BB.Props.C07
open BB BB.Spec BB.Lemmas BB.Props.C03

/-- `lui rd, %hi(e)`: the word decodes to `lui` with the 20-bit field of %hi of the value of `e` here -/
theorem step_lui {H : Hooks} {constants L : Dict} {p : Int} {line line' : Line} {rd : RegOp} {e : Imm}
    {it' : Item} {bs : List Nat}
    (hbody : immBody H constants (.instr line (.u "lui" rd (.hi e))) p L = .ok ([it'], 0))
    (hfin : Finish H it' (.blob line' bs)) :
    ∃ w ra x, bs = leBytes 4 w ∧ decode32 w = some (.lui ra (relocateHi x % 1048576).toNat) ∧
      lookupRegister rd = some ra ∧ Imm.eval H (chainGet constants L) line e p = .ok x := by
  obtain ⟨v, hv, rfl⟩ := C08.instr_item_value H constants L line _ (.hi e) p it' rfl hbody
  simp only [Instr.isAuipcJump, Bool.false_eq_true, if_false] at hv
  obtain ⟨x, hx, rfl⟩ := C08.hi_value H _ line _ p v hv
  obtain ⟨b, d0, e0, f0, h1, _⟩ := id hfin
  obtain ⟨args, w, hargs, henc, hout⟩ := instrStep_bytes h1
  simp only [Instr.setImm, Instr.args, Option.some.injEq] at hargs
  subst hargs
  simp only [Instr.setImm, Instr.name] at henc
  obtain ⟨ops, hden, hleg, hlt, hsome, hdec⟩ :=
    C01.encode32_sound "lui" (.u 0b0110111) (by decide) rfl _ w henc
  simp only [C01.denote32, C01.denoteReg, bind, Option.bind] at hden
  cases hr : lookupRegister rd with
  | none => simp [hr] at hden
  | some ra =>
    simp only [hr, Option.map_some, pure, Option.some.injEq] at hden
    subst hden
    have hcl : classOf "lui" = some .lui := by decide
    simp only [intent32, hcl, intentOf] at hdec
    have hz := finish_of_blob hfin (by rw [h1, hout])
    simp only [Item.blob.injEq] at hz
    refine ⟨w, ra, x, ?_, hdec, rfl, hx⟩
    simpa [Instr.setImm, Instr.isCompressed] using hz.2

/-- the instructions that consume `%lo(e)` after a `lui`: `mk r1 r2 lo` is what the specification
    calls the instruction, `a` / `b` its two register operands in the order of `mk` -/
inductive Consumes (e : Imm) : Instr → (Nat → Nat → Int → Instr32) → RegOp → RegOp → Prop
  /-- addi / slti / sltiu / xori / ori / andi  rd, rs, %lo(e) -/
  | alu (name : String) (rd rs : RegOp) (o : IOp) (op f3 : Nat)
      (hrow : instrTable.lookup name = some (.i op f3)) (hc : classOf name = some (.i o)) :
      Consumes e (.i name rd rs (.lo e) false) (Instr32.i o) rd rs
  /-- lb / lh / lw / lbu / lhu  rd, %lo(e)(rs) -/
  | load (name : String) (rd rs : RegOp) (o : LdOp) (op f3 : Nat)
      (hrow : instrTable.lookup name = some (.i op f3)) (hc : classOf name = some (.ld o)) :
      Consumes e (.i name rd rs (.lo e) false) (Instr32.load o) rd rs
  /-- jalr rd, %lo(e)(rs)  (written by hand: not the marked jalr of a far call / tail) -/
  | jalr (rd rs : RegOp) : Consumes e (.i "jalr" rd rs (.lo e) false) Instr32.jalr rd rs
  /-- sb / sh / sw  rs2, %lo(e)(rs1) -/
  | store (name : String) (rs1 rs2 : RegOp) (o : StOp) (op f3 : Nat)
      (hrow : instrTable.lookup name = some (.s op f3)) (hc : classOf name = some (.st o)) :
      Consumes e (.s name rs1 rs2 (.lo e)) (Instr32.store o) rs1 rs2

/-- a consumer's word decodes to that consumer with immediate %lo of the value of `e` here -/
theorem step_consumer {H : Hooks} {constants L : Dict} {p : Int} {line line' : Line} {e : Imm} {ins : Instr}
    {mk : Nat → Nat → Int → Instr32} {a b : RegOp} {it' : Item} {bs : List Nat}
    (hcons : Consumes e ins mk a b)
    (hbody : immBody H constants (.instr line ins) p L = .ok ([it'], 0))
    (hfin : Finish H it' (.blob line' bs)) :
    ∃ w r1 r2 x, bs = leBytes 4 w ∧ decode32 w = some (mk r1 r2 (relocateLo x)) ∧
      lookupRegister a = some r1 ∧ lookupRegister b = some r2 ∧
      Imm.eval H (chainGet constants L) line e p = .ok x := by
  obtain ⟨b0, d0, e0, f0, h1, _⟩ := id hfin
  cases hcons with
  | alu name rd rs o op f3 hrow hc =>
    obtain ⟨v, hv, rfl⟩ := C08.instr_item_value H constants L line _ (.lo e) p it' rfl hbody
    simp only [Instr.isAuipcJump, Bool.false_eq_true, if_false] at hv
    obtain ⟨x, hx, rfl⟩ := C08.lo_value H _ line _ p v hv
    obtain ⟨args, w, hargs, henc, hout⟩ := instrStep_bytes h1
    simp only [Instr.setImm, Instr.args, Option.some.injEq] at hargs
    subst hargs
    simp only [Instr.setImm, Instr.name] at henc
    obtain ⟨ops, hden, hleg, hlt, hsome, hdec⟩ := C01.encode32_sound name (.i op f3) hrow rfl _ w henc
    simp only [C01.denote32, C01.denoteReg, bind, Option.bind] at hden
    cases hr1 : lookupRegister a with
    | none => simp [hr1] at hden
    | some r1 =>
      cases hr2 : lookupRegister b with
      | none => simp [hr1, hr2] at hden
      | some r2 =>
        simp only [hr1, hr2, Option.map_some, pure, Option.some.injEq] at hden
        subst hden
        simp only [intent32, hc, intentOf] at hdec
        have hz := finish_of_blob hfin (by rw [h1, hout])
        simp only [Item.blob.injEq] at hz
        exact ⟨w, r1, r2, x, by simpa [Instr.setImm, Instr.isCompressed] using hz.2, hdec, rfl, rfl, hx⟩
  | load name rd rs o op f3 hrow hc =>
    obtain ⟨v, hv, rfl⟩ := C08.instr_item_value H constants L line _ (.lo e) p it' rfl hbody
    simp only [Instr.isAuipcJump, Bool.false_eq_true, if_false] at hv
    obtain ⟨x, hx, rfl⟩ := C08.lo_value H _ line _ p v hv
    obtain ⟨args, w, hargs, henc, hout⟩ := instrStep_bytes h1
    simp only [Instr.setImm, Instr.args, Option.some.injEq] at hargs
    subst hargs
    simp only [Instr.setImm, Instr.name] at henc
    obtain ⟨ops, hden, hleg, hlt, hsome, hdec⟩ := C01.encode32_sound name (.i op f3) hrow rfl _ w henc
    simp only [C01.denote32, C01.denoteReg, bind, Option.bind] at hden
    cases hr1 : lookupRegister a with
    | none => simp [hr1] at hden
    | some r1 =>
      cases hr2 : lookupRegister b with
      | none => simp [hr1, hr2] at hden
      | some r2 =>
        simp only [hr1, hr2, Option.map_some, pure, Option.some.injEq] at hden
        subst hden
        simp only [intent32, hc, intentOf] at hdec
        have hz := finish_of_blob hfin (by rw [h1, hout])
        simp only [Item.blob.injEq] at hz
        exact ⟨w, r1, r2, x, by simpa [Instr.setImm, Instr.isCompressed] using hz.2, hdec, rfl, rfl, hx⟩
  | jalr rd rs =>
    obtain ⟨v, hv, rfl⟩ := C08.instr_item_value H constants L line _ (.lo e) p it' rfl hbody
    simp only [Instr.isAuipcJump, Bool.false_eq_true, if_false] at hv
    obtain ⟨x, hx, rfl⟩ := C08.lo_value H _ line _ p v hv
    obtain ⟨args, w, hargs, henc, hout⟩ := instrStep_bytes h1
    simp only [Instr.setImm, Instr.args, Option.some.injEq] at hargs
    subst hargs
    simp only [Instr.setImm, Instr.name] at henc
    obtain ⟨ops, hden, hleg, hlt, hsome, hdec⟩ :=
      C01.encode32_sound "jalr" (.ij 0b1100111 0b000) (by decide) rfl _ w henc
    simp only [C01.denote32, C01.denoteReg, bind, Option.bind] at hden
    cases hr1 : lookupRegister a with
    | none => simp [hr1] at hden
    | some r1 =>
      cases hr2 : lookupRegister b with
      | none => simp [hr1, hr2] at hden
      | some r2 =>
        simp only [hr1, hr2, Option.map_some, pure, Option.some.injEq] at hden
        subst hden
        have hcl : classOf "jalr" = some .jalr := by decide
        simp only [intent32, hcl, intentOf] at hdec
        have hz := finish_of_blob hfin (by rw [h1, hout])
        simp only [Item.blob.injEq] at hz
        exact ⟨w, r1, r2, x, by simpa [Instr.setImm, Instr.isCompressed] using hz.2, hdec, rfl, rfl, hx⟩
  | store name rs1 rs2 o op f3 hrow hc =>
    obtain ⟨v, hv, rfl⟩ := C08.instr_item_value H constants L line _ (.lo e) p it' rfl hbody
    simp only [Instr.isAuipcJump, Bool.false_eq_true, if_false] at hv
    obtain ⟨x, hx, rfl⟩ := C08.lo_value H _ line _ p v hv
    obtain ⟨args, w, hargs, henc, hout⟩ := instrStep_bytes h1
    simp only [Instr.setImm, Instr.args, Option.some.injEq] at hargs
    subst hargs
    simp only [Instr.setImm, Instr.name] at henc
    obtain ⟨ops, hden, hleg, hlt, hsome, hdec⟩ := C01.encode32_sound name (.s op f3) hrow rfl _ w henc
    simp only [C01.denote32, C01.denoteReg, bind, Option.bind] at hden
    cases hr1 : lookupRegister a with
    | none => simp [hr1] at hden
    | some r1 =>
      cases hr2 : lookupRegister b with
      | none => simp [hr1, hr2] at hden
      | some r2 =>
        simp only [hr1, hr2, Option.map_some, pure, Option.some.injEq] at hden
        subst hden
        simp only [intent32, hc, intentOf] at hdec
        have hz := finish_of_blob hfin (by rw [h1, hout])
        simp only [Item.blob.injEq] at hz
        exact ⟨w, r1, r2, x, by simpa [Instr.setImm, Instr.isCompressed] using hz.2, hdec, rfl, rfl, hx⟩

/-- **A %hi / %lo pair rebuilds the value it splits.**  `lay` is the layout the inputs determine
    (`C03.Frame`: `lay.aligned` is the list the pipeline holds after resolve_aligns).  If item `i` of it
    is `lui rdU, %hi(e)` and item `j` (anywhere) consumes `%lo(e)`: the four output bytes at each item's
    byte offset decode to `lui ra, hi` and the consumer with immediate `lo`; `e` evaluates (against the
    returned tables) to `xi` at the lui's offset and to `xj` at the consumer's; and if these are the same
    value, `((hi <<< 12) mod 2^32 + lo) mod 2^32` is that value modulo 2^32.

    SCOPE - exactly what is covered.  Producer: only the 32-bit item `.u "lui" rd (.hi e)` (not `auipc`
    - the far call / tail pair is `C03.assemble_far_pair_lands` -, not `c.lui`: an item that `-c`
    rewrote to `c.lui` no longer matches).  Consumers (`Consumes`): only 32-bit items of shape
    `.i name rd rs (.lo e) false` with `name` in addi / slti / sltiu / xori / ori / andi, lb / lh / lw /
    lbu / lhu, or a hand-written `jalr`, and `.s name rs1 rs2 (.lo e)` with `name` in sb / sh / sw.
    Nothing is said about compressed consumers (c.addi, c.lw, …), about `%lo` inside `pack` / `db…dd`
    data, or about the pseudo-instruction `li` (it never produces `%hi` / `%lo` items). -/
theorem assemble_hi_lo_pair (H : Hooks) (compress : Bool) (items : List Item) (r : AsmResult)
    (h : assembleItems H compress items [] [] = .ok r) :
    ∃ lay out, Frame H compress items r lay out ∧
      ∀ (i j : Nat) (hi : i < lay.aligned.length) (hj : j < lay.aligned.length) lineU lineC rdU (e : Imm) ins mk a b,
        lay.aligned[i] = .instr lineU (.u "lui" rdU (.hi e)) → lay.aligned[j] = .instr lineC ins → Consumes e ins mk a b →
        ∃ (w0 w1 ra r1 r2 hi20 : Nat) (lo xi xj : Int),
          (r.bytes.drop (blobBytes (out.take i)).length).take 4 = leBytes 4 w0 ∧
          (r.bytes.drop (blobBytes (out.take j)).length).take 4 = leBytes 4 w1 ∧
          decode32 w0 = some (.lui ra hi20) ∧ decode32 w1 = some (mk r1 r2 lo) ∧
          lookupRegister rdU = some ra ∧ lookupRegister a = some r1 ∧ lookupRegister b = some r2 ∧
          Imm.eval H (chainGet r.constants r.labels) lineU e ((blobBytes (out.take i)).length : Int) = .ok xi ∧
          Imm.eval H (chainGet r.constants r.labels) lineC e ((blobBytes (out.take j)).length : Int) = .ok xj ∧
          hi20 < 1048576 ∧ -2048 ≤ lo ∧ lo ≤ 2047 ∧
          (xi = xj → (((hi20 : Int) * 4096) % 4294967296 + lo) % 4294967296 = xi % 4294967296) := by
  obtain ⟨lay, out, hF⟩ := assemble_land H compress items r h
  have hland := hF.land
  have hbytes := hF.bytes
  refine ⟨lay, out, hF, ?_⟩
  intro i j hi hj lineU lineC rdU e ins mk a b hU hC hcons
  obtain ⟨itU, lU, dU, _, hbodyU, hfinU, hsliceU⟩ := hland.at i hi
  obtain ⟨itC, lC, dC, _, hbodyC, hfinC, hsliceC⟩ := hland.at j hj
  rw [hU] at hbodyU
  rw [hC] at hbodyC
  obtain ⟨w0, ra, xi, hb0, hdec0, hra, hxi⟩ := step_lui hbodyU hfinU
  obtain ⟨w1, r1, r2, xj, hb1, hdec1, hr1, hr2, hxj⟩ := step_consumer hcons hbodyC hfinC
  have hl0 : dU.length = 4 := by rw [hb0, leBytes_length]
  have hl1 : dC.length = 4 := by rw [hb1, leBytes_length]
  have hnn : 0 ≤ relocateHi xi % 1048576 := Int.emod_nonneg _ (by omega)
  have hf : ((relocateHi xi % 1048576).toNat : Int) = relocateHi xi % 1048576 := Int.toNat_of_nonneg hnn
  have hlt : relocateHi xi % 1048576 < 1048576 := Int.emod_lt_of_pos _ (by omega)
  refine ⟨w0, w1, ra, r1, r2, (relocateHi xi % 1048576).toNat, relocateLo xj, xi, xj, ?_, ?_, hdec0, hdec1,
    hra, hr1, hr2, by simpa using hxi, by simpa using hxj, by omega, (lo_range xj).1, (lo_range xj).2, ?_⟩
  · rw [hbytes]; rw [hl0] at hsliceU; rw [hsliceU]; exact hb0
  · rw [hbytes]; rw [hl1] at hsliceC; rw [hsliceC]; exact hb1
  · intro hx
    subst hx
    rw [hf]
    exact pair_rebuilds xi

/-- expressions whose value does not depend on the position: the hypothesis `xi = xj` of
    `assemble_hi_lo_pair` holds for them whatever the two offsets (and lines) are -/
def PosFree (H : Hooks) (env : String → Option Int) (e : Imm) : Prop :=
  ∀ line line' p p' x x', Imm.eval H env line e p = .ok x → Imm.eval H env line' e p' = .ok x' → x = x'

/-- arithmetic over labels, constants and literals … -/
theorem posFree_arith (H : Hooks) (env : String → Option Int) (s : String) : PosFree H env (.arith s) := by
  intro line line' p p' x x' h h'
  simp only [Imm.eval] at h h'
  cases ha : H.arith s env with
  | error er => cases er <;> simp [ha, liftExpr] at h
  | ok v =>
    simp only [ha, liftExpr, Except.ok.injEq] at h h'
    rw [← h, ← h']

/-- … and `%position(label, expr)` -/
theorem posFree_position (H : Hooks) (env : String → Option Int) (ref s : String) :
    PosFree H env (.position ref s) := by
  intro line line' p p' x x' h h'
  simp only [Imm.eval] at h h'
  cases hr : env ref with
  | none => simp [hr] at h
  | some d =>
    simp only [hr, bind, Except.bind] at h h'
    cases ha : H.arith s env with
    | error er => cases er <;> simp [ha, liftExpr] at h
    | ok v =>
      simp only [ha, liftExpr, pure, Except.pure, Except.ok.injEq] at h h'
      rw [← h, ← h']

/-- `%offset(label)` is NOT position-free: its value at two different positions differs by their distance -/
theorem offset_not_posFree (H : Hooks) : ¬ PosFree H (fun _ => some 2048) (.offset "T") := by
  intro h
  have := h ⟨"", 0, ""⟩ ⟨"", 0, ""⟩ 0 4 2048 2044 (by simp [Imm.eval]) (by simp [Imm.eval])
  omega

/-- the bytes of an assembly, `[]` if it fails -/
def bytesOf (r : Except Err AsmResult) : List Nat :=
  match r with
  | .ok a => a.bytes
  | .error _ => []

def labelsOf (r : Except Err AsmResult) : Dict :=
  match r with
  | .ok a => a.labels
  | .error _ => []

/-- `lui x5, %hi(%offset(T)) / addi x5, x5, %lo(%offset(T)) / 2040 bytes / T:` -/
def offsetPair : List Item :=
  [.instr ⟨"m.asm", 1, "lui x5, %hi(%offset(T))"⟩ (.u "lui" (.str "x5") (.hi (.offset "T"))),
   .instr ⟨"m.asm", 2, "addi x5, x5, %lo(%offset(T))"⟩ (.i "addi" (.str "x5") (.str "x5") (.lo (.offset "T")) false),
   .blob ⟨"m.asm", 3, "…"⟩ (List.replicate 2040 0),
   .label ⟨"m.asm", 4, "T:"⟩ "T"]

/-- **The counterexample for `%offset`.**  `T` is 2048 bytes after the `lui` and 2044 after the
    `addi`: the `lui` carries %hi(2048) = 1, the `addi` %lo(2044) = 2044, and the pair rebuilds 6140 -
    neither offset.  (Without -c.  With -c the same program is refused: the `lui` is rewritten to c.lui while
    %hi is still 1 and the layout then moves - the known stale-decision class KF-A, not a C07 matter.) -/
theorem offset_pair_not_rebuilt :
    (bytesOf (assembleItems (textHooks ⟨[], []⟩) false offsetPair [] [])).take 8 = leBytes 4 0x000012b7 ++ leBytes 4 0x7fc28293 ∧
    labelsOf (assembleItems (textHooks ⟨[], []⟩) false offsetPair [] []) = [("T", 2048)] ∧
    decode32 0x000012b7 = some (.lui 5 1) ∧ decode32 0x7fc28293 = some (.i .addi 5 5 2044) ∧
    ((1 : Int) * 4096 % 4294967296 + 2044) % 4294967296 = 6140 := by
  decide +kernel

/-- non-vacuity of `assemble_hi_lo_pair`: `lui x5, %hi(T) / nop / lw x6, %lo(T)(x5)` with T = 0x12345800
    given as a constant: the words carry hi = 0x12346, lo = -2048 -/
example :
    bytesOf (assembleItems (textHooks ⟨[], []⟩) false
      [.constant ⟨"m.asm", 1, "T = 0x12345800"⟩ "T" (.arith "0x12345800"),
       .instr ⟨"m.asm", 2, "lui x5, %hi(T)"⟩ (.u "lui" (.str "x5") (.hi (.arith "T"))),
       .instr ⟨"m.asm", 3, "nop"⟩ (.i "addi" (.str "x0") (.str "x0") (.arith "0") false),
       .instr ⟨"m.asm", 4, "lw x6, %lo(T)(x5)"⟩ (.i "lw" (.str "x6") (.str "x5") (.lo (.arith "T")) false)] [] []) =
      leBytes 4 0x123462b7 ++ leBytes 4 0x00000013 ++ leBytes 4 0x8002a303 ∧
    decode32 0x123462b7 = some (.lui 5 0x12346) ∧ decode32 0x8002a303 = some (.load .lw 6 5 (-2048)) ∧
    ((0x12346 : Int) * 4096 % 4294967296 + (-2048)) % 4294967296 = 0x12345800 := by
  decide +kernel

example : Consumes (.arith "T") (.i "lw" (.str "x6") (.str "x5") (.lo (.arith "T")) false) (Instr32.load .lw) (.str "x6") (.str "x5") :=
  .load "lw" _ _ .lw 0b0000011 0b010 (by decide) (by decide)

/-- a little program around a pair: label, pair with a `nop` in between, data, alignment -/
def pairProg : List Item :=
  [.constant ⟨"m.asm", 1, "T = 0x12345800"⟩ "T" (.arith "0x12345800"),
   .label ⟨"m.asm", 2, "go:"⟩ "go",
   .shorthandPack ⟨"m.asm", 3, "db 1"⟩ "db" (.arith "1"),
   .align ⟨"m.asm", 4, "align 4"⟩ 4,
   .instr ⟨"m.asm", 5, "lui x5, %hi(T)"⟩ (.u "lui" (.str "x5") (.hi (.arith "T"))),
   .pseudo ⟨"m.asm", 6, "nop"⟩ "nop" [],
   .instr ⟨"m.asm", 7, "lw x6, %lo(T)(x5)"⟩ (.i "lw" (.str "x6") (.str "x5") (.lo (.arith "T")) false),
   .pseudo ⟨"m.asm", 8, "ret"⟩ "ret" []]

/-- the hypothesis of `assemble_hi_lo_pair` has instances: the layout computed for `pairProg` holds the
    `lui` at index 2 and the consuming `lw` at index 4, in both modes (and both assemblies succeed) -/
example : ∀ c : Bool,
    ((BB.Props.C04.layoutOf (textHooks ⟨[], []⟩) c pairProg).toOption.map
      (fun l => (l.aligned[2]?, l.aligned[4]?)) = some
      (some (.instr ⟨"m.asm", 5, "lui x5, %hi(T)"⟩ (.u "lui" (.str "x5") (.hi (.arith "T")))),
       some (.instr ⟨"m.asm", 7, "lw x6, %lo(T)(x5)"⟩ (.i "lw" (.str "x6") (.str "x5") (.lo (.arith "T")) false)))) ∧
    (bytesOf (assembleItems (textHooks ⟨[], []⟩) c pairProg [] [])).length = (if c then 16 else 20) := by
  decide +kernel

end BB.Props.C07
